(* Lemmas_C14x.v - property C14, end to end: an unsolicited READ event whose command HAS a read handler,
   delivered while the command machine is held (scripted always-ready world, no mutex), and the release
   of the hold by that handler (HOLD_EXIT_OK / HOLD_EXIT_ERROR).  Built on Lemmas_C14w.v (hev_steps: service
   calls with the command machine held; rel_result_tail: the result code after the release) and
   Lemmas_E2Eb.v (trigger_pop, the flush engine of the event machine).
     A. xsteps: m service calls with handler calls (scripts h -> h'), command machine held, no read;
     B. the call of the read handler in US_READ_LOOP (ues_rloop, x_call);
     C. the READ loop of the event machine: name= is printed (spfra_RL), a DATA answer emits one unit
        (x_data_unit), DATA_NEXT re-enters the loop (x_nexts);
     D. from the trigger to the loop (x_event_start);
     E. the releasing call (y_release_call: the result code is prepared in the same cat_service call),
        the result code (y_release_tail), the next byte is read (idle_reads_next);
     the two final statements.  Statements: Properties_C14x.v. *)
From Coq Require Import List NArith ZArith Bool Arith Lia.
From CatV Require Import Bytes Defs Codec Spec Fsm Script ResolveDefs SchedDefs GlueDefs TextDefs.
From CatV Require Import SkelSim.
From CatV Require Lemmas_C02e Lemmas_C07e Lemmas_C10 Lemmas_C11 Lemmas_C13 Lemmas_C14 Lemmas_C19 Lemmas_E2E Lemmas_E2Eb.
From CatV Require Import Lemmas_C14w.
Import ListNotations.
Local Open Scope nat_scope.

Local Notation wst := (Fsm.st sio smu shs).
Local Notation wio := (Fsm.io sio smu shs).
Local Notation whs := (Fsm.hs sio smu shs).
Local Notation wtr := (Fsm.tr sio smu shs).
Local Notation idle := Lemmas_C02e.idle.
Local Notation calls_of_app := Lemmas_E2E.calls_of_app.
Local Notation output_of_app := Lemmas_E2E.output_of_app.
Local Notation ukeep := Lemmas_E2Eb.ukeep.
Local Notation ufresh := Lemmas_E2Eb.ufresh.
Local Notation uframe := Lemmas_E2Eb.uframe.

(* ---------- definitions used in the statements ---------- *)
(* consecutive answers of the scripted handler oracle to the same request *)
Fixpoint answers (q : hreq) (h : shs) (rs : list hres) (h' : shs) : Prop :=
  match rs with
  | [] => h' = h
  | r :: rs' => exists h1, s_call h q = (h1, r) /\ answers q h1 rs' h'
  end.

(* the text of the event machine's buffer after the handler's (optional) replacement *)
Definition edited (T : list N) (e : option (list N)) : list N :=
  match e with Some t => t | None => T end.
(* a replacement text the library accepts and that contains no NUL *)
Definition edit_ok (bsz : nat) (e : option (list N)) : Prop :=
  match e with Some t => length t < bsz /\ ~ In 0%N t | None => True end.

(* the event machine is in its READ loop for command ci with the text T in its buffer *)
Definition RL (ci : nat) (T : list N) (s : state) : Prop :=
  u_state (u s) = US_READ_LOOP /\ u_cmd (u s) = Some ci /\ u_position (u s) = length T /\
  (exists r, ubuf s = T ++ 0%N :: r).

(* what the rest of the object keeps during the event machine's work *)
Definition xframe (s : state) :=
  (k s, cbuf s, mem s, gL s, gS s, gR s, u_count (u s), fault s, length (ubuf s)).

(* what a read handler's answer does to the object (the body of process_rt_loop, rd = true, UNSOL) *)
Definition rt_u (D : desc) (code : Z) (e : option (list N)) (s : state) : state :=
  let s := apply_edit UNSOL e s in
  if (code =? RC_OK)%Z then end_with_ok UNSOL s
  else if (code =? RC_DATA_OK)%Z then start_flush_after UNSOL CS_AFTER_OK US_AFTER_OK s
  else if (code =? RC_DATA_NEXT)%Z then start_flush_after UNSOL CS_AFTER_FMT_READ US_AFTER_FMT_READ s
  else if (code =? RC_NEXT)%Z then start_processing_format_read_args D UNSOL s
  else if (code =? RC_HOLD)%Z then enable_hold_state s
  else if (code =? RC_HOLD_EXIT_OK)%Z then end_with_ok UNSOL (fst (hold_exit s ST_OK))
  else if (code =? RC_HOLD_EXIT_ERROR)%Z then end_with_error UNSOL (fst (hold_exit s ST_ERROR))
  else if (code =? RC_PRINT_CMD_LIST_OK)%Z && negb true then end_with_ok UNSOL s
  else end_with_error UNSOL s.

Lemma firstn_text : forall (T r : list N), firstn (S (length T)) (T ++ 0%N :: r) = T ++ [0%N].
Proof.
  intros T r. replace (S (length T)) with (length (T ++ [0%N])) by (rewrite app_length; cbn; lia).
  replace (T ++ 0%N :: r) with ((T ++ [0%N]) ++ r) by (rewrite <- app_assoc; reflexivity).
  rewrite firstn_app, Nat.sub_diag, firstn_all. cbn [firstn]. apply app_nil_r.
Qed.

(* the effect of the replacement on the event machine's buffer *)
Lemma apply_edit_u : forall T e s, (exists r, ubuf s = T ++ 0%N :: r) -> u_position (u s) = length T ->
  edit_ok (length (ubuf s)) e ->
  exists b, apply_edit UNSOL e s = setu_position (length (edited T e)) (set_ubuf b s) /\
    (exists r', b = edited T e ++ 0%N :: r') /\ length b = length (ubuf s).
Proof.
  intros T e s (r & Hb) Hp He. destruct e as [t|].
  - destruct He as [Hl Hn]. unfold apply_edit. change (g_bsz UNSOL s) with (length (ubuf s)).
    destruct (Nat.ltb_spec (length t) (length (ubuf s))) as [_|X]; [|lia].
    unfold get_cur. rewrite Lemmas_C10.cur_store_list_fits
      by (cbn [cu_buf g_buf]; rewrite app_length; cbn [length]; lia).
    unfold cur_set_pos, put_cur. cbn [cu_buf cu_pos cu_fault g_buf g_pos setg_buf setg_pos firstn app Nat.add edited].
    eexists. split; [reflexivity|]. split.
    + eexists. rewrite <- app_assoc. reflexivity.
    + rewrite !app_length, skipn_length. cbn [length]. lia.
  - exists (ubuf s). cbn [apply_edit edited]. split.
    + rewrite <- Hp. destruct s as [k0 [] ? ? ? ? ? ? ? ? ?]; reflexivity.
    + split; [exists r; exact Hb|reflexivity].
Qed.

Section X.
Variable D : desc.
Hypothesis Hmx : d_mutex D = false.

Local Notation uessvc := (unsolicited_events_service D sio smu shs s_write s_lock s_unlock s_call).
Local Notation cmdsvc := (cmd_service D sio smu shs s_read s_write s_lock s_unlock s_call).
Local Notation sdo := (do_op D sio smu shs s_read s_write s_lock s_unlock s_call).
Local Notation hev_steps := (Lemmas_C14w.hev_steps D).

(* ================= A. service calls with handler calls, the command machine held ================= *)
(* m cat_service calls from object state s and scripts h, whatever the pending input q: the trace grows
   by t' with handler calls cl and accepted output out, no read is attempted, every call answers BUSY *)
Definition xsteps (m : nat) (s : state) (h : shs) (s' : state) (h' : shs)
           (cl : list (hreq * Z)) (out : list N) : Prop :=
  forall q t, exists t', calls_of t' = cl /\ output_of t' = out /\
    (forall r, ~ In (ERd r) t') /\ (forall r, In (ERet OService r) t' -> r = ST_BUSY) /\
    nsvc D m (mkw s q h t) = mkw s' q h' (t' ++ t).

Lemma xsteps_0 : forall s h, xsteps 0 s h s h [] [].
Proof.
  intros s h q t. exists []. repeat split; try reflexivity.
  - intros r H; exact H.
  - intros r H; destruct H.
Qed.

Lemma xsteps_trans : forall a b s s1 s2 h h1 h2 c1 c2 o1 o2,
  xsteps a s h s1 h1 c1 o1 -> xsteps b s1 h1 s2 h2 c2 o2 -> xsteps (a + b) s h s2 h2 (c1 ++ c2) (o1 ++ o2).
Proof.
  intros a b s s1 s2 h h1 h2 c1 c2 o1 o2 H1 H2 q t.
  destruct (H1 q t) as (t1 & C1 & O1 & R1 & B1 & E1).
  destruct (H2 q (t1 ++ t)) as (t2 & C2 & O2 & R2 & B2 & E2).
  exists (t2 ++ t1). split; [rewrite calls_of_app, C1, C2; reflexivity|].
  split; [rewrite output_of_app, O1, O2; reflexivity|].
  split; [|split].
  - intros r Hi. apply in_app_or in Hi. destruct Hi as [Hi|Hi]; [exact (R2 r Hi) | exact (R1 r Hi)].
  - intros r Hi. apply in_app_or in Hi. destruct Hi as [Hi|Hi]; [exact (B2 r Hi) | exact (B1 r Hi)].
  - unfold nsvc in *. rewrite Lemmas_C02e.iter_add, E1, E2, app_assoc. reflexivity.
Qed.

Lemma xsteps_cast : forall m m' s h s' h' c c' o o',
  xsteps m s h s' h' c o -> m = m' -> c = c' -> o = o' -> xsteps m' s h s' h' c' o'.
Proof. intros; subst; assumption. Qed.

Lemma x_of_hev : forall m s s' out h, hev_steps m s s' out -> xsteps m s h s' h [] out.
Proof.
  intros m s s' out h H q t. destruct (H q h t) as (t' & A & B & C & E & F). exists t'. auto.
Qed.

(* ================= B. the call of the read handler ================= *)
Lemma ues_rloop : forall s ci T q h t h' code e,
  RL ci T s -> s_call h (HRead UNSOL ci (T ++ [0%N]) (length T) (length (ubuf s))) = (h', mkHres code e [] []) ->
  uessvc (mkw s q h t) =
    (mkw (rt_u D code e s) q h' (ECall (HRead UNSOL ci (T ++ [0%N]) (length T) (length (ubuf s))) code :: t), ST_BUSY).
Proof.
  intros s ci T q h t h' code e (Hs & Hc & Hp & (r & Hb)) Hcall.
  unfold unsolicited_events_service. cbn [Fsm.st mkw]. rewrite Hs.
  unfold process_rt_loop. cbn [Fsm.st mkw g_cmd g_pos g_buf]. rewrite Hc.
  change (g_bsz UNSOL s) with (length (ubuf s)).
  rewrite Hp. rewrite Hb at 1. rewrite firstn_text.
  unfold call_h. cbn [Fsm.hs mkw]. rewrite Hcall. reflexivity.
Qed.

(* the whole service call when the command machine is still held afterwards *)
Lemma xsvc : forall s s' q h h' t ev, hev_held s' ->
  uessvc (mkw s q h t) = (mkw s' q h' (ev ++ t), ST_BUSY) ->
  svc D (mkw s q h t) = mkw s' q h' ((ERet OService ST_BUSY :: ev) ++ t).
Proof.
  intros s s' q h h' t ev (Hk & _ & Hx) Hu. unfold svc, step, do_op, api_service, bracket. rewrite Hmx.
  unfold service_body. rewrite Hu. unfold cmd_service. cbn [Fsm.st mkw]. rewrite Hk.
  unfold busy, upd_st, process_hold_state. cbn [Fsm.st mkw]. rewrite Hx.
  reflexivity.
Qed.

Lemma x_call : forall s ci T h h' code e,
  RL ci T s -> s_call h (HRead UNSOL ci (T ++ [0%N]) (length T) (length (ubuf s))) = (h', mkHres code e [] []) ->
  hev_held (rt_u D code e s) ->
  xsteps 1 s h (rt_u D code e s) h' [(HRead UNSOL ci (T ++ [0%N]) (length T) (length (ubuf s)), code)] [].
Proof.
  intros s ci T h h' code e HR Hcall Hk q t.
  set (rq := HRead UNSOL ci (T ++ [0%N]) (length T) (length (ubuf s))) in *.
  exists [ERet OService ST_BUSY; ECall rq code].
  split; [reflexivity|]. split; [reflexivity|]. split; [|split].
  - intros r [X|[X|[]]]; discriminate X.
  - intros r [X|[X|[]]]; [injection X as <-; reflexivity | discriminate X].
  - unfold nsvc. cbn [iter]. apply (xsvc s _ q h h' t [ECall rq code] Hk).
    apply ues_rloop; assumption.
Qed.

(* ================= C. the event machine's READ loop for a command with a read handler ================= *)
Lemma xframe_k : forall a b, xframe a = xframe b -> k a = k b.
Proof. intros a b E. unfold xframe in E. congruence. Qed.
Lemma held_xframe : forall a b, xframe a = xframe b -> hev_held b -> hev_held a.
Proof. intros a b E H. apply (hev_held_k a b); [apply xframe_k; exact E | exact H]. Qed.

(* start_processing_format_read_args for a command with a read handler and no readable variable:
   name= is printed and the machine enters its READ loop *)
Lemma spfra_RL : forall s ci c,
  g_cmd UNSOL s = Some ci -> nth_error (pool D) ci = Some c -> fault s = false ->
  c_hread c = true -> vars_access_possible c RO = false ->
  length (c_name c) + 1 < length (ubuf s) ->
  RL ci (c_name c ++ [ch_EQ]) (start_processing_format_read_args D UNSOL s) /\
  xframe (start_processing_format_read_args D UNSOL s) = xframe s.
Proof.
  intros s ci c Hg Hc Hf Hrd Hvap Hl.
  pose proof (Lemmas_C19.BInv_start D UNSOL s ci c Hg Hc Hf) as HB0.
  unfold start_processing_format_read_args. cbv zeta.
  set (s0 := setg_pos UNSOL 0 s) in *. set (nl := nl_chars s) in *.
  cbn [g_buf] in HB0. set (bsz := length (ubuf s)) in *.
  pose proof HB0 as (_ & H2 & H3 & H4 & _). rewrite H2.
  rewrite Lemmas_C19.print_string_as_strings.
  destruct (Lemmas_C19.ps_ok UNSOL s0 [] (ubuf s) (c_name c) [] H3 H4) as [r1 [E1 L1]].
  { cbn [concat]. rewrite app_nil_r. lia. }
  rewrite E1. cbn [negb]. cbn [concat app] in E1, L1 |- *. rewrite app_nil_r in *.
  assert (HB1 : Lemmas_C19.BInv D UNSOL c (setg_pos UNSOL (length (c_name c))
                                  (setg_buf UNSOL (c_name c ++ 0%N :: r1) s0))
                     (c_name c) (0%N :: r1) nl bsz).
  { apply (Lemmas_C19.BInv_set D UNSOL c s0 [] (ubuf s)); [exact HB0|]. cbn [length] in *. lia. }
  set (s1 := setg_pos UNSOL (length (c_name c)) (setg_buf UNSOL (c_name c ++ 0%N :: r1) s0)) in *.
  pose proof HB1 as (_ & H2' & H3' & H4' & _).
  rewrite Lemmas_C19.print_string_as_strings.
  destruct (Lemmas_C19.ps_ok UNSOL s1 (c_name c) (0%N :: r1) [ch_EQ] [] H3' H4') as [r2 [E2 L2]].
  { cbn [concat app length] in *. lia. }
  rewrite E2. cbn [negb]. cbn [concat app] in E2, L2 |- *.
  rewrite Hvap, Hrd. cbn [negb].
  cbn [g_cmd] in Hg. unfold set_loop_state. subst s1 s0. cbn [setg_pos setg_buf].
  unfold RL, xframe. Lemmas_C11.scbn.
  split.
  - split; [reflexivity|]. split; [exact Hg|]. split; [reflexivity|]. exists r2. reflexivity.
  - rewrite !app_length. cbn [length] in *. repeat f_equal. unfold bsz in *. lia.
Qed.

(* a DATA answer: the call, then the unit  nl text nl;  afterwards the machine is in the continuation *)
Lemma x_data_unit : forall s ci T h h' e code after,
  rt_u D code e s = start_flush_u after (apply_edit UNSOL e s) ->
  hev_held s -> RL ci T s -> ~ In 0%N T -> edit_ok (length (ubuf s)) e ->
  s_call h (HRead UNSOL ci (T ++ [0%N]) (length T) (length (ubuf s))) = (h', mkHres code e [] []) ->
  let nl := nl_chars s in let txt := edited T e in
  exists s3, xsteps (1 + (1 + (3 + 2 * length nl + length txt))) s h s3 h'
               [(HRead UNSOL ci (T ++ [0%N]) (length T) (length (ubuf s)), code)] (nl ++ txt ++ nl) /\
    u_state (u s3) = after /\ u_cmd (u s3) = Some ci /\ xframe s3 = xframe s.
Proof.
  intros s ci T h h' e code after Hrt Hk HR HnT He Hcall nl txt.
  pose proof HR as (Hs & Hc & Hp & Hb).
  destruct (apply_edit_u T e s Hb Hp He) as (b & Ea & (r' & Eb) & Lb).
  set (s2 := start_flush_u after (apply_edit UNSOL e s)) in *.
  assert (K2 : k s2 = k s) by (unfold s2; rewrite Ea; reflexivity).
  assert (Hk2 : hev_held s2) by (apply (hev_held_k _ s); assumption).
  assert (Hfr : ufresh s2) by (unfold s2; rewrite Ea; repeat split; reflexivity).
  assert (Ub : ubuf s2 = txt ++ 0%N :: r') by (unfold s2; rewrite Ea; exact Eb).
  assert (Hnt : ~ In 0%N txt).
  { unfold txt. destruct e as [t|]; cbn [edited]; [exact (proj2 He) | exact HnT]. }
  assert (HT : text_of (ubuf s2) = txt) by (rewrite Ub; apply Lemmas_C19.text_of_app0; exact Hnt).
  assert (H0 : In 0%N (ubuf s2)) by (rewrite Ub; apply in_or_app; right; left; reflexivity).
  destruct (Lemmas_C14w.hev_emit_unit D Hmx s2 txt Hk2 Hfr H0 HT)
    as (s3 & H3 & (K3 & M3 & Fa3 & GL3 & GS3 & GR3 & CB3 & UB3 & UC3 & UCm3) & A3).
  rewrite K2 in H3. change (Lemmas_C11.nl_text (k_cr (k s))) with nl in H3.
  assert (Hk1 : hev_held (rt_u D code e s)) by (rewrite Hrt; exact Hk2).
  pose proof (x_call s ci T h h' code e HR Hcall Hk1) as H1. rewrite Hrt in H1. fold s2 in H1.
  exists s3. split; [|split; [|split]].
  - eapply xsteps_cast; [exact (xsteps_trans _ _ _ _ _ _ _ _ _ _ _ _ H1 (x_of_hev _ _ _ _ h' H3))
                        | reflexivity | reflexivity | reflexivity].
  - rewrite A3. unfold s2. rewrite Ea. reflexivity.
  - rewrite UCm3. unfold s2. rewrite Ea. exact Hc.
  - unfold xframe. rewrite K3, M3, Fa3, GL3, GS3, GR3, CB3, UB3, UC3. unfold s2. rewrite Ea.
    unfold start_flush_u. Lemmas_C11.scbn. rewrite Lb. reflexivity.
Qed.

(* the continuation states *)
Lemma x_after_ok : forall s, hev_held s -> u_state (u s) = US_AFTER_OK ->
  hev_steps 1 s (unsolicited_reset_state s) [].
Proof.
  intros s Hk Hs. apply (Lemmas_C14w.hev_step_pure D Hmx s unsolicited_reset_state).
  - apply (hev_held_k _ s); [reflexivity | exact Hk].
  - intros q h t. unfold unsolicited_events_service. cbn [Fsm.st mkw]. rewrite Hs. reflexivity.
Qed.

Lemma x_after_fmt_read : forall s, hev_held (start_processing_format_read_args D UNSOL s) ->
  u_state (u s) = US_AFTER_FMT_READ ->
  hev_steps 1 s (start_processing_format_read_args D UNSOL s) [].
Proof.
  intros s Hk Hs. apply (Lemmas_C14w.hev_step_pure D Hmx s (start_processing_format_read_args D UNSOL) Hk).
  intros q h t. unfold unsolicited_events_service. cbn [Fsm.st mkw]. rewrite Hs. reflexivity.
Qed.

Definition mk_next (e : option (list N)) : hres := mkHres RC_DATA_NEXT e [] [].
Definition unit_text (nl T : list N) (e : option (list N)) : list N := nl ++ edited T e ++ nl.

(* any number of DATA_NEXT answers: one unit each, the machine is back in its READ loop *)
Lemma x_nexts : forall ci c, nth_error (pool D) ci = Some c -> c_hread c = true ->
  vars_access_possible c RO = false -> ~ In 0%N (c_name c) ->
  let T := c_name c ++ [ch_EQ] in
  forall nexts s h h1,
  length (c_name c) + 1 < length (ubuf s) ->
  hev_held s -> fault s = false -> RL ci T s ->
  let rq := HRead UNSOL ci (T ++ [0%N]) (length T) (length (ubuf s)) in
  answers rq h (map mk_next nexts) h1 -> Forall (edit_ok (length (ubuf s))) nexts ->
  exists m s', xsteps m s h s' h1 (map (fun _ => (rq, RC_DATA_NEXT)) nexts)
                 (concat (map (unit_text (nl_chars s) T) nexts)) /\
    RL ci T s' /\ xframe s' = xframe s.
Proof.
  intros ci c Hc Hrd Hvap Hn0 T.
  assert (HnT : ~ In 0%N T).
  { unfold T. intros Hi. apply in_app_or in Hi. destruct Hi as [Hi|[Hi|[]]]; [exact (Hn0 Hi) | discriminate Hi]. }
  induction nexts as [|e nexts IH]; intros s h h1 Hl Hk Hf HR rq Ha He.
  - cbn [map answers] in Ha. subst h1. exists 0, s. split; [apply xsteps_0|]. split; [exact HR | reflexivity].
  - cbn [map answers] in Ha. destruct Ha as (h0 & Hcall & Ha). inversion He as [|? ? He1 He2]; subst.
    destruct (x_data_unit s ci T h h0 e RC_DATA_NEXT US_AFTER_FMT_READ eq_refl Hk HR HnT He1 Hcall)
      as (s3 & X1 & A3 & C3 & F3).
    assert (Hf3 : fault s3 = false) by (unfold xframe in F3; congruence).
    assert (Hl3 : length (ubuf s3) = length (ubuf s)) by (unfold xframe in F3; congruence).
    destruct (spfra_RL s3 ci c C3 Hc Hf3 Hrd Hvap) as [HR4 F4]; [rewrite Hl3; exact Hl|].
    set (s4 := start_processing_format_read_args D UNSOL s3) in *.
    assert (F4s : xframe s4 = xframe s) by (rewrite F4; exact F3).
    assert (Hk4 : hev_held s4) by (apply (held_xframe _ s); assumption).
    pose proof (x_after_fmt_read s3 Hk4 A3) as X2. fold s4 in X2.
    assert (Hl4 : length (ubuf s4) = length (ubuf s)) by (unfold xframe in F4s; congruence).
    assert (Hf4 : fault s4 = false) by (unfold xframe in F4s; congruence).
    destruct (IH s4 h0 h1) as (m & s5 & X3 & HR5 & F5); try assumption.
    + rewrite Hl4. exact Hl.
    + rewrite Hl4. exact Ha.
    + rewrite Hl4. exact He2.
    + rewrite Hl4 in X3. replace (nl_chars s4) with (nl_chars s) in X3
        by (unfold nl_chars; rewrite (xframe_k _ _ F4s); reflexivity).
      eexists. exists s5. split; [|split; [exact HR5 | rewrite F5; exact F4s]].
      eapply xsteps_cast;
        [exact (xsteps_trans _ _ _ _ _ _ _ _ _ _ _ _ X1
                 (xsteps_trans _ _ _ _ _ _ _ _ _ _ _ _ (x_of_hev _ _ _ _ h0 X2) X3))
        | reflexivity | reflexivity |].
      cbn [map concat app]. unfold unit_text at 2. rewrite <- !app_assoc. reflexivity.
Qed.

(* ================= D. from the trigger to the READ loop ================= *)
Lemma x_event_start : forall s ci c,
  Lemmas_C13.ring_wf D s -> fault s = false -> hev_held s -> u_state (u s) = US_IDLE -> u_count (u s) = 0 ->
  cmd_at D ci = Some c -> c_hread c = true -> vars_access_possible c RO = false ->
  length (c_name c) + 1 < length (ubuf s) ->
  exists s1 s3, push_unsolicited_cmd D s ci T_READ = (s1, ST_OK) /\
    hev_steps 1 s1 s3 [] /\ RL ci (c_name c ++ [ch_EQ]) s3 /\ xframe s3 = xframe s.
Proof.
  intros s ci c Hwf Hf Hk Hus Hu0 Hc Hrd Hvap Hl.
  destruct (Lemmas_E2Eb.trigger_pop D s ci Hwf Hu0)
    as (s1 & s2 & Ep & Us1 & Re1 & K1 & Ec & Uc2 & F2 & M2 & Fa2 & B2).
  unfold cmd_at in Hc.
  destruct (spfra_RL s2 ci c Uc2 Hc) as [HR3 F3]; try assumption; [congruence | rewrite B2; exact Hl |].
  assert (F2x : xframe s2 = xframe s).
  { unfold Lemmas_E2Eb.uframe in F2. unfold xframe. rewrite M2, Fa2, B2. congruence. }
  exists s1, (start_processing_format_read_args D UNSOL s2).
  split; [exact Ep|]. split; [|split; [exact HR3 | rewrite F3; exact F2x]].
  rewrite <- Ec. apply (Lemmas_C14w.hev_pop_step D Hmx); [congruence | exact Re1 |].
  rewrite Ec. apply (held_xframe _ s); [rewrite F3; exact F2x | exact Hk].
Qed.

Lemma answers_app : forall q a b h h', answers q h (a ++ b) h' <-> exists h1, answers q h a h1 /\ answers q h1 b h'.
Proof.
  intros q a. induction a as [|r a IH]; intros b h h'; cbn [app answers].
  - split; [intros H; exists h; split; [reflexivity | exact H] | intros (h1 & -> & H); exact H].
  - split.
    + intros (h0 & C & H). apply IH in H. destruct H as (h1 & A & B). exists h1. split; [exists h0; auto | exact B].
    + intros (h1 & (h0 & C & A) & B). exists h0. split; [exact C|]. apply IH. exists h1. auto.
Qed.

(* ================= E. the release through the handler ================= *)
Definition rel_code (ok : bool) : Z := if ok then RC_HOLD_EXIT_OK else RC_HOLD_EXIT_ERROR.
Definition rel_text (ok : bool) : list N := if ok then txt_OK else txt_ERROR.

(* service calls with handler calls, no claim about reads *)
Definition ysteps (q : list N) (m : nat) (s : state) (h : shs) (s' : state) (h' : shs)
           (cl : list (hreq * Z)) (out : list N) : Prop :=
  forall t, exists t', calls_of t' = cl /\ output_of t' = out /\
    nsvc D m (mkw s q h t) = mkw s' q h' (t' ++ t).

Lemma ysteps_trans : forall q a b s s1 s2 h h1 h2 c1 c2 o1 o2,
  ysteps q a s h s1 h1 c1 o1 -> ysteps q b s1 h1 s2 h2 c2 o2 -> ysteps q (a + b) s h s2 h2 (c1 ++ c2) (o1 ++ o2).
Proof.
  intros q a b s s1 s2 h h1 h2 c1 c2 o1 o2 H1 H2 t.
  destruct (H1 t) as (t1 & C1 & O1 & E1). destruct (H2 (t1 ++ t)) as (t2 & C2 & O2 & E2).
  exists (t2 ++ t1). split; [rewrite calls_of_app, C1, C2; reflexivity|].
  split; [rewrite output_of_app, O1, O2; reflexivity|].
  unfold nsvc in *. rewrite Lemmas_C02e.iter_add, E1, E2, app_assoc. reflexivity.
Qed.

Lemma y_of_x : forall q m s h s' h' cl out, xsteps m s h s' h' cl out -> ysteps q m s h s' h' cl out.
Proof. intros q m s h s' h' cl out H t. destruct (H q t) as (t' & A & B & _ & _ & E). exists t'. auto. Qed.

Lemma y_of_o : forall q m s s' out h, Lemmas_E2E.osteps D m s q s' q out -> ysteps q m s h s' h [] out.
Proof. intros q m s s' out h H t. destruct (H h t) as (t' & A & B & E). exists t'. auto. Qed.

Lemma ysteps_cast : forall q m m' s h s' h' c c' o o',
  ysteps q m s h s' h' c o -> m = m' -> c = c' -> o = o' -> ysteps q m' s h s' h' c' o'.
Proof. intros; subst; assumption. Qed.

Lemma rt_u_data_ok : forall e s, rt_u D RC_DATA_OK e s = start_flush_u US_AFTER_OK (apply_edit UNSOL e s).
Proof. reflexivity. Qed.
Lemma rt_u_data_next : forall e s, rt_u D RC_DATA_NEXT e s = start_flush_u US_AFTER_FMT_READ (apply_edit UNSOL e s).
Proof. reflexivity. Qed.

Lemma rt_u_rel : forall (ok : bool) e s, k_hold (k (apply_edit UNSOL e s)) = true ->
  rt_u D (rel_code ok) e s =
  unsolicited_reset_state (setk_hold_exit (if ok then 1%Z else (-1)%Z) (apply_edit UNSOL e s)).
Proof.
  intros ok e s Hh. unfold rt_u. cbv zeta.
  destruct ok; cbn [rel_code];
    cbv [RC_HOLD_EXIT_OK RC_HOLD_EXIT_ERROR RC_OK RC_DATA_OK RC_DATA_NEXT RC_NEXT RC_HOLD RC_PRINT_CMD_LIST_OK
         Z.eqb Pos.eqb andb negb];
    unfold hold_exit; rewrite Hh; cbn [negb fst]; reflexivity.
Qed.

Lemma y_release_call : forall s ci T h h' e (ok : bool),
  hev_held s -> RL ci T s -> edit_ok (length (ubuf s)) e ->
  s_call h (HRead UNSOL ci (T ++ [0%N]) (length T) (length (ubuf s))) = (h', mkHres (rel_code ok) e [] []) ->
  let s0 := setk_hold false (unsolicited_reset_state
               (setk_hold_exit (if ok then 1%Z else (-1)%Z) (apply_edit UNSOL e s))) in
  forall q, ysteps q 1 s h (if ok then ack_ok s0 else ack_error s0) h'
         [(HRead UNSOL ci (T ++ [0%N]) (length T) (length (ubuf s)), rel_code ok)] [].
Proof.
  intros s ci T h h' e ok (Hk & Hh & Hx) HR He Hcall s0 q t.
  set (rq := HRead UNSOL ci (T ++ [0%N]) (length T) (length (ubuf s))) in *.
  exists [ERet OService ST_BUSY; ECall rq (rel_code ok)].
  split; [reflexivity|]. split; [reflexivity|].
  pose proof HR as (_ & _ & Hp & Hb).
  destruct (apply_edit_u T e s Hb Hp He) as (b & Ea & _ & _).
  assert (Hh1 : k_hold (k (apply_edit UNSOL e s)) = true) by (rewrite Ea; exact Hh).
  assert (Hk1 : k_state (k (apply_edit UNSOL e s)) = CS_HOLD) by (rewrite Ea; exact Hk).
  unfold nsvc. cbn [iter]. unfold svc, step, do_op, api_service, bracket. rewrite Hmx.
  unfold service_body. rewrite (ues_rloop s ci T q h t h' (rel_code ok) e HR Hcall). fold rq.
  rewrite (rt_u_rel ok e s Hh1). subst s0.
  set (s1 := apply_edit UNSOL e s) in *.
  unfold cmd_service. cbn [Fsm.st mkw].
  change (k_state (k (unsolicited_reset_state (setk_hold_exit (if ok then 1%Z else (-1)%Z) s1))))
    with (k_state (k s1)). rewrite Hk1.
  unfold busy, upd_st, process_hold_state. cbn [Fsm.st mkw].
  change (k_hold_exit (k (unsolicited_reset_state (setk_hold_exit (if ok then 1%Z else (-1)%Z) s1))))
    with (if ok then 1%Z else (-1)%Z).
  destruct ok; reflexivity.
Qed.

(* the result code after the release: the unit, then reset_state leads to CS_IDLE *)
Lemma y_release_tail : forall q s0 (ok : bool) h, idle s0 -> k_hold (k s0) = false -> 6 <= length (cbuf s0) ->
  let nl := nl_chars s0 in
  exists s4, ysteps q (5 + 2 * length nl + length (rel_text ok)) (if ok then ack_ok s0 else ack_error s0) h s4 h []
               (nl ++ rel_text ok ++ nl) /\
    k_state (k s4) = CS_IDLE /\ mem s4 = mem s0 /\ fault s4 = fault s0 /\ u s4 = u s0 /\
    gL s4 = gL s0 /\ gS s4 = S (gS s0) /\ gR s4 = S (gR s0) /\
    k_cr (k s4) = false /\ k_hold (k s4) = false /\ k_cmd (k s4) = None.
Proof.
  intros q s0 ok h Hi Hh H6 nl.
  assert (Enl : forall a, k_cr (k a) = k_cr (k s0) -> Lemmas_C11.nl_text (k_cr (k a)) = nl).
  { intros a E. rewrite E. apply Lemmas_C14w.rel_nl_text_chars. }
  destruct ok; cbn [rel_text].
  - destruct (Lemmas_C19.ack_ok_props s0 H6) as (_ & _ & _ & HT).
    assert (Hfr : Lemmas_E2E.fresh (ack_ok s0)) by (repeat split; reflexivity).
    assert (H0 : In 0%N (cbuf (ack_ok s0))).
    { change (In 0%N (strncpy_buf (asz s0) txt_OK)). apply (Lemmas_E2E.In0_strncpy D). unfold asz.
      cbn [length txt_OK]. lia. }
    destruct (Lemmas_C14w.rel_result_tail D Hmx (ack_ok s0) q txt_OK Hi Hfr eq_refl Hh H0 HT)
      as (s4 & O4 & R1 & R2 & R3 & R4 & R5 & R6 & R7 & R8 & R9 & R10 & _).
    rewrite (Enl (ack_ok s0) eq_refl) in O4.
    exists s4. split; [apply y_of_o; exact O4|]. repeat split; assumption.
  - destruct (Lemmas_C19.ack_error_props s0 H6) as (_ & _ & _ & HT).
    assert (Hfr : Lemmas_E2E.fresh (ack_error s0)) by (repeat split; reflexivity).
    assert (H0 : In 0%N (cbuf (ack_error s0))).
    { change (In 0%N (strncpy_buf (asz s0) txt_ERROR)). apply (Lemmas_E2E.In0_strncpy D). unfold asz.
      cbn [length txt_ERROR]. lia. }
    destruct (Lemmas_C14w.rel_result_tail D Hmx (ack_error s0) q txt_ERROR Hi Hfr eq_refl Hh H0 HT)
      as (s4 & O4 & R1 & R2 & R3 & R4 & R5 & R6 & R7 & R8 & R9 & R10 & _).
    rewrite (Enl (ack_error s0) eq_refl) in O4.
    exists s4. split; [apply y_of_o; exact O4|]. repeat split; assumption.
Qed.

(* the next byte of the pending input is read by the very next call *)
Lemma idle_reads_next : forall s c q' h t, idle s -> k_state (k s) = CS_IDLE ->
  exists s', svc D (mkw s (c :: q') h t) = mkw s' q' h (ERet OService ST_BUSY :: ERd (Some c) :: t).
Proof.
  intros s c q' h t Hi Hk. unfold svc, step, do_op, api_service, bracket. rewrite Hmx. unfold service_body.
  rewrite (Lemmas_C02e.ues_idle D (mkw s (c :: q') h t) Hi). unfold cmd_service. cbn [Fsm.st mkw]. rewrite Hk.
  unfold process_idle_state, reading, read_cmd_char.
  cbn [Fsm.st Fsm.io mkw s_read pop_bit rd_sched inq negb snd fst].
  eexists. unfold busy, upd_st, set_st, set_io, logw. cbn [Fsm.st Fsm.io Fsm.mu Fsm.hs Fsm.tr mkw fst snd].
  match goal with |- context [if ?b then _ else _] =>
    match b with context [ustate_beq] => destruct b end end; reflexivity.
Qed.
End X.

(* ====================================================================================== *)
(* the final statements                                                                    *)
(* ====================================================================================== *)
Local Notation sdoD D := (do_op D sio smu shs s_read s_write s_lock s_unlock s_call).

(* (a) an event whose command HAS a read handler, delivered during a hold *)
Theorem E2E_event_handler_held_proof : forall D s q h h' ci c nexts e,
  d_mutex D = false -> Lemmas_C13.ring_wf D s -> fault s = false ->
  k_state (k s) = CS_HOLD -> k_hold (k s) = true -> k_hold_exit (k s) = 0%Z ->
  u_state (u s) = US_IDLE -> u_count (u s) = 0 ->
  cmd_at D ci = Some c -> c_hread c = true -> vars_access_possible c RO = false ->
  ~ In 0%N (c_name c) -> length (c_name c) + 1 < length (ubuf s) ->
  let T := c_name c ++ [ch_EQ] in
  let rq := HRead UNSOL ci (T ++ [0%N]) (length T) (length (ubuf s)) in
  answers rq h (map mk_next nexts ++ [mkHres RC_DATA_OK e [] []]) h' ->
  Forall (edit_ok (length (ubuf s))) (nexts ++ [e]) ->
  let nl := nl_chars s in
  let w0 := mkw s q h [] in
  let (w1, r) := sdoD D w0 (OTrigger ci T_READ) in
  r = ST_OK /\
  exists calls, let w := nsvc D calls w1 in
    u_state (u (wst w)) = US_IDLE /\ u_count (u (wst w)) = 0 /\ u_cmd (u (wst w)) = None /\
    k (wst w) = k s /\ cbuf (wst w) = cbuf s /\ inq (wio w) = q /\ (forall r, ~ In (ERd r) (wtr w)) /\
    whs w = h' /\
    calls_of (wtr w) = map (fun _ => (rq, RC_DATA_NEXT)) nexts ++ [(rq, RC_DATA_OK)] /\
    mem (wst w) = mem s /\ fault (wst w) = false /\
    output_of (wtr w) = concat (map (unit_text nl T) (nexts ++ [e])) /\
    gL (wst w) = gL s /\ gS (wst w) = gS s /\ gR (wst w) = gR s /\
    (forall r, In (ERet OService r) (wtr w) -> r = ST_BUSY) /\
    snd (sdoD D w OService) = ST_BUSY.
Proof.
  intros D s q h h' ci c nexts e Hmx Hwf Hf Hk Hh Hx Hus Hu0 Hc Hrd Hvap Hn0 Hl T rq Ha He nl w0.
  assert (Hheld : hev_held s) by (repeat split; assumption).
  destruct (x_event_start D Hmx s ci c Hwf Hf Hheld Hus Hu0 Hc Hrd Hvap Hl) as (s1 & s3 & Ep & X1 & HR3 & F3).
  assert (E : sdoD D w0 (OTrigger ci T_READ) = (mkw s1 q h [], ST_OK)).
  { unfold do_op, api_trigger, bracket. rewrite Hmx. unfold w0. cbn [Fsm.st mkw]. rewrite Ep. reflexivity. }
  rewrite E. split; [reflexivity|].
  apply answers_app in Ha. destruct Ha as (h1 & Ha1 & (h2 & Hcall & Eh)). cbn [answers] in Eh. subst h2.
  apply Forall_app in He. destruct He as [He1 He2]. inversion He2 as [|? ? He3 _]; subst.
  assert (Hl3 : length (ubuf s3) = length (ubuf s)) by (unfold xframe in F3; congruence).
  assert (Hf3 : fault s3 = false) by (unfold xframe in F3; congruence).
  assert (Hk3 : hev_held s3) by (apply (held_xframe _ s); assumption).
  unfold cmd_at in Hc.
  destruct (x_nexts D Hmx ci c Hc Hrd Hvap Hn0 nexts s3 h h1) as (m & s5 & X2 & HR5 & F5); try assumption.
  { rewrite Hl3. exact Hl. } { rewrite Hl3. exact Ha1. } { rewrite Hl3. exact He1. }
  rewrite Hl3 in X2. fold T rq in X2.
  assert (F5s : xframe s5 = xframe s) by (rewrite F5; exact F3).
  assert (Hl5 : length (ubuf s5) = length (ubuf s)) by (unfold xframe in F5s; congruence).
  assert (Hk5 : hev_held s5) by (apply (held_xframe _ s); assumption).
  assert (HnT : ~ In 0%N T).
  { unfold T. intros Hi. apply in_app_or in Hi. destruct Hi as [Hi|[Hi|[]]]; [exact (Hn0 Hi) | discriminate Hi]. }
  destruct (x_data_unit D Hmx s5 ci T h1 h' e RC_DATA_OK US_AFTER_OK eq_refl Hk5 HR5 HnT)
    as (s6 & X3 & A6 & C6 & F6).
  { rewrite Hl5. exact He3. } { rewrite Hl5. exact Hcall. }
  rewrite Hl5 in X3. fold rq in X3.
  assert (F6s : xframe s6 = xframe s) by (rewrite F6; exact F5s).
  assert (Hk6 : hev_held s6) by (apply (held_xframe _ s); assumption).
  pose proof (x_after_ok D Hmx s6 Hk6 A6) as X4.
  set (s7 := unsolicited_reset_state s6) in *.
  pose proof (xsteps_trans D _ _ _ _ _ _ _ _ _ _ _ _ (x_of_hev D _ _ _ _ h X1)
               (xsteps_trans D _ _ _ _ _ _ _ _ _ _ _ _ X2
                 (xsteps_trans D _ _ _ _ _ _ _ _ _ _ _ _ X3 (x_of_hev D _ _ _ _ h' X4)))) as X.
  match type of X with xsteps _ ?n _ _ _ _ _ _ => exists n end. intros w.
  destruct (X q []) as (t' & E1 & E2 & E3 & E4 & E5). rewrite app_nil_r in E5.
  unfold w. rewrite E5. cbn [Fsm.st Fsm.hs Fsm.tr Fsm.io mkw inq].
  assert (G : k s7 = k s /\ cbuf s7 = cbuf s /\ mem s7 = mem s /\ gL s7 = gL s /\ gS s7 = gS s /\
              gR s7 = gR s /\ u_count (u s7) = 0 /\ fault s7 = false).
  { unfold xframe in F6s. unfold s7, unsolicited_reset_state. Lemmas_C11.scbn. repeat split; congruence. }
  destruct G as (G1 & G2 & G3 & G4 & G5 & G6 & G7 & G8).
  split; [reflexivity|]. split; [exact G7|]. split; [reflexivity|]. split; [exact G1|]. split; [exact G2|].
  split; [reflexivity|]. split; [exact E3|]. split; [reflexivity|].
  split; [rewrite E1; cbn [app]; rewrite ?app_nil_r; reflexivity|].
  split; [exact G3|]. split; [exact G8|].
  split.
  { rewrite E2. cbn [app]. rewrite ?app_nil_r, map_app, concat_app. cbn [map concat].
    replace (nl_chars s5) with nl by (unfold nl, nl_chars; rewrite (xframe_k _ _ F5s); reflexivity).
    replace (nl_chars s3) with nl by (unfold nl, nl_chars; rewrite (xframe_k _ _ F3); reflexivity).
    unfold unit_text at 2. rewrite app_nil_r. reflexivity. }
  split; [exact G4|]. split; [exact G5|]. split; [exact G6|]. split; [exact E4|].
  apply (Lemmas_C14w.hev_still_busy D Hmx).
  - split; [reflexivity | exact G7].
  - apply (hev_held_k _ s); [exact G1 | exact Hheld].
Qed.

(* (b) the event's handler releases the hold *)
Theorem E2E_event_releases_hold_proof : forall D s q h h' ci c nexts e (ok : bool),
  d_mutex D = false -> Lemmas_C13.ring_wf D s -> fault s = false ->
  k_state (k s) = CS_HOLD -> k_hold (k s) = true -> k_hold_exit (k s) = 0%Z ->
  u_state (u s) = US_IDLE -> u_count (u s) = 0 ->
  cmd_at D ci = Some c -> c_hread c = true -> vars_access_possible c RO = false ->
  ~ In 0%N (c_name c) -> length (c_name c) + 1 < length (ubuf s) -> 6 <= length (cbuf s) ->
  let T := c_name c ++ [ch_EQ] in
  let rq := HRead UNSOL ci (T ++ [0%N]) (length T) (length (ubuf s)) in
  answers rq h (map mk_next nexts ++ [mkHres (rel_code ok) e [] []]) h' ->
  Forall (edit_ok (length (ubuf s))) (nexts ++ [e]) ->
  let nl := nl_chars s in
  let w0 := mkw s q h [] in
  let (w1, r) := sdoD D w0 (OTrigger ci T_READ) in
  r = ST_OK /\
  exists calls, let w := nsvc D calls w1 in
    k_state (k (wst w)) = CS_IDLE /\ k_hold (k (wst w)) = false /\ k_cr (k (wst w)) = false /\
    k_cmd (k (wst w)) = None /\
    u_state (u (wst w)) = US_IDLE /\ u_count (u (wst w)) = 0 /\ u_cmd (u (wst w)) = None /\
    inq (wio w) = q /\ whs w = h' /\
    calls_of (wtr w) = map (fun _ => (rq, RC_DATA_NEXT)) nexts ++ [(rq, rel_code ok)] /\
    output_of (wtr w) = concat (map (unit_text nl T) nexts) ++ nl ++ rel_text ok ++ nl /\
    gS (wst w) = S (gS s) /\ gR (wst w) = S (gR s) /\ gL (wst w) = gL s /\
    mem (wst w) = mem s /\ fault (wst w) = false /\
    (forall b q', q = b :: q' ->
       exists s', svc D w = mkw s' q' h' (ERet OService ST_BUSY :: ERd (Some b) :: wtr w)).
Proof.
  intros D s q h h' ci c nexts e ok Hmx Hwf Hf Hk Hh Hx Hus Hu0 Hc Hrd Hvap Hn0 Hl H6 T rq Ha He nl w0.
  assert (Hheld : hev_held s) by (repeat split; assumption).
  destruct (x_event_start D Hmx s ci c Hwf Hf Hheld Hus Hu0 Hc Hrd Hvap Hl) as (s1 & s3 & Ep & X1 & HR3 & F3).
  assert (E : sdoD D w0 (OTrigger ci T_READ) = (mkw s1 q h [], ST_OK)).
  { unfold do_op, api_trigger, bracket. rewrite Hmx. unfold w0. cbn [Fsm.st mkw]. rewrite Ep. reflexivity. }
  rewrite E. split; [reflexivity|].
  apply answers_app in Ha. destruct Ha as (h1 & Ha1 & (h2 & Hcall & Eh)). cbn [answers] in Eh. subst h2.
  apply Forall_app in He. destruct He as [He1 He2]. inversion He2 as [|? ? He3 _]; subst.
  assert (Hl3 : length (ubuf s3) = length (ubuf s)) by (unfold xframe in F3; congruence).
  assert (Hf3 : fault s3 = false) by (unfold xframe in F3; congruence).
  assert (Hk3 : hev_held s3) by (apply (held_xframe _ s); assumption).
  unfold cmd_at in Hc.
  destruct (x_nexts D Hmx ci c Hc Hrd Hvap Hn0 nexts s3 h h1) as (m & s5 & X2 & HR5 & F5); try assumption.
  { rewrite Hl3. exact Hl. } { rewrite Hl3. exact Ha1. } { rewrite Hl3. exact He1. }
  rewrite Hl3 in X2. fold T rq in X2.
  assert (F5s : xframe s5 = xframe s) by (rewrite F5; exact F3).
  assert (Hl5 : length (ubuf s5) = length (ubuf s)) by (unfold xframe in F5s; congruence).
  assert (Hk5 : hev_held s5) by (apply (held_xframe _ s); assumption).
  (* the releasing call *)
  assert (He5 : edit_ok (length (ubuf s5)) e) by (rewrite Hl5; exact He3).
  assert (Hcall5 : s_call h1 (HRead UNSOL ci (T ++ [0%N]) (length T) (length (ubuf s5))) =
                   (h', mkHres (rel_code ok) e [] [])) by (rewrite Hl5; exact Hcall).
  pose proof (y_release_call D Hmx s5 ci T h1 h' e ok Hk5 HR5 He5 Hcall5 q) as Y3.
  rewrite Hl5 in Y3. fold rq in Y3.
  set (su := unsolicited_reset_state (setk_hold_exit (if ok then 1%Z else (-1)%Z) (apply_edit UNSOL e s5))) in *.
  set (s0 := setk_hold false su) in *.
  pose proof HR5 as (_ & _ & Hp5 & Hb5).
  destruct (apply_edit_u T e s5 Hb5 Hp5 He5) as (b & Ea & _ & Lb).
  assert (G0 : idle s0 /\ k_hold (k s0) = false /\ cbuf s0 = cbuf s /\ mem s0 = mem s /\ fault s0 = false /\
               gL s0 = gL s /\ gS s0 = gS s /\ gR s0 = gR s /\ u_cmd (u s0) = None /\ k_cr (k s0) = k_cr (k s)).
  { unfold xframe in F5s. unfold s0, su, unsolicited_reset_state, idle. rewrite Ea. Lemmas_C11.scbn.
    assert (Kc : k_cr (k s5) = k_cr (k s)) by congruence.
    repeat split; try reflexivity; congruence. }
  destruct G0 as (I0 & Hh0 & C0 & M0 & Fa0 & GL0 & GS0 & GR0 & UC0 & KC0).
  destruct (y_release_tail D Hmx q s0 ok h' I0 Hh0) as (s4 & Y4 & R1 & R2 & R3 & R4 & R5 & R6 & R7 & R8 & R9 & R10);
    [rewrite C0; exact H6|].
  replace (nl_chars s0) with nl in Y4 by (unfold nl, nl_chars; rewrite KC0; reflexivity).
  pose proof (ysteps_trans D q _ _ _ _ _ _ _ _ _ _ _ _ (y_of_x D q _ _ _ _ _ _ _ (x_of_hev D _ _ _ _ h X1))
               (ysteps_trans D q _ _ _ _ _ _ _ _ _ _ _ _ (y_of_x D q _ _ _ _ _ _ _ X2)
                 (ysteps_trans D q _ _ _ _ _ _ _ _ _ _ _ _ Y3 Y4))) as Y.
  match type of Y with ysteps _ _ ?n _ _ _ _ _ _ => exists n end. intros w.
  destruct (Y []) as (t' & E1 & E2 & E5). rewrite app_nil_r in E5.
  unfold w. rewrite E5. cbn [Fsm.st Fsm.hs Fsm.tr Fsm.io mkw inq].
  destruct I0 as [I01 I02].
  split; [exact R1|]. split; [exact R9|]. split; [exact R8|]. split; [exact R10|].
  split; [rewrite R4; exact I01|]. split; [rewrite R4; exact I02|]. split; [rewrite R4; exact UC0|].
  split; [reflexivity|]. split; [reflexivity|].
  split; [rewrite E1; cbn [app]; rewrite ?app_nil_r; reflexivity|].
  split.
  { rewrite E2. cbn [app]. rewrite ?app_nil_r.
    replace (nl_chars s3) with nl by (unfold nl, nl_chars; rewrite (xframe_k _ _ F3); reflexivity).
    reflexivity. }
  split; [congruence|]. split; [congruence|]. split; [congruence|]. split; [congruence|]. split; [congruence|].
  intros b0 q' ->. apply (idle_reads_next D Hmx); [split; rewrite R4; assumption | exact R1].
Qed.

Print Assumptions E2E_event_handler_held_proof.
Print Assumptions E2E_event_releases_hold_proof.
