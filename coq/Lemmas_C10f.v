(* Lemmas_C10f.v — property C10 (handler return codes drive the response), end to end, for the WRITE handler and
   the RUN handler: the BYTES of a whole line  AT<name>=<args> LF  /  AT<name> LF  served by a command handler
   that is re-invoked while it answers NEXT / DATA_NEXT, on the scripted always-ready environment of Script.v.
   Statements: Properties_C10f.v.  Pattern: Lemmas_E2Ec.P3 (the READ handler line).
   Structure:
     1. Section Again: a loop state in which the machine calls one fixed request Q each service call and
        stays put while the table action is A_AGAIN (generic in the request, the loop predicate and the
        dispatch function); the induction over the continuing results; the ending call with OK / ERROR.
     2. the WRITE loop (CS_WRITE_LOOP) and the RUN loop (CS_RUN_LOOP) as instances;
     3. frame facts for the head of a WRITE line (k_cmd through command_found / args_feed; the line feed of
        a command without writable variable);
     4. the whole lines, as a terminal sends them (letter case, carriage returns, CR LF) and in the LF-only
        canonical form. *)
From Coq Require Import List NArith ZArith Bool Arith Lia.
From CatV Require Import Bytes Defs Codec Spec Fsm Script ResolveDefs SchedDefs GlueDefs TextDefs CollectDefs RespDefs.
From CatV Require Lemmas_C02 Lemmas_C02e Lemmas_C06 Lemmas_C10 Lemmas_C11 Lemmas_C19 Lemmas_E2E Lemmas_E2Ec.
Import ListNotations.
Local Open Scope nat_scope.

Local Notation wst := (Fsm.st sio smu shs).
Local Notation wio := (Fsm.io sio smu shs).
Local Notation whs := (Fsm.hs sio smu shs).
Local Notation wtr := (Fsm.tr sio smu shs).
Local Notation idle := Lemmas_C02e.idle.
Local Notation script_of := Lemmas_C10.script_of.
Local Notation drop_script := Lemmas_E2Ec.P3.drop_script.
Local Notation pokes_mem := Lemmas_E2Ec.P3.pokes_mem.
Local Notation hsteps := Lemmas_E2Ec.P3.hsteps.
Local Notation nl_of := Lemmas_E2Ec.nl_of.
Local Notation tline := Lemmas_E2Ec.tline.
Local Notation crflag := Lemmas_E2Ec.crflag.
Local Notation has_cr := Lemmas_E2Ec.has_cr.
Local Notation tail_done := Lemmas_E2Ec.tail_done.

(* the result text a command handler's ending code selects *)
Definition ans (kd : hkind) (code : Z) : list N :=
  match spec_action kd ATCMD code with A_OK => txt_OK | _ => txt_ERROR end.

Lemma key_refl : forall key, key_eqb key key = true.
Proof. intros key. apply Lemmas_E2Ec.P3.key_eqb_eq. reflexivity. Qed.

Lemma script_after : forall h key (rs rest : list hres), script_of h key = rs ++ rest ->
  script_of (drop_script h key (length rs)) key = rest.
Proof.
  intros h key rs rest H. rewrite Lemmas_E2Ec.P3.script_of_drop, H, key_refl.
  rewrite skipn_app, Nat.sub_diag, skipn_all. reflexivity.
Qed.

(* ================= 1. a loop state that calls one fixed request ================= *)
Section Again.
Variable D : desc.
Hypothesis Hmx : d_mutex D = false.
Variable kd : hkind.
Variable Q : hreq.
Variable P : state -> Prop.
Variable nextf : Z -> state -> state.
Hypothesis HPmem : forall m s, P s -> P (set_mem m s).
Hypothesis Hcall : forall s q h t r h', idle s -> P s -> s_call h Q = (h', r) -> r_calls r = [] ->
  svc D (mkw s q h t) =
  mkw (nextf (r_code r) (fold_left apply_poke (r_pokes r) s)) q h'
      (ERet OService ST_BUSY :: ECall Q (r_code r) :: t).
Hypothesis Hagain : forall code s, terminal (spec_action kd ATCMD code) = false -> nextf code s = s.
Hypothesis Hend : forall code s, terminal (spec_action kd ATCMD code) = true -> code <> RC_HOLD ->
  spec_action kd ATCMD code <> A_LIST ->
  nextf code s = match spec_action kd ATCMD code with A_OK => ack_ok s | _ => ack_error s end.
Local Notation key := (key_of Q).
Local Notation osteps := (Lemmas_E2E.osteps D).

(* one service call in the loop state: the handler is called, its stores are applied, the code dispatched *)
Lemma hstep_call : forall s q h r sc, idle s -> P s -> script_of h key = r :: sc -> r_calls r = [] ->
  hsteps D 1 s q h (nextf (r_code r) (set_mem (pokes_mem (r_pokes r) (mem s)) s)) q (drop_script h key 1)
         [(Q, r_code r)] [].
Proof.
  intros s q h r sc Hi HP Hsc Hc t.
  exists [ERet OService ST_BUSY; ECall Q (r_code r)].
  split; [reflexivity|]. split; [reflexivity|].
  unfold nsvc. simpl iter.
  rewrite (Hcall s q h t r _ Hi HP (Lemmas_E2Ec.P3.s_call_drop h Q r sc Hsc) Hc), Lemmas_E2Ec.P3.pokes_state.
  reflexivity.
Qed.

(* the continuing results: exactly one service call each, the state only changes by the stores *)
Lemma loop_hsteps : forall rs s q h rest, idle s -> P s -> script_of h key = rs ++ rest ->
  (forall r, In r rs -> r_calls r = [] /\ terminal (spec_action kd ATCMD (r_code r)) = false) ->
  hsteps D (length rs) s q h (set_mem (pokes_mem (flat_map r_pokes rs) (mem s)) s) q
         (drop_script h key (length rs)) (map (fun r => (Q, r_code r)) rs) [].
Proof.
  induction rs as [|r rs IH]; intros s q h rest Hi HP Hsc Hall.
  - cbn [length map flat_map]. rewrite Lemmas_E2Ec.P3.drop_script_0.
    change (pokes_mem [] (mem s)) with (mem s). rewrite Lemmas_E2Ec.P3.set_mem_id.
    apply Lemmas_E2Ec.P3.hsteps_0.
  - cbn [app] in Hsc. destruct (Hall r (or_introl eq_refl)) as [Hc Ht].
    pose proof (hstep_call s q h r (rs ++ rest) Hi HP Hsc Hc) as H1.
    rewrite (Hagain _ _ Ht) in H1.
    set (s1 := set_mem (pokes_mem (r_pokes r) (mem s)) s) in *.
    assert (Hsc1 : script_of (drop_script h key 1) key = rs ++ rest).
    { exact (script_after h key [r] (rs ++ rest) Hsc). }
    assert (Hi1 : idle s1) by exact Hi.
    pose proof (IH s1 q (drop_script h key 1) rest Hi1 (HPmem _ _ HP) Hsc1
                  (fun r' Hr' => Hall r' (or_intror Hr'))) as H2.
    rewrite Lemmas_E2Ec.P3.drop_script_add in H2.
    replace (set_mem (pokes_mem (flat_map r_pokes (r :: rs)) (mem s)) s)
      with (set_mem (pokes_mem (flat_map r_pokes rs) (mem s1)) s1)
      by (cbn [flat_map]; rewrite Lemmas_E2Ec.P3.pokes_mem_app; reflexivity).
    eapply Lemmas_E2Ec.P3.hsteps_cast;
      [exact (Lemmas_E2Ec.P3.hsteps_trans D _ _ _ _ _ _ _ _ _ _ _ _ _ _ _ H1 H2)
      | reflexivity | reflexivity | reflexivity].
Qed.

(* the ending call: OK or ERROR with the line's newline, the reset *)
Lemma call_last : forall s q h r sc, idle s -> P s -> k_hold (k s) = false -> 6 <= length (cbuf s) ->
  script_of h key = r :: sc -> r_calls r = [] ->
  terminal (spec_action kd ATCMD (r_code r)) = true -> r_code r <> RC_HOLD ->
  spec_action kd ATCMD (r_code r) <> A_LIST ->
  let nl := nl_of (k_cr (k s)) in
  exists m s', hsteps D m s q h s' q (drop_script h key 1) [(Q, r_code r)] (nl ++ ans kd (r_code r) ++ nl) /\
    tail_done (set_mem (pokes_mem (r_pokes r) (mem s)) s) s'.
Proof.
  intros s q h r sc Hi HP Hho H6 Hsc Hc Ht Hnh Hnl nl.
  pose proof (hstep_call s q h r sc Hi HP Hsc Hc) as H1.
  rewrite (Hend _ _ Ht Hnh Hnl) in H1.
  set (s1 := set_mem (pokes_mem (r_pokes r) (mem s)) s) in *.
  assert (Hi1 : idle s1) by exact Hi.
  assert (Hho1 : k_hold (k s1) = false) by exact Hho.
  assert (H61 : 6 <= length (cbuf s1)) by exact H6.
  assert (T : exists m s', osteps m (match spec_action kd ATCMD (r_code r) with
                                      | A_OK => ack_ok s1 | _ => ack_error s1 end) q s' q
                             (nl ++ ans kd (r_code r) ++ nl) /\ tail_done s1 s').
  { unfold ans. destruct (spec_action kd ATCMD (r_code r));
      first [ destruct (Lemmas_E2Ec.ack_ok_tail_g D Hmx s1 q Hi1 Hho1 H61) as (s4 & O & R);
              eexists _, s4; split; [exact O | exact R]
            | destruct (Lemmas_E2Ec.ack_error_tail_g D Hmx s1 q Hi1 Hho1 H61) as (s4 & O & R);
              eexists _, s4; split; [exact O | exact R] ]. }
  destruct T as (m & s' & O & R).
  exists (1 + m), s'. split; [|exact R].
  eapply Lemmas_E2Ec.P3.hsteps_cast;
    [exact (Lemmas_E2Ec.P3.hsteps_trans D _ _ _ _ _ _ _ _ _ _ _ _ _ _ _ H1
              (Lemmas_E2Ec.P3.hsteps_of_osteps D _ _ _ _ _ _ _ O))
    | reflexivity | reflexivity | reflexivity].
Qed.

(* the whole handler phase, from the first loop state *)
Lemma phase : forall rs rn s q h rest, idle s -> P s -> k_hold (k s) = false -> 6 <= length (cbuf s) ->
  script_of h key = rs ++ rn :: rest ->
  (forall r, In r rs -> terminal (spec_action kd ATCMD (r_code r)) = false) ->
  terminal (spec_action kd ATCMD (r_code rn)) = true -> r_code rn <> RC_HOLD ->
  spec_action kd ATCMD (r_code rn) <> A_LIST ->
  (forall r, In r (rs ++ [rn]) -> r_calls r = []) ->
  let nl := nl_of (k_cr (k s)) in
  exists m s', hsteps D m s q h s' q (drop_script h key (S (length rs)))
                 (map (fun r => (Q, r_code r)) (rs ++ [rn])) (nl ++ ans kd (r_code rn) ++ nl) /\
    tail_done (set_mem (pokes_mem (flat_map r_pokes (rs ++ [rn])) (mem s)) s) s'.
Proof.
  intros rs rn s q h rest Hi HP Hho H6 Hsc Hcont Hterm Hnh Hnl Hcl nl.
  assert (H1 := loop_hsteps rs s q h (rn :: rest) Hi HP Hsc
                  (fun r Hr => conj (Hcl r (in_or_app _ _ _ (or_introl Hr))) (Hcont r Hr))).
  set (s1 := set_mem (pokes_mem (flat_map r_pokes rs) (mem s)) s) in *.
  assert (Hi1 : idle s1) by exact Hi.
  assert (Hho1 : k_hold (k s1) = false) by exact Hho.
  assert (H61 : 6 <= length (cbuf s1)) by exact H6.
  assert (Hin : In rn (rs ++ [rn])) by (apply in_or_app; right; left; reflexivity).
  destruct (call_last s1 q (drop_script h key (length rs)) rn rest Hi1 (HPmem _ _ HP) Hho1 H61
              (script_after h key rs (rn :: rest) Hsc) (Hcl rn Hin) Hterm Hnh Hnl)
    as (m2 & s2 & H2 & R).
  exists (length rs + m2), s2. split.
  - rewrite Lemmas_E2Ec.P3.drop_script_add in H2. replace (length rs + 1) with (S (length rs)) in H2 by lia.
    eapply Lemmas_E2Ec.P3.hsteps_cast;
      [exact (Lemmas_E2Ec.P3.hsteps_trans D _ _ _ _ _ _ _ _ _ _ _ _ _ _ _ H1 H2) | reflexivity | | reflexivity].
    rewrite map_app. reflexivity.
  - replace (set_mem (pokes_mem (flat_map r_pokes (rs ++ [rn])) (mem s)) s)
      with (set_mem (pokes_mem (r_pokes rn) (mem s1)) s1); [exact R|].
    rewrite flat_map_app, Lemmas_E2Ec.P3.pokes_mem_app. cbn [flat_map]. rewrite app_nil_r. reflexivity.
Qed.

End Again.

(* ================= 2. the WRITE loop and the RUN loop ================= *)
(* the request of the write loop in state s *)
Definition wq (i : nat) (s : state) : hreq :=
  HWrite i (firstn (S (k_length (k s))) (cbuf s)) (k_length (k s)) (k_index (k s)).

(* what process_write_loop does with the handler's return code *)
Definition wnext (code : Z) (s : state) : state :=
  if (code =? RC_OK)%Z || (code =? RC_DATA_OK)%Z then ack_ok s
  else if (code =? RC_DATA_NEXT)%Z || (code =? RC_NEXT)%Z then s
  else if (code =? RC_HOLD)%Z then enable_hold_state s
  else ack_error s.

Lemma wnext_again : forall code s, terminal (spec_action K_WRITE ATCMD code) = false -> wnext code s = s.
Proof.
  intros code s H. unfold spec_action in H. unfold wnext.
  destruct (code =? RC_OK)%Z; [discriminate H|]. destruct (code =? RC_DATA_OK)%Z; [discriminate H|].
  cbn [orb] in *.
  destruct (code =? RC_NEXT)%Z; [rewrite orb_true_r; reflexivity|].
  destruct (code =? RC_DATA_NEXT)%Z; [reflexivity|].
  cbn [orb] in *. destruct (code =? RC_HOLD)%Z; discriminate H.
Qed.

Lemma wnext_end : forall code s, terminal (spec_action K_WRITE ATCMD code) = true -> code <> RC_HOLD ->
  spec_action K_WRITE ATCMD code <> A_LIST ->
  wnext code s = match spec_action K_WRITE ATCMD code with A_OK => ack_ok s | _ => ack_error s end.
Proof.
  intros code s H Hnh _. unfold spec_action in *. unfold wnext.
  destruct (code =? RC_OK)%Z; [reflexivity|]. destruct (code =? RC_DATA_OK)%Z; [reflexivity|].
  cbn [orb] in *.
  destruct (code =? RC_NEXT)%Z; [discriminate H|].
  destruct (code =? RC_DATA_NEXT)%Z; [discriminate H|].
  cbn [orb] in *. destruct (code =? RC_HOLD)%Z eqn:E; [|reflexivity].
  apply Z.eqb_eq in E. contradiction.
Qed.

Lemma write_never_list : forall code, spec_action K_WRITE ATCMD code <> A_LIST.
Proof.
  intros code. unfold spec_action.
  destruct ((code =? RC_OK)%Z || (code =? RC_DATA_OK)%Z); [discriminate|].
  destruct ((code =? RC_NEXT)%Z || (code =? RC_DATA_NEXT)%Z); [discriminate|].
  destruct (code =? RC_HOLD)%Z; discriminate.
Qed.

(* what process_run_loop does with the handler's return code: Lemmas_E2Ec.run_next *)
Lemma rnext_again : forall D code s, terminal (spec_action K_RUN ATCMD code) = false ->
  Lemmas_E2Ec.run_next D code s = s.
Proof.
  intros D code s H. unfold spec_action in H. unfold Lemmas_E2Ec.run_next.
  destruct (code =? RC_OK)%Z; [discriminate H|]. destruct (code =? RC_DATA_OK)%Z; [discriminate H|].
  cbn [orb] in *.
  destruct (code =? RC_NEXT)%Z; [rewrite orb_true_r; reflexivity|].
  destruct (code =? RC_DATA_NEXT)%Z; [reflexivity|].
  cbn [orb] in *. destruct (code =? RC_HOLD)%Z; [discriminate H|].
  destruct (code =? RC_PRINT_CMD_LIST_OK)%Z; discriminate H.
Qed.

Lemma rnext_end : forall D code s, terminal (spec_action K_RUN ATCMD code) = true -> code <> RC_HOLD ->
  spec_action K_RUN ATCMD code <> A_LIST ->
  Lemmas_E2Ec.run_next D code s =
  match spec_action K_RUN ATCMD code with A_OK => ack_ok s | _ => ack_error s end.
Proof.
  intros D code s H Hnh Hnl. unfold spec_action in *. unfold Lemmas_E2Ec.run_next.
  destruct (code =? RC_OK)%Z; [reflexivity|]. destruct (code =? RC_DATA_OK)%Z; [reflexivity|].
  cbn [orb] in *.
  destruct (code =? RC_NEXT)%Z; [discriminate H|].
  destruct (code =? RC_DATA_NEXT)%Z; [discriminate H|].
  cbn [orb] in *. destruct (code =? RC_HOLD)%Z eqn:E; [apply Z.eqb_eq in E; contradiction|].
  destruct (code =? RC_PRINT_CMD_LIST_OK)%Z; [exfalso; apply Hnl; reflexivity | reflexivity].
Qed.

Lemma run_not_list : forall code, code <> RC_PRINT_CMD_LIST_OK -> spec_action K_RUN ATCMD code <> A_LIST.
Proof.
  intros code Hn. unfold spec_action.
  destruct ((code =? RC_OK)%Z || (code =? RC_DATA_OK)%Z); [discriminate|].
  destruct ((code =? RC_NEXT)%Z || (code =? RC_DATA_NEXT)%Z); [discriminate|].
  destruct (code =? RC_HOLD)%Z; [discriminate|].
  destruct (code =? RC_PRINT_CMD_LIST_OK)%Z eqn:E; [|discriminate].
  apply Z.eqb_eq in E. contradiction.
Qed.

(* the loop states *)
Definition wloop (i : nat) (args : list N) (s : state) : Prop :=
  k_state (k s) = CS_WRITE_LOOP /\ k_cmd (k s) = Some i /\ k_length (k s) = length args /\
  firstn (S (length args)) (cbuf s) = args ++ [0%N] /\ k_index (k s) = 0.
Definition rloop (i : nat) (s : state) : Prop := k_state (k s) = CS_RUN_LOOP /\ k_cmd (k s) = Some i.

Lemma wloop_mem : forall i args m s, wloop i args s -> wloop i args (set_mem m s).
Proof. intros i args m s H. exact H. Qed.
Lemma rloop_mem : forall i m s, rloop i s -> rloop i (set_mem m s).
Proof. intros i m s H. exact H. Qed.

Section Calls.
Variable D : desc.
Hypothesis Hmx : d_mutex D = false.
Local Notation cmdsvc := (cmd_service D sio smu shs s_read s_write s_lock s_unlock s_call).

(* the service call in CS_WRITE_LOOP *)
Lemma write_call : forall s q h t i r h', idle s -> k_state (k s) = CS_WRITE_LOOP -> k_cmd (k s) = Some i ->
  s_call h (wq i s) = (h', r) -> r_calls r = [] ->
  svc D (mkw s q h t) =
  mkw (wnext (r_code r) (fold_left apply_poke (r_pokes r) s)) q h'
      (ERet OService ST_BUSY :: ECall (wq i s) (r_code r) :: t).
Proof.
  intros s q h t i r h' Hi Hs Hk Hcall Hc.
  assert (E : cmdsvc (mkw s q h t) =
              (mkw (wnext (r_code r) (fold_left apply_poke (r_pokes r) s)) q h'
                   (ECall (wq i s) (r_code r) :: t), ST_BUSY)).
  { unfold cmd_service. cbn [Fsm.st mkw]. rewrite Hs. unfold process_write_loop. cbn [Fsm.st mkw g_cmd].
    rewrite Hk. unfold call_h. cbn [Fsm.hs mkw].
    match goal with |- context [s_call h ?x] => change x with (wq i s) end.
    rewrite Hcall, Hc. reflexivity. }
  rewrite (Lemmas_C02e.svc_busy D Hmx (mkw s q h t) _ Hi E). reflexivity.
Qed.

Lemma write_call_loop : forall i args s q h t r h', idle s -> wloop i args s ->
  s_call h (HWrite i (args ++ [0%N]) (length args) 0) = (h', r) -> r_calls r = [] ->
  svc D (mkw s q h t) =
  mkw (wnext (r_code r) (fold_left apply_poke (r_pokes r) s)) q h'
      (ERet OService ST_BUSY :: ECall (HWrite i (args ++ [0%N]) (length args) 0) (r_code r) :: t).
Proof.
  intros i args s q h t r h' Hi (Ls & Lc & Ll & Lb & Lx) Hcall Hc.
  assert (Hq : wq i s = HWrite i (args ++ [0%N]) (length args) 0).
  { unfold wq. rewrite Ll, Lb, Lx. reflexivity. }
  rewrite <- Hq in Hcall |- *. exact (write_call s q h t i r h' Hi Ls Lc Hcall Hc).
Qed.

(* the service call in CS_RUN_LOOP, stores allowed *)
Lemma run_call_loop : forall i s q h t r h', idle s -> rloop i s ->
  s_call h (HRun i) = (h', r) -> r_calls r = [] ->
  svc D (mkw s q h t) =
  mkw (Lemmas_E2Ec.run_next D (r_code r) (fold_left apply_poke (r_pokes r) s)) q h'
      (ERet OService ST_BUSY :: ECall (HRun i) (r_code r) :: t).
Proof.
  intros i s q h t r h' Hi (Hs & Hk) Hcall Hc.
  assert (E : cmdsvc (mkw s q h t) =
              (mkw (Lemmas_E2Ec.run_next D (r_code r) (fold_left apply_poke (r_pokes r) s)) q h'
                   (ECall (HRun i) (r_code r) :: t), ST_BUSY)).
  { unfold cmd_service. cbn [Fsm.st mkw]. rewrite Hs. unfold process_run_loop. cbn [Fsm.st mkw g_cmd].
    rewrite Hk. unfold call_h. cbn [Fsm.hs mkw]. rewrite Hcall, Hc. reflexivity. }
  rewrite (Lemmas_C02e.svc_busy D Hmx (mkw s q h t) _ Hi E). reflexivity.
Qed.

(* the two handler phases *)
Definition write_phase (i : nat) (args : list N) :=
  phase D Hmx K_WRITE (HWrite i (args ++ [0%N]) (length args) 0) (wloop i args) wnext
        (wloop_mem i args) (write_call_loop i args) wnext_again wnext_end.
Definition run_phase (i : nat) :=
  phase D Hmx K_RUN (HRun i) (rloop i) (Lemmas_E2Ec.run_next D)
        (rloop_mem i) (run_call_loop i) (rnext_again D) (rnext_end D).
End Calls.

(* ================= 3. frame facts for the head of a WRITE line ================= *)
Lemma pca_cmd : forall D ch s, ch <> ch_LF -> k_cmd (k (pca_body D ch s)) = k_cmd (k s).
Proof.
  intros D ch s H. apply N.eqb_neq in H. unfold pca_body. rewrite H.
  Lemmas_E2Ec.P2.brk2; reflexivity.
Qed.

Lemma args_feed_cmd : forall D bs s, ~ In ch_LF bs -> k_cmd (k (args_feed D s bs)) = k_cmd (k s).
Proof.
  intros D. induction bs as [|b bs IH]; intros s H; [reflexivity|].
  unfold args_feed. cbn [fold_left]. fold (args_feed D (args_byte D s b) bs).
  rewrite IH by (intro X; apply H; right; exact X).
  unfold args_byte. destruct (cstate_beq (k_state (k s)) CS_PARSE_COMMAND_ARGS); [|reflexivity].
  rewrite pca_cmd by (intro X; apply H; left; congruence). reflexivity.
Qed.

Lemma found_write_cmd : forall D s c, cmd_of D ATCMD s = Some c -> k_type (k s) = T_WRITE ->
  k_cmd (k (command_found D s)) = k_cmd (k s).
Proof.
  intros D s c Hc Hty. unfold command_found. rewrite Hc, Hty.
  destruct (cbuf (setk_length 0 s)); reflexivity.
Qed.

(* the line feed that ends the arguments of a command without writable variable: on to the write handler *)
Definition wl_entry (s : state) : state :=
  set_gL (S (gL s)) (setk_char ch_LF s) |> setk_index 0 |> setk_state CS_WRITE_LOOP.

Lemma pca_lf_wl : forall D, d_mutex D = false -> forall s q c, idle s ->
  k_state (k s) = CS_PARSE_COMMAND_ARGS -> cmd_of D ATCMD s = Some c ->
  c_only_test c = false -> vars_access_possible c WO = false -> c_hwrite c = true ->
  Lemmas_C02e.steps D 1 s (ch_LF :: q) (wl_entry s) q.
Proof.
  intros D Hmx s q c Hi Hs Hc Hot Hnv Hhw.
  pose proof (Lemmas_E2E.pca_step D Hmx s ch_LF q Hi Hs) as S1.
  assert (Hrd : Lemmas_C02e.rd_state s ch_LF = set_gL (S (gL s)) (setk_char ch_LF s)).
  { unfold Lemmas_C02e.rd_state. rewrite Hs. reflexivity. }
  rewrite Hrd in S1. change (k_char (k (set_gL (S (gL s)) (setk_char ch_LF s)))) with ch_LF in S1.
  assert (E : pca_body D ch_LF (set_gL (S (gL s)) (setk_char ch_LF s)) = wl_entry s).
  { unfold pca_body.
    change (cmd_of D ATCMD (set_gL (S (gL s)) (setk_char ch_LF s))) with (cmd_of D ATCMD s).
    rewrite Hc. change (ch_LF =? ch_LF)%N with true. cbv iota.
    rewrite Hot, Hnv, Hhw. reflexivity. }
  rewrite E in S1. exact S1.
Qed.

(* a name made of name characters holds no carriage return *)
Lemma chars_no_cr : forall l, Lemmas_C02e.chars_ok l = true -> no_cr l = l /\ has_cr l = false.
Proof.
  induction l as [|x l IH]; intros H; [split; reflexivity|].
  unfold Lemmas_C02e.chars_ok in H. cbn [forallb] in H. apply andb_true_iff in H. destruct H as [Hx Hl].
  destruct (IH Hl) as [A B].
  pose proof (Lemmas_E2Ec.name_char_not_cr _ Hx) as E. rewrite Lemmas_E2Ec.P2.upper_cr in E.
  split.
  - rewrite (Lemmas_E2Ec.P2.no_cr_cons_other x l E), A. reflexivity.
  - unfold Lemmas_E2Ec.has_cr. cbn [existsb]. rewrite E. exact B.
Qed.

Lemma name_ok_no_cr : forall name, name_ok name = true -> no_cr name = name /\ has_cr name = false.
Proof. intros name H. apply chars_no_cr. exact (proj2 (Lemmas_C02e.name_ok_split name H)). Qed.

Lemma no_cr_has_cr : forall bs, ~ In ch_CR bs -> has_cr bs = false.
Proof.
  induction bs as [|b bs IH]; intros H; [reflexivity|].
  unfold Lemmas_E2Ec.has_cr. cbn [existsb]. fold (has_cr bs).
  rewrite IH by (intro X; apply H; right; exact X).
  replace (b =? ch_CR)%N with false; [reflexivity|].
  symmetry. apply N.eqb_neq. intro X. apply H. left. congruence.
Qed.

(* ================= 4. the whole lines ================= *)
Section Lines.
Variable D : desc.
Hypothesis Hmx : d_mutex D = false.
Local Notation n := (ncmds D).
Variable s : state.
Hypothesis Hn : 0 < n.
Hypothesis HL : n <= 4 * length (cbuf s).
Hypothesis H6 : 6 <= length (cbuf s).
Hypothesis Hf : fault s = false.
Hypothesis Hst : k_state (k s) = CS_IDLE.
Hypothesis Hcr : k_cr (k s) = false.
Hypothesis Himp : k_implicit (k s) = false.
Hypothesis Hhold : k_hold (k s) = false.
Hypothesis Hidle : idle s.

(* what the finished line leaves behind *)
Definition finished (m : list (list N)) (s4 : state) : Prop :=
  k_state (k s4) = CS_IDLE /\ mem s4 = m /\ fault s4 = false /\ u s4 = u s /\
  gL s4 = S (gL s) /\ gS s4 = S (gS s) /\ gR s4 = S (gR s) /\ k_cr (k s4) = false.

(* AT name = bs LF, typed as a terminal sends it, served by the command's write handler *)
Lemma write_handler_line_hsteps : forall a m0 t name' bs rest h i c rs rn more,
  to_upper a = ch_A -> to_upper t = ch_T ->
  name_ok (no_cr name') = true -> implicit_hit D s (upper (no_cr name')) = false ->
  resolve (upper (no_cr name')) (enabled D s) (cmds D) = Some i -> nth_error (cmds D) i = Some c ->
  c_hwrite c = true -> vars_access_possible c WO = false -> c_only_test c = false ->
  ~ In ch_LF bs -> length (no_cr bs) < length (cbuf s) ->
  (test_shortcut c = true -> match no_cr bs with q :: _ => q <> ch_QM | [] => True end) ->
  script_of h (0, i, 0) = rs ++ rn :: more ->
  (forall r, In r rs -> terminal (spec_action K_WRITE ATCMD (r_code r)) = false) ->
  terminal (spec_action K_WRITE ATCMD (r_code rn)) = true -> r_code rn <> RC_HOLD ->
  (forall r, In r (rs ++ [rn]) -> r_calls r = []) ->
  let args := no_cr bs in
  let nl := nl_of (crflag m0 name' || has_cr bs) in
  exists calls s4,
    hsteps D calls s (tline a m0 t name' ++ [ch_EQ] ++ bs ++ [ch_LF] ++ rest) h s4 rest
      (drop_script h (0, i, 0) (S (length rs)))
      (map (fun r => (HWrite i (args ++ [0%N]) (length args) 0, r_code r)) (rs ++ [rn]))
      (nl ++ ans K_WRITE (r_code rn) ++ nl) /\
    finished (pokes_mem (flat_map r_pokes (rs ++ [rn])) (mem s)) s4.
Proof.
  intros a m0 t name' bs rest h i c rs rn more Ha Ht Hok Hh Hres Hc Hhw Hnv Hot Hnlf Hfit Hq Hsc Hcont
         Hterm Hnh Hcl args nl.
  (* 1. dispatch *)
  destruct (Lemmas_E2Ec.dispatch_eq_g D Hmx s Hn HL Hf Hst Himp Hidle a m0 t name' (bs ++ [ch_LF] ++ rest)
              Ha Ht Hok Hh) as (c1 & _ & H1 & (M2 & F2 & U2 & R2) & S2).
  cbv zeta in H1, M2, F2, U2, R2, S2. rewrite Hcr in H1, M2, F2, U2, R2, S2.
  cbn [orb] in H1, M2, F2, U2, R2, S2.
  set (s2 := Lemmas_E2Ec.found_state D s (upper (no_cr name')) ch_EQ T_WRITE (crflag m0 name') (gL s)) in *.
  rewrite Hres in R2. destruct R2 as (A1 & A2 & A3 & A4).
  unfold Lemmas_E2E.six in S2.
  assert (G2 : gL s2 = gL s /\ gS s2 = gS s /\ gR s2 = gR s /\ k_cr (k s2) = crflag m0 name' /\
               k_hold (k s2) = false /\ length (cbuf s2) = length (cbuf s)).
  { repeat split; congruence. }
  destruct G2 as (gl2 & gs2 & gr2 & cr2 & ho2 & len2).
  pose proof (Lemmas_E2E.cmd_at_of_cmds D i c Hc) as Hc'.
  assert (Hi2 : idle s2) by (apply (Lemmas_C02e.idle_of_u s); assumption).
  assert (Hcmd2 : cmd_of D ATCMD s2 = Some c) by (unfold cmd_of, g_cmd; rewrite A2; exact Hc').
  (* 2. the call in CS_COMMAND_FOUND *)
  pose proof (Lemmas_E2E.found_write_step D Hmx s2 (bs ++ [ch_LF] ++ rest) Hi2 A1) as H2.
  destruct (Lemmas_C06.C06_entry D s2 c Hcmd2 A3 ltac:(unfold asz; lia))
    as (E1 & E2 & E3 & E4 & E5 & E6 & E7 & E8).
  destruct (Lemmas_E2E.found_write_pre D s2 c Hcmd2 A3) as ((u3 & gl3 & gr3 & cr3 & ho3) & gs3 & _).
  pose proof (found_write_cmd D s2 c Hcmd2 A3) as Kc3.
  set (s3 := command_found D s2) in *.
  assert (Hi3 : idle s3) by (apply (Lemmas_C02e.idle_of_u s2); assumption).
  unfold asz in E5.
  (* 3. the argument bytes, carriage returns included *)
  destruct (Lemmas_E2Ec.P2.feed_steps D Hmx c bs s3 ([ch_LF] ++ rest) Hi3 E1 E2 E3 ltac:(unfold asz; lia)
              ltac:(congruence) E4 Hnlf Hq ltac:(unfold asz; lia)) as (H3 & K5).
  pose proof (Lemmas_C06.C06_collect D s3 c bs E1 E2 E3 ltac:(unfold asz; lia) ltac:(congruence) E4 Hnlf Hq)
    as HC.
  cbv zeta in HC. fold args in HC.
  destruct HC as (F5 & M5 & C5 & HC).
  replace (length args <? asz s3) with true in HC by (symmetry; apply Nat.ltb_lt; unfold asz, args; lia).
  destruct HC as (S5 & L5 & B5 & LEN5 & CR5).
  pose proof (args_feed_cmd D bs s3 Hnlf) as Kc5.
  set (s5 := args_feed D s3 bs) in *.
  destruct K5 as (u5 & gl5 & gs5 & gr5 & ho5 & _).
  assert (Hi5 : idle s5) by (apply (Lemmas_C02e.idle_of_u s3); [exact u5 | exact Hi3]).
  (* 4. the line feed *)
  pose proof (pca_lf_wl D Hmx s5 rest c Hi5 S5 C5 Hot Hnv Hhw) as H4.
  set (s6 := wl_entry s5) in *.
  assert (Hi6 : idle s6) by exact Hi5.
  assert (HP6 : wloop i args s6).
  { unfold wloop. split; [reflexivity|]. split; [exact (eq_trans Kc5 (eq_trans Kc3 A2))|].
    split; [exact L5|]. split; [exact B5 | reflexivity]. }
  assert (cr6 : k_cr (k s6) = (crflag m0 name' || has_cr bs)).
  { change (k_cr (k s6)) with (k_cr (k s5)). rewrite CR5, E8, cr2. reflexivity. }
  (* 5. the handler calls, the result code *)
  destruct (write_phase D Hmx i args rs rn s6 rest h more Hi6 HP6)
    as (m5 & s7 & H5 & R1 & R2 & R3 & R4 & R5 & R6 & R7 & R8 & _).
  { change (k_hold (k s6)) with (k_hold (k s5)). congruence. }
  { change (cbuf s6) with (cbuf s5). lia. }
  { exact Hsc. }
  { exact Hcont. }
  { exact Hterm. }
  { exact Hnh. }
  { apply write_never_list. }
  { exact Hcl. }
  cbv zeta in H5. rewrite cr6 in H5. fold nl in H5.
  exists (((c1 + 1) + (length bs + 1)) + m5), s7. split.
  - eapply Lemmas_E2Ec.P3.hsteps_cast;
      [exact (Lemmas_E2Ec.P3.hsteps_trans D _ _ _ _ _ _ _ _ _ _ _ _ _ _ _
               (Lemmas_E2Ec.P3.hsteps_of_osteps D _ _ _ _ _ _ h
                  (Lemmas_E2E.osteps_of_steps D _ _ _ _ _
                     (Lemmas_C02e.steps_trans D _ _ _ _ _ _ _ _
                        (Lemmas_C02e.steps_trans D _ _ _ _ _ _ _ _ H1 H2)
                        (Lemmas_C02e.steps_trans D _ _ _ _ _ _ _ _ H3 H4))))
               H5)
      | reflexivity | reflexivity | reflexivity].
  - unfold finished.
    change (mem (set_mem (pokes_mem (flat_map r_pokes (rs ++ [rn])) (mem s6)) s6))
      with (pokes_mem (flat_map r_pokes (rs ++ [rn])) (mem s5)) in R2.
    change (fault (set_mem (pokes_mem (flat_map r_pokes (rs ++ [rn])) (mem s6)) s6)) with (fault s5) in R3.
    change (u (set_mem (pokes_mem (flat_map r_pokes (rs ++ [rn])) (mem s6)) s6)) with (u s5) in R4.
    change (gL (set_mem (pokes_mem (flat_map r_pokes (rs ++ [rn])) (mem s6)) s6)) with (S (gL s5)) in R5.
    change (gS (set_mem (pokes_mem (flat_map r_pokes (rs ++ [rn])) (mem s6)) s6)) with (gS s5) in R6.
    change (gR (set_mem (pokes_mem (flat_map r_pokes (rs ++ [rn])) (mem s6)) s6)) with (gR s5) in R7.
    split; [exact R1|]. split; [rewrite R2, M5, E7, M2; reflexivity|].
    split; [congruence|]. split; [congruence|]. split; [congruence|]. split; [congruence|].
    split; [congruence | exact R8].
Qed.

(* AT name LF, typed as a terminal sends it, served by the command's run handler *)
Lemma run_handler_line_hsteps : forall a m0 t name' rest h i c rs rn more,
  to_upper a = ch_A -> to_upper t = ch_T ->
  name_ok (no_cr name') = true -> implicit_hit D s (upper (no_cr name')) = false ->
  resolve (upper (no_cr name')) (enabled D s) (cmds D) = Some i -> nth_error (cmds D) i = Some c ->
  c_hrun c = true -> c_only_test c = false ->
  script_of h (2, i, 0) = rs ++ rn :: more ->
  (forall r, In r rs -> terminal (spec_action K_RUN ATCMD (r_code r)) = false) ->
  terminal (spec_action K_RUN ATCMD (r_code rn)) = true -> r_code rn <> RC_HOLD ->
  r_code rn <> RC_PRINT_CMD_LIST_OK ->
  (forall r, In r (rs ++ [rn]) -> r_calls r = []) ->
  let nl := nl_of (crflag m0 name') in
  exists calls s4,
    hsteps D calls s (tline a m0 t name' ++ [ch_LF] ++ rest) h s4 rest
      (drop_script h (2, i, 0) (S (length rs)))
      (map (fun r => (HRun i, r_code r)) (rs ++ [rn]))
      (nl ++ ans K_RUN (r_code rn) ++ nl) /\
    finished (pokes_mem (flat_map r_pokes (rs ++ [rn])) (mem s)) s4.
Proof.
  intros a m0 t name' rest h i c rs rn more Ha Ht Hok Hh Hres Hc Hrun Hot Hsc Hcont Hterm Hnh Hnl Hcl nl.
  destruct (Lemmas_E2Ec.dispatch_lf_g D Hmx s Hn HL Hf Hst Himp Hidle a m0 t name' rest Ha Ht Hok Hh)
    as (c1 & _ & H1 & (M2 & F2 & U2 & R2) & S2).
  cbv zeta in H1, M2, F2, U2, R2, S2. rewrite Hcr in H1, M2, F2, U2, R2, S2.
  cbn [orb] in H1, M2, F2, U2, R2, S2.
  set (s2 := Lemmas_E2Ec.found_state D s (upper (no_cr name')) ch_LF T_RUN (crflag m0 name') (S (gL s))) in *.
  rewrite Hres in R2. destruct R2 as (A1 & A2 & A3 & A4).
  unfold Lemmas_E2E.six in S2.
  assert (G2 : gL s2 = S (gL s) /\ gS s2 = gS s /\ gR s2 = gR s /\ k_cr (k s2) = crflag m0 name' /\
               k_hold (k s2) = false /\ length (cbuf s2) = length (cbuf s)).
  { repeat split; congruence. }
  destruct G2 as (gl2 & gs2 & gr2 & cr2 & ho2 & len2).
  pose proof (Lemmas_E2E.cmd_at_of_cmds D i c Hc) as Hc'.
  assert (Hi2 : idle s2) by (apply (Lemmas_C02e.idle_of_u s); assumption).
  pose proof (Lemmas_E2Ec.found_run_step D Hmx s2 rest i c Hi2 A1 A2 Hc' A3 Hot Hrun) as H2.
  set (s3 := setk_state CS_RUN_LOOP s2) in *.
  assert (Hi3 : idle s3) by exact Hi2.
  assert (HP3 : rloop i s3) by (split; [reflexivity | exact A2]).
  destruct (run_phase D Hmx i rs rn s3 rest h more Hi3 HP3)
    as (m5 & s7 & H5 & R1 & R2 & R3 & R4 & R5 & R6 & R7 & R8 & _).
  { exact ho2. }
  { change (cbuf s3) with (cbuf s2). lia. }
  { exact Hsc. }
  { exact Hcont. }
  { exact Hterm. }
  { exact Hnh. }
  { apply run_not_list. exact Hnl. }
  { exact Hcl. }
  cbv zeta in H5. change (k_cr (k s3)) with (k_cr (k s2)) in H5. rewrite cr2 in H5. fold nl in H5.
  exists ((c1 + 1) + m5), s7. split.
  - eapply Lemmas_E2Ec.P3.hsteps_cast;
      [exact (Lemmas_E2Ec.P3.hsteps_trans D _ _ _ _ _ _ _ _ _ _ _ _ _ _ _
               (Lemmas_E2Ec.P3.hsteps_of_osteps D _ _ _ _ _ _ h
                  (Lemmas_E2E.osteps_trans D _ _ _ _ _ _ _ _ _ _
                     (Lemmas_E2E.osteps_of_steps D _ _ _ _ _ H1) H2))
               H5)
      | reflexivity | reflexivity | reflexivity].
  - unfold finished.
    change (mem (set_mem (pokes_mem (flat_map r_pokes (rs ++ [rn])) (mem s3)) s3))
      with (pokes_mem (flat_map r_pokes (rs ++ [rn])) (mem s2)) in R2.
    change (fault (set_mem (pokes_mem (flat_map r_pokes (rs ++ [rn])) (mem s3)) s3)) with (fault s2) in R3.
    change (u (set_mem (pokes_mem (flat_map r_pokes (rs ++ [rn])) (mem s3)) s3)) with (u s2) in R4.
    change (gL (set_mem (pokes_mem (flat_map r_pokes (rs ++ [rn])) (mem s3)) s3)) with (gL s2) in R5.
    change (gS (set_mem (pokes_mem (flat_map r_pokes (rs ++ [rn])) (mem s3)) s3)) with (gS s2) in R6.
    change (gR (set_mem (pokes_mem (flat_map r_pokes (rs ++ [rn])) (mem s3)) s3)) with (gR s2) in R7.
    split; [exact R1|]. split; [rewrite R2, M2; reflexivity|].
    split; [congruence|]. split; [congruence|]. split; [congruence|]. split; [congruence|].
    split; [congruence | exact R8].
Qed.

End Lines.

(* ================= the final statements ================= *)
Lemma calls_combine : forall (Q : hreq) (rs : list hres) rn,
  map (fun r => (Q, r_code r)) (rs ++ [rn]) = combine (repeat Q (S (length rs))) (map r_code (rs ++ [rn])).
Proof.
  intros Q rs rn.
  replace (S (length rs)) with (length (rs ++ [rn])) by (rewrite app_length; cbn [length]; lia).
  symmetry. apply Lemmas_E2Ec.P3.combine_repeat_map.
Qed.

(* 1t. the WRITE line as a terminal sends it *)
Theorem E2E_write_handler_line_t_proof : forall D s a m0 t name' bs rest h i c rs rn more,
  d_mutex D = false -> 0 < ncmds D -> ncmds D <= 4 * length (cbuf s) -> 6 <= length (cbuf s) ->
  fault s = false ->
  k_state (k s) = CS_IDLE -> k_cr (k s) = false -> k_implicit (k s) = false -> k_hold (k s) = false ->
  u_state (u s) = US_IDLE -> u_count (u s) = 0 ->
  to_upper a = ch_A -> to_upper t = ch_T ->
  name_ok (no_cr name') = true -> implicit_hit D s (upper (no_cr name')) = false ->
  resolve (upper (no_cr name')) (enabled D s) (cmds D) = Some i -> nth_error (cmds D) i = Some c ->
  c_hwrite c = true -> vars_access_possible c WO = false -> c_only_test c = false ->
  ~ In ch_LF bs ->
  let args := no_cr bs in
  length args < length (cbuf s) ->
  (test_shortcut c = true -> match args with q :: _ => q <> ch_QM | [] => True end) ->
  script_of h (0, i, 0) = rs ++ rn :: more ->
  (forall r, In r rs -> terminal (spec_action K_WRITE ATCMD (r_code r)) = false) ->
  terminal (spec_action K_WRITE ATCMD (r_code rn)) = true -> r_code rn <> RC_HOLD ->
  (forall r, In r (rs ++ [rn]) -> r_calls r = []) ->
  let nl := nl_of ((0 <? m0) || existsb (fun c => (c =? ch_CR)%N) name' || existsb (fun c => (c =? ch_CR)%N) bs) in
  let w0 := mkw s ([a] ++ repeat ch_CR m0 ++ [t] ++ name' ++ [ch_EQ] ++ bs ++ [ch_LF] ++ rest) h [] in
  exists calls, let w := nsvc D calls w0 in
    k_state (k (wst w)) = CS_IDLE /\ inq (wio w) = rest /\
    whs w = drop_script h (0, i, 0) (S (length rs)) /\
    GlueDefs.calls_of (wtr w) =
      combine (repeat (HWrite i (args ++ [0%N]) (length args) 0) (S (length rs))) (map r_code (rs ++ [rn])) /\
    mem (wst w) = pokes_mem (flat_map r_pokes (rs ++ [rn])) (mem s) /\ fault (wst w) = false /\
    GlueDefs.output_of (wtr w) =
      nl ++ match spec_action K_WRITE ATCMD (r_code rn) with A_OK => txt_OK | _ => txt_ERROR end ++ nl /\
    gL (wst w) = S (gL s) /\ gS (wst w) = S (gS s) /\ gR (wst w) = S (gR s) /\ k_cr (k (wst w)) = false.
Proof.
  intros D s a m0 t name' bs rest h i c rs rn more Hmx Hn HL H6 Hf Hst Hcr Himp Hhold Hu1 Hu2 Ha Ht Hok Hh
         Hres Hc Hhw Hnv Hot Hnlf args Hfit Hq Hsc Hcont Hterm Hnh Hcl nl w0.
  destruct (write_handler_line_hsteps D Hmx s Hn HL H6 Hf Hst Hcr Himp Hhold (conj Hu1 Hu2)
              a m0 t name' bs rest h i c rs rn more Ha Ht Hok Hh Hres Hc Hhw Hnv Hot Hnlf Hfit Hq Hsc Hcont
              Hterm Hnh Hcl)
    as (calls & s4 & H & L1 & L2 & L3 & L4 & L5 & L6 & L7 & L8).
  exists calls. intros w. rewrite Lemmas_E2Ec.tline_app in H.
  destruct (Lemmas_E2Ec.P3.hsteps_world D _ _ _ _ _ _ _ _ _ H) as (E1 & E2 & E3 & E4 & E5).
  fold w0 in E1, E2, E3, E4, E5. fold w in E1, E2, E3, E4, E5. rewrite E1.
  split; [exact L1|]. split; [exact E2|]. split; [exact E3|].
  split; [rewrite E4; apply calls_combine|].
  split; [exact L2|]. split; [exact L3|].
  split; [rewrite E5; reflexivity|].
  split; [exact L5|]. split; [exact L6|]. split; [exact L7 | exact L8].
Qed.

(* 1. the WRITE line in canonical form: AT name = bs LF without carriage returns *)
Theorem E2E_write_handler_line_proof : forall D s name bs rest h i c rs rn more,
  d_mutex D = false -> 0 < ncmds D -> ncmds D <= 4 * length (cbuf s) -> 6 <= length (cbuf s) ->
  fault s = false ->
  k_state (k s) = CS_IDLE -> k_cr (k s) = false -> k_implicit (k s) = false -> k_hold (k s) = false ->
  u_state (u s) = US_IDLE -> u_count (u s) = 0 ->
  name_ok name = true -> implicit_hit D s (upper name) = false ->
  resolve (upper name) (enabled D s) (cmds D) = Some i -> nth_error (cmds D) i = Some c ->
  c_hwrite c = true -> vars_access_possible c WO = false -> c_only_test c = false ->
  ~ In ch_LF bs -> ~ In ch_CR bs -> length bs < length (cbuf s) ->
  (test_shortcut c = true -> match bs with q :: _ => q <> ch_QM | [] => True end) ->
  script_of h (0, i, 0) = rs ++ rn :: more ->
  (forall r, In r rs -> terminal (spec_action K_WRITE ATCMD (r_code r)) = false) ->
  terminal (spec_action K_WRITE ATCMD (r_code rn)) = true -> r_code rn <> RC_HOLD ->
  (forall r, In r (rs ++ [rn]) -> r_calls r = []) ->
  let w0 := mkw s ([ch_A; ch_T] ++ name ++ [ch_EQ] ++ bs ++ [ch_LF] ++ rest) h [] in
  exists calls, let w := nsvc D calls w0 in
    k_state (k (wst w)) = CS_IDLE /\ inq (wio w) = rest /\
    whs w = drop_script h (0, i, 0) (S (length rs)) /\
    GlueDefs.calls_of (wtr w) =
      combine (repeat (HWrite i (bs ++ [0%N]) (length bs) 0) (S (length rs))) (map r_code (rs ++ [rn])) /\
    mem (wst w) = pokes_mem (flat_map r_pokes (rs ++ [rn])) (mem s) /\ fault (wst w) = false /\
    GlueDefs.output_of (wtr w) =
      [ch_LF] ++ match spec_action K_WRITE ATCMD (r_code rn) with A_OK => txt_OK | _ => txt_ERROR end ++ [ch_LF] /\
    gL (wst w) = S (gL s) /\ gS (wst w) = S (gS s) /\ gR (wst w) = S (gR s).
Proof.
  intros D s name bs rest h i c rs rn more Hmx Hn HL H6 Hf Hst Hcr Himp Hhold Hu1 Hu2 Hok Hh Hres Hc
         Hhw Hnv Hot Hnlf Hncr Hfit Hq Hsc Hcont Hterm Hnh Hcl w0.
  destruct (name_ok_no_cr name Hok) as [N1 N2]. unfold Lemmas_E2Ec.has_cr in N2.
  pose proof (Lemmas_E2E.no_cr_id bs Hncr) as B1.
  pose proof (no_cr_has_cr bs Hncr) as B2. unfold Lemmas_E2Ec.has_cr in B2.
  pose proof (E2E_write_handler_line_t_proof D s ch_A 0 ch_T name bs rest h i c rs rn more
                Hmx Hn HL H6 Hf Hst Hcr Himp Hhold Hu1 Hu2 eq_refl eq_refl) as T.
  cbv zeta in T. rewrite N1, N2, B1, B2 in T.
  destruct (T Hok Hh Hres Hc Hhw Hnv Hot Hnlf Hfit Hq Hsc Hcont Hterm Hnh Hcl) as (calls & W).
  exists calls. cbv zeta.
  destruct W as (W1 & W2 & W3 & W4 & W5 & W6 & W7 & W8 & W9 & W10 & _).
  split; [exact W1|]. split; [exact W2|]. split; [exact W3|]. split; [exact W4|]. split; [exact W5|].
  split; [exact W6|]. split; [exact W7|]. split; [exact W8|]. split; [exact W9 | exact W10].
Qed.

(* 2t. the RUN line as a terminal sends it.  (An ending code PRINT_CMD_LIST_OK starts the list printer:
   Properties_C19e.E2E_list_line.) *)
Theorem E2E_run_handler_sequence_t_proof : forall D s a m0 t name' rest h i c rs rn more,
  d_mutex D = false -> 0 < ncmds D -> ncmds D <= 4 * length (cbuf s) -> 6 <= length (cbuf s) ->
  fault s = false ->
  k_state (k s) = CS_IDLE -> k_cr (k s) = false -> k_implicit (k s) = false -> k_hold (k s) = false ->
  u_state (u s) = US_IDLE -> u_count (u s) = 0 ->
  to_upper a = ch_A -> to_upper t = ch_T ->
  name_ok (no_cr name') = true -> implicit_hit D s (upper (no_cr name')) = false ->
  resolve (upper (no_cr name')) (enabled D s) (cmds D) = Some i -> nth_error (cmds D) i = Some c ->
  c_hrun c = true -> c_only_test c = false ->
  script_of h (2, i, 0) = rs ++ rn :: more ->
  (forall r, In r rs -> terminal (spec_action K_RUN ATCMD (r_code r)) = false) ->
  terminal (spec_action K_RUN ATCMD (r_code rn)) = true -> r_code rn <> RC_HOLD ->
  r_code rn <> RC_PRINT_CMD_LIST_OK ->
  (forall r, In r (rs ++ [rn]) -> r_calls r = []) ->
  let nl := nl_of ((0 <? m0) || existsb (fun c => (c =? ch_CR)%N) name') in
  let w0 := mkw s ([a] ++ repeat ch_CR m0 ++ [t] ++ name' ++ [ch_LF] ++ rest) h [] in
  exists calls, let w := nsvc D calls w0 in
    k_state (k (wst w)) = CS_IDLE /\ inq (wio w) = rest /\
    whs w = drop_script h (2, i, 0) (S (length rs)) /\
    GlueDefs.calls_of (wtr w) = combine (repeat (HRun i) (S (length rs))) (map r_code (rs ++ [rn])) /\
    mem (wst w) = pokes_mem (flat_map r_pokes (rs ++ [rn])) (mem s) /\ fault (wst w) = false /\
    GlueDefs.output_of (wtr w) =
      nl ++ match spec_action K_RUN ATCMD (r_code rn) with A_OK => txt_OK | _ => txt_ERROR end ++ nl /\
    gL (wst w) = S (gL s) /\ gS (wst w) = S (gS s) /\ gR (wst w) = S (gR s) /\ k_cr (k (wst w)) = false.
Proof.
  intros D s a m0 t name' rest h i c rs rn more Hmx Hn HL H6 Hf Hst Hcr Himp Hhold Hu1 Hu2 Ha Ht Hok Hh
         Hres Hc Hrun Hot Hsc Hcont Hterm Hnh Hnl Hcl nl w0.
  destruct (run_handler_line_hsteps D Hmx s Hn HL H6 Hf Hst Hcr Himp Hhold (conj Hu1 Hu2)
              a m0 t name' rest h i c rs rn more Ha Ht Hok Hh Hres Hc Hrun Hot Hsc Hcont Hterm Hnh Hnl Hcl)
    as (calls & s4 & H & L1 & L2 & L3 & L4 & L5 & L6 & L7 & L8).
  exists calls. intros w. rewrite Lemmas_E2Ec.tline_app in H.
  destruct (Lemmas_E2Ec.P3.hsteps_world D _ _ _ _ _ _ _ _ _ H) as (E1 & E2 & E3 & E4 & E5).
  fold w0 in E1, E2, E3, E4, E5. fold w in E1, E2, E3, E4, E5. rewrite E1.
  split; [exact L1|]. split; [exact E2|]. split; [exact E3|].
  split; [rewrite E4; apply calls_combine|].
  split; [exact L2|]. split; [exact L3|].
  split; [rewrite E5; reflexivity|].
  split; [exact L5|]. split; [exact L6|]. split; [exact L7 | exact L8].
Qed.

(* 2. the RUN line in canonical form: AT name LF *)
Theorem E2E_run_handler_sequence_proof : forall D s name rest h i c rs rn more,
  d_mutex D = false -> 0 < ncmds D -> ncmds D <= 4 * length (cbuf s) -> 6 <= length (cbuf s) ->
  fault s = false ->
  k_state (k s) = CS_IDLE -> k_cr (k s) = false -> k_implicit (k s) = false -> k_hold (k s) = false ->
  u_state (u s) = US_IDLE -> u_count (u s) = 0 ->
  name_ok name = true -> implicit_hit D s (upper name) = false ->
  resolve (upper name) (enabled D s) (cmds D) = Some i -> nth_error (cmds D) i = Some c ->
  c_hrun c = true -> c_only_test c = false ->
  script_of h (2, i, 0) = rs ++ rn :: more ->
  (forall r, In r rs -> terminal (spec_action K_RUN ATCMD (r_code r)) = false) ->
  terminal (spec_action K_RUN ATCMD (r_code rn)) = true -> r_code rn <> RC_HOLD ->
  r_code rn <> RC_PRINT_CMD_LIST_OK ->
  (forall r, In r (rs ++ [rn]) -> r_calls r = []) ->
  let w0 := mkw s ([ch_A; ch_T] ++ name ++ [ch_LF] ++ rest) h [] in
  exists calls, let w := nsvc D calls w0 in
    k_state (k (wst w)) = CS_IDLE /\ inq (wio w) = rest /\
    whs w = drop_script h (2, i, 0) (S (length rs)) /\
    GlueDefs.calls_of (wtr w) = combine (repeat (HRun i) (S (length rs))) (map r_code (rs ++ [rn])) /\
    mem (wst w) = pokes_mem (flat_map r_pokes (rs ++ [rn])) (mem s) /\ fault (wst w) = false /\
    GlueDefs.output_of (wtr w) =
      [ch_LF] ++ match spec_action K_RUN ATCMD (r_code rn) with A_OK => txt_OK | _ => txt_ERROR end ++ [ch_LF] /\
    gL (wst w) = S (gL s) /\ gS (wst w) = S (gS s) /\ gR (wst w) = S (gR s).
Proof.
  intros D s name rest h i c rs rn more Hmx Hn HL H6 Hf Hst Hcr Himp Hhold Hu1 Hu2 Hok Hh Hres Hc
         Hrun Hot Hsc Hcont Hterm Hnh Hnl Hcl w0.
  destruct (name_ok_no_cr name Hok) as [N1 N2]. unfold Lemmas_E2Ec.has_cr in N2.
  pose proof (E2E_run_handler_sequence_t_proof D s ch_A 0 ch_T name rest h i c rs rn more
                Hmx Hn HL H6 Hf Hst Hcr Himp Hhold Hu1 Hu2 eq_refl eq_refl) as T.
  cbv zeta in T. rewrite N1, N2 in T.
  destruct (T Hok Hh Hres Hc Hrun Hot Hsc Hcont Hterm Hnh Hnl Hcl) as (calls & W).
  exists calls. cbv zeta.
  destruct W as (W1 & W2 & W3 & W4 & W5 & W6 & W7 & W8 & W9 & W10 & _).
  split; [exact W1|]. split; [exact W2|]. split; [exact W3|]. split; [exact W4|]. split; [exact W5|].
  split; [exact W6|]. split; [exact W7|]. split; [exact W8|]. split; [exact W9 | exact W10].
Qed.

(* the handler state of the conclusions, read through script_of: the script of the handler of command i
   (kind 0 = write, 2 = run) has lost exactly the delivered results, every other script is unchanged *)
Theorem E2E_handler_line_script_proof : forall h kind i (rs : list hres) rn more,
  script_of h (kind, i, 0) = rs ++ rn :: more ->
  script_of (drop_script h (kind, i, 0) (S (length rs))) (kind, i, 0) = more /\
  forall key', key' <> (kind, i, 0) ->
    script_of (drop_script h (kind, i, 0) (S (length rs))) key' = script_of h key'.
Proof.
  intros h kind i rs rn more H. split.
  - replace (S (length rs)) with (length (rs ++ [rn])) by (rewrite app_length; cbn [length]; lia).
    apply script_after. rewrite <- app_assoc. exact H.
  - intros key' Hk. rewrite Lemmas_E2Ec.P3.script_of_drop.
    destruct (key_eqb (kind, i, 0) key') eqn:E; [|reflexivity].
    apply Lemmas_E2Ec.P3.key_eqb_eq in E. congruence.
Qed.
