(* Lemmas_C12c.v — property C12 (independence from io scheduling), P12-a: the FINAL output and the
   sequence of handler calls of a whole scripted run do not depend on the readiness schedules.
   Built on Lemmas_C12 (core of the scheduled run = core of an earlier point of the always-ready
   run), Lemmas_C15 (status OK = quiescent; quiescence is a fixpoint), Lemmas_C15c (quiescence is
   reached under every finite schedule) and Lemmas_C11 (the trace only grows).
   Statements: Properties_C12c.v. *)
From Coq Require Import List NArith ZArith Bool Arith Lia.
From CatV Require Import Bytes Defs Codec Fsm Script TraceDefs Skel SkelInv ResolveDefs SchedDefs
                         TermDefs GlueDefs.
From CatV Require Import Lemmas_C03.
From CatV Require Lemmas_C11 Lemmas_C12 Lemmas_C15 Lemmas_C15c.
Import ListNotations.
Local Open Scope nat_scope.

(* ================================================================== *)
(* 1. output_of / calls_of see only visible events                      *)
(* ================================================================== *)

Definition ev_out (e : event) : list N := match e with EWr _ ch true => [ch] | _ => [] end.
Definition ev_call (e : event) : list (hreq * Z) := match e with ECall q c => [(q, c)] | _ => [] end.

Lemma output_of_cons : forall e t, output_of (e :: t) = output_of t ++ ev_out e.
Proof.
  intros e t. unfold output_of. cbn [rev]. rewrite flat_map_app. cbn [flat_map].
  rewrite app_nil_r. reflexivity.
Qed.

Lemma calls_of_cons : forall e t, calls_of (e :: t) = calls_of t ++ ev_call e.
Proof.
  intros e t. unfold calls_of. cbn [rev]. rewrite flat_map_app. cbn [flat_map].
  rewrite app_nil_r. reflexivity.
Qed.

Lemma output_of_app : forall a b, output_of (a ++ b) = output_of b ++ output_of a.
Proof.
  intros a b. unfold output_of. rewrite rev_app_distr, flat_map_app. reflexivity.
Qed.

Lemma calls_of_app : forall a b, calls_of (a ++ b) = calls_of b ++ calls_of a.
Proof.
  intros a b. unfold calls_of. rewrite rev_app_distr, flat_map_app. reflexivity.
Qed.

Lemma invisible_out : forall e, visible e = false -> ev_out e = [] /\ ev_call e = [].
Proof.
  intros e H. destruct e as [r|a ch b|b|b|q c|c z|o z|ci t]; cbn in *;
    try discriminate H; try (split; reflexivity).
  destruct b; [discriminate H | split; reflexivity].
Qed.

Lemma output_of_vis : forall t, output_of (filter visible t) = output_of t.
Proof.
  induction t as [|e t IH]; [reflexivity|]. cbn [filter]. rewrite output_of_cons.
  destruct (visible e) eqn:V.
  - rewrite output_of_cons, IH. reflexivity.
  - destruct (invisible_out e V) as [H _]. rewrite H, app_nil_r. exact IH.
Qed.

Lemma calls_of_vis : forall t, calls_of (filter visible t) = calls_of t.
Proof.
  induction t as [|e t IH]; [reflexivity|]. cbn [filter]. rewrite calls_of_cons.
  destruct (visible e) eqn:V.
  - rewrite calls_of_cons, IH. reflexivity.
  - destruct (invisible_out e V) as [_ H]. rewrite H, app_nil_r. exact IH.
Qed.

Lemma vis_eq_output : forall t1 t2, filter visible t1 = filter visible t2 ->
  output_of t1 = output_of t2 /\ calls_of t1 = calls_of t2.
Proof.
  intros t1 t2 H. split.
  - rewrite <- (output_of_vis t1), <- (output_of_vis t2), H. reflexivity.
  - rewrite <- (calls_of_vis t1), <- (calls_of_vis t2), H. reflexivity.
Qed.

(* ================================================================== *)
(* 2. scripted worlds                                                   *)
(* ================================================================== *)

Section Scripted.
Variable D : desc.

Local Notation st := (Fsm.st sio smu shs).
Local Notation io := (Fsm.io sio smu shs).
Local Notation mu := (Fsm.mu sio smu shs).
Local Notation hs := (Fsm.hs sio smu shs).
Local Notation tr := (Fsm.tr sio smu shs).
Local Notation logw := (Fsm.logw sio smu shs).
Local Notation set_io := (Fsm.set_io sio smu shs).
Local Notation sdo := (Fsm.do_op D sio smu shs s_read s_write s_lock s_unlock s_call).
Local Notation sbody := (Fsm.service_body D sio smu shs s_read s_write s_lock s_unlock s_call).
Local Notation s_cmd := (Fsm.cmd_service D sio smu shs s_read s_write s_lock s_unlock s_call).
Local Notation s_uns := (Fsm.unsolicited_events_service D sio smu shs s_write s_lock s_unlock s_call).
Local Notation quiet := Lemmas_C15.quiet.

Hypothesis Hmx : d_mutex D = false.

(* "status OK with the input consumed" is exactly the quiescent shape of Lemmas_C15 *)
Lemma ok_quiet : forall w : sworld,
  inq (io w) = [] -> snd (sdo w OService) = ST_OK -> quiet w.
Proof.
  intros w Hq Hok. cbn [Fsm.do_op] in Hok. unfold api_service, bracket in Hok. rewrite Hmx in Hok.
  destruct (sbody w) as [w' s] eqn:Hs. cbn [snd] in Hok. subst s.
  destruct (Lemmas_C15.body_ok_inv D sio smu shs s_read s_write s_lock s_unlock s_call w w' Hs)
    as (Hr & Hi & Hc & _).
  unfold Lemmas_C15.quiet. auto.
Qed.

Lemma quiet_ok : forall w : sworld, quiet w ->
  inq (io w) = [] /\ snd (sdo w OService) = ST_OK.
Proof.
  intros w Q. split; [apply Q|]. destruct (Lemmas_C15.quiet_svc D w Hmx Q) as (_ & _ & _ & H). exact H.
Qed.

(* a quiescent call logs one refused read and its own return record: nothing visible *)
Lemma quiet_svc_tr : forall w : sworld, quiet w ->
  filter visible (tr (svc D w)) = filter visible (tr w).
Proof.
  intros w (Hr & Hi & Hc & Hq).
  destruct (Lemmas_C15.s_read_empty (io w) Hq) as (x' & Hrd & _).
  pose proof (Lemmas_C15.body_quiescent D sio smu shs s_read s_write s_lock s_unlock s_call
                w x' Hr Hi Hc Hrd) as Hb.
  unfold svc, step. cbn [Fsm.do_op]. unfold api_service, bracket. rewrite Hmx, Hb.
  reflexivity.
Qed.

Lemma nsvc_S : forall n (w : sworld), nsvc D (S n) w = nsvc D n (svc D w).
Proof. reflexivity. Qed.

Lemma nsvc_add : forall n j (w : sworld), nsvc D (n + j) w = nsvc D j (nsvc D n w).
Proof.
  induction n as [|n IH]; intros j w; [reflexivity|].
  cbn [Nat.add]. rewrite !nsvc_S. apply IH.
Qed.

Lemma quiet_nsvc_full : forall j (w : sworld), quiet w ->
  quiet (nsvc D j w) /\ st (nsvc D j w) = st w /\ hs (nsvc D j w) = hs w /\
  filter visible (tr (nsvc D j w)) = filter visible (tr w).
Proof.
  induction j as [|j IH]; intros w Q.
  - cbn. auto.
  - rewrite nsvc_S. destruct (Lemmas_C15.quiet_svc D w Hmx Q) as (Q1 & A & B & _).
    pose proof (quiet_svc_tr w Q) as T.
    destruct (IH _ Q1) as (Q2 & A2 & B2 & T2).
    split; [exact Q2|]. repeat split; congruence.
Qed.

(* ---- T3: the quiescent point is final ---- *)
Theorem stable_world : forall (w : sworld) j,
  inq (io w) = [] -> snd (sdo w OService) = ST_OK ->
  output_of (tr (nsvc D j w)) = output_of (tr w) /\
  calls_of (tr (nsvc D j w)) = calls_of (tr w) /\
  st (nsvc D j w) = st w /\ hs (nsvc D j w) = hs w /\
  inq (io (nsvc D j w)) = [] /\ snd (sdo (nsvc D j w) OService) = ST_OK.
Proof.
  intros w j Hq Hok. pose proof (ok_quiet w Hq Hok) as Q.
  destruct (quiet_nsvc_full j w Q) as (Q2 & A & B & T).
  destruct (vis_eq_output _ _ T) as [O C]. destruct (quiet_ok _ Q2) as [I S].
  repeat split; assumption.
Qed.

Theorem C12_final_output_stable_s : forall (w : sworld) n j,
  inq (io (nsvc D n w)) = [] -> snd (sdo (nsvc D n w) OService) = ST_OK ->
  output_of (tr (nsvc D (n + j) w)) = output_of (tr (nsvc D n w)) /\
  calls_of (tr (nsvc D (n + j) w)) = calls_of (tr (nsvc D n w)) /\
  st (nsvc D (n + j) w) = st (nsvc D n w) /\ hs (nsvc D (n + j) w) = hs (nsvc D n w) /\
  inq (io (nsvc D (n + j) w)) = [] /\ snd (sdo (nsvc D (n + j) w) OService) = ST_OK.
Proof. intros w n j Hq Hok. rewrite nsvc_add. apply stable_world; assumption. Qed.

(* ---- from equal cores to equal final outputs ---- *)
Lemma final_from_core : forall w1 w2 : sworld, core w1 = core w2 ->
  inq (io w1) = [] -> snd (sdo w1 OService) = ST_OK ->
  inq (io w2) = [] /\ snd (sdo w2 OService) = ST_OK /\
  output_of (tr w1) = output_of (tr w2) /\ calls_of (tr w1) = calls_of (tr w2) /\
  st w1 = st w2 /\ hs w1 = hs w2.
Proof.
  intros w1 w2 Hc Hq Hok. unfold core in Hc. inversion Hc as [[A B C E]].
  destruct (ok_quiet w1 Hq Hok) as (Q1 & Q2 & Q3 & Q4).
  assert (Q : quiet w2).
  { unfold Lemmas_C15.quiet. rewrite <- A, <- C. auto. }
  destruct (quiet_ok _ Q) as [I S]. destruct (vis_eq_output _ _ E) as [O K].
  repeat split; assumption.
Qed.

(* ---- T1 / T2 ---- *)
Theorem C12_same_final_output_cmd_s : forall (w : sworld) n,
  u_state (u (st w)) = US_IDLE -> u_count (u (st w)) = 0 ->
  script_ok res_no_trigger (hs w) = true ->
  inq (io (nsvc D n w)) = [] -> snd (sdo (nsvc D n w) OService) = ST_OK ->
  exists m, m <= n /\
    inq (io (nsvc D m (eager w))) = [] /\ snd (sdo (nsvc D m (eager w)) OService) = ST_OK /\
    output_of (tr (nsvc D n w)) = output_of (tr (nsvc D m (eager w))) /\
    calls_of (tr (nsvc D n w)) = calls_of (tr (nsvc D m (eager w))) /\
    st (nsvc D n w) = st (nsvc D m (eager w)) /\ hs (nsvc D n w) = hs (nsvc D m (eager w)).
Proof.
  intros w n U C S Hq Hok.
  destruct (Lemmas_C12.C12_schedule_independent_cmd D w n Hmx U C S) as (m & Hm & Hc).
  exists m. split; [exact Hm|]. apply final_from_core; assumption.
Qed.

Theorem C12_same_final_output_uns_s : forall (w : sworld) n,
  k_state (k (st w)) = CS_IDLE -> inq (io w) = [] ->
  script_ok (fun r => negb (r_code r =? RC_HOLD)%Z) (hs w) = true ->
  inq (io (nsvc D n w)) = [] -> snd (sdo (nsvc D n w) OService) = ST_OK ->
  exists m, m <= n /\
    inq (io (nsvc D m (eager w))) = [] /\ snd (sdo (nsvc D m (eager w)) OService) = ST_OK /\
    output_of (tr (nsvc D n w)) = output_of (tr (nsvc D m (eager w))) /\
    calls_of (tr (nsvc D n w)) = calls_of (tr (nsvc D m (eager w))) /\
    st (nsvc D n w) = st (nsvc D m (eager w)) /\ hs (nsvc D n w) = hs (nsvc D m (eager w)).
Proof.
  intros w n K Q S Hq Hok.
  destruct (Lemmas_C12.C12_schedule_independent_uns D w n Hmx K Q S) as (m & Hm & Hc).
  exists m. split; [exact Hm|]. apply final_from_core; assumption.
Qed.

(* ================================================================== *)
(* 3. the trace only grows: outputs and calls are monotone along a run  *)
(* ================================================================== *)

Lemma svc_tr_grows : forall w : sworld, exists evs, tr (svc D w) = evs ++ tr w.
Proof.
  intros w. destruct (Lemmas_C12.svc_both D w Hmx) as [r E]. rewrite E.
  destruct (Lemmas_C11.uns_service_writes D sio smu shs s_write s_lock s_unlock s_call w)
    as (e1 & T1 & _).
  destruct (Lemmas_C11.cmd_service_writes D sio smu shs s_read s_write s_lock s_unlock s_call
              (fst (s_uns w))) as (e2 & T2 & _).
  exists (ERet OService r :: e2 ++ e1). cbn [Fsm.logw Fsm.tr]. rewrite T2, T1.
  cbn [app]. rewrite app_assoc. reflexivity.
Qed.

Lemma nsvc_tr_grows : forall j (w : sworld), exists evs, tr (nsvc D j w) = evs ++ tr w.
Proof.
  induction j as [|j IH]; intros w.
  - exists []. reflexivity.
  - rewrite nsvc_S. destruct (IH (svc D w)) as (e1 & T1). destruct (svc_tr_grows w) as (e2 & T2).
    exists (e1 ++ e2). rewrite T1, T2. apply app_assoc.
Qed.

(* chronological prefix order on outputs / calls *)
Lemma output_mono_s : forall j k (w : sworld), j <= k ->
  (exists rest, output_of (tr (nsvc D k w)) = output_of (tr (nsvc D j w)) ++ rest) /\
  (exists rest, calls_of (tr (nsvc D k w)) = calls_of (tr (nsvc D j w)) ++ rest).
Proof.
  intros j k w L. replace k with (j + (k - j)) by lia. rewrite nsvc_add.
  destruct (nsvc_tr_grows (k - j) (nsvc D j w)) as (evs & T). rewrite T.
  split.
  - exists (output_of evs). apply output_of_app.
  - exists (calls_of evs). apply calls_of_app.
Qed.

(* every point of a run whose quiescent point is m is a prefix of the final output *)
Lemma prefix_of_final : forall (w : sworld) m j,
  inq (io (nsvc D m w)) = [] -> snd (sdo (nsvc D m w) OService) = ST_OK ->
  (exists rest, output_of (tr (nsvc D m w)) = output_of (tr (nsvc D j w)) ++ rest) /\
  (exists rest, calls_of (tr (nsvc D m w)) = calls_of (tr (nsvc D j w)) ++ rest) /\
  (m <= j -> output_of (tr (nsvc D j w)) = output_of (tr (nsvc D m w)) /\
             calls_of (tr (nsvc D j w)) = calls_of (tr (nsvc D m w))).
Proof.
  intros w m j Hq Hok.
  assert (G : m <= j -> output_of (tr (nsvc D j w)) = output_of (tr (nsvc D m w)) /\
                        calls_of (tr (nsvc D j w)) = calls_of (tr (nsvc D m w))).
  { intros L. replace j with (m + (j - m)) by lia.
    destruct (C12_final_output_stable_s w m (j - m) Hq Hok) as (O & C & _). split; assumption. }
  destruct (le_lt_dec j m) as [L|L].
  - destruct (output_mono_s j m w L) as [O C]. split; [exact O|]. split; [exact C | exact G].
  - destruct (G ltac:(lia)) as [O C].
    split; [exists []; rewrite O; symmetry; apply app_nil_r|].
    split; [exists []; rewrite C; symmetry; apply app_nil_r | exact G].
Qed.

(* ---- T4: converse direction, generic in how the two cores are related ---- *)
Lemma eager_output_eventually : forall mm (w : sworld),
  (forall n, exists m, m <= n /\ core (nsvc D n w) = core (nsvc D m (eager w))) ->
  wf_desc D mm -> Safe D mm (st w) -> J (ctl_of (st w)) ->
  script_ok no_hold_res (hs w) = true -> k_state (k (st w)) <> CS_HOLD ->
  script_ok (res_calls_ok D) (hs w) = true -> u_count (u (st w)) <= d_cap D ->
  exists n, n <= C15_bound D w + Lemmas_C15c.sched_left w /\
    inq (io (nsvc D n w)) = [] /\ snd (sdo (nsvc D n w) OService) = ST_OK /\
    exists m, m <= n /\
      forall j,
        (exists rest, output_of (tr (nsvc D n w)) = output_of (tr (nsvc D j (eager w))) ++ rest) /\
        (exists rest, calls_of (tr (nsvc D n w)) = calls_of (tr (nsvc D j (eager w))) ++ rest) /\
        (m <= j -> output_of (tr (nsvc D j (eager w))) = output_of (tr (nsvc D n w)) /\
                   calls_of (tr (nsvc D j (eager w))) = calls_of (tr (nsvc D n w))).
Proof.
  intros mm w Hcore WF HS HJ S1 Hk S2 Hc.
  destruct (Lemmas_C15c.C15_reaches_quiescence_fair_proof D mm w Hmx WF HS HJ S1 Hk S2 Hc)
    as (n & Hn & Hq & Hok).
  exists n. split; [exact Hn|]. split; [exact Hq|]. split; [exact Hok|].
  destruct (Hcore n) as (m & Hm & Hco).
  destruct (final_from_core _ _ Hco Hq Hok) as (Hq2 & Hok2 & O & C & _).
  exists m. split; [exact Hm|]. intros j.
  destruct (prefix_of_final (eager w) m j Hq2 Hok2) as (P1 & P2 & P3).
  rewrite O, C. split; [exact P1|]. split; [exact P2|]. exact P3.
Qed.

Theorem C12_eager_output_eventually_cmd_s : forall mm (w : sworld),
  u_state (u (st w)) = US_IDLE -> u_count (u (st w)) = 0 ->
  script_ok res_no_trigger (hs w) = true ->
  wf_desc D mm -> Safe D mm (st w) -> J (ctl_of (st w)) ->
  script_ok no_hold_res (hs w) = true -> k_state (k (st w)) <> CS_HOLD ->
  script_ok (res_calls_ok D) (hs w) = true ->
  exists n, n <= C15_bound D w + Lemmas_C15c.sched_left w /\
    inq (io (nsvc D n w)) = [] /\ snd (sdo (nsvc D n w) OService) = ST_OK /\
    exists m, m <= n /\
      forall j,
        (exists rest, output_of (tr (nsvc D n w)) = output_of (tr (nsvc D j (eager w))) ++ rest) /\
        (exists rest, calls_of (tr (nsvc D n w)) = calls_of (tr (nsvc D j (eager w))) ++ rest) /\
        (m <= j -> output_of (tr (nsvc D j (eager w))) = output_of (tr (nsvc D n w)) /\
                   calls_of (tr (nsvc D j (eager w))) = calls_of (tr (nsvc D n w))).
Proof.
  intros mm w U C S WF HS HJ S1 Hk S2.
  apply (eager_output_eventually mm w); try assumption.
  - intros n. exact (Lemmas_C12.C12_schedule_independent_cmd D w n Hmx U C S).
  - rewrite C. lia.
Qed.

Theorem C12_eager_output_eventually_uns_s : forall mm (w : sworld),
  k_state (k (st w)) = CS_IDLE -> inq (io w) = [] ->
  script_ok no_hold_res (hs w) = true ->
  wf_desc D mm -> Safe D mm (st w) -> J (ctl_of (st w)) ->
  script_ok (res_calls_ok D) (hs w) = true -> u_count (u (st w)) <= d_cap D ->
  exists n, n <= C15_bound D w + Lemmas_C15c.sched_left w /\
    inq (io (nsvc D n w)) = [] /\ snd (sdo (nsvc D n w) OService) = ST_OK /\
    exists m, m <= n /\
      forall j,
        (exists rest, output_of (tr (nsvc D n w)) = output_of (tr (nsvc D j (eager w))) ++ rest) /\
        (exists rest, calls_of (tr (nsvc D n w)) = calls_of (tr (nsvc D j (eager w))) ++ rest) /\
        (m <= j -> output_of (tr (nsvc D j (eager w))) = output_of (tr (nsvc D n w)) /\
                   calls_of (tr (nsvc D j (eager w))) = calls_of (tr (nsvc D n w))).
Proof.
  intros mm w K Q S1 WF HS HJ S2 Hc.
  apply (eager_output_eventually mm w); try assumption.
  - intros n. exact (Lemmas_C12.C12_schedule_independent_uns D w n Hmx K Q S1).
  - rewrite K. discriminate.
Qed.

End Scripted.

(* ================================================================== *)
(* the delivered statements (argument order of Properties_C12c.v)      *)
(* ================================================================== *)
Local Notation st := (Fsm.st sio smu shs).
Local Notation io := (Fsm.io sio smu shs).
Local Notation hs := (Fsm.hs sio smu shs).
Local Notation tr := (Fsm.tr sio smu shs).

Theorem C12_same_final_output_cmd : forall D (w : sworld) n,
  d_mutex D = false ->
  u_state (u (st w)) = US_IDLE -> u_count (u (st w)) = 0 ->
  script_ok res_no_trigger (hs w) = true ->
  inq (io (nsvc D n w)) = [] ->
  snd (do_op D sio smu shs s_read s_write s_lock s_unlock s_call (nsvc D n w) OService) = ST_OK ->
  exists m, m <= n /\
    inq (io (nsvc D m (eager w))) = [] /\
    snd (do_op D sio smu shs s_read s_write s_lock s_unlock s_call (nsvc D m (eager w)) OService) = ST_OK /\
    output_of (tr (nsvc D n w)) = output_of (tr (nsvc D m (eager w))) /\
    calls_of (tr (nsvc D n w)) = calls_of (tr (nsvc D m (eager w))) /\
    st (nsvc D n w) = st (nsvc D m (eager w)) /\ hs (nsvc D n w) = hs (nsvc D m (eager w)).
Proof. intros D w n M. exact (C12_same_final_output_cmd_s D M w n). Qed.

Theorem C12_same_final_output_uns : forall D (w : sworld) n,
  d_mutex D = false ->
  k_state (k (st w)) = CS_IDLE -> inq (io w) = [] ->
  script_ok (fun r => negb (r_code r =? RC_HOLD)%Z) (hs w) = true ->
  inq (io (nsvc D n w)) = [] ->
  snd (do_op D sio smu shs s_read s_write s_lock s_unlock s_call (nsvc D n w) OService) = ST_OK ->
  exists m, m <= n /\
    inq (io (nsvc D m (eager w))) = [] /\
    snd (do_op D sio smu shs s_read s_write s_lock s_unlock s_call (nsvc D m (eager w)) OService) = ST_OK /\
    output_of (tr (nsvc D n w)) = output_of (tr (nsvc D m (eager w))) /\
    calls_of (tr (nsvc D n w)) = calls_of (tr (nsvc D m (eager w))) /\
    st (nsvc D n w) = st (nsvc D m (eager w)) /\ hs (nsvc D n w) = hs (nsvc D m (eager w)).
Proof. intros D w n M. exact (C12_same_final_output_uns_s D M w n). Qed.

Theorem C12_final_output_stable : forall D (w : sworld) n j,
  d_mutex D = false ->
  inq (io (nsvc D n w)) = [] ->
  snd (do_op D sio smu shs s_read s_write s_lock s_unlock s_call (nsvc D n w) OService) = ST_OK ->
  output_of (tr (nsvc D (n + j) w)) = output_of (tr (nsvc D n w)) /\
  calls_of (tr (nsvc D (n + j) w)) = calls_of (tr (nsvc D n w)) /\
  st (nsvc D (n + j) w) = st (nsvc D n w) /\ hs (nsvc D (n + j) w) = hs (nsvc D n w) /\
  inq (io (nsvc D (n + j) w)) = [] /\
  snd (do_op D sio smu shs s_read s_write s_lock s_unlock s_call (nsvc D (n + j) w) OService) = ST_OK.
Proof. intros D w n j M. exact (C12_final_output_stable_s D M w n j). Qed.

Theorem C12_output_monotone : forall D (w : sworld) j k,
  d_mutex D = false -> j <= k ->
  (exists rest, output_of (tr (nsvc D k w)) = output_of (tr (nsvc D j w)) ++ rest) /\
  (exists rest, calls_of (tr (nsvc D k w)) = calls_of (tr (nsvc D j w)) ++ rest).
Proof. intros D w j k M. exact (output_mono_s D M j k w). Qed.

Theorem C12_eager_output_eventually_cmd : forall D mm (w : sworld),
  d_mutex D = false ->
  u_state (u (st w)) = US_IDLE -> u_count (u (st w)) = 0 ->
  script_ok res_no_trigger (hs w) = true ->
  wf_desc D mm -> Safe D mm (st w) -> J (ctl_of (st w)) ->
  script_ok no_hold_res (hs w) = true -> k_state (k (st w)) <> CS_HOLD ->
  script_ok (res_calls_ok D) (hs w) = true ->
  exists n, n <= C15_bound D w + Lemmas_C15c.sched_left w /\
    inq (io (nsvc D n w)) = [] /\
    snd (do_op D sio smu shs s_read s_write s_lock s_unlock s_call (nsvc D n w) OService) = ST_OK /\
    exists m, m <= n /\
      forall j,
        (exists rest, output_of (tr (nsvc D n w)) = output_of (tr (nsvc D j (eager w))) ++ rest) /\
        (exists rest, calls_of (tr (nsvc D n w)) = calls_of (tr (nsvc D j (eager w))) ++ rest) /\
        (m <= j -> output_of (tr (nsvc D j (eager w))) = output_of (tr (nsvc D n w)) /\
                   calls_of (tr (nsvc D j (eager w))) = calls_of (tr (nsvc D n w))).
Proof. intros D mm w M. exact (C12_eager_output_eventually_cmd_s D M mm w). Qed.

Theorem C12_eager_output_eventually_uns : forall D mm (w : sworld),
  d_mutex D = false ->
  k_state (k (st w)) = CS_IDLE -> inq (io w) = [] ->
  script_ok no_hold_res (hs w) = true ->
  wf_desc D mm -> Safe D mm (st w) -> J (ctl_of (st w)) ->
  script_ok (res_calls_ok D) (hs w) = true -> u_count (u (st w)) <= d_cap D ->
  exists n, n <= C15_bound D w + Lemmas_C15c.sched_left w /\
    inq (io (nsvc D n w)) = [] /\
    snd (do_op D sio smu shs s_read s_write s_lock s_unlock s_call (nsvc D n w) OService) = ST_OK /\
    exists m, m <= n /\
      forall j,
        (exists rest, output_of (tr (nsvc D n w)) = output_of (tr (nsvc D j (eager w))) ++ rest) /\
        (exists rest, calls_of (tr (nsvc D n w)) = calls_of (tr (nsvc D j (eager w))) ++ rest) /\
        (m <= j -> output_of (tr (nsvc D j (eager w))) = output_of (tr (nsvc D n w)) /\
                   calls_of (tr (nsvc D j (eager w))) = calls_of (tr (nsvc D n w))).
Proof. intros D mm w M. exact (C12_eager_output_eventually_uns_s D M mm w). Qed.
