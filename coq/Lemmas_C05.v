(* Lemmas_C05.v — property C05: the hex-buffer and quoted-string decoders
   (parse_bufhex / parse_bufstr of Codec.v) accept exactly the specified texts,
   store exactly the decoded bytes, never fault and never write outside the
   declared size; read-only variables are never modified. *)
From Coq Require Import List NArith ZArith Bool Arith Lia.
From Coq Require Import ZifyBool ZifyNat ZifyN.
From CatV Require Import Bytes Defs Codec Spec.
Import ListNotations.
Local Open Scope nat_scope.

(* ------------------------------------------------------------------ *)
(* characters                                                          *)
(* ------------------------------------------------------------------ *)

Lemma is_term_upper : forall c, is_term (to_upper c) = is_term c.
Proof.
  intro c. unfold to_upper.
  destruct (97 <=? c)%N eqn:E1; [|reflexivity].
  destruct (c <=? 122)%N eqn:E2; [|reflexivity].
  cbn [andb]. apply N.leb_le in E1. apply N.leb_le in E2.
  unfold is_term, ch_COMMA.
  assert ((c - 32 =? 0)%N = false) as -> by (apply N.eqb_neq; lia).
  assert ((c - 32 =? 44)%N = false) as -> by (apply N.eqb_neq; lia).
  assert ((c =? 0)%N = false) as -> by (apply N.eqb_neq; lia).
  assert ((c =? 44)%N = false) as -> by (apply N.eqb_neq; lia).
  reflexivity.
Qed.

Lemma term_cases : forall t, is_term t = true -> t = 0%N \/ t = 44%N.
Proof.
  intros t H. unfold is_term, ch_COMMA in H. apply orb_true_iff in H.
  destruct H as [H|H]; apply N.eqb_eq in H; auto.
Qed.

Lemma term_upper_id : forall t, is_term t = true -> to_upper t = t.
Proof. intros t H. destruct (term_cases t H); subst; reflexivity. Qed.

Lemma term_not_hex : forall t, is_term t = true -> is_hex (to_upper t) = false.
Proof. intros t H. destruct (term_cases t H); subst; reflexivity. Qed.

Lemma hex_props : forall c, is_hex c = true -> is_term c = false /\ (hexval c < 16)%N.
Proof.
  intros c H. unfold is_hex in H. unfold is_term, hexval, ch_COMMA.
  apply orb_true_iff in H. destruct H as [H|H]; apply andb_true_iff in H; destruct H as [H1 H2];
    apply N.leb_le in H1; apply N.leb_le in H2.
  - assert ((c =? 0)%N = false) as -> by (apply N.eqb_neq; lia).
    assert ((c =? 44)%N = false) as -> by (apply N.eqb_neq; lia).
    assert ((48 <=? c)%N = true) as -> by (apply N.leb_le; lia).
    assert ((c <=? 57)%N = true) as -> by (apply N.leb_le; lia).
    cbn [andb orb]. split; [reflexivity | lia].
  - assert ((c =? 0)%N = false) as -> by (apply N.eqb_neq; lia).
    assert ((c =? 44)%N = false) as -> by (apply N.eqb_neq; lia).
    assert ((c <=? 57)%N = false) as -> by (apply N.leb_gt; lia).
    rewrite andb_false_r. cbn [orb]. split; [reflexivity | lia].
Qed.

Lemma unescape_nonzero : forall e d, unescape e = Some d -> e <> 0%N.
Proof. intros e d H E. subst e. discriminate H. Qed.

Lemma field_ok_cons : forall a f, field_ok (a :: f) = true -> is_term a = false /\ field_ok f = true.
Proof.
  intros a f H. unfold field_ok in *. cbn [forallb] in H. apply andb_true_iff in H.
  destruct H as [H1 H2]. apply negb_true_iff in H1. auto.
Qed.

(* ------------------------------------------------------------------ *)
(* upd and iterated upd                                                *)
(* ------------------------------------------------------------------ *)

Lemma upd_length : forall (l : list N) i v, length (upd l i v) = length l.
Proof.
  induction l as [|x l IH]; intros [|i] v; cbn [upd length]; auto.
Qed.

Lemma skipn_upd : forall (l : list N) i v d, i < d -> skipn d (upd l i v) = skipn d l.
Proof.
  induction l as [|x l IH]; intros [|i] v [|d] H; cbn [upd skipn]; auto; try lia.
  apply IH. lia.
Qed.

Lemma upd_app : forall (pre : list N) x post v,
  upd (pre ++ x :: post) (length pre) v = pre ++ v :: post.
Proof.
  induction pre as [|p pre IH]; intros; cbn [app length upd]; [reflexivity|].
  rewrite IH. reflexivity.
Qed.

Fixpoint upds (data : list N) (i : nat) (bs : list N) : list N :=
  match bs with
  | [] => data
  | b :: bs' => upds (upd data i b) (S i) bs'
  end.

Lemma upds_length : forall bs data i, length (upds data i bs) = length data.
Proof.
  induction bs as [|b bs IH]; intros; cbn [upds]; [reflexivity|].
  rewrite IH. apply upd_length.
Qed.

Lemma upds_app : forall a data i b, upds data i (a ++ b) = upds (upds data i a) (i + length a) b.
Proof.
  induction a as [|x a IH]; intros; cbn [upds app length].
  - rewrite Nat.add_0_r. reflexivity.
  - rewrite IH. rewrite Nat.add_succ_r. reflexivity.
Qed.

Lemma upds_pre : forall bs pre post, length bs <= length post ->
  upds (pre ++ post) (length pre) bs = pre ++ bs ++ skipn (length bs) post.
Proof.
  induction bs as [|b bs IH]; intros pre post H; cbn [upds length skipn app].
  - reflexivity.
  - destruct post as [|x post]; cbn [length] in H; [lia|].
    rewrite upd_app.
    replace (pre ++ b :: post) with ((pre ++ [b]) ++ post) by (rewrite <- app_assoc; reflexivity).
    replace (S (length pre)) with (length (pre ++ [b])) by (rewrite app_length; cbn [length]; lia).
    rewrite IH by lia. rewrite <- app_assoc. reflexivity.
Qed.

Lemma upds_front : forall bs data, length bs <= length data ->
  upds data 0 bs = bs ++ skipn (length bs) data.
Proof. intros bs data H. apply (upds_pre bs [] data H). Qed.

Lemma upds_front_nul : forall bs data, length bs < length data ->
  upd (upds data 0 bs) (length bs) 0%N = bs ++ 0%N :: skipn (S (length bs)) data.
Proof.
  intros bs data H.
  change (upd (upds data 0 bs) (length bs) 0%N) with (upds (upds data 0 bs) (0 + length bs) [0%N]).
  rewrite <- upds_app. rewrite upds_front by (rewrite app_length; cbn [length]; lia).
  rewrite app_length. cbn [length]. rewrite Nat.add_1_r. rewrite <- app_assoc. reflexivity.
Qed.

(* ------------------------------------------------------------------ *)
(* unfolding equations of the two decoders                             *)
(* ------------------------------------------------------------------ *)

Lemma hex_go_nil : forall byte st size data ro dsz n,
  parse_bufhex_go [] byte st size data ro dsz n = mkBres SFault data O n.
Proof. reflexivity. Qed.

Lemma hex_go_cons : forall ch0 r byte st size data ro dsz n,
  parse_bufhex_go (ch0 :: r) byte st size data ro dsz n =
  if (0 <? size) && negb st && is_term (to_upper ch0) then
    mkBres (SOk (to_upper ch0 =? ch_COMMA)%N) data (if ro then O else size) (S n)
  else if negb (is_hex (to_upper ch0)) then mkBres SErr data O (S n)
  else if st then
         if dsz <=? size then mkBres SErr data O (S n)
         else if ro then parse_bufhex_go r 0%N false (S size) data ro dsz (S n)
         else if size <? length data
              then parse_bufhex_go r 0%N false (S size)
                     (upd data size ((byte * 16 + hexval (to_upper ch0)) mod 256)%N) ro dsz (S n)
              else mkBres SFault data O (S n)
       else parse_bufhex_go r ((byte * 16 + hexval (to_upper ch0)) mod 256)%N true size data ro dsz (S n).
Proof. reflexivity. Qed.

Lemma str_go_nil : forall st size data ro dsz n,
  parse_bufstr_go [] st size data ro dsz n = mkBres SFault data O n.
Proof. reflexivity. Qed.

Lemma str_go_0 : forall ch r size data ro dsz n,
  parse_bufstr_go (ch :: r) 0 size data ro dsz n =
  if (ch =? ch_QUOTE)%N then parse_bufstr_go r 1 size data ro dsz (S n)
  else mkBres SErr data O (S n).
Proof. reflexivity. Qed.

Lemma str_go_1 : forall ch r size data ro dsz n,
  parse_bufstr_go (ch :: r) 1 size data ro dsz n =
  if (ch =? 0)%N then mkBres SErr data O (S n)
  else if (ch =? ch_BSL)%N then parse_bufstr_go r 2 size data ro dsz (S n)
  else if (ch =? ch_QUOTE)%N then parse_bufstr_go r 3 size data ro dsz (S n)
  else if dsz <=? size then mkBres SErr data O (S n)
  else if ro then parse_bufstr_go r 1 (S size) data ro dsz (S n)
  else if size <? length data
       then parse_bufstr_go r 1 (S size) (upd data size ch) ro dsz (S n)
       else mkBres SFault data O (S n).
Proof. reflexivity. Qed.

Lemma str_go_2 : forall ch r size data ro dsz n,
  parse_bufstr_go (ch :: r) 2 size data ro dsz n =
  match unescape ch with
  | None => mkBres SErr data O (S n)
  | Some c =>
    if dsz <=? size then mkBres SErr data O (S n)
    else if ro then parse_bufstr_go r 1 (S size) data ro dsz (S n)
    else if size <? length data
         then parse_bufstr_go r 1 (S size) (upd data size c) ro dsz (S n)
         else mkBres SFault data O (S n)
  end.
Proof. reflexivity. Qed.

Lemma str_go_3 : forall ch r st size data ro dsz n,
  parse_bufstr_go (ch :: r) (S (S (S st))) size data ro dsz n =
  if is_term ch then
    if dsz <=? size then mkBres SErr data O (S n)
    else if ro then mkBres (SOk (ch =? ch_COMMA)%N) data O (S n)
    else if size <? length data
         then mkBres (SOk (ch =? ch_COMMA)%N) (upd data size 0%N) size (S n)
         else mkBres SFault data O (S n)
  else mkBres SErr data O (S n).
Proof. reflexivity. Qed.

Lemma hexbuf_decode_2 : forall a b r,
  hexbuf_decode (a :: b :: r) =
  if is_hex (to_upper a) && is_hex (to_upper b) then
    match hexbuf_decode r with
    | Some bs => Some ((hexval (to_upper a) * 16 + hexval (to_upper b))%N :: bs)
    | None => None
    end
  else None.
Proof. reflexivity. Qed.

Lemma str_body_cons : forall c r,
  str_body (c :: r) =
  if (c =? 0)%N then None
  else if (c =? ch_QUOTE)%N then Some ([], r)
  else if (c =? ch_BSL)%N then
    match r with
    | e :: r' =>
      match unescape e, str_body r' with
      | Some d, Some (bs, rest) => Some (d :: bs, rest)
      | _, _ => None
      end
    | [] => None
    end
  else match str_body r with
       | Some (bs, rest) => Some (c :: bs, rest)
       | None => None
       end.
Proof. reflexivity. Qed.

Lemma pair_ind : forall (P : list N -> Prop),
  P [] -> (forall a, P [a]) -> (forall a b r, P r -> P (a :: b :: r)) -> forall l, P l.
Proof.
  intros P H0 H1 H2 l. assert (P l /\ forall a, P (a :: l)) as [H _]; [|exact H].
  induction l as [|x l [IH1 IH2]]; split; auto.
Qed.

(* ------------------------------------------------------------------ *)
(* 1. hex buffer: functional correctness                               *)
(* ------------------------------------------------------------------ *)

Lemma hex_main : forall t tail dsz, is_term t = true ->
  forall f size data n, field_ok f = true -> size <= dsz -> dsz <= length data ->
  match hexbuf_decode f with
  | Some bs =>
      if (size + length bs <=? dsz) && (0 <? size + length bs)
      then parse_bufhex_go (f ++ t :: tail) 0%N false size data false dsz n
           = mkBres (SOk (t =? ch_COMMA)%N) (upds data size bs) (size + length bs) (n + S (length f))
      else b_st (parse_bufhex_go (f ++ t :: tail) 0%N false size data false dsz n) = SErr
  | None => b_st (parse_bufhex_go (f ++ t :: tail) 0%N false size data false dsz n) = SErr
  end.
Proof.
  intros t tail dsz Ht f.
  induction f as [| a | a b r IH] using pair_ind; intros size data n Hf Hs Hd.
  - cbn [hexbuf_decode app length upds]. rewrite hex_go_cons.
    rewrite (term_not_hex _ Ht).
    rewrite (term_upper_id _ Ht), Ht. rewrite Nat.add_0_r. cbn [negb].
    assert (size <=? dsz = true) as -> by (apply Nat.leb_le; lia).
    rewrite !andb_true_r. cbn [andb negb].
    destruct (0 <? size); [|reflexivity].
    f_equal. lia.
  - cbn [hexbuf_decode app]. apply field_ok_cons in Hf. destruct Hf as [Ha _].
    rewrite hex_go_cons. rewrite is_term_upper, Ha, andb_false_r.
    destruct (is_hex (to_upper a)); cbn [negb]; [|reflexivity].
    rewrite hex_go_cons. cbn [negb]. rewrite andb_false_r. cbn [andb].
    rewrite (term_not_hex _ Ht). reflexivity.
  - rewrite hexbuf_decode_2. cbn [app].
    apply field_ok_cons in Hf. destruct Hf as [Ha Hf].
    apply field_ok_cons in Hf. destruct Hf as [Hb Hf].
    rewrite hex_go_cons. rewrite is_term_upper, Ha, andb_false_r.
    destruct (is_hex (to_upper a)) eqn:Ea; cbn [negb andb]; [|reflexivity].
    rewrite hex_go_cons. cbn [negb]. rewrite andb_false_r. cbn [andb].
    destruct (is_hex (to_upper b)) eqn:Eb; cbn [negb]; [|reflexivity].
    destruct (hex_props _ Ea) as [_ Va]. destruct (hex_props _ Eb) as [_ Vb].
    destruct (dsz <=? size) eqn:Ed.
    + apply Nat.leb_le in Ed.
      destruct (hexbuf_decode r) as [bs|]; [|reflexivity].
      cbn [length].
      assert (size + S (length bs) <=? dsz = false) as -> by (apply Nat.leb_gt; lia).
      reflexivity.
    + apply Nat.leb_gt in Ed.
      assert (size <? length data = true) as -> by (apply Nat.ltb_lt; lia).
      replace ((0 * 16 + hexval (to_upper a)) mod 256)%N with (hexval (to_upper a))
        by (rewrite N.mod_small; lia).
      replace ((hexval (to_upper a) * 16 + hexval (to_upper b)) mod 256)%N
        with (hexval (to_upper a) * 16 + hexval (to_upper b))%N
        by (rewrite N.mod_small; lia).
      specialize (IH (S size) (upd data size (hexval (to_upper a) * 16 + hexval (to_upper b))%N)
                     (S (S n)) Hf).
      rewrite upd_length in IH. specialize (IH ltac:(lia) Hd).
      destruct (hexbuf_decode r) as [bs|]; [|exact IH].
      cbn [length upds]. rewrite Nat.add_succ_r.
      cbn [plus] in IH.
      destruct ((S (size + length bs) <=? dsz) && (0 <? S (size + length bs))); [|exact IH].
      rewrite IH. f_equal. lia.
Qed.

Lemma nonempty_length : forall (bs : list N), nonempty bs = (0 <? length bs).
Proof. destruct bs; reflexivity. Qed.

Local Open Scope N_scope.

Theorem C05_hexbuf : forall f t tail data dsz,
  field_ok f = true -> is_term t = true -> (dsz <= length data)%nat ->
  let r := parse_bufhex (f ++ t :: tail) data false dsz in
  match hexbuf_accepts dsz f with
  | Some bs => b_st r = SOk (t =? ch_COMMA) /\ b_data r = bs ++ skipn (length bs) data /\
               b_wsize r = length bs /\ b_n r = S (length f)
  | None => b_st r = SErr
  end.
Proof.
  intros f t tail data dsz Hf Ht Hd r. subst r. unfold parse_bufhex, hexbuf_accepts.
  pose proof (hex_main t tail dsz Ht f O data O Hf ltac:(lia) Hd) as H.
  destruct (hexbuf_decode f) as [bs|]; [|exact H].
  cbn [plus] in H. rewrite nonempty_length. rewrite andb_comm.
  destruct ((length bs <=? dsz)%nat && (0 <? length bs)%nat) eqn:E; [|exact H].
  rewrite H. cbn [b_st b_data b_wsize b_n].
  apply andb_true_iff in E. destruct E as [E _]. apply Nat.leb_le in E.
  rewrite upds_front by lia. auto.
Qed.

Local Close Scope N_scope.

(* ------------------------------------------------------------------ *)
(* 2. quoted string: functional correctness                            *)
(* ------------------------------------------------------------------ *)

Lemma in0_tail : forall c (r : list N), (c =? 0)%N = false -> In 0%N (c :: r) -> In 0%N r.
Proof.
  intros c r E [H|H]; [|exact H]. subst c. discriminate E.
Qed.

(* the scan of the body (state 1) follows str_body *)
Lemma str_body_go : forall dsz k r, length r <= k ->
  forall size data n, size <= dsz -> dsz <= length data ->
  match str_body r with
  | Some (bs, rest) =>
      if size + length bs <=? dsz
      then exists j, length r = j + length rest /\ (In 0%N r -> In 0%N rest) /\
             parse_bufstr_go r 1 size data false dsz n
             = parse_bufstr_go rest 3 (size + length bs) (upds data size bs) false dsz (n + j)
      else b_st (parse_bufstr_go r 1 size data false dsz n) = SErr
  | None => In 0%N r -> b_st (parse_bufstr_go r 1 size data false dsz n) = SErr
  end.
Proof.
  intros dsz k. induction k as [|k IH]; intros r Hk size data n Hs Hd.
  - destruct r; [|cbn [length] in Hk; lia]. cbn [str_body]. intros [].
  - destruct r as [|c r]; [cbn [str_body]; intros []|].
    cbn [length] in Hk.
    rewrite str_body_cons, str_go_1.
    destruct (c =? 0)%N eqn:E0; [reflexivity|].
    destruct (c =? ch_QUOTE)%N eqn:Eq.
    { (* closing quote *)
      assert ((c =? ch_BSL)%N = false) as ->
        by (apply N.eqb_eq in Eq; subst c; reflexivity).
      cbn [length upds]. rewrite Nat.add_0_r.
      assert (size <=? dsz = true) as -> by (apply Nat.leb_le; lia).
      exists 1. split; [reflexivity|]. split; [apply in0_tail; exact E0|].
      f_equal. lia. }
    destruct (c =? ch_BSL)%N eqn:Eb.
    { (* escape *)
      destruct r as [|e r]; [intros H; apply in0_tail in H; [destruct H | exact E0]|].
      rewrite str_go_2. cbn [length] in Hk.
      destruct (unescape e) as [d|] eqn:Eu; [|reflexivity].
      assert ((e =? 0)%N = false) as Ee0 by (apply N.eqb_neq; eapply unescape_nonzero; eauto).
      destruct (dsz <=? size) eqn:Ed.
      - apply Nat.leb_le in Ed.
        destruct (str_body r) as [[bs rest]|]; [|reflexivity].
        cbn [length].
        assert (size + S (length bs) <=? dsz = false) as -> by (apply Nat.leb_gt; lia).
        reflexivity.
      - apply Nat.leb_gt in Ed.
        assert (size <? length data = true) as -> by (apply Nat.ltb_lt; lia).
        specialize (IH r ltac:(lia) (S size) (upd data size d) (S (S n)) ltac:(lia)).
        rewrite upd_length in IH. specialize (IH Hd).
        destruct (str_body r) as [[bs rest]|].
        + cbn [length upds]. rewrite Nat.add_succ_r. cbn [plus] in IH.
          destruct (S (size + length bs) <=? dsz); [|exact IH].
          destruct IH as [j [H1 [H2 H3]]].
          exists (S (S j)). split; [cbn [length]; lia|].
          split; [intro H; apply H2; apply in0_tail in H; [|exact E0];
                  apply in0_tail in H; [exact H|exact Ee0]|].
          rewrite H3. f_equal. lia.
        + intro H. apply IH. apply in0_tail in H; [|exact E0].
          apply in0_tail in H; [exact H|exact Ee0]. }
    (* plain character *)
    destruct (dsz <=? size) eqn:Ed.
    + apply Nat.leb_le in Ed.
      destruct (str_body r) as [[bs rest]|]; [|reflexivity].
      cbn [length].
      assert (size + S (length bs) <=? dsz = false) as -> by (apply Nat.leb_gt; lia).
      reflexivity.
    + apply Nat.leb_gt in Ed.
      assert (size <? length data = true) as -> by (apply Nat.ltb_lt; lia).
      specialize (IH r ltac:(lia) (S size) (upd data size c) (S n) ltac:(lia)).
      rewrite upd_length in IH. specialize (IH Hd).
      destruct (str_body r) as [[bs rest]|].
      * cbn [length upds]. rewrite Nat.add_succ_r. cbn [plus] in IH.
        destruct (S (size + length bs) <=? dsz); [|exact IH].
        destruct IH as [j [H1 [H2 H3]]].
        exists (S j). split; [cbn [length]; lia|].
        split; [intro H; apply H2; apply in0_tail in H; [exact H|exact E0]|].
        rewrite H3. f_equal. lia.
      * intro H. apply IH. apply in0_tail in H; [exact H|exact E0].
Qed.

Local Open Scope N_scope.

Theorem C05_string : forall l data dsz,
  In 0 l -> (dsz <= length data)%nat ->
  let r := parse_bufstr l data false dsz in
  match str_decode l with
  | Some (bs, comma, n) =>
      if (length bs <? dsz)%nat
      then b_st r = SOk comma /\ b_data r = bs ++ 0 :: skipn (S (length bs)) data /\
           b_wsize r = length bs /\ b_n r = n
      else b_st r = SErr
  | None => b_st r = SErr
  end.
Proof.
  intros l data dsz H0 Hd r. subst r. unfold parse_bufstr.
  destruct l as [|q l]; [destruct H0|].
  unfold str_decode. rewrite str_go_0.
  destruct (q =? ch_QUOTE) eqn:Eq; [|reflexivity].
  assert ((q =? 0) = false) as Eq0 by (apply N.eqb_eq in Eq; subst q; reflexivity).
  apply in0_tail in H0; [|exact Eq0].
  pose proof (str_body_go dsz (length l) l (le_n _) O data 1%nat ltac:(lia) Hd) as H.
  destruct (str_body l) as [[bs rest]|]; [|exact (H H0)].
  cbn [plus] in H.
  destruct (length bs <=? dsz)%nat eqn:El.
  - destruct H as [j [H1 [H2 H3]]]. rewrite H3. specialize (H2 H0).
    destruct rest as [|t rest]; [destruct H2|].
    rewrite str_go_3.
    destruct (is_term t); [|reflexivity].
    rewrite upds_length.
    destruct (length bs <? dsz)%nat eqn:El2.
    + apply Nat.ltb_lt in El2.
      assert ((dsz <=? length bs)%nat = false) as -> by (apply Nat.leb_gt; lia).
      assert ((length bs <? length data)%nat = true) as -> by (apply Nat.ltb_lt; lia).
      cbn [b_st b_data b_wsize b_n].
      rewrite upds_front_nul by lia.
      split; [reflexivity|]. split; [reflexivity|]. split; [reflexivity|].
      cbn [length] in *. lia.
    + apply Nat.ltb_ge in El2.
      assert ((dsz <=? length bs)%nat = true) as -> by (apply Nat.leb_le; lia).
      reflexivity.
  - apply Nat.leb_gt in El.
    destruct rest as [|t rest]; [exact H|].
    destruct (is_term t); [|exact H].
    assert ((length bs <? dsz)%nat = false) as -> by (apply Nat.ltb_ge; lia).
    exact H.
Qed.

Local Close Scope N_scope.

(* ------------------------------------------------------------------ *)
(* 3. memory safety in every case                                      *)
(* ------------------------------------------------------------------ *)

Definition bounds_ok (r : bres) (data : list N) (dsz m : nat) : Prop :=
  b_st r <> SFault /\ length (b_data r) = length data /\
  skipn dsz (b_data r) = skipn dsz data /\ b_wsize r <= dsz /\ b_n r <= m.

Lemma bounds_now : forall s data w n dsz m,
  s <> SFault -> w <= dsz -> n <= m -> bounds_ok (mkBres s data w n) data dsz m.
Proof.
  intros. unfold bounds_ok. cbn [b_st b_data b_wsize b_n]. auto.
Qed.

Lemma bounds_upd : forall r data size v dsz m,
  size < dsz -> bounds_ok r (upd data size v) dsz m -> bounds_ok r data dsz m.
Proof.
  intros r data size v dsz m Hs [H1 [H2 [H3 [H4 H5]]]]. unfold bounds_ok.
  rewrite upd_length in H2. rewrite skipn_upd in H3 by exact Hs. auto.
Qed.

Lemma hex_bounds_go : forall dsz ro l byte st size data n,
  In 0%N l -> size <= dsz -> dsz <= length data ->
  bounds_ok (parse_bufhex_go l byte st size data ro dsz n) data dsz (n + length l).
Proof.
  intros dsz ro l. induction l as [|ch0 r IH]; intros byte st size data n H0 Hs Hd; [destruct H0|].
  rewrite hex_go_cons. cbn [length].
  destruct ((0 <? size) && negb st && is_term (to_upper ch0)).
  { apply bounds_now; [discriminate | destruct ro; lia | lia]. }
  destruct (is_hex (to_upper ch0)) eqn:Eh; cbn [negb];
    [|apply bounds_now; [discriminate | lia | lia]].
  assert (In 0%N r) as H0'.
  { destruct H0 as [H0|H0]; [|exact H0]. subst ch0. discriminate Eh. }
  destruct st.
  - destruct (dsz <=? size) eqn:Ed; [apply bounds_now; [discriminate | lia | lia]|].
    apply Nat.leb_gt in Ed.
    destruct ro.
    + replace (n + S (length r)) with (S n + length r) by lia. apply IH; auto; lia.
    + assert (size <? length data = true) as -> by (apply Nat.ltb_lt; lia).
      eapply bounds_upd; [exact Ed|].
      replace (n + S (length r)) with (S n + length r) by lia.
      apply IH; [exact H0' | lia | rewrite upd_length; exact Hd].
  - replace (n + S (length r)) with (S n + length r) by lia. apply IH; auto.
Qed.

Lemma str_bounds_go : forall dsz ro l st size data n,
  In 0%N l -> size <= dsz -> dsz <= length data ->
  bounds_ok (parse_bufstr_go l st size data ro dsz n) data dsz (n + length l).
Proof.
  intros dsz ro l. induction l as [|ch r IH]; intros st size data n H0 Hs Hd; [destruct H0|].
  cbn [length].
  assert (forall st' size' data', (ch =? 0)%N = false -> size' <= dsz -> dsz <= length data' ->
            bounds_ok (parse_bufstr_go r st' size' data' ro dsz (S n)) data' dsz (n + S (length r))) as Rec.
  { intros st' size' data' E Hs' Hd'.
    replace (n + S (length r)) with (S n + length r) by lia.
    apply IH; [eapply in0_tail; eauto | exact Hs' | exact Hd']. }
  assert (forall c, (ch =? 0)%N = false ->
            bounds_ok (if dsz <=? size then mkBres SErr data O (S n)
                       else if ro then parse_bufstr_go r 1 (S size) data ro dsz (S n)
                       else if size <? length data
                            then parse_bufstr_go r 1 (S size) (upd data size c) ro dsz (S n)
                            else mkBres SFault data O (S n)) data dsz (n + S (length r))) as Store.
  { intros c E.
    destruct (dsz <=? size) eqn:Ed; [apply bounds_now; [discriminate | lia | lia]|].
    apply Nat.leb_gt in Ed.
    destruct ro.
    - apply Rec; [exact E | lia | exact Hd].
    - assert (size <? length data = true) as -> by (apply Nat.ltb_lt; lia).
      eapply bounds_upd; [exact Ed|].
      apply Rec; [exact E | lia | rewrite upd_length; exact Hd]. }
  destruct st as [|[|[|st]]].
  - rewrite str_go_0.
    destruct (ch =? ch_QUOTE)%N eqn:Eq; [|apply bounds_now; [discriminate | lia | lia]].
    apply Rec; auto. apply N.eqb_eq in Eq. subst ch. reflexivity.
  - rewrite str_go_1.
    destruct (ch =? 0)%N eqn:E0; [apply bounds_now; [discriminate | lia | lia]|].
    destruct (ch =? ch_BSL)%N; [apply Rec; auto|].
    destruct (ch =? ch_QUOTE)%N; [apply Rec; auto|].
    apply Store. reflexivity.
  - rewrite str_go_2.
    destruct (unescape ch) as [c|] eqn:Eu; [|apply bounds_now; [discriminate | lia | lia]].
    apply Store. apply N.eqb_neq. eapply unescape_nonzero; eauto.
  - rewrite str_go_3.
    destruct (is_term ch); [|apply bounds_now; [discriminate | lia | lia]].
    destruct (dsz <=? size) eqn:Ed; [apply bounds_now; [discriminate | lia | lia]|].
    apply Nat.leb_gt in Ed.
    destruct ro; [apply bounds_now; [discriminate | lia | lia]|].
    assert (size <? length data = true) as -> by (apply Nat.ltb_lt; lia).
    eapply bounds_upd; [exact Ed|].
    apply bounds_now; [discriminate | lia | lia].
Qed.

Local Open Scope N_scope.

Theorem C05_bounds_hex : forall l data ro dsz,
  In 0 l -> (dsz <= length data)%nat ->
  let r := parse_bufhex l data ro dsz in
  b_st r <> SFault /\ length (b_data r) = length data /\
  skipn dsz (b_data r) = skipn dsz data /\ (b_wsize r <= dsz)%nat /\ (b_n r <= length l)%nat.
Proof.
  intros l data ro dsz H0 Hd r. subst r. unfold parse_bufhex.
  exact (hex_bounds_go dsz ro l 0 false O data O H0 ltac:(lia) Hd).
Qed.

Theorem C05_bounds_str : forall l data ro dsz,
  In 0 l -> (dsz <= length data)%nat ->
  let r := parse_bufstr l data ro dsz in
  b_st r <> SFault /\ length (b_data r) = length data /\
  skipn dsz (b_data r) = skipn dsz data /\ (b_wsize r <= dsz)%nat /\ (b_n r <= length l)%nat.
Proof.
  intros l data ro dsz H0 Hd r. subst r. unfold parse_bufstr.
  exact (str_bounds_go dsz ro l O O data O H0 ltac:(lia) Hd).
Qed.

Local Close Scope N_scope.

(* ------------------------------------------------------------------ *)
(* 4. read-only variables are never modified                           *)
(* ------------------------------------------------------------------ *)

Lemma hex_ro_go : forall dsz data l byte st size n,
  b_data (parse_bufhex_go l byte st size data true dsz n) = data /\
  b_wsize (parse_bufhex_go l byte st size data true dsz n) = O.
Proof.
  intros dsz data l. induction l as [|ch0 r IH]; intros byte st size n.
  - rewrite hex_go_nil. auto.
  - rewrite hex_go_cons.
    destruct ((0 <? size) && negb st && is_term (to_upper ch0)); [auto|].
    destruct (negb (is_hex (to_upper ch0))); [auto|].
    destruct st; [|apply IH].
    destruct (dsz <=? size); [auto|apply IH].
Qed.

Lemma str_ro_go : forall dsz data l st size n,
  b_data (parse_bufstr_go l st size data true dsz n) = data /\
  b_wsize (parse_bufstr_go l st size data true dsz n) = O.
Proof.
  intros dsz data l. induction l as [|ch r IH]; intros st size n.
  - rewrite str_go_nil. auto.
  - destruct st as [|[|[|st]]].
    + rewrite str_go_0. destruct (ch =? ch_QUOTE)%N; [apply IH|auto].
    + rewrite str_go_1.
      destruct (ch =? 0)%N; [auto|].
      destruct (ch =? ch_BSL)%N; [apply IH|].
      destruct (ch =? ch_QUOTE)%N; [apply IH|].
      destruct (dsz <=? size); [auto|apply IH].
    + rewrite str_go_2.
      destruct (unescape ch); [|auto].
      destruct (dsz <=? size); [auto|apply IH].
    + rewrite str_go_3.
      destruct (is_term ch); [|auto].
      destruct (dsz <=? size); auto.
Qed.

Theorem C05_readonly : forall l data dsz,
  b_data (parse_bufhex l data true dsz) = data /\ b_wsize (parse_bufhex l data true dsz) = O /\
  b_data (parse_bufstr l data true dsz) = data /\ b_wsize (parse_bufstr l data true dsz) = O.
Proof.
  intros l data dsz. unfold parse_bufhex, parse_bufstr.
  destruct (hex_ro_go dsz data l 0%N false O O) as [H1 H2].
  destruct (str_ro_go dsz data l O O O) as [H3 H4]. auto.
Qed.

(* ------------------------------------------------------------------ *)
(* non-vacuity                                                         *)
(* ------------------------------------------------------------------ *)
Local Open Scope N_scope.

(* 4afF00 COMMA tail  into a 3-byte variable inside a 6-byte allocation *)
Example ex_hex_ok :
  hexbuf_accepts 3 [52;97;102;70;48;48] = Some [74;255;0] /\
  parse_bufhex ([52;97;102;70;48;48] ++ 44 :: [1;2]) [201;202;203;204;205;206] false 3
  = mkBres (SOk true) [74;255;0;204;205;206] 3 7.
Proof. vm_compute. split; reflexivity. Qed.

(* odd number of digits, and one byte too many *)
Example ex_hex_rej :
  hexbuf_accepts 3 [52;97;102] = None /\ hexbuf_accepts 2 [52;97;102;70;48;48] = None /\
  b_st (parse_bufhex [52;97;102;0] [201;202;203] false 3) = SErr /\
  b_st (parse_bufhex [52;97;102;70;48;48;0] [201;202;203] false 2) = SErr.
Proof. vm_compute. repeat split; reflexivity. Qed.

(* QUOTE BSL BSL BSL QUOTE B BSL n QUOTE COMMA x NUL  decodes to  BSL QUOTE B LF  (4 bytes) plus NUL into dsz = 5 *)
Example ex_str_ok :
  str_decode [34;92;92;92;34;66;92;110;34;44;7;0] = Some ([92;34;66;10], true, 10%nat) /\
  parse_bufstr [34;92;92;92;34;66;92;110;34;44;7;0] [201;202;203;204;205;206] false 5
  = mkBres (SOk true) [92;34;66;10;0;206] 4 10.
Proof. vm_compute. split; reflexivity. Qed.

(* exactly dsz decoded bytes: no room for the NUL, rejected; dsz-1 bytes accepted *)
Example ex_str_full :
  str_decode [34;65;92;110;67;34;0] = Some ([65;10;67], false, 7%nat) /\
  b_st (parse_bufstr [34;65;92;110;67;34;0] [201;202;203;204] false 3) = SErr /\
  b_st (parse_bufstr [34;65;92;110;67;34;0] [201;202;203;204] false 4) = SOk false.
Proof. vm_compute. repeat split; reflexivity. Qed.

(* read-only: scanned, accepted, nothing stored *)
Example ex_ro :
  parse_bufstr [34;65;66;34;0] [201;202;203;204] true 4 = mkBres (SOk false) [201;202;203;204] 0 5.
Proof. vm_compute. reflexivity. Qed.
