(* Properties_C19u.v - property C19, three extras.  Proofs: Lemmas_C19u.v.
   (a) E2E_list_too_long_line / E2E_list_line_total: the command list (run handler answering
       RC_PRINT_CMD_LIST_OK), end to end, when a line does not fit the command buffer: exactly the lines
       before the first one that does not fit, then LF ERROR LF.
   (b) C19_implicit_forms / C19_implicit_write_call / E2E_implicit_write_line / C19_implicit_test_gap:
       for the fully typed name of an implicit-write command the only request form served is WRITE; the
       suffixes that announce RUN / READ / TEST for an ordinary command are argument text.  This is the
       exception left open by Properties_C19.C19_consistent_implicit (f <> F_TEST).
   (c) C19_list_flags_sched / C19_list_flags_constant / C19_list_flag_per_command /
       C19_list_printed_lines_stay / pcl_ignores_flags / pcl_none_samples: what the list printer does when
       a disable flag changes during the listing: the flag of a command is sampled once, in the printer
       call that begins its block. *)
From Coq Require Import List NArith ZArith Bool Arith Lia.
From CatV Require Import Bytes Defs Codec Spec Fsm Script ResolveDefs SchedDefs GlueDefs TextDefs CollectDefs.
From CatV Require Lemmas_E2E Lemmas_E2Eb Lemmas_C19u.
Import ListNotations.
Local Open Scope nat_scope.

Local Notation wst := (Fsm.st sio smu shs).
Local Notation wio := (Fsm.io sio smu shs).
Local Notation whs := (Fsm.hs sio smu shs).
Local Notation wtr := (Fsm.tr sio smu shs).

(* ====================================================================================== *)
(* (a) the command list, end to end, when a line does not fit the command buffer           *)
(* ====================================================================================== *)
(* Same setting and hypotheses as Properties_C19e.E2E_list_line (a line  AT<name> LF  whose run handler
   answers RC_PRINT_CMD_LIST_OK, fed through the scripted always-ready environment, event machine idle,
   no mutex), but instead of "every line fits": line number j of the specification's list is the first
   one whose length is not smaller than the buffer.  Then the output is EXACTLY the lines before it,
   followed by LF ERROR LF: no part of line j, none of the later lines (even those that would fit), and
   ERROR instead of OK.  The machine is back in CS_IDLE with the rest of the input untouched, one handler
   call, variables untouched. *)
Theorem E2E_list_too_long_line : forall D s name rest h h' i c r0 j l,
  d_mutex D = false -> 0 < ncmds D -> ncmds D <= 4 * length (cbuf s) -> 6 <= length (cbuf s) ->
  fault s = false ->
  k_state (k s) = CS_IDLE -> k_cr (k s) = false -> k_implicit (k s) = false -> k_hold (k s) = false ->
  u_state (u s) = US_IDLE -> u_count (u s) = 0 ->
  name_ok name = true -> implicit_hit D s (upper name) = false ->
  resolve (upper name) (enabled D s) (cmds D) = Some i -> nth_error (cmds D) i = Some c ->
  c_hrun c = true -> c_only_test c = false ->
  s_call h (HRun i) = (h', r0) -> r_code r0 = RC_PRINT_CMD_LIST_OK -> r_edit r0 = None ->
  r_pokes r0 = [] -> r_calls r0 = [] ->
  (forall c', In c' (cmds D) -> ~ In 0%N (c_name c')) ->
  let lines := spec_cmd_list D (enabled D s) [ch_LF] in
  nth_error lines j = Some l -> length (cbuf s) <= length l ->
  forallb (fun l => length l <? length (cbuf s)) (firstn j lines) = true ->
  let w0 := mkw s ([ch_A; ch_T] ++ name ++ [ch_LF] ++ rest) h [] in
  exists calls, let w := nsvc D calls w0 in
    k_state (k (wst w)) = CS_IDLE /\ inq (wio w) = rest /\ whs w = h' /\
    calls_of (wtr w) = [(HRun i, RC_PRINT_CMD_LIST_OK)] /\
    mem (wst w) = mem s /\ fault (wst w) = false /\
    output_of (wtr w) = concat (firstn j lines) ++ [ch_LF] ++ txt_ERROR ++ [ch_LF].
Proof. exact Lemmas_C19u.E2E_list_too_long_line_proof. Qed.
Print Assumptions E2E_list_too_long_line.

(* the longest prefix of elements that pass a test *)
Example def_fit_prefix : forall (A : Type) (P : A -> bool) (ls : list A),
  Lemmas_C19u.fit_prefix P ls =
  match ls with [] => [] | x :: r => if P x then x :: Lemmas_C19u.fit_prefix P r else [] end.
Proof. intros A P ls. destruct ls; reflexivity. Qed.

(* E2E_list_line and E2E_list_too_long_line in one statement, with no hypothesis on the line lengths:
   the output is the longest prefix of lines that fit, then LF, then OK if that was every line and ERROR
   otherwise, then LF.  In particular a truncated line is never emitted. *)
Theorem E2E_list_line_total : forall D s name rest h h' i c r0,
  d_mutex D = false -> 0 < ncmds D -> ncmds D <= 4 * length (cbuf s) -> 6 <= length (cbuf s) ->
  fault s = false ->
  k_state (k s) = CS_IDLE -> k_cr (k s) = false -> k_implicit (k s) = false -> k_hold (k s) = false ->
  u_state (u s) = US_IDLE -> u_count (u s) = 0 ->
  name_ok name = true -> implicit_hit D s (upper name) = false ->
  resolve (upper name) (enabled D s) (cmds D) = Some i -> nth_error (cmds D) i = Some c ->
  c_hrun c = true -> c_only_test c = false ->
  s_call h (HRun i) = (h', r0) -> r_code r0 = RC_PRINT_CMD_LIST_OK -> r_edit r0 = None ->
  r_pokes r0 = [] -> r_calls r0 = [] ->
  (forall c', In c' (cmds D) -> ~ In 0%N (c_name c')) ->
  let lines := spec_cmd_list D (enabled D s) [ch_LF] in
  let fit := fun l : list N => length l <? length (cbuf s) in
  let w0 := mkw s ([ch_A; ch_T] ++ name ++ [ch_LF] ++ rest) h [] in
  exists calls, let w := nsvc D calls w0 in
    k_state (k (wst w)) = CS_IDLE /\ inq (wio w) = rest /\ whs w = h' /\
    calls_of (wtr w) = [(HRun i, RC_PRINT_CMD_LIST_OK)] /\
    mem (wst w) = mem s /\ fault (wst w) = false /\
    output_of (wtr w) = concat (Lemmas_C19u.fit_prefix fit lines) ++ [ch_LF] ++
                        (if forallb fit lines then txt_OK else txt_ERROR) ++ [ch_LF].
Proof. exact Lemmas_C19u.E2E_list_line_total_proof. Qed.
Print Assumptions E2E_list_line_total.

(* non-vacuity.  Descriptor DA: 0 "+X" (run), 1 "+XY" (run; its handler asks for the list), 2 "+LONG" (run, test),
   3 "+Z" (run); command buffer of 8 bytes.  Input "AT+xy" LF then byte 7.  The specified list has five lines;
   LF AT+X LF (6 bytes) and LF AT+XY LF (7) fit, LF AT+LONG LF (9) is the first that does not (j = 2).
   After 65 service calls: idle, byte 7 still queued, one handler call, and on the output
   LF "AT+X" LF  LF "AT+XY" LF  LF "ERROR" LF : nothing of "+LONG", and nothing of "+Z" although its line would fit. *)
Example E2E_list_too_long_line_example :
  length (cbuf Lemmas_C19u.A_example.sA) = 8 /\
  Lemmas_C19u.A_example.linesA =
    [[10; 65; 84; 43; 88; 10]; [10; 65; 84; 43; 88; 89; 10]; [10; 65; 84; 43; 76; 79; 78; 71; 10];
     [65; 84; 43; 76; 79; 78; 71; 61; 63; 10]; [10; 65; 84; 43; 90; 10]]%N /\
  Lemmas_C19u.A_example.goA 65 =
  (CS_IDLE, [7%N], Lemmas_C19u.A_example.hA', [(HRun 1, RC_PRINT_CMD_LIST_OK)],
   [10; 65; 84; 43; 88; 10;  10; 65; 84; 43; 88; 89; 10;  10; 69; 82; 82; 79; 82; 10]%N,
   Lemmas_C19u.A_example.mA, false).
Proof. vm_compute. repeat split; reflexivity. Qed.

(* the theorem applied to this instance (all its hypotheses hold, j = 2) *)
Example E2E_list_too_long_line_applies :
  exists calls, let w := nsvc Lemmas_C19u.A_example.DA calls
                           (mkw Lemmas_C19u.A_example.sA Lemmas_C19u.A_example.lineA Lemmas_C19u.A_example.hA []) in
    k_state (k (wst w)) = CS_IDLE /\ inq (wio w) = [7%N] /\ whs w = Lemmas_C19u.A_example.hA' /\
    calls_of (wtr w) = [(HRun 1, RC_PRINT_CMD_LIST_OK)] /\
    mem (wst w) = Lemmas_C19u.A_example.mA /\ fault (wst w) = false /\
    output_of (wtr w) =
      concat (firstn 2 (spec_cmd_list Lemmas_C19u.A_example.DA (enabled Lemmas_C19u.A_example.DA Lemmas_C19u.A_example.sA) [ch_LF])) ++
      [ch_LF] ++ txt_ERROR ++ [ch_LF].
Proof. exact Lemmas_C19u.A_example.ex_too_long. Qed.

(* ====================================================================================== *)
(* (b) the request forms served for the fully typed name of an implicit-write command       *)
(* ====================================================================================== *)
(* (b) C19_implicit_forms.
   For an IMPLICIT-WRITE command the request forms SERVED for its fully typed name are exactly WRITE:
   the lookup starts as soon as the name is complete, with request type WRITE, and whatever follows the
   name — nothing, a question mark, an equals sign and a question mark (the suffixes that announce
   RUN / READ / WRITE / TEST for an ordinary command) — is collected verbatim as the argument text and
   handed to the write handler.  Proofs: Lemmas_C19u.v, Module B. *)
Section PartB.
Local Notation st := (Fsm.st sio smu shs).
Local Notation io := (Fsm.io sio smu shs).
Local Notation hs := (Fsm.hs sio smu shs).
Local Notation tr := (Fsm.tr sio smu shs).

(* B1. the dispatcher, whole argument text.  Hypotheses of C02_dispatch_implicit verbatim, plus: the
   command found (the FIRST enabled command with that name) is itself implicit — see the example
   implicit_shadowed_by_duplicate below for why this cannot be dropped — and the bytes args that follow
   the name contain no LF and, their carriage returns removed (a = no_cr args, CollectDefs.v), fit the
   working buffer.  The bytes are ARBITRARY otherwise: in particular they may begin with the question mark
   or the equals sign.  The request type stays WRITE, the text a is in the buffer NUL-terminated with its
   exact length, and a carriage return among the bytes is remembered for the newline of the response. *)
Theorem C19_implicit_forms : forall D s name args rest h i c,
  d_mutex D = false ->
  let n := ncmds D in
  0 < n -> n <= 4 * length (cbuf s) -> fault s = false ->
  k_state (k s) = CS_IDLE -> k_implicit (k s) = false ->
  u_state (u s) = US_IDLE -> u_count (u s) = 0 ->
  name_ok name = true ->
  let typed := upper name in
  implicit_hit D s (removelast typed) = false -> implicit_hit D s typed = true ->
  find_full typed (enabled D s) (cmds D) 0 = Some i -> nth_error (cmds D) i = Some c ->
  c_implicit c = true ->
  let a := no_cr args in
  ~ In ch_LF args -> length a < length (cbuf s) ->
  let w0 := mkw s ([ch_A; ch_T] ++ name ++ args ++ rest) h [] in
  exists calls, calls <= 3 + length name * (S n) + n + length args /\
    let w := nsvc D calls w0 in
    inq (io w) = rest /\ hs w = h /\ calls_of (tr w) = [] /\ output_of (tr w) = [] /\
    mem (st w) = mem s /\ fault (st w) = false /\ u (st w) = u s /\
    k_state (k (st w)) = CS_PARSE_COMMAND_ARGS /\ k_cmd (k (st w)) = Some i /\
    k_type (k (st w)) = T_WRITE /\ k_length (k (st w)) = length a /\
    firstn (S (length a)) (cbuf (st w)) = a ++ [0%N] /\
    k_cr (k (st w)) = (k_cr (k s) || existsb (fun ch => (ch =? ch_CR)%N) args).
Proof. exact Lemmas_C19u.B.C19_implicit_forms_proof. Qed.
Print Assumptions C19_implicit_forms.

(* B2. through the line feed to the write handler: the one and only handler call of the line is
   HWrite i (a ++ NUL) |a| 0, whatever the handler returns; at the moment it has returned nothing
   has been written yet *)
Theorem C19_implicit_write_call : forall D s name args rest h h' r0 i c,
  d_mutex D = false ->
  let n := ncmds D in
  0 < n -> n <= 4 * length (cbuf s) -> fault s = false ->
  k_state (k s) = CS_IDLE -> k_implicit (k s) = false ->
  u_state (u s) = US_IDLE -> u_count (u s) = 0 ->
  name_ok name = true ->
  let typed := upper name in
  implicit_hit D s (removelast typed) = false -> implicit_hit D s typed = true ->
  find_full typed (enabled D s) (cmds D) 0 = Some i -> nth_error (cmds D) i = Some c ->
  c_implicit c = true ->
  let a := no_cr args in
  ~ In ch_LF args -> length a < length (cbuf s) ->
  c_only_test c = false -> vars_access_possible c WO = false -> c_hwrite c = true ->
  s_call h (HWrite i (a ++ [0%N]) (length a) 0) = (h', r0) -> r_pokes r0 = [] -> r_calls r0 = [] ->
  let w0 := mkw s ([ch_A; ch_T] ++ name ++ args ++ [ch_LF] ++ rest) h [] in
  exists calls, calls <= 5 + length name * (S n) + n + length args /\
    let w := nsvc D calls w0 in
    inq (io w) = rest /\ hs w = h' /\
    calls_of (tr w) = [(HWrite i (a ++ [0%N]) (length a) 0, r_code r0)] /\
    output_of (tr w) = [] /\
    mem (st w) = mem s /\ fault (st w) = false /\ u (st w) = u s.
Proof. exact Lemmas_C19u.B.C19_implicit_write_call_proof. Qed.
Print Assumptions C19_implicit_write_call.

(* B2'. the whole line when the handler returns a code that ends the line (Fsm.process_write_loop:
   OK and DATA_OK answer OK; NEXT, DATA_NEXT and HOLD keep the line open; every other code answers
   ERROR): that single call, the response  newline text newline  with the newline of this line (CR LF if
   a carriage return was seen), the parser idle again with the line, the result code and the reset
   counted once each *)
Definition write_code_text (code : Z) : option (list N) :=
  if (code =? RC_OK)%Z || (code =? RC_DATA_OK)%Z then Some txt_OK
  else if (code =? RC_DATA_NEXT)%Z || (code =? RC_NEXT)%Z then None
  else if (code =? RC_HOLD)%Z then None
  else Some txt_ERROR.

Theorem E2E_implicit_write_line : forall D s name args rest h h' r0 i c txt,
  d_mutex D = false ->
  let n := ncmds D in
  0 < n -> n <= 4 * length (cbuf s) -> 6 <= length (cbuf s) -> fault s = false ->
  k_state (k s) = CS_IDLE -> k_implicit (k s) = false -> k_hold (k s) = false ->
  u_state (u s) = US_IDLE -> u_count (u s) = 0 ->
  name_ok name = true ->
  let typed := upper name in
  implicit_hit D s (removelast typed) = false -> implicit_hit D s typed = true ->
  find_full typed (enabled D s) (cmds D) 0 = Some i -> nth_error (cmds D) i = Some c ->
  c_implicit c = true ->
  let a := no_cr args in
  ~ In ch_LF args -> length a < length (cbuf s) ->
  c_only_test c = false -> vars_access_possible c WO = false -> c_hwrite c = true ->
  s_call h (HWrite i (a ++ [0%N]) (length a) 0) = (h', r0) -> r_pokes r0 = [] -> r_calls r0 = [] ->
  write_code_text (r_code r0) = Some txt ->
  let nl := if k_cr (k s) || existsb (fun ch => (ch =? ch_CR)%N) args then [ch_CR; ch_LF] else [ch_LF] in
  let w0 := mkw s ([ch_A; ch_T] ++ name ++ args ++ [ch_LF] ++ rest) h [] in
  exists calls,
    let w := nsvc D calls w0 in
    inq (io w) = rest /\ hs w = h' /\
    calls_of (tr w) = [(HWrite i (a ++ [0%N]) (length a) 0, r_code r0)] /\
    output_of (tr w) = nl ++ txt ++ nl /\
    k_state (k (st w)) = CS_IDLE /\ mem (st w) = mem s /\ fault (st w) = false /\ u (st w) = u s /\
    gL (st w) = S (gL s) /\ gS (st w) = S (gS s) /\ gR (st w) = S (gR s) /\
    k_cr (k (st w)) = false /\ k_hold (k (st w)) = false /\ k_cmd (k (st w)) = None.
Proof. exact Lemmas_C19u.B.E2E_implicit_write_line_proof. Qed.
Print Assumptions E2E_implicit_write_line.

(* B3. relation to C19_consistent / C19_consistent_implicit (Properties_C19.v).
   Spec.dispatch_accepts c f is the per-form acceptance ONCE A REQUEST OF FORM f REACHES
   command_found / parse_command_args with c selected.  For the fully typed name of an implicit-write
   command only WRITE ever reaches it (C19_implicit_forms): the suffixes that would announce RUN, READ or
   TEST are argument text.  RUN and READ of an implicit command are reachable only through an
   abbreviation (a proper prefix) of its name (example implicit_abbreviation below); TEST is reachable in
   no way, because the shortcut in parse_command_args is guarded by the implicit flag — this is the one
   form where the printed list and the dispatcher differ: *)
Theorem C19_implicit_test_gap : forall c, c_implicit c = true ->
  (c_htest c || nonempty (c_vars c)) = true ->
  advertised c F_TEST = true /\ dispatch_accepts c F_TEST = false.
Proof. exact Lemmas_C19u.B.C19_implicit_test_gap_proof. Qed.
Print Assumptions C19_implicit_test_gap.

Theorem C19_implicit_other_forms : forall c f, c_implicit c = true -> f <> F_TEST ->
  advertised c f = dispatch_accepts c f.
Proof. exact Lemmas_C19u.B.C19_implicit_other_forms_proof. Qed.
Print Assumptions C19_implicit_other_forms.

End PartB.

(* ---------- examples (non-vacuity), by computation ---------- *)
Module ExamplesB.
Local Notation st := (Fsm.st sio smu shs).
Local Notation io := (Fsm.io sio smu shs).
Local Notation hs := (Fsm.hs sio smu shs).
Local Notation tr := (Fsm.tr sio smu shs).

Definition mkc (nm : list N) (hw hr hrun ht : bool) (vars : list var) (imp : bool) : cmd :=
  mkCmd nm None hw hr hrun ht vars false false imp.
Definition v_u8 := mkVar None VUint 1 RW false false 0.
(* the table of Properties_C02h.Examples:
   0 "+GO" (run)   1 "+GET" (one uint8 variable)   2 "+GO" again (run)   3 "+T" (run)
   4 "+TEST" (run, test)   5 "D" (implicit write) *)
Definition cD : cmd := mkc [68]%N true false false false [] true.
Definition exD : desc :=
  mkDesc [[mkc [43;71;79]%N false false true false [] false;
           mkc [43;71;69;84]%N false false false false [v_u8] false;
           mkc [43;71;79]%N false false true false [] false;
           mkc [43;84]%N false false true false [] false;
           mkc [43;84;69;83;84]%N false false true true [] false;
           cD]]
         [] 32 None 0%N 2 false.
Definition exM : list (list N) := [[7%N]].
Definition s0 : state := init_state exD exM.
(* the write handler of command 5 answers OK the first time, ERROR the second time *)
Definition hh : shs := [((0, 5, 0), [mkHres RC_OK None [] []; mkHres RC_ERROR None [] []])].
Definition hh1 : shs := [((0, 5, 0), [mkHres RC_ERROR None [] []])].

Definition line (w : sworld) := (k_state (k (st w)), inq (io w), calls_of (tr w), output_of (tr w)).

(* B4. the three forms of the fully typed name, lower case d: one WRITE handler call each, argument text
   empty / one question mark / equals sign and question mark; no read, test or run handler is called;
   response LF OK LF, parser idle *)
Example implicit_forms_calls :
  line (nsvc exD 60 (mkw s0 [65;84;100;10]%N hh [])) =
    (CS_IDLE, [], [(HWrite 5 [0%N] 0 0, RC_OK)], [10;79;75;10]%N) /\
  line (nsvc exD 60 (mkw s0 [65;84;100;63;10]%N hh [])) =
    (CS_IDLE, [], [(HWrite 5 [63;0]%N 1 0, RC_OK)], [10;79;75;10]%N) /\
  line (nsvc exD 60 (mkw s0 [65;84;100;61;63;10]%N hh [])) =
    (CS_IDLE, [], [(HWrite 5 [61;63;0]%N 2 0, RC_OK)], [10;79;75;10]%N).
Proof. vm_compute. repeat split; reflexivity. Qed.

(* the intermediate states of the third line: after 18 calls the text is collected (the state of
   C19_implicit_forms, LF unread), after 20 the handler has just returned (C19_implicit_write_call) *)
Example implicit_forms_trace :
  (let w := nsvc exD 18 (mkw s0 [65;84;100;61;63;10]%N hh []) in
   (k_state (k (st w)), k_cmd (k (st w)), k_type (k (st w)), k_length (k (st w)), firstn 3 (cbuf (st w)),
    inq (io w), calls_of (tr w))) =
    (CS_PARSE_COMMAND_ARGS, Some 5, T_WRITE, 2, [61;63;0]%N, [10%N], []) /\
  (let w := nsvc exD 20 (mkw s0 [65;84;100;61;63;10]%N hh []) in
   (inq (io w), hs w, calls_of (tr w), output_of (tr w))) =
    ([], hh1, [(HWrite 5 [61;63;0]%N 2 0, RC_OK)], []).
Proof. vm_compute. split; reflexivity. Qed.

(* the terminal's line ending CR LF, and the handler's second answer (ERROR): the carriage return is
   not part of the argument text, the response uses CR LF *)
Example implicit_forms_crlf :
  line (nsvc exD 60 (mkw s0 [65;84;100;63;13;10]%N hh [])) =
    (CS_IDLE, [], [(HWrite 5 [63;0]%N 1 0, RC_OK)], [13;10;79;75;13;10]%N) /\
  line (nsvc exD 60 (mkw s0 [65;84;100;61;63;13;10]%N hh1 [])) =
    (CS_IDLE, [], [(HWrite 5 [61;63;0]%N 2 0, RC_ERROR)], [13;10;69;82;82;79;82;13;10]%N).
Proof. vm_compute. split; reflexivity. Qed.

(* the hypotheses of the three theorems hold on this instance: the theorems applied, for ANY bytes
   without LF whose text (CRs removed) is shorter than the buffer (16 bytes) and any rest of the input *)
Lemma exB1_applies : forall args rest h,
  ~ In ch_LF args -> length (no_cr args) < 16 ->
  exists calls, calls <= 16 + length args /\
    let w := nsvc exD calls (mkw s0 ([ch_A; ch_T] ++ [100%N] ++ args ++ rest) h []) in
    inq (io w) = rest /\ hs w = h /\ calls_of (tr w) = [] /\ output_of (tr w) = [] /\
    mem (st w) = mem s0 /\ fault (st w) = false /\ u (st w) = u s0 /\
    k_state (k (st w)) = CS_PARSE_COMMAND_ARGS /\ k_cmd (k (st w)) = Some 5 /\
    k_type (k (st w)) = T_WRITE /\ k_length (k (st w)) = length (no_cr args) /\
    firstn (S (length (no_cr args))) (cbuf (st w)) = no_cr args ++ [0%N] /\
    k_cr (k (st w)) = (false || existsb (fun ch => (ch =? ch_CR)%N) args).
Proof.
  intros args rest h Hlf Hfit.
  exact (C19_implicit_forms exD s0 [100%N] args rest h 5 cD eq_refl
           ltac:(vm_compute; lia) ltac:(vm_compute; lia) eq_refl eq_refl eq_refl eq_refl eq_refl eq_refl
           eq_refl eq_refl eq_refl eq_refl eq_refl Hlf Hfit).
Qed.

Lemma exB2_applies : forall args rest h h' r0,
  ~ In ch_LF args -> length (no_cr args) < 16 ->
  s_call h (HWrite 5 (no_cr args ++ [0%N]) (length (no_cr args)) 0) = (h', r0) ->
  r_pokes r0 = [] -> r_calls r0 = [] ->
  exists calls, calls <= 18 + length args /\
    let w := nsvc exD calls (mkw s0 ([ch_A; ch_T] ++ [100%N] ++ args ++ [ch_LF] ++ rest) h []) in
    inq (io w) = rest /\ hs w = h' /\
    calls_of (tr w) = [(HWrite 5 (no_cr args ++ [0%N]) (length (no_cr args)) 0, r_code r0)] /\
    output_of (tr w) = [] /\
    mem (st w) = mem s0 /\ fault (st w) = false /\ u (st w) = u s0.
Proof.
  intros args rest h h' r0 Hlf Hfit Hcall Hp Hc.
  exact (C19_implicit_write_call exD s0 [100%N] args rest h h' r0 5 cD eq_refl
           ltac:(vm_compute; lia) ltac:(vm_compute; lia) eq_refl eq_refl eq_refl eq_refl eq_refl eq_refl
           eq_refl eq_refl eq_refl eq_refl eq_refl Hlf Hfit eq_refl eq_refl eq_refl Hcall Hp Hc).
Qed.

Lemma exB2line_applies : forall args rest h h' r0 txt,
  ~ In ch_LF args -> length (no_cr args) < 16 ->
  s_call h (HWrite 5 (no_cr args ++ [0%N]) (length (no_cr args)) 0) = (h', r0) ->
  r_pokes r0 = [] -> r_calls r0 = [] -> write_code_text (r_code r0) = Some txt ->
  let nl := if false || existsb (fun ch => (ch =? ch_CR)%N) args then [ch_CR; ch_LF] else [ch_LF] in
  exists calls,
    let w := nsvc exD calls (mkw s0 ([ch_A; ch_T] ++ [100%N] ++ args ++ [ch_LF] ++ rest) h []) in
    inq (io w) = rest /\ hs w = h' /\
    calls_of (tr w) = [(HWrite 5 (no_cr args ++ [0%N]) (length (no_cr args)) 0, r_code r0)] /\
    output_of (tr w) = nl ++ txt ++ nl /\
    k_state (k (st w)) = CS_IDLE /\ mem (st w) = mem s0 /\ fault (st w) = false /\ u (st w) = u s0 /\
    gL (st w) = S (gL s0) /\ gS (st w) = S (gS s0) /\ gR (st w) = S (gR s0) /\
    k_cr (k (st w)) = false /\ k_hold (k (st w)) = false /\ k_cmd (k (st w)) = None.
Proof.
  intros args rest h h' r0 txt Hlf Hfit Hcall Hp Hc Hcode.
  exact (E2E_implicit_write_line exD s0 [100%N] args rest h h' r0 5 cD txt eq_refl
           ltac:(vm_compute; lia) ltac:(vm_compute; lia) ltac:(vm_compute; lia)
           eq_refl eq_refl eq_refl eq_refl eq_refl eq_refl eq_refl
           eq_refl eq_refl eq_refl eq_refl eq_refl Hlf Hfit eq_refl eq_refl eq_refl Hcall Hp Hc Hcode).
Qed.

Lemma no_lf_3 : forall a b c : N, a <> ch_LF -> b <> ch_LF -> c <> ch_LF -> ~ In ch_LF [a; b; c].
Proof. intros a b c H1 H2 H3 [E|[E|[E|[]]]]; congruence. Qed.

(* the instance: the TEST-looking suffix (equals sign, question mark) of the implicit command D, typed in
   lower case and followed by a carriage return *)
Local Notation qargs := [61%N; 63%N; 13%N].
Example exB1_test_suffix :
  exists calls, calls <= 16 + 3 /\
    let w := nsvc exD calls (mkw s0 ([ch_A; ch_T] ++ [100%N] ++ qargs ++ [10%N]) hh []) in
    inq (io w) = [10%N] /\ hs w = hh /\ calls_of (tr w) = [] /\ output_of (tr w) = [] /\
    mem (st w) = mem s0 /\ fault (st w) = false /\ u (st w) = u s0 /\
    k_state (k (st w)) = CS_PARSE_COMMAND_ARGS /\ k_cmd (k (st w)) = Some 5 /\
    k_type (k (st w)) = T_WRITE /\ k_length (k (st w)) = 2 /\
    firstn 3 (cbuf (st w)) = [61%N; 63%N] ++ [0%N] /\
    k_cr (k (st w)) = true.
Proof.
  exact (exB1_applies qargs [10%N] hh
           (no_lf_3 61%N 63%N 13%N ltac:(discriminate) ltac:(discriminate) ltac:(discriminate))
           ltac:(vm_compute; lia)).
Qed.

Example exB2_test_suffix :
  exists calls, calls <= 18 + 3 /\
    let w := nsvc exD calls (mkw s0 ([ch_A; ch_T] ++ [100%N] ++ qargs ++ [ch_LF] ++ []) hh []) in
    inq (io w) = [] /\ hs w = hh1 /\
    calls_of (tr w) = [(HWrite 5 ([61%N; 63%N] ++ [0%N]) 2 0, RC_OK)] /\
    output_of (tr w) = [] /\
    mem (st w) = mem s0 /\ fault (st w) = false /\ u (st w) = u s0.
Proof.
  exact (exB2_applies qargs [] hh hh1 (mkHres RC_OK None [] [])
           (no_lf_3 61%N 63%N 13%N ltac:(discriminate) ltac:(discriminate) ltac:(discriminate))
           ltac:(vm_compute; lia) eq_refl eq_refl eq_refl).
Qed.

Example exB2line_test_suffix :
  exists calls,
    let w := nsvc exD calls (mkw s0 ([ch_A; ch_T] ++ [100%N] ++ qargs ++ [ch_LF] ++ []) hh1 []) in
    inq (io w) = [] /\ hs w = [((0, 5, 0), [])] /\
    calls_of (tr w) = [(HWrite 5 ([61%N; 63%N] ++ [0%N]) 2 0, RC_ERROR)] /\
    output_of (tr w) = [ch_CR; ch_LF] ++ txt_ERROR ++ [ch_CR; ch_LF] /\
    k_state (k (st w)) = CS_IDLE /\ mem (st w) = mem s0 /\ fault (st w) = false /\ u (st w) = u s0 /\
    gL (st w) = S (gL s0) /\ gS (st w) = S (gS s0) /\ gR (st w) = S (gR s0) /\
    k_cr (k (st w)) = false /\ k_hold (k (st w)) = false /\ k_cmd (k (st w)) = None.
Proof.
  exact (exB2line_applies qargs [] hh1 [((0, 5, 0), [])] (mkHres RC_ERROR None [] []) txt_ERROR
           (no_lf_3 61%N 63%N 13%N ltac:(discriminate) ltac:(discriminate) ltac:(discriminate))
           ltac:(vm_compute; lia) eq_refl eq_refl eq_refl eq_refl).
Qed.

(* the hypothesis  c_implicit c = true  on the FOUND command is necessary: command 0 = D, NOT implicit,
   write and test handlers, registered before command 1 = D, implicit.  Typing the name starts the
   implicit lookup (implicit_hit), find_full selects command 0, and for that command the question mark
   as first argument byte is the TEST shortcut: the line ATD? ends in the TEST handler of command 0
   (while ATD=? is a WRITE to command 0 with the text =?) *)
Definition exS : desc :=
  mkDesc [[mkc [68]%N true false false true [] false;
           mkc [68]%N true false false false [] true]] [] 32 None 0%N 2 false.
Definition sS : state := init_state exS exM.
Example implicit_shadowed_by_duplicate :
  implicit_hit exS sS (removelast [68%N]) = false /\ implicit_hit exS sS [68%N] = true /\
  find_full [68%N] (enabled exS sS) (cmds exS) 0 = Some 0 /\
  (let w := nsvc exS 8 (mkw sS [65;84;68;63;10]%N [] []) in
   (k_state (k (st w)), k_cmd (k (st w)), k_type (k (st w)), inq (io w))) =
    (CS_WAIT_TEST_ACK, Some 0, T_TEST, [10%N]) /\
  line (nsvc exS 60 (mkw sS [65;84;68;63;10]%N [] [])) =
    (CS_IDLE, [], [(HTest ATCMD 0 [68;61;0]%N 2 16, RC_OK)], [10;79;75;10]%N) /\
  line (nsvc exS 60 (mkw sS [65;84;68;61;63;10]%N [] [])) =
    (CS_IDLE, [], [(HWrite 0 [61;63;0]%N 2 0, RC_OK)], [10;79;75;10]%N).
Proof. vm_compute. repeat split; reflexivity. Qed.

(* RUN and READ of an implicit command are reachable through an abbreviation of its name, TEST is not:
   the only command DA is implicit and has all four handlers.  The list advertises all four forms,
   dispatch_accepts all but TEST; typed as the abbreviation D the suffixes keep their usual meaning
   (RUN, READ, WRITE) except that the question mark after the equals sign is argument text; typed in
   full every suffix is argument text *)
Definition cA : cmd := mkc [68;65]%N true true true true [] true.
Definition exA : desc := mkDesc [[cA]] [] 32 None 0%N 2 false.
Definition sA : state := init_state exA exM.
Example implicit_abbreviation :
  map (advertised cA) [F_RUN; F_READ; F_WRITE; F_TEST] = [true; true; true; true] /\
  map (dispatch_accepts cA) [F_RUN; F_READ; F_WRITE; F_TEST] = [true; true; true; false] /\
  map (fun l => calls_of (tr (nsvc exA 60 (mkw sA l [] []))))
      [[65;84;68;10]; [65;84;68;63;10]; [65;84;68;61;49;10]; [65;84;68;61;63;10]]%N =
    [[(HRun 0, RC_OK)]; [(HRead ATCMD 0 [68;65;61;0]%N 3 16, RC_OK)];
     [(HWrite 0 [49;0]%N 1 0, RC_OK)]; [(HWrite 0 [63;0]%N 1 0, RC_OK)]] /\
  map (fun l => calls_of (tr (nsvc exA 60 (mkw sA l [] []))))
      [[65;84;68;65;10]; [65;84;68;65;63;10]; [65;84;68;65;61;63;10]]%N =
    [[(HWrite 0 [0%N] 0 0, RC_OK)]; [(HWrite 0 [63;0]%N 1 0, RC_OK)]; [(HWrite 0 [61;63;0]%N 2 0, RC_OK)]].
Proof. vm_compute. repeat split; reflexivity. Qed.

(* the gap theorem applies to cA *)
Example implicit_test_gap_ex : advertised cA F_TEST = true /\ dispatch_accepts cA F_TEST = false.
Proof. exact (C19_implicit_test_gap cA eq_refl eq_refl). Qed.

End ExamplesB.

(* ====================================================================================== *)
(* (c) the command list when a disable flag changes during the listing                      *)
(* ====================================================================================== *)
Import Lemmas_C19u.C.

(* ================= the definitions used in the statements (they live in the lemma file) ================= *)

(* any sequence of OSetCmdDisable / OSetGroupDisable operations between two cat_service calls
   (Fsm.v: set_dis_cmd (set_flag (dis_cmd s) i b) s, resp. dis_grp) is a flag_op *)
Example def_flag_op : forall fc fg s,
  flag_op fc fg s = set_dis_grp (fg (dis_grp s)) (set_dis_cmd (fc (dis_cmd s)) s).
Proof. reflexivity. Qed.
Example def_flag_op_set_cmd : forall i b s,
  set_dis_cmd (set_flag (dis_cmd s) i b) s = flag_op (fun dc => set_flag dc i b) (fun dg => dg) s.
Proof. intros i b []. reflexivity. Qed.
Example def_flag_op_set_grp : forall g b s,
  set_dis_grp (set_flag (dis_grp s) g b) s = flag_op (fun dc => dc) (fun dg => set_flag dg g b) s.
Proof. intros g b []. reflexivity. Qed.
Example def_flag_op_compose : forall fc fg fc' fg' s,
  flag_op fc' fg' (flag_op fc fg s) = flag_op (fun x => fc' (fc x)) (fun x => fg' (fg x)) s.
Proof. reflexivity. Qed.

(* a schedule: sch t is the flag change applied just before printer call number t (t = 0, 1, 2, ...
   counts the calls of print_cmd_list since the listing started) *)
Example def_fsched : fsched = (nat -> (list bool -> list bool) * (list bool -> list bool)).
Proof. reflexivity. Qed.

(* TextDefs.list_run with the scheduled flag change before every printer call *)
Example def_list_run_sch_O : forall D sch t s acc, list_run_sch D sch t 0 s acc = (acc, s).
Proof. reflexivity. Qed.
Example def_list_run_sch_S : forall D sch t n s acc,
  list_run_sch D sch t (S n) s acc =
  if cstate_beq (k_state (k s)) CS_PRINT_CMD then
    let s1 := print_cmd_list D (flag_op (fst (sch t)) (snd (sch t)) s) in
    if cstate_beq (k_state (k s1)) CS_FLUSH_WAIT && cstate_beq (k_wafter (k s1)) CS_PRINT_CMD
    then list_run_sch D sch (S t) n (setk_state CS_PRINT_CMD s1) (acc ++ [text_of (cbuf s1)])
    else list_run_sch D sch (S t) n s1 acc
  else (acc, s).
Proof. reflexivity. Qed.

(* Fsm.is_command_disable as a function of the two flag lists *)
Example def_cmd_disabled : forall D dc dg i,
  cmd_disabled D dc dg i =
  match group_of_index (d_groups D) i 0 with None => false | Some g => nthb dg g || nthb dc i end.
Proof. reflexivity. Qed.
Example def_cmd_disabled_state : forall D s i,
  is_command_disable D s i = cmd_disabled D (dis_cmd s) (dis_grp s) i.
Proof. reflexivity. Qed.

(* the flags after the changes scheduled for times t, t+1, ..., t+n-1 *)
Example def_sch_apply_O : forall sch t f, sch_apply sch t 0 f = f.
Proof. reflexivity. Qed.
Example def_sch_apply_S : forall sch t n f,
  sch_apply sch t (S n) f = sch_apply sch (S t) n (fst (sch t) (fst f), snd (sch t) (snd f)).
Proof. reflexivity. Qed.

(* printer calls spent on an enabled command: T_NONE, the forms (T_TEST alone, or T_RUN T_READ T_WRITE
   T_TEST), T_TOTAL *)
Example def_block_calls : forall c, block_calls c = if c_only_test c then 3 else 6.
Proof. reflexivity. Qed.

(* the specification with the flag trajectory: (dc, dg) are the flags in force just before time t, at
   which the block of command i (the head of the list) begins; the change scheduled for t is applied,
   THEN the command is tested; the changes scheduled during the block only reach the next block *)
Example def_spec_list_sch_nil : forall D nl sch t dc dg i, spec_list_sch D nl sch t dc dg i [] = [].
Proof. reflexivity. Qed.
Example def_spec_list_sch_cons : forall D nl sch t dc dg i c r,
  spec_list_sch D nl sch t dc dg i (c :: r) =
  let dc1 := fst (sch t) dc in
  let dg1 := snd (sch t) dg in
  if cmd_disabled D dc1 dg1 i
  then spec_list_sch D nl sch (S t) dc1 dg1 (S i) r
  else let f2 := sch_apply sch t (block_calls c) (dc, dg) in
       spec_cmd_lines c nl ++ spec_list_sch D nl sch (t + block_calls c) (fst f2) (snd f2) (S i) r.
Proof. reflexivity. Qed.

(* start time and enabledness of every block, from the flags (dc0, dg0) at the start of the listing *)
Example def_flags_at : forall sch dc0 dg0 t, flags_at sch dc0 dg0 t = sch_apply sch 0 (S t) (dc0, dg0).
Proof. reflexivity. Qed.
Example def_block_times_nil : forall D sch dc0 dg0 t i, block_times D sch dc0 dg0 t i [] = [].
Proof. reflexivity. Qed.
Example def_block_times_cons : forall D sch dc0 dg0 t i c r,
  block_times D sch dc0 dg0 t i (c :: r) =
  let f := flags_at sch dc0 dg0 t in
  let en := negb (cmd_disabled D (fst f) (snd f) i) in
  (t, en) :: block_times D sch dc0 dg0 (t + (if en then block_calls c else 1)) (S i) r.
Proof. reflexivity. Qed.
Example def_blocks_text : forall nl cs bt,
  blocks_text nl cs bt =
  concat (map (fun cb : cmd * (nat * bool) => if snd (snd cb) then spec_cmd_lines (fst cb) nl else [])
              (combine cs bt)).
Proof. reflexivity. Qed.

(* ================= C1: the theorems ================= *)

(* The listing under an arbitrary schedule of flag changes.  The hypothesis that every line of every
   command fits the buffer (enabled or not at the start: a command may become enabled) keeps the
   ERROR branch of the printer out; without flag changes that branch is described by C19_list. *)
Theorem C19_list_flags_sched : forall D s sch,
  fault s = false -> 6 <= length (cbuf s) ->
  (forall c, In c (cmds D) -> ~ In 0%N (c_name c)) ->
  forallb (fun l => length l <? length (cbuf s)) (spec_cmd_list D (fun _ => true) (nl_chars s)) = true ->
  forall fuel, 6 * ncmds D + 1 <= fuel ->
  let '(out, s') := list_run_sch D sch 0 fuel (start_print_cmd_list D s) [] in
  out = spec_list_sch D (nl_chars s) sch 0 (dis_cmd s) (dis_grp s) 0 (cmds D) /\
  fault s' = false /\ k_state (k s') = CS_FLUSH_WAIT /\ k_wafter (k s') = CS_AFTER_RESET /\
  text_of (cbuf s') = txt_OK.
Proof. exact Lemmas_C19u.C.C19_list_flags_sched_proof. Qed.
Print Assumptions C19_list_flags_sched.

(* with the identity schedule list_run_sch is TextDefs.list_run ... *)
Theorem list_run_sch_id : forall D sch, (forall t, sch t = (fun x => x, fun x => x)) ->
  forall fuel t s acc, list_run_sch D sch t fuel s acc = list_run D fuel s acc.
Proof. exact Lemmas_C19u.C.list_run_sch_id_proof. Qed.
Print Assumptions list_run_sch_id.

(* ... and the specification is the list of C19_list: no flag change during the listing means that the
   whole list reflects the flags at the start *)
Theorem C19_list_flags_constant : forall D s sch,
  (forall t, sch t = (fun x => x, fun x => x)) ->
  spec_list_sch D (nl_chars s) sch 0 (dis_cmd s) (dis_grp s) 0 (cmds D)
  = spec_cmd_list D (fun i => negb (is_command_disable D s i)) (nl_chars s).
Proof. exact Lemmas_C19u.C.C19_list_flags_constant_proof. Qed.
Print Assumptions C19_list_flags_constant.

(* one step of the recursion in uniform form: the block of command i takes n printer calls (1 if it is
   skipped), is printed iff the command is enabled under the flags in force after the change scheduled
   for the first call of the block, and the next block begins n calls later *)
Theorem spec_list_sch_cons : forall D nl sch t dc dg i c r,
  spec_list_sch D nl sch t dc dg i (c :: r) =
  let en := negb (cmd_disabled D (fst (sch t) dc) (snd (sch t) dg) i) in
  let n := if en then block_calls c else 1 in
  let f := sch_apply sch t n (dc, dg) in
  (if en then spec_cmd_lines c nl else []) ++ spec_list_sch D nl sch (t + n) (fst f) (snd f) (S i) r.
Proof. exact Lemmas_C19u.C.spec_list_sch_cons_proof. Qed.
Print Assumptions spec_list_sch_cons.

(* each command's block is present iff the command was enabled in the state in which its block was
   begun: block_times lists (t_i, en_i), t_0 = 0, en_i = enabledness of i under flags_at t_i,
   t_(i+1) = t_i + (if en_i then (if only_test then 3 else 6) else 1) *)
Theorem C19_list_flag_per_command : forall D nl sch dc0 dg0 cs,
  spec_list_sch D nl sch 0 dc0 dg0 0 cs
  = concat (map (fun cb : cmd * (nat * bool) => if snd (snd cb) then spec_cmd_lines (fst cb) nl else [])
                (combine cs (block_times D sch dc0 dg0 0 0 cs))).
Proof. exact Lemmas_C19u.C.C19_list_flag_per_command_proof. Qed.
Print Assumptions C19_list_flag_per_command.

(* lines already printed stay: two schedules that agree at all times before T give the same blocks up
   to and including every block begun before T (same start times, same decisions, same lines) *)
Theorem C19_list_printed_lines_stay : forall D nl sch1 sch2 T dc0 dg0 cs j tj en,
  (forall u, u < T -> sch1 u = sch2 u) ->
  nth_error (block_times D sch1 dc0 dg0 0 0 cs) j = Some (tj, en) -> tj < T ->
  firstn (S j) (block_times D sch1 dc0 dg0 0 0 cs) = firstn (S j) (block_times D sch2 dc0 dg0 0 0 cs) /\
  let pre := blocks_text nl (firstn (S j) cs) (firstn (S j) (block_times D sch1 dc0 dg0 0 0 cs)) in
  exists r1 r2, spec_list_sch D nl sch1 0 dc0 dg0 0 cs = pre ++ r1 /\
                spec_list_sch D nl sch2 0 dc0 dg0 0 cs = pre ++ r2.
Proof. exact Lemmas_C19u.C.C19_list_printed_lines_stay_proof. Qed.
Print Assumptions C19_list_printed_lines_stay.

(* C3: the printer commutes with any flag change except in the T_NONE call *)
Theorem pcl_ignores_flags : forall D fc fg s, k_type (k s) <> T_NONE ->
  print_cmd_list D (flag_op fc fg s) = flag_op fc fg (print_cmd_list D s).
Proof. exact Lemmas_C19u.C.pcl_ignores_flags_proof. Qed.
Print Assumptions pcl_ignores_flags.

(* ... and the T_NONE call samples the flags of the state it is called in *)
Theorem pcl_none_samples : forall D s i c, k_type (k s) = T_NONE -> k_index (k s) = i ->
  nth_error (cmds D) i = Some c ->
  print_cmd_list D s =
  if is_command_disable D s i
  then (let (s1, more) := cmd_list_next_cmd D (setk_cmd (Some i) s) in if more then s1 else ack_ok s1)
  else setk_type (if c_only_test c then T_TEST else T_RUN) (setk_cmd (Some i) s).
Proof. exact Lemmas_C19u.C.pcl_none_samples_proof. Qed.
Print Assumptions pcl_none_samples.

(* ================= C2: examples ================= *)
Module C19uC_examples.
Import Lemmas_E2E.E2E_examples Lemmas_E2Eb.E2Ec_example.
Local Notation wst := (Fsm.st sio smu shs).
Local Notation wtr := (Fsm.tr sio smu shs).

(* D0: one group with command 0 = +X (variables only: forms ? = =?) and command 1 = +XY (run handler only).
   The input is the line AT+xy; the run handler of command 1 answers RC_PRINT_CMD_LIST_OK. *)
Definition lX1 : list N := [10; 65; 84; 43; 88; 63; 10]%N.       (* LF AT+X? LF *)
Definition lX2 : list N := [65; 84; 43; 88; 61; 10]%N.           (* AT+X= LF *)
Definition lX3 : list N := [65; 84; 43; 88; 61; 63; 10]%N.       (* AT+X=? LF *)
Definition lXY : list N := [10; 65; 84; 43; 88; 89; 10]%N.       (* LF AT+XY LF *)
Definition lOK : list N := [10; 79; 75; 10]%N.                   (* LF OK LF *)

(* n1 cat_service calls, the operations o, n2 cat_service calls, on the real op-level model *)
Definition scen (n1 : nat) (o : list op) (n2 : nat) : sworld :=
  srun D0 (mkw s0 line hh []) (map SOp (repeat OService n1 ++ o ++ repeat OService n2)).
Definition obs2 (w : sworld) :=
  (k_state (k (wst w)), output_of (wtr w), calls_of (wtr w), (dis_cmd (wst w), dis_grp (wst w))).
(* where the printer stands *)
Definition where_ (w : sworld) := (k_state (k (wst w)), k_index (k (wst w)), k_type (k (wst w)), output_of (wtr w)).

(* the time line without flag changes: the handler runs in call 16; the block of command 0 is calls
   17..48 (T_NONE call 17, T_RUN 18, T_READ 19, T_WRITE 29, T_TEST 38, T_TOTAL 48, flushes between);
   the block of command 1 begins with call 49 *)
Example ex_line_16 : where_ (scen 16 [] 0) = (CS_PRINT_CMD, 0, T_NONE, []).
Proof. vm_compute. reflexivity. Qed.
Example ex_line_17 : where_ (scen 17 [] 0) = (CS_PRINT_CMD, 0, T_RUN, []).
Proof. vm_compute. reflexivity. Qed.
Example ex_line_28 : where_ (scen 28 [] 0) = (CS_PRINT_CMD, 0, T_WRITE, lX1).
Proof. vm_compute. reflexivity. Qed.
Example ex_line_48 : where_ (scen 48 [] 0) = (CS_PRINT_CMD, 1, T_NONE, lX1 ++ lX2 ++ lX3).
Proof. vm_compute. reflexivity. Qed.
Example ex_line_49 : where_ (scen 49 [] 0) = (CS_PRINT_CMD, 1, T_RUN, lX1 ++ lX2 ++ lX3).
Proof. vm_compute. reflexivity. Qed.
Example ex_plain :
  obs2 (scen 72 [] 0) = (CS_IDLE, lX1 ++ lX2 ++ lX3 ++ lXY ++ lOK, [(HRun 1, RC_PRINT_CMD_LIST_OK)],
                         ([false; false], [false])).
Proof. vm_compute. reflexivity. Qed.

(* (a) command 1 is disabled after command 0's lines are out and before its own block begins: it does
   not appear -- although it is the very command whose handler requested the list *)
Example ex_disable_later_cmd :
  obs2 (scen 48 [OSetCmdDisable 1 true] 10) =
  (CS_IDLE, lX1 ++ lX2 ++ lX3 ++ lOK, [(HRun 1, RC_PRINT_CMD_LIST_OK)], ([false; true], [false])).
Proof. vm_compute. reflexivity. Qed.
(* exact bytes *)
Example ex_disable_later_cmd_bytes :
  output_of (wtr (scen 48 [OSetCmdDisable 1 true] 10)) =
  [10; 65; 84; 43; 88; 63; 10;  65; 84; 43; 88; 61; 10;  65; 84; 43; 88; 61; 63; 10;  10; 79; 75; 10]%N.
Proof. vm_compute. reflexivity. Qed.

(* (b) one call later its T_NONE call has sampled the flag: the same change has no effect on the list *)
Example ex_disable_after_sampling :
  obs2 (scen 49 [OSetCmdDisable 1 true] 23) =
  (CS_IDLE, lX1 ++ lX2 ++ lX3 ++ lXY ++ lOK, [(HRun 1, RC_PRINT_CMD_LIST_OK)], ([false; true], [false])).
Proof. vm_compute. reflexivity. Qed.

(* (c) command 0 is disabled in the middle of its own block, after its first line (and even right after
   its T_NONE call, before any line): all of its lines still appear *)
Example ex_disable_own_block :
  obs2 (scen 28 [OSetCmdDisable 0 true] 44) =
  (CS_IDLE, lX1 ++ lX2 ++ lX3 ++ lXY ++ lOK, [(HRun 1, RC_PRINT_CMD_LIST_OK)], ([true; false], [false])).
Proof. vm_compute. reflexivity. Qed.
Example ex_disable_own_block_early :
  obs2 (scen 17 [OSetCmdDisable 0 true] 55) =
  (CS_IDLE, lX1 ++ lX2 ++ lX3 ++ lXY ++ lOK, [(HRun 1, RC_PRINT_CMD_LIST_OK)], ([true; false], [false])).
Proof. vm_compute. reflexivity. Qed.
(* ... whereas before the T_NONE call of command 0 (the list is requested, the printer not yet called)
   the change removes command 0 *)
Example ex_disable_before_block :
  obs2 (scen 16 [OSetCmdDisable 0 true] 25) =
  (CS_IDLE, lXY ++ lOK, [(HRun 1, RC_PRINT_CMD_LIST_OK)], ([true; false], [false])).
Proof. vm_compute. reflexivity. Qed.

(* (d) the whole group is disabled after the first line of command 0: command 0 is completed,
   command 1 is skipped *)
Example ex_disable_group :
  obs2 (scen 28 [OSetGroupDisable 0 true] 30) =
  (CS_IDLE, lX1 ++ lX2 ++ lX3 ++ lOK, [(HRun 1, RC_PRINT_CMD_LIST_OK)], ([false; false], [true])).
Proof. vm_compute. reflexivity. Qed.

(* (e) a later command that is disabled when the list is requested and re-enabled before its block
   begins appears *)
Example ex_reenable_later_cmd :
  obs2 (srun D0 (mkw s0 line hh [])
          (map SOp (repeat OService 16 ++ [OSetCmdDisable 1 true] ++ repeat OService 32 ++
                    [OSetCmdDisable 1 false] ++ repeat OService 24))) =
  (CS_IDLE, lX1 ++ lX2 ++ lX3 ++ lXY ++ lOK, [(HRun 1, RC_PRINT_CMD_LIST_OK)], ([false; false], [false])).
Proof. vm_compute. reflexivity. Qed.

(* ---- the same runs in terms of list_run_sch: printer call t = 6 is the T_NONE call of command 1 ---- *)
Definition sch_at (T : nat) (fc fg : list bool -> list bool) : fsched :=
  fun t => if t =? T then (fc, fg) else (fun x => x, fun x => x).
Definition dis1 : list bool -> list bool := fun dc => set_flag dc 1 true.
Definition dis0 : list bool -> list bool := fun dc => set_flag dc 0 true.
Definition idf : list bool -> list bool := fun x => x.
(* the state in which the op-level run starts the listing (after call 16) *)
Definition sL : state := wst (scen 16 [] 0).

Example ex_sL_is_start : exists s, sL = start_print_cmd_list D0 s /\ dis_cmd s = [false; false] /\ dis_grp s = [false].
Proof. exists (setk_state CS_RUN_LOOP sL). vm_compute. repeat split; reflexivity. Qed.

Example ex_model_a : fst (list_run_sch D0 (sch_at 6 dis1 idf) 0 13 sL []) = [lX1; lX2; lX3].
Proof. vm_compute. reflexivity. Qed.
Example ex_model_a5 : fst (list_run_sch D0 (sch_at 5 dis1 idf) 0 13 sL []) = [lX1; lX2; lX3].
Proof. vm_compute. reflexivity. Qed.
Example ex_model_b : fst (list_run_sch D0 (sch_at 7 dis1 idf) 0 13 sL []) = [lX1; lX2; lX3; lXY].
Proof. vm_compute. reflexivity. Qed.
Example ex_model_c : fst (list_run_sch D0 (sch_at 1 dis0 idf) 0 13 sL []) = [lX1; lX2; lX3; lXY].
Proof. vm_compute. reflexivity. Qed.
Example ex_model_c0 : fst (list_run_sch D0 (sch_at 0 dis0 idf) 0 13 sL []) = [lXY].
Proof. vm_compute. reflexivity. Qed.
(* the op-level output is the concatenation of the collected lines, then LF OK LF *)
Example ex_model_op_a :
  output_of (wtr (scen 48 [OSetCmdDisable 1 true] 10))
  = concat (fst (list_run_sch D0 (sch_at 6 dis1 idf) 0 13 sL [])) ++ lOK.
Proof. vm_compute. reflexivity. Qed.

(* the specification on these schedules, and the block start times / decisions *)
Example ex_spec_a :
  spec_list_sch D0 [ch_LF] (sch_at 6 dis1 idf) 0 [false; false] [false] 0 (cmds D0) = [lX1; lX2; lX3].
Proof. vm_compute. reflexivity. Qed.
Example ex_times_a :
  block_times D0 (sch_at 6 dis1 idf) [false; false] [false] 0 0 (cmds D0) = [(0, true); (6, false)].
Proof. vm_compute. reflexivity. Qed.
Example ex_times_b :
  block_times D0 (sch_at 7 dis1 idf) [false; false] [false] 0 0 (cmds D0) = [(0, true); (6, true)].
Proof. vm_compute. reflexivity. Qed.
Example ex_times_c0 :
  block_times D0 (sch_at 0 dis0 idf) [false; false] [false] 0 0 (cmds D0) = [(0, false); (1, true)].
Proof. vm_compute. reflexivity. Qed.

(* the hypotheses of C19_list_flags_sched hold for D0 and the initial state s0 (not vacuous), and the
   theorem applied to the schedule (a) *)
Example ex_sched_hyps :
  fault s0 = false /\ 6 <= length (cbuf s0) /\
  (forall c, In c (cmds D0) -> ~ In 0%N (c_name c)) /\
  forallb (fun l => length l <? length (cbuf s0)) (spec_cmd_list D0 (fun _ => true) (nl_chars s0)) = true.
Proof.
  split; [reflexivity|]. split; [cbn; lia|]. split; [|reflexivity].
  intros c' Hin. cbn in Hin. destruct Hin as [<-|[<-|[]]]; cbn; intuition discriminate.
Qed.
Example ex_sched_applied :
  let '(out, s') := list_run_sch D0 (sch_at 6 dis1 idf) 0 13 (start_print_cmd_list D0 s0) [] in
  out = spec_list_sch D0 (nl_chars s0) (sch_at 6 dis1 idf) 0 (dis_cmd s0) (dis_grp s0) 0 (cmds D0) /\
  fault s' = false /\ k_state (k s') = CS_FLUSH_WAIT /\ k_wafter (k s') = CS_AFTER_RESET /\
  text_of (cbuf s') = txt_OK.
Proof.
  destruct ex_sched_hyps as (H1 & H2 & H3 & H4).
  exact (C19_list_flags_sched D0 s0 (sch_at 6 dis1 idf) H1 H2 H3 H4 13 ltac:(cbn; lia)).
Qed.
End C19uC_examples.
