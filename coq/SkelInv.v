(* SkelInv.v — the control invariant J, proved on the skeleton (Skel.v): it is preserved by
   every skeleton step, hence (SkelSim.v) by every step of the model. *)
From Coq Require Import List NArith ZArith Bool Arith Lia.
From CatV Require Import Bytes Defs Codec Fsm Skel.
Import ListNotations.
Local Open Scope nat_scope.

(* ghost counters: gl = non-blank lines whose LF has been consumed, gs = result codes started,
   gr = result codes completely emitted *)
Definition settled (c : ctl) : Prop := gl c = gr c /\ gs c = gr c.
Definition proc (c : ctl) : Prop := gl c = S (gr c) /\ gs c = gr c.
Definition result (c : ctl) : Prop := gl c = S (gr c) /\ gs c = S (gr c).

Definition flush_cont (a : cstate) : bool :=
  match a with CS_AFTER_OK | CS_AFTER_FMT_READ | CS_AFTER_FMT_TEST | CS_PRINT_CMD => true | _ => false end.

Definition reading_state (x : cstate) : bool :=
  match x with
  | CS_IDLE | CS_ERROR | CS_PARSE_PREFIX | CS_PARSE_COMMAND_CHAR | CS_WAIT_READ_ACK
  | CS_WAIT_TEST_ACK | CS_PARSE_COMMAND_ARGS => true
  | _ => false
  end.

Definition Jphase (c : ctl) : Prop :=
  match ck c with
  | CS_IDLE | CS_ERROR | CS_PARSE_PREFIX | CS_WAIT_TEST_ACK | CS_PARSE_COMMAND_ARGS
  | CS_AFTER_RESET => settled c
  | CS_PARSE_COMMAND_CHAR => settled c /\ cty c = T_RUN
  | CS_UPDATE_COMMAND_STATE => settled c /\ cty c = T_RUN /\ clf c = false
  | CS_WAIT_READ_ACK => settled c /\ cty c = T_READ
  | CS_SEARCH_COMMAND | CS_COMMAND_FOUND =>
    (cty c = T_WRITE /\ clf c = false /\ settled c) \/
    ((cty c = T_RUN \/ cty c = T_READ) /\ clf c = true /\ proc c)
  | CS_FLUSH_WAIT | CS_FLUSH =>
    (cwa c = CS_AFTER_RESET /\ result c) \/ (flush_cont (cwa c) = true /\ proc c)
  | _ => proc c
  end.

Definition J (c : ctl) : Prop :=
  (chold c = true <-> ck c = CS_HOLD) /\
  (cimp c = true -> ck c = CS_UPDATE_COMMAND_STATE) /\
  (ck c = CS_IDLE -> ccr c = false) /\
  ~ (ck c = CS_FLUSH /\ uk c = US_FLUSH) /\
  Jphase c.

Definition init_ctl : ctl :=
  mkCtl CS_IDLE T_NONE false false false 0%Z CS_IDLE false US_IDLE US_IDLE 0 0 0.

Lemma J_init : J init_ctl.
Proof. unfold J, Jphase, settled, init_ctl; cbn. intuition congruence. Qed.

(* ---------- tactics ---------- *)
Ltac dctl c :=
  let a := fresh "k0" in let b := fresh "ty" in let d := fresh "lf" in let e := fresh "cr" in
  let f := fresh "hold" in let g := fresh "hx" in let h := fresh "wa" in let i := fresh "imp" in
  let j := fresh "u0" in let l := fresh "uwa0" in let m := fresh "L" in let n := fresh "S0" in
  let o := fresh "R" in destruct c as [a b d e f g h i j l m n o].

Ltac unfJ := unfold J, Jphase, settled, proc, result, flush_cont in *.

(* the pieces that only touch the event machine or the hold-exit status preserve J, as long as
   the flush exclusion is respected *)
Lemma J_heff : forall c c1, J c -> heff c c1 -> J c1.
Proof.
  intros c c1 HJ [-> | [_ [z ->]]]; [assumption|].
  dctl c. unfJ. cbn in *. exact HJ.
Qed.

Lemma heff_ck : forall c c1, heff c c1 -> ck c1 = ck c /\ uk c1 = uk c /\ chold c1 = chold c /\ cty c1 = cty c /\ cwa c1 = cwa c.
Proof. intros c c1 [-> | [_ [z ->]]]; cbn; auto. Qed.

Ltac fin := cbn in *; unfJ; cbn in *;
  repeat match goal with
         | H : _ /\ _ |- _ => destruct H
         | H : ?a = ?a -> _ |- _ => specialize (H eq_refl)
         end;
  repeat split; intros; try discriminate; try congruence; try lia;
  try (intros [? ?]; discriminate); try (intuition (congruence || lia)).

Ltac unfrel := unfold heff, spfr, spft, fra_next, fta_next, rt_next, start_list in *.
Ltac unfa := unfold a_read, a_ack, a_reset, a_ureset, a_enable_hold, a_end, a_set_loop, a_set_fmt,
  a_flush_after_ok, a_flush_after, a_start_flush, a_start_flush_u in *.

Ltac decomp :=
  repeat match goal with
         | H : _ /\ _ |- _ => destruct H
         | H : exists b : bool, _ |- _ => destruct H as [[|] H]
         | H : exists _, _ |- _ => destruct H
         | H : _ \/ _ |- _ => destruct H
         | H : False |- _ => destruct H
         | H : true = false |- _ => discriminate H
         | H : false = true |- _ => discriminate H
         | H : ?x = _ |- _ => is_var x; subst x
         | H : _ = ?x |- _ => is_var x; subst x
         end.

Ltac solveJ :=
  unfold J, Jphase, settled, proc, result, flush_cont in *; unfa; cbn in *;
  repeat match goal with
         | H : _ /\ _ |- _ => destruct H
         | H : _ <-> _ |- _ => destruct H
         end;
  repeat match goal with
         | |- _ /\ _ => split
         | |- _ <-> _ => split
         end;
  try solve [ intros; try discriminate; try congruence; try lia;
              intuition (try discriminate; try congruence; try lia) ].

Lemma J_cmd_next : forall c c' r, J c -> cmd_next False c c' r -> J c'.
Proof.
  intros c c' r HJ H. dctl c. destruct k0; cbn in H; unfrel.
  8: destruct ty; cbn in H.
  all: repeat (progress (unfrel; decomp; cbn in * )).
  all: try solve [solveJ].
  all: try solve [destruct lf; solveJ].
  all: try solve [destruct wa; solveJ].
  all: try solve [destruct hold; solveJ].
Qed.

Lemma J_uns_next : forall c c' r, J c -> uns_next c c' r -> J c'.
Proof.
  intros c c' r HJ H. dctl c. destruct u0; cbn in H; unfrel.
  all: repeat (progress (unfrel; decomp; cbn in * )).
  all: try solve [solveJ].
  all: try solve [destruct k0; solveJ].
Qed.

Lemma J_svc_next : forall c c' r, J c -> svc_next False c c' r -> J c'.
Proof.
  intros c c' r HJ (c1 & us & rc & Hu & Hc & _).
  eapply J_cmd_next; [|eassumption]. eapply J_uns_next; eassumption.
Qed.

Lemma J_op_next : forall o c c' r, J c -> op_next False o c c' r -> J c'.
Proof.
  intros o c c' r HJ H. destruct o; cbn in H; try (subst; assumption).
  - destruct H as [[-> _] | (r0 & Hs & _)]; [assumption|]. eapply J_svc_next; eassumption.
  - eapply J_heff; eassumption.
Qed.
