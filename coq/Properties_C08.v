(* Properties_C08.v — property C08: access modes of variables.
   No input whatsoever changes the storage of a read-only variable; the automatic READ response
   does not depend on the contents of a write-only variable (it is reported as zero / empty);
   READ is refused with ERROR when the command offers nothing readable and has no read handler,
   WRITE likewise.  Proofs are in Lemmas_C08.v (parts 1-3) and Lemmas_C08b.v (part 4). *)
From Coq Require Import List NArith ZArith Bool Arith.
From CatV Require Import Bytes Defs Codec Spec Fsm Script CollectDefs Lemmas_C08 Lemmas_C08b.
Import ListNotations.
Local Open Scope nat_scope.

(* ---------------- Part 1: the decoders and formatters ---------------- *)

(* 1. decoding an argument for a read-only variable (any of the five types, any text, accepted or
      not) returns the storage unchanged and a write size of 0 *)
Theorem C08_decode_readonly : forall v l data, v_access v = RO ->
  let '(pst, d, ws, n) := decode_var v l data in d = data /\ ws = O.
Proof. exact Lemmas_C08.C08_decode_readonly. Qed.
Print Assumptions C08_decode_readonly.

(* 2. formatting a write-only variable: the result (buffer, position, fault flag, status) is the
      same for any two storages of the same size *)
Theorem C08_format_writeonly : forall v d1 d2 c, v_access v = WO -> length d1 = length d2 ->
  fmt_var v d1 c = fmt_var v d2 c.
Proof. exact Lemmas_C08.C08_format_writeonly. Qed.
Print Assumptions C08_format_writeonly.

(* 3. the text itself is the text of a zero-filled storage ... *)
Theorem C08_writeonly_text : forall v data, v_access v = WO ->
  var_text v data = var_text v (repeat 0%N (length data)).
Proof. exact Lemmas_C08.C08_writeonly_text. Qed.
Print Assumptions C08_writeonly_text.

(* ... spelled out: "0" for the decimal types, "0x" and 2*size zeros for HEX, "00" per byte for a
   hex buffer, two quotes for a string *)
Theorem C08_writeonly_text_explicit : forall v data, v_access v = WO ->
  var_text v data =
  match v_type v with
  | VInt | VUint => if supported_width (v_size v) then Some [48%N] else None
  | VHex => if supported_width (v_size v)
            then Some (48%N :: 120%N :: repeat 48%N (2 * v_size v)) else None
  | VBufHex => Some (concat (repeat [48%N; 48%N] (Nat.min (v_size v) (length data))))
  | VBufStr => Some [34%N; 34%N]
  end.
Proof. exact Lemmas_C08.C08_writeonly_text_explicit. Qed.
Print Assumptions C08_writeonly_text_explicit.

(* ---------------- Part 2: availability ---------------- *)

(* 4. READ of a command with no readable (RW or RO) variable and no read handler ends in the
      result code ERROR (whether or not the name fits the buffer), variables untouched *)
Theorem C08_read_unavailable : forall D s ci c,
  g_cmd ATCMD s = Some ci -> cmd_at D ci = Some c ->
  vars_access_possible c RO = false -> c_hread c = false -> 6 <= length (cbuf s) ->
  let s' := start_processing_format_read_args D ATCMD s in
  k_state (k s') = CS_FLUSH_WAIT /\ k_wafter (k s') = CS_AFTER_RESET /\ mem s' = mem s /\
  firstn 6 (cbuf s') = txt_ERROR ++ [0%N].
Proof. exact Lemmas_C08.C08_read_unavailable. Qed.
Print Assumptions C08_read_unavailable.

(* 5. WRITE (the line feed that ends the argument text) of a command with no writable (RW or WO)
      variable and no write handler is answered with ERROR *)
Theorem C08_write_unavailable : forall D s c, cmd_of D ATCMD s = Some c -> c_only_test c = false ->
  vars_access_possible c WO = false -> c_hwrite c = false ->
  pca_body D ch_LF s = ack_error s.
Proof. exact Lemmas_C08.C08_write_unavailable. Qed.
Print Assumptions C08_write_unavailable.

(* ---------------- Part 3: every history ---------------- *)

(* slot sl holds only read-only variables *)
Definition ro_slot (D : desc) (sl : nat) : Prop :=
  forall c v, In c (pool D) -> In v (c_vars c) -> v_slot v = sl -> v_access v = RO.

Section C08.
Variable D : desc.
Variables ioS muS hS : Type.
Variable io_read : ioS -> ioS * option N.
Variable io_write : ioS -> N -> ioS * bool.
Variable mu_lock : muS -> muS * bool.
Variable mu_unlock : muS -> muS * bool.
Variable h_call : hS -> hreq -> hS * hres.

Local Notation world := (Fsm.world ioS muS hS).
Local Notation st := (Fsm.st ioS muS hS).
Local Notation mkWorld := (Fsm.mkWorld ioS muS hS).
Local Notation step := (Fsm.step D ioS muS hS io_read io_write mu_lock mu_unlock h_call).
Local Notation run := (Fsm.run D ioS muS hS io_read io_write mu_lock mu_unlock h_call).

(* 6. whatever the input bytes, the I/O and mutex behaviour, the handlers' return codes, edits and
      inner API calls, and whatever sequence of API operations: a slot that holds only read-only
      variables, and that the application's handlers do not store into themselves, has the
      contents it had at cat_init *)
Theorem C08_readonly_history : forall sl m x mx h ops,
  ro_slot D sl ->
  (forall hs q, Forall (fun p => fst p <> sl) (r_pokes (snd (h_call hs q)))) ->
  nth_error (mem (st (run (mkWorld (init_state D m) x mx h []) ops))) sl = nth_error m sl.
Proof.
  exact (Lemmas_C08.C08_readonly_history D ioS muS hS io_read io_write mu_lock mu_unlock h_call).
Qed.

(* 7. the same as a one-step invariant from ANY state (reachable or not) *)
Theorem C08_readonly_step : forall sl (w : world) o,
  ro_slot D sl ->
  (forall hs q, Forall (fun p => fst p <> sl) (r_pokes (snd (h_call hs q)))) ->
  nth_error (mem (st (step w o))) sl = nth_error (mem (st w)) sl.
Proof.
  exact (Lemmas_C08.C08_readonly_step D ioS muS hS io_read io_write mu_lock mu_unlock h_call).
Qed.
End C08.
Print Assumptions C08_readonly_history.
Print Assumptions C08_readonly_step.

(* ---------------- non-vacuity: concrete runs (vm_compute) ---------------- *)
Local Open Scope N_scope.

Definition ex_vRO := mkVar None VUint 1 RO false false 0.
Definition ex_vWO := mkVar None VUint 1 WO false false 1.
Definition ex_vRW := mkVar None VUint 1 RW false false 2.
(* +X: one variable of each access mode; +W: only a write-only one; +R: only a read-only one *)
Definition ex_cX := mkCmd [43; 88] None false false false false [ex_vRO; ex_vWO; ex_vRW] false false false.
Definition ex_cW := mkCmd [43; 87] None false false false false [ex_vWO] false false false.
Definition ex_cR := mkCmd [43; 82] None false false false false [ex_vRO] false false false.
Definition ex_D := mkDesc [[ex_cX; ex_cW; ex_cR]] [] 64 (Some 32%nat) 0 4 false.
Definition ex_m : list (list N) := [[7]; [8]; [9]].

Definition ex_out (w : sworld) : list N :=
  rev (flat_map (fun e => match e with EWr _ ch true => [ch] | _ => [] end) (tr _ _ _ w)).
Definition ex_run (line : list N) : sworld :=
  srun ex_D (sinit ex_D ex_m (mkSio [] [] []) (mkSmu [] []) [])
       (SFeed line :: repeat (SOp OService) 200).

(* slot 0 is a read-only slot of ex_D *)
Example ex_ro_slot0 : ro_slot ex_D 0.
Proof.
  intros c v Hc Hv Hs. cbn in Hc.
  destruct Hc as [Hc|[Hc|[Hc|[]]]]; subst c; cbn in Hv;
    repeat (destruct Hv as [Hv|Hv]; [subst v; try reflexivity; discriminate Hs|]); destruct Hv.
Qed.

(* "AT+X=5" LF : the read-only first variable keeps its 7; the answer is OK *)
Example ex_write_ro :
  let w := ex_run [65;84;43;88;61;53;10] in
  ex_out w = [10; 79; 75; 10] /\ mem (st _ _ _ w) = [[7]; [8]; [9]].
Proof. vm_compute. split; reflexivity. Qed.

(* "AT+X=5,6,4" LF : the write-only and the read-write variable are stored, the read-only one is not *)
Example ex_write_all :
  let w := ex_run [65;84;43;88;61;53;44;54;44;52;10] in
  ex_out w = [10; 79; 75; 10] /\ mem (st _ _ _ w) = [[7]; [6]; [4]].
Proof. vm_compute. split; reflexivity. Qed.

(* "AT+X?" LF : the response is  +X=7,0,9  — the write-only 8 is reported as 0 *)
Example ex_read_wo :
  ex_out (ex_run [65;84;43;88;63;10]) =
  [10; 43; 88; 61; 55; 44; 48; 44; 57; 10; 10; 79; 75; 10].
Proof. vm_compute. reflexivity. Qed.

(* "AT+W?" LF : nothing readable, no read handler: ERROR *)
Example ex_read_refused : ex_out (ex_run [65;84;43;87;63;10]) = [10; 69; 82; 82; 79; 82; 10].
Proof. vm_compute. reflexivity. Qed.

(* "AT+R=1" LF : nothing writable, no write handler: ERROR, storage unchanged *)
Example ex_write_refused :
  let w := ex_run [65;84;43;82;61;49;10] in
  ex_out w = [10; 69; 82; 82; 79; 82; 10] /\ mem (st _ _ _ w) = ex_m.
Proof. vm_compute. split; reflexivity. Qed.

(* the pure statements on instances *)
Example ex_decode_ro : decode_var ex_vRO [53; 0] [7] = (SOk false, [7], O, 2%nat).
Proof. vm_compute. reflexivity. Qed.
Example ex_decode_rw : decode_var ex_vRW [53; 0] [7] = (SOk false, [5], 1%nat, 2%nat).
Proof. vm_compute. reflexivity. Qed.
Example ex_text_wo :
  var_text ex_vWO [8] = Some [48] /\
  var_text (mkVar None VHex 2 WO false false 0) [1; 2] = Some [48; 120; 48; 48; 48; 48] /\
  var_text (mkVar None VBufHex 3 WO false false 0) [1; 2; 3] = Some [48; 48; 48; 48; 48; 48] /\
  var_text (mkVar None VBufStr 4 WO false false 0) [65; 66; 0; 0] = Some [34; 34] /\
  var_text (mkVar None VBufStr 4 RW false false 0) [65; 66; 0; 0] = Some [34; 65; 66; 34].
Proof. vm_compute. repeat split; reflexivity. Qed.

(* ---------------- Part 4: write-only non-interference over every history ---------------- *)
Local Open Scope nat_scope.

(* slot sl holds only write-only variables *)
Definition wo_slot (D : desc) (sl : nat) : Prop :=
  forall c v, In c (pool D) -> In v (c_vars c) -> v_slot v = sl -> v_access v = WO.

(* two memories of the same shape that agree on every slot that is not write-only *)
Definition memrel (D : desc) (m1 m2 : list (list N)) : Prop :=
  Forall2 (fun a b : list N => length a = length b) m1 m2 /\
  forall sl, ~ wo_slot D sl -> nth_error m1 sl = nth_error m2 sl.

(* the bytes handed to a variable's write callback removed from a request / an event *)
Definition blank_req (q : hreq) : hreq :=
  match q with VWrite ci vi ws _ => VWrite ci vi ws [] | _ => q end.
Definition blank_ev (e : event) : event :=
  match e with ECall q code => ECall (blank_req q) code | _ => e end.

(* the finer relation between the two traces: equal events, except that the write callback of a
   variable living in a write-only slot may have been handed different bytes (same count) *)
Definition req_rel (D : desc) (q1 q2 : hreq) : Prop :=
  q1 = q2 \/
  exists ci vi ws d1 d2 c v,
    q1 = VWrite ci vi ws d1 /\ q2 = VWrite ci vi ws d2 /\
    cmd_at D ci = Some c /\ nth_error (c_vars c) vi = Some v /\ wo_slot D (v_slot v) /\
    length d1 = length d2.
Definition ev_rel (D : desc) (e1 e2 : event) : Prop :=
  e1 = e2 \/ exists q1 q2 code, e1 = ECall q1 code /\ e2 = ECall q2 code /\ req_rel D q1 q2.

(* the io_write events of a trace *)
Definition wr_events (t : list event) : list event :=
  filter (fun e => match e with EWr _ _ _ => true | _ => false end) t.

Section C08b.
Variable D : desc.
Variables ioS muS hS : Type.
Variable io_read : ioS -> ioS * option N.
Variable io_write : ioS -> N -> ioS * bool.
Variable mu_lock : muS -> muS * bool.
Variable mu_unlock : muS -> muS * bool.
Variable h_call : hS -> hreq -> hS * hres.

Local Notation st := (Fsm.st ioS muS hS).
Local Notation io := (Fsm.io ioS muS hS).
Local Notation mu := (Fsm.mu ioS muS hS).
Local Notation hs := (Fsm.hs ioS muS hS).
Local Notation tr := (Fsm.tr ioS muS hS).
Local Notation mkWorld := (Fsm.mkWorld ioS muS hS).
Local Notation run := (Fsm.run D ioS muS hS io_read io_write mu_lock mu_unlock h_call).

(* The statement "the two runs produce the same trace" is FALSE as it stands: the model hands the
   whole storage of the variable to its write callback (VWrite .. stored) and logs the request, and
   bytes of the storage that the write did not touch differ between the two runs (example
   ex_trace_differs below); a callback that reacts to those bytes makes the runs diverge.  The
   application reading its own variable is not the library's doing, so the theorem assumes that the
   write callback of a variable living in a write-only slot does not depend on those bytes: *)
Hypothesis wo_callbacks_blind : forall x ci vi ws d1 d2 c v,
  cmd_at D ci = Some c -> nth_error (c_vars c) vi = Some v -> wo_slot D (v_slot v) ->
  length d1 = length d2 ->
  h_call x (VWrite ci vi ws d1) = h_call x (VWrite ci vi ws d2).

(* 8. for ANY input, oracles, handlers and API calls: the two runs produce the same trace up to
      those payloads (same reads, same bytes written, same lock events, same callbacks with the same
      return codes, same inner calls, same return status of every API call), the same oracle
      states, the same final state except mem, and memories that are again related *)
Theorem C08_writeonly_noninterference : forall m1 m2 x mx h ops, memrel D m1 m2 ->
  let w1 := run (mkWorld (init_state D m1) x mx h []) ops in
  let w2 := run (mkWorld (init_state D m2) x mx h []) ops in
  map blank_ev (tr w1) = map blank_ev (tr w2) /\
  io w1 = io w2 /\ mu w1 = mu w2 /\ hs w1 = hs w2 /\
  set_mem [] (st w1) = set_mem [] (st w2) /\
  memrel D (mem (st w1)) (mem (st w2)).
Proof.
  exact (Lemmas_C08b.C08_writeonly_noninterference D ioS muS hS io_read io_write mu_lock mu_unlock
           h_call wo_callbacks_blind).
Qed.

(* 9. the finer form: event by event *)
Theorem C08_writeonly_noninterference_strong : forall m1 m2 x mx h ops, memrel D m1 m2 ->
  let w1 := run (mkWorld (init_state D m1) x mx h []) ops in
  let w2 := run (mkWorld (init_state D m2) x mx h []) ops in
  Forall2 (ev_rel D) (tr w1) (tr w2) /\
  io w1 = io w2 /\ mu w1 = mu w2 /\ hs w1 = hs w2 /\
  set_mem [] (st w1) = set_mem [] (st w2) /\
  memrel D (mem (st w1)) (mem (st w2)).
Proof.
  exact (Lemmas_C08b.C08_writeonly_noninterference_strong D ioS muS hS io_read io_write mu_lock
           mu_unlock h_call wo_callbacks_blind).
Qed.

(* 10. in particular the output: the same bytes are offered to io_write, with the same outcomes,
       in the same order *)
Theorem C08_writeonly_same_output : forall m1 m2 x mx h ops, memrel D m1 m2 ->
  wr_events (tr (run (mkWorld (init_state D m1) x mx h []) ops)) =
  wr_events (tr (run (mkWorld (init_state D m2) x mx h []) ops)).
Proof.
  exact (Lemmas_C08b.C08_writeonly_same_output D ioS muS hS io_read io_write mu_lock mu_unlock
           h_call wo_callbacks_blind).
Qed.
End C08b.
Print Assumptions C08_writeonly_noninterference.
Print Assumptions C08_writeonly_noninterference_strong.
Print Assumptions C08_writeonly_same_output.

(* 11. the decoders: status, write size and consumed count do not depend on the old storage *)
Theorem C08_decode_independent : forall v l d1 d2, length d1 = length d2 ->
  let '(p1, a1, w1, n1) := decode_var v l d1 in
  let '(p2, a2, w2, n2) := decode_var v l d2 in
  p1 = p2 /\ w1 = w2 /\ n1 = n2 /\ length a1 = length a2.
Proof. exact Lemmas_C08b.decode_var_rel. Qed.
Print Assumptions C08_decode_independent.

(* ---- non-vacuity for part 4 ---- *)
Local Open Scope N_scope.

(* slot 1 of ex_D is a write-only slot, so memories differing only there are related *)
Example ex_wo_slot1 : wo_slot ex_D 1.
Proof.
  intros c v Hc Hv Hs. cbn in Hc.
  destruct Hc as [Hc|[Hc|[Hc|[]]]]; subst c; cbn in Hv;
    repeat (destruct Hv as [Hv|Hv]; [subst v; try reflexivity; discriminate Hs|]); destruct Hv.
Qed.
Example ex_memrel : memrel ex_D [[7]; [8]; [9]] [[7]; [200]; [9]].
Proof.
  split.
  - repeat constructor.
  - intros sl Hs. destruct sl as [|[|sl]]; [reflexivity | | reflexivity].
    exfalso. apply Hs. exact ex_wo_slot1.
Qed.

(* "AT+X?" LF with 8 and with 200 in the write-only variable: the same output  +X=7,0,9 / OK *)
Example ex_same_output :
  ex_out (srun ex_D (sinit ex_D [[7]; [200]; [9]] (mkSio [] [] []) (mkSmu [] []) [])
               (SFeed [65;84;43;88;63;10] :: repeat (SOp OService) 200)) =
  ex_out (ex_run [65;84;43;88;63;10]).
Proof. vm_compute. reflexivity. Qed.

(* why exact equality of traces fails: +P is a write-only 2-byte hex buffer with a write callback;
   "AT+P=AA" LF stores one byte; the callback is handed the whole storage [170; 2] resp. [170; 3] *)
Definition ex_vP := mkVar None VBufHex 2 WO false true 0.
Definition ex_cP := mkCmd [43; 80] None false false false false [ex_vP] false false false.
Definition ex_D2 := mkDesc [[ex_cP]] [] 64 (Some 32%nat) 0 4 false.
Definition ex_run2 (m : list (list N)) (line : list N) : sworld :=
  srun ex_D2 (sinit ex_D2 m (mkSio [] [] []) (mkSmu [] []) [])
       (SFeed line :: repeat (SOp OService) 200).
Definition ex_calls (w : sworld) : list event :=
  filter (fun e => match e with ECall _ _ => true | _ => false end) (tr _ _ _ w).

Example ex_trace_differs :
  ex_calls (ex_run2 [[1; 2]] [65;84;43;80;61;65;65;10]) = [ECall (VWrite 0 0 1 [170; 2]) 0%Z] /\
  ex_calls (ex_run2 [[1; 3]] [65;84;43;80;61;65;65;10]) = [ECall (VWrite 0 0 1 [170; 3]) 0%Z] /\
  map blank_ev (tr _ _ _ (ex_run2 [[1; 2]] [65;84;43;80;61;65;65;10])) =
  map blank_ev (tr _ _ _ (ex_run2 [[1; 3]] [65;84;43;80;61;65;65;10])) /\
  mem (st _ _ _ (ex_run2 [[1; 2]] [65;84;43;80;61;65;65;10])) = [[170; 2]] /\
  mem (st _ _ _ (ex_run2 [[1; 3]] [65;84;43;80;61;65;65;10])) = [[170; 3]].
Proof. vm_compute. repeat split; reflexivity. Qed.
