(* Properties_C02e.v — end-to-end dispatch (glue for property C02): on the scripted always-ready
   environment of Script.v (mkw of GlueDefs.v: no readiness schedules, no mutex use) with the event machine
   idle, an idle parser that is fed a command line through io, one cat_service call (svc) at a time, reaches
   CS_COMMAND_FOUND with exactly the command Spec.resolve selects and the request type announced by the
   suffix, having consumed exactly the bytes of the line, called no handler and written nothing — or, when
   resolve selects nothing, CS_COMMAND_NOT_FOUND (line end) / the drain state CS_ERROR ('=').
   The number of service calls is linear in |name| * number of commands.  Proofs are in Lemmas_C02e.v
   (they combine the per-call lemmas with C02_resolve / C02_lanes / C02_implicit of Lemmas_C02.v). *)
From Coq Require Import List NArith ZArith Bool Arith.
From CatV Require Import Bytes Defs Codec Spec Fsm Script ResolveDefs SchedDefs GlueDefs.
From CatV Require Lemmas_C02 Lemmas_C02e.
Import ListNotations.
Local Open Scope nat_scope.

Local Notation st := (Fsm.st sio smu shs).
Local Notation io := (Fsm.io sio smu shs).
Local Notation hs := (Fsm.hs sio smu shs).
Local Notation tr := (Fsm.tr sio smu shs).

(* 1. RUN and WRITE requests:  "AT" name LF   and   "AT" name "="  (name in any letter case) *)
Theorem C02_dispatch : forall D s name term rest h,
  d_mutex D = false ->
  let n := ncmds D in
  0 < n -> n <= 4 * length (cbuf s) -> fault s = false ->
  k_state (k s) = CS_IDLE -> k_implicit (k s) = false ->
  u_state (u s) = US_IDLE -> u_count (u s) = 0 ->
  name_ok name = true -> (term = ch_LF \/ term = ch_EQ) ->
  implicit_hit D s (upper name) = false ->
  let typed := upper name in
  let w0 := mkw s ([ch_A; ch_T] ++ name ++ [term] ++ rest) h [] in
  exists calls, calls <= 3 + length name * (S n) + n /\
    let w := nsvc D calls w0 in
    inq (io w) = rest /\ hs w = h /\ calls_of (tr w) = [] /\ output_of (tr w) = [] /\
    mem (st w) = mem s /\ fault (st w) = false /\ u (st w) = u s /\
    match resolve typed (enabled D s) (cmds D) with
    | Some i => k_state (k (st w)) = CS_COMMAND_FOUND /\ k_cmd (k (st w)) = Some i /\
                k_type (k (st w)) = (if (term =? ch_EQ)%N then T_WRITE else T_RUN) /\
                k_char (k (st w)) = term
    | None => k_state (k (st w)) = (if (term =? ch_LF)%N then CS_COMMAND_NOT_FOUND else CS_ERROR)
    end.
Proof. exact Lemmas_C02e.C02_dispatch. Qed.
Print Assumptions C02_dispatch.

(* 2. READ requests:  "AT" name "?" LF  (through CS_WAIT_READ_ACK) *)
Theorem C02_dispatch_read : forall D s name rest h,
  d_mutex D = false ->
  let n := ncmds D in
  0 < n -> n <= 4 * length (cbuf s) -> fault s = false ->
  k_state (k s) = CS_IDLE -> k_implicit (k s) = false ->
  u_state (u s) = US_IDLE -> u_count (u s) = 0 ->
  name_ok name = true ->
  implicit_hit D s (upper name) = false ->
  let typed := upper name in
  let w0 := mkw s ([ch_A; ch_T] ++ name ++ [ch_QM; ch_LF] ++ rest) h [] in
  exists calls, calls <= 4 + length name * (S n) + n /\
    let w := nsvc D calls w0 in
    inq (io w) = rest /\ hs w = h /\ calls_of (tr w) = [] /\ output_of (tr w) = [] /\
    mem (st w) = mem s /\ fault (st w) = false /\ u (st w) = u s /\
    match resolve typed (enabled D s) (cmds D) with
    | Some i => k_state (k (st w)) = CS_COMMAND_FOUND /\ k_cmd (k (st w)) = Some i /\
                k_type (k (st w)) = T_READ /\ k_char (k (st w)) = ch_LF
    | None => k_state (k (st w)) = CS_COMMAND_NOT_FOUND
    end.
Proof. exact Lemmas_C02e.C02_dispatch_read. Qed.
Print Assumptions C02_dispatch_read.

(* 2'. the same with m carriage returns between '?' and the line feed (one more call each) *)
Theorem C02_dispatch_read_cr : forall D s name m rest h,
  d_mutex D = false ->
  let n := ncmds D in
  0 < n -> n <= 4 * length (cbuf s) -> fault s = false ->
  k_state (k s) = CS_IDLE -> k_implicit (k s) = false ->
  u_state (u s) = US_IDLE -> u_count (u s) = 0 ->
  name_ok name = true ->
  implicit_hit D s (upper name) = false ->
  let typed := upper name in
  let w0 := mkw s ([ch_A; ch_T] ++ name ++ [ch_QM] ++ repeat ch_CR m ++ [ch_LF] ++ rest) h [] in
  exists calls, calls <= 4 + m + length name * (S n) + n /\
    let w := nsvc D calls w0 in
    inq (io w) = rest /\ hs w = h /\ calls_of (tr w) = [] /\ output_of (tr w) = [] /\
    mem (st w) = mem s /\ fault (st w) = false /\ u (st w) = u s /\
    match resolve typed (enabled D s) (cmds D) with
    | Some i => k_state (k (st w)) = CS_COMMAND_FOUND /\ k_cmd (k (st w)) = Some i /\
                k_type (k (st w)) = T_READ /\ k_char (k (st w)) = ch_LF
    | None => k_state (k (st w)) = CS_COMMAND_NOT_FOUND
    end.
Proof. exact Lemmas_C02e.C02_dispatch_read_cr. Qed.
Print Assumptions C02_dispatch_read_cr.

(* 3. implicit write: as soon as the typed text is the exact name of an enabled implicit-write command
      (and no shorter prefix was), the lookup starts without a terminator; the byte that follows the
      name is still in the input queue *)
Theorem C02_dispatch_implicit : forall D s name rest h,
  d_mutex D = false ->
  let n := ncmds D in
  0 < n -> n <= 4 * length (cbuf s) -> fault s = false ->
  k_state (k s) = CS_IDLE -> k_implicit (k s) = false ->
  u_state (u s) = US_IDLE -> u_count (u s) = 0 ->
  name_ok name = true ->
  let typed := upper name in
  implicit_hit D s (removelast typed) = false -> implicit_hit D s typed = true ->
  let w0 := mkw s ([ch_A; ch_T] ++ name ++ rest) h [] in
  exists calls, calls <= 2 + length name * (S n) + n /\
    let w := nsvc D calls w0 in
    inq (io w) = rest /\ hs w = h /\ calls_of (tr w) = [] /\ output_of (tr w) = [] /\
    mem (st w) = mem s /\ fault (st w) = false /\ u (st w) = u s /\
    k_state (k (st w)) = CS_COMMAND_FOUND /\
    k_cmd (k (st w)) = find_full typed (enabled D s) (cmds D) 0 /\ k_cmd (k (st w)) <> None /\
    k_type (k (st w)) = T_WRITE.
Proof. exact Lemmas_C02e.C02_dispatch_implicit. Qed.
Print Assumptions C02_dispatch_implicit.

(* example by computation, table exC02_D of Lemmas_C02.v (12 commands, command 4 = "+T"):
   "AT+t" LF "123" reaches CS_COMMAND_FOUND / command 4 / T_RUN after exactly 34 calls, "123" unread;
   "AT+t?" CR LF after 36; the ambiguous "AT+" LF ends in CS_COMMAND_NOT_FOUND after 28;
   "AT+TA" (implicit write) is found after 42 calls without a terminator *)
Example C02_dispatch_example :
  let D := Lemmas_C02.exC02_D in
  let s := Lemmas_C02.exC02_s in
  let obs (w : sworld) := (k_state (k (st w)), k_cmd (k (st w)), k_type (k (st w)), inq (io w),
                           calls_of (tr w), output_of (tr w)) in
  resolve (upper [43; 116]%N) (enabled D s) (cmds D) = Some 4 /\
  implicit_hit D s (upper [43; 116]%N) = false /\
  obs (nsvc D 34 (mkw s [65; 84; 43; 116; 10; 1; 2; 3]%N [] [])) =
    (CS_COMMAND_FOUND, Some 4, T_RUN, [1; 2; 3]%N, [], []) /\
  obs (nsvc D 36 (mkw s [65; 84; 43; 116; 63; 13; 10; 1; 2; 3]%N [] [])) =
    (CS_COMMAND_FOUND, Some 4, T_READ, [1; 2; 3]%N, [], []) /\
  resolve (upper [43]%N) (enabled D s) (cmds D) = None /\
  k_state (k (st (nsvc D 28 (mkw s [65; 84; 43; 10; 1; 2; 3]%N [] [])))) = CS_COMMAND_NOT_FOUND /\
  implicit_hit D s (upper [43; 84; 65]%N) = true /\
  obs (nsvc D 42 (mkw s [65; 84; 43; 84; 65; 1; 2; 3]%N [] [])) =
    (CS_COMMAND_FOUND, Some 0, T_WRITE, [1; 2; 3]%N, [], []).
Proof. vm_compute. repeat split. Qed.
