(* Properties_C20.v -- final statements of property C20.  Proofs are in Lemmas_C20.v.

   First half: the response to a command line depends only on that line, the descriptor, the
   variables' values and the handlers' behaviour -- never on earlier lines.  In the model: the
   per-line scratch of the command machine is DEAD between lines.  This is a relational (two-run)
   theorem for ARBITRARY oracles: two worlds that differ only in dead scratch produce the same
   trace (every byte written, every read, every handler call with its arguments, every status)
   and stay related, whatever operations follow.

   The relation [Lemmas_C20.scratch_eq s1 s2 := norm false s1 = norm false s2] is state-indexed:
   [norm] overwrites with fixed values the fields that are dead in the state [k_state (k s)]
   (during CS_FLUSH_WAIT / CS_FLUSH: in the continuation state [k_wafter], plus the flush cursor).
   Live fields per state ([Lemmas_C20.mask_at]; k_cr, k_hold, k_implicit, k_state, the length of
   cbuf, the whole event machine [u], ubuf, mem, the disable flags, fault and the ghost counters
   are live everywhere; k_write_size is dead everywhere; k_hold_exit is live in CS_HOLD and
   whenever k_hold is set; k_wbuf / k_wstate / k_wafter / k_position / cbuf are live in a flush):

     state                     index partial length position cmd  var  type char cbuf
     ERROR IDLE PARSE_PREFIX     -     -      -      -        -    -    -    -    -
     COMMAND_NOT_FOUND HOLD
     AFTER_RESET AFTER_OK        -     -      -      -        -    -    -    -    -
     PARSE_COMMAND_CHAR          x     -      x      -        -    -    x    -    x
     UPDATE_COMMAND_STATE        x     -      x      -        -    -    x    x    x
     WAIT_READ_ACK               -     -      -      -        -    -    x    -    x
     SEARCH_COMMAND              x     x      -      -        x    -    x    x    x
     COMMAND_FOUND               -     -      -      -        x    -    x    -    x
     PARSE_COMMAND_ARGS          -     -      x      -        x    -    -    -    x
     PARSE_WRITE_ARGS            x     -      x      x        x    x    -    -    x
     FORMAT_READ/TEST_ARGS       x     -      -      x        x    x    -    -    x
     WAIT_TEST_ACK               -     -      -      -        x    -    -    -    x
     WRITE_LOOP                  x     -      x      -        x    -    -    -    x
     READ_LOOP TEST_LOOP         -     -      -      x        x    -    -    -    x
     RUN_LOOP AFTER_FMT_READ/TEST -    -      -      -        x    -    -    -    x
     PRINT_CMD                   x     -      x      -        -    -    x    -    x

   TWO of the requested statements are FALSE as given (machine-checked counter-examples below):
   (a) [cat_get_processed] (op [OGetProcessed ATCMD]) returns k_cmd in every state, so a stale
       k_cmd in CS_IDLE is observable: C20_scratch_dead_step_counterexample.  Nearest true
       statements: C20_scratch_dead_step_partial / C20_scratch_dead_partial (the requested relation,
       every operation except that query) and C20_scratch_dead_step_cmd / C20_scratch_dead_cmd
       (all operations; the relation additionally compares k_cmd everywhere -- in every reachable
       idle state k_cmd = None, because reset_state clears it).
   (b) if k_hold is set in CS_IDLE (unreachable, but expressible), a stale k_hold_exit is read
       after the next result code (reset_state re-enters CS_HOLD):
       C20_idle_characterisation_requested_false.  The CS_IDLE row therefore also requires
       [k_hold = true -> equal k_hold_exit]: C20_idle_row_exact, C20_idle_characterisation_partial.

   Second half: the line ending mirrors the request (C20_newline_choice, C20_newline_choice_u,
   C20_cr_in_idle_ignored, C20_cr_recorded, C20_reset_state_clears, and "exactly":
   C20_cr_event_machine_preserves, C20_cr_changes_command_machine, C20_cr_other_ops_preserve). *)
From Coq Require Import List NArith ZArith Bool Arith.
From CatV Require Import Bytes Defs Codec Fsm Script Lemmas_C20.
Import ListNotations.
Local Open Scope nat_scope.

(* ---------- re-initialisation facts (no oracles involved) ---------- *)

(* the CS_IDLE row of the relation, exactly *)
Theorem C20_idle_row_exact : forall s1 s2, k_state (k s1) = CS_IDLE ->
  (Lemmas_C20.scratch_eq s1 s2 <->
   k_state (k s2) = CS_IDLE /\
   k_cr (k s1) = k_cr (k s2) /\ k_hold (k s1) = k_hold (k s2) /\ k_implicit (k s1) = k_implicit (k s2) /\
   (k_hold (k s1) = true -> k_hold_exit (k s1) = k_hold_exit (k s2)) /\
   (false = true -> k_cmd (k s1) = k_cmd (k s2)) /\
   u s1 = u s2 /\ ubuf s1 = ubuf s2 /\ mem s1 = mem s2 /\ dis_cmd s1 = dis_cmd s2 /\ dis_grp s1 = dis_grp s2 /\
   fault s1 = fault s2 /\ gL s1 = gL s2 /\ gS s1 = gS s2 /\ gR s1 = gR s2 /\
   length (cbuf s1) = length (cbuf s2)).
Proof. exact (Lemmas_C20.idle_row_exact false). Qed.

(* the same row for the variant relation: k_cmd is compared as well *)
Theorem C20_idle_row_exact_cmd : forall s1 s2, k_state (k s1) = CS_IDLE ->
  (Lemmas_C20.scratch_eq_cmd s1 s2 <->
   k_state (k s2) = CS_IDLE /\
   k_cr (k s1) = k_cr (k s2) /\ k_hold (k s1) = k_hold (k s2) /\ k_implicit (k s1) = k_implicit (k s2) /\
   (k_hold (k s1) = true -> k_hold_exit (k s1) = k_hold_exit (k s2)) /\
   (true = true -> k_cmd (k s1) = k_cmd (k s2)) /\
   u s1 = u s2 /\ ubuf s1 = ubuf s2 /\ mem s1 = mem s2 /\ dis_cmd s1 = dis_cmd s2 /\ dis_grp s1 = dis_grp s2 /\
   fault s1 = fault s2 /\ gL s1 = gL s2 /\ gS s1 = gS s2 /\ gR s1 = gR s2 /\
   length (cbuf s1) = length (cbuf s2)).
Proof. exact (Lemmas_C20.idle_row_exact true). Qed.

(* requested C20_idle_characterisation, with the extra premise on k_hold_exit (see (b) above) *)
Theorem C20_idle_characterisation_partial : forall s1 s2,
  k_state (k s1) = CS_IDLE -> k_state (k s2) = CS_IDLE ->
  k_cr (k s1) = k_cr (k s2) -> k_hold (k s1) = k_hold (k s2) -> k_implicit (k s1) = k_implicit (k s2) ->
  (k_hold (k s1) = true -> k_hold_exit (k s1) = k_hold_exit (k s2)) ->
  u s1 = u s2 -> ubuf s1 = ubuf s2 -> mem s1 = mem s2 -> dis_cmd s1 = dis_cmd s2 -> dis_grp s1 = dis_grp s2 ->
  fault s1 = fault s2 -> gL s1 = gL s2 -> gS s1 = gS s2 -> gR s1 = gR s2 -> length (cbuf s1) = length (cbuf s2) ->
  Lemmas_C20.scratch_eq s1 s2.
Proof. exact Lemmas_C20.idle_characterisation_partial. Qed.

Theorem C20_idle_characterisation_cmd : forall s1 s2,
  k_state (k s1) = CS_IDLE -> k_state (k s2) = CS_IDLE ->
  k_cr (k s1) = k_cr (k s2) -> k_hold (k s1) = k_hold (k s2) -> k_implicit (k s1) = k_implicit (k s2) ->
  (k_hold (k s1) = true -> k_hold_exit (k s1) = k_hold_exit (k s2)) -> k_cmd (k s1) = k_cmd (k s2) ->
  u s1 = u s2 -> ubuf s1 = ubuf s2 -> mem s1 = mem s2 -> dis_cmd s1 = dis_cmd s2 -> dis_grp s1 = dis_grp s2 ->
  fault s1 = fault s2 -> gL s1 = gL s2 -> gS s1 = gS s2 -> gR s1 = gR s2 -> length (cbuf s1) = length (cbuf s2) ->
  Lemmas_C20.scratch_eq_cmd s1 s2.
Proof. exact Lemmas_C20.idle_characterisation_cmd. Qed.

(* (b): the requested characterisation (without the k_hold_exit premise) cannot hold for ANY relation
   that guarantees equal traces.  Descriptor without commands, scripted oracles of Script.v, input
   "X\n", 24 calls of cat_service; the two initial states are idle, held, and differ only in
   k_hold_exit (0 / 1): the second run additionally emits "\nOK\n". *)
Theorem C20_idle_characterisation_requested_false :
  let s1 := Lemmas_C20.cex_s 0%Z in let s2 := Lemmas_C20.cex_s 1%Z in
  (k_state (k s1) = CS_IDLE /\ k_state (k s2) = CS_IDLE /\
   k_cr (k s1) = k_cr (k s2) /\ k_hold (k s1) = k_hold (k s2) /\ k_implicit (k s1) = k_implicit (k s2) /\
   u s1 = u s2 /\ ubuf s1 = ubuf s2 /\ mem s1 = mem s2 /\ dis_cmd s1 = dis_cmd s2 /\ dis_grp s1 = dis_grp s2 /\
   fault s1 = fault s2 /\ gL s1 = gL s2 /\ gS s1 = gS s2 /\ gR s1 = gR s2 /\
   length (cbuf s1) = length (cbuf s2) /\ cbuf s1 = cbuf s2) /\
  tr _ _ _ (Lemmas_C20.cex_run 0%Z) <> tr _ _ _ (Lemmas_C20.cex_run 1%Z).
Proof. exact Lemmas_C20.idle_characterisation_requested_false. Qed.

(* prepare_parse_command (on 'T') rewrites the whole working buffer, k_index, k_length, k_type *)
Theorem C20_prepare_parse_command_agree : forall s1 s2, length (cbuf s1) = length (cbuf s2) ->
  cbuf (prepare_parse_command s1) = cbuf (prepare_parse_command s2) /\
  k_index (k (prepare_parse_command s1)) = k_index (k (prepare_parse_command s2)) /\
  k_length (k (prepare_parse_command s1)) = k_length (k (prepare_parse_command s2)) /\
  k_type (k (prepare_parse_command s1)) = k_type (k (prepare_parse_command s2)).
Proof. exact Lemmas_C20.prepare_parse_command_agree. Qed.

Theorem C20_prepare_parse_command_values : forall s,
  cbuf (prepare_parse_command s) = repeat 85%N (length (cbuf s)) /\
  k_index (k (prepare_parse_command s)) = 0 /\ k_length (k (prepare_parse_command s)) = 0 /\
  k_type (k (prepare_parse_command s)) = T_RUN.
Proof. exact Lemmas_C20.prepare_parse_command_values. Qed.

Theorem C20_prepare_search_command_resets : forall s,
  k_index (k (prepare_search_command s)) = 0 /\ k_partial (k (prepare_search_command s)) = 0 /\
  k_cmd (k (prepare_search_command s)) = None.
Proof. exact Lemmas_C20.prepare_search_command_resets. Qed.

(* reset_state (the only way back to CS_IDLE) clears k_cr, k_cmd, k_type when not held *)
Theorem C20_reset_state_clears : forall s, k_hold (k s) = false ->
  k_state (k (reset_state s)) = CS_IDLE /\ k_cr (k (reset_state s)) = false /\
  k_cmd (k (reset_state s)) = None /\ k_type (k (reset_state s)) = T_NONE.
Proof. exact Lemmas_C20.reset_state_clears. Qed.

Theorem C20_reset_state_held : forall s, k_hold (k s) = true ->
  k_state (k (reset_state s)) = CS_HOLD /\ k_cr (k (reset_state s)) = k_cr (k s) /\
  k_cmd (k (reset_state s)) = None /\ k_type (k (reset_state s)) = T_NONE.
Proof. exact Lemmas_C20.reset_state_held. Qed.

(* update_command clears k_implicit (and re-initialises the search) when the sweep ends in the search *)
Theorem C20_update_command_clears_implicit : forall D s,
  k_state (k (update_command D s)) = CS_SEARCH_COMMAND -> k_state (k s) <> CS_SEARCH_COMMAND ->
  k_implicit (k (update_command D s)) = false /\ k_type (k (update_command D s)) = T_WRITE /\
  k_index (k (update_command D s)) = 0 /\ k_partial (k (update_command D s)) = 0 /\
  k_cmd (k (update_command D s)) = None.
Proof. exact Lemmas_C20.update_command_clears_implicit. Qed.

(* the newline of every unit started for either machine is CRLF iff k_cr is set at that moment *)
Theorem C20_newline_choice : forall after s, k_wbuf (k (start_flush_c after s)) = WB_NL (k_cr (k s)).
Proof. exact Lemmas_C20.newline_choice. Qed.
Theorem C20_newline_choice_u : forall after s, u_wbuf (u (start_flush_u after s)) = WB_NL (k_cr (k s)).
Proof. exact Lemmas_C20.newline_choice_u. Qed.

Section C20.
Variable D : desc.
Variables ioS muS hS : Type.
Variable io_read : ioS -> ioS * option N.
Variable io_write : ioS -> N -> ioS * bool.
Variable mu_lock : muS -> muS * bool.
Variable mu_unlock : muS -> muS * bool.
Variable h_call : hS -> hreq -> hS * hres.

Local Notation world := (Fsm.world ioS muS hS).
Local Notation st := (Fsm.st ioS muS hS).
Local Notation io := (Fsm.io ioS muS hS).
Local Notation mu := (Fsm.mu ioS muS hS).
Local Notation hs := (Fsm.hs ioS muS hS).
Local Notation tr := (Fsm.tr ioS muS hS).
Local Notation mkWorld := (Fsm.mkWorld ioS muS hS).
Local Notation set_st := (Fsm.set_st ioS muS hS).
Local Notation upd_st := (Fsm.upd_st ioS muS hS).
Local Notation step := (Fsm.step D ioS muS hS io_read io_write mu_lock mu_unlock h_call).
Local Notation run := (Fsm.run D ioS muS hS io_read io_write mu_lock mu_unlock h_call).
Local Notation cmd_service := (Fsm.cmd_service D ioS muS hS io_read io_write mu_lock mu_unlock h_call).

(* two worlds that differ only in dead scratch *)
Definition world_eq (w1 w2 : world) : Prop :=
  Lemmas_C20.scratch_eq (st w1) (st w2) /\ io w1 = io w2 /\ mu w1 = mu w2 /\ hs w1 = hs w2 /\ tr w1 = tr w2.
(* the same, k_cmd compared in every state *)
Definition world_eq_cmd (w1 w2 : world) : Prop :=
  Lemmas_C20.scratch_eq_cmd (st w1) (st w2) /\ io w1 = io w2 /\ mu w1 = mu w2 /\ hs w1 = hs w2 /\ tr w1 = tr w2.

(* requested C20_scratch_dead_step, for every operation but cat_get_processed(ATCMD) *)
Theorem C20_scratch_dead_step_partial : forall w1 w2 o, o <> OGetProcessed ATCMD ->
  world_eq w1 w2 -> world_eq (step w1 o) (step w2 o).
Proof. exact (Lemmas_C20.scratch_dead_step_partial D ioS muS hS io_read io_write mu_lock mu_unlock h_call). Qed.

Theorem C20_scratch_dead_partial : forall ops w1 w2, Forall (fun o => o <> OGetProcessed ATCMD) ops ->
  world_eq w1 w2 -> world_eq (run w1 ops) (run w2 ops).
Proof. exact (Lemmas_C20.scratch_dead_partial D ioS muS hS io_read io_write mu_lock mu_unlock h_call). Qed.

(* all operations, k_cmd compared *)
Theorem C20_scratch_dead_step_cmd : forall w1 w2 o, world_eq_cmd w1 w2 -> world_eq_cmd (step w1 o) (step w2 o).
Proof. exact (Lemmas_C20.scratch_dead_step_cmd D ioS muS hS io_read io_write mu_lock mu_unlock h_call). Qed.

Theorem C20_scratch_dead_cmd : forall ops w1 w2, world_eq_cmd w1 w2 -> world_eq_cmd (run w1 ops) (run w2 ops).
Proof. exact (Lemmas_C20.scratch_dead_cmd D ioS muS hS io_read io_write mu_lock mu_unlock h_call). Qed.

(* (a): the unrestricted requested statement is false for every descriptor and all oracles *)
Theorem C20_scratch_dead_step_counterexample : forall w : world,
  k_state (k (st w)) = CS_IDLE -> k_cmd (k (st w)) = None ->
  let w' := upd_st (setk_cmd (Some 0)) w in
  world_eq w w' /\ ~ world_eq (step w (OGetProcessed ATCMD)) (step w' (OGetProcessed ATCMD)).
Proof. exact (Lemmas_C20.scratch_dead_step_counterexample D ioS muS hS io_read io_write mu_lock mu_unlock h_call). Qed.

(* a line fed to a freshly initialised parser behaves like the same line fed after any history that
   left the parser idle with the same variables, flags, event machine and line-ending/hold flags *)
Corollary C20_fresh_vs_used : forall (w : world),
  k_state (k (st w)) = CS_IDLE -> k_cr (k (st w)) = false -> k_hold (k (st w)) = false ->
  k_implicit (k (st w)) = false -> k_cmd (k (st w)) = None -> length (cbuf (st w)) = asz_of D ->
  let fresh := set_k init_cfsm (set_cbuf (repeat (d_fill D) (asz_of D)) (st w)) in
  forall ops, tr (run w ops) = tr (run (set_st fresh w) ops).
Proof. exact (Lemmas_C20.fresh_vs_used D ioS muS hS io_read io_write mu_lock mu_unlock h_call). Qed.

(* without the premise on k_cmd, for histories that do not query cat_get_processed(ATCMD) *)
Corollary C20_fresh_vs_used_partial : forall (w : world),
  k_state (k (st w)) = CS_IDLE -> k_cr (k (st w)) = false -> k_hold (k (st w)) = false ->
  k_implicit (k (st w)) = false -> length (cbuf (st w)) = asz_of D ->
  let fresh := set_k init_cfsm (set_cbuf (repeat (d_fill D) (asz_of D)) (st w)) in
  forall ops, Forall (fun o => o <> OGetProcessed ATCMD) ops ->
  tr (run w ops) = tr (run (set_st fresh w) ops).
Proof. exact (Lemmas_C20.fresh_vs_used_partial D ioS muS hS io_read io_write mu_lock mu_unlock h_call). Qed.

(* second half.  The CS_IDLE row: a CR or LF read in CS_IDLE changes nothing but k_char *)
Theorem C20_cr_in_idle_ignored : forall (w : world) io' ch,
  k_state (k (st w)) = CS_IDLE -> io_read (io w) = (io', Some ch) -> (ch = ch_CR \/ ch = ch_LF) ->
  cmd_service w =
  (mkWorld (setk_char ch (st w)) io' (mu w) (hs w) (ERd (Some ch) :: tr w), ST_BUSY).
Proof. exact (Lemmas_C20.cr_in_idle_ignored D ioS muS hS io_read io_write mu_lock mu_unlock h_call). Qed.

(* in each of the six non-IDLE reading states a CR sets k_cr and changes nothing else but k_char *)
Theorem C20_cr_recorded : forall (w : world) io',
  In (k_state (k (st w)))
     [CS_ERROR; CS_PARSE_PREFIX; CS_PARSE_COMMAND_CHAR; CS_WAIT_READ_ACK; CS_WAIT_TEST_ACK; CS_PARSE_COMMAND_ARGS] ->
  (k_state (k (st w)) = CS_PARSE_COMMAND_ARGS -> cmd_of D ATCMD (st w) <> None) ->
  io_read (io w) = (io', Some ch_CR) ->
  cmd_service w =
  (mkWorld (setk_cr true (setk_char ch_CR (st w))) io' (mu w) (hs w) (ERd (Some ch_CR) :: tr w), ST_BUSY).
Proof. exact (Lemmas_C20.cr_recorded D ioS muS hS io_read io_write mu_lock mu_unlock h_call). Qed.

(* k_cr is set EXACTLY by a CR read in a non-IDLE reading state and cleared EXACTLY by reset_state:
   (A) the event machine never changes it; (B) one step of the command machine leaves it unchanged,
   or sets it while reading a CR (as the machine sees the byte: upper-cased except in
   CS_PARSE_COMMAND_ARGS) in one of the six reading states, or clears it in CS_AFTER_RESET on the
   way to CS_IDLE; (C) no other public operation changes it.  (cat_service = lock; (A) then (B); unlock.) *)
Theorem C20_cr_event_machine_preserves : forall w : world,
  k_cr (k (st (fst (Fsm.unsolicited_events_service D ioS muS hS io_write mu_lock mu_unlock h_call w)))) =
  k_cr (k (st w)).
Proof. exact (Lemmas_C20.ues_cr D ioS muS hS io_write mu_lock mu_unlock h_call). Qed.

Theorem C20_cr_changes_command_machine : forall w : world,
  let w' := fst (cmd_service w) in
  k_cr (k (st w')) = k_cr (k (st w)) \/
  (k_cr (k (st w')) = true /\
   In (k_state (k (st w)))
      [CS_ERROR; CS_PARSE_PREFIX; CS_PARSE_COMMAND_CHAR; CS_WAIT_READ_ACK; CS_WAIT_TEST_ACK; CS_PARSE_COMMAND_ARGS] /\
   exists io' c, io_read (io w) = (io', Some c) /\
     (if cstate_beq (k_state (k (st w))) CS_PARSE_COMMAND_ARGS then c else to_upper c) = ch_CR) \/
  (k_cr (k (st w')) = false /\ k_state (k (st w)) = CS_AFTER_RESET /\ k_state (k (st w')) = CS_IDLE).
Proof. exact (Lemmas_C20.cmd_service_cr D ioS muS hS io_read io_write mu_lock mu_unlock h_call). Qed.

Theorem C20_cr_other_ops_preserve : forall (w : world) o, o <> OService ->
  k_cr (k (st (fst (Fsm.do_op D ioS muS hS io_read io_write mu_lock mu_unlock h_call w o)))) = k_cr (k (st w)).
Proof. exact (Lemmas_C20.other_ops_cr D ioS muS hS io_read io_write mu_lock mu_unlock h_call). Qed.

End C20.

Print Assumptions C20_idle_row_exact.
Print Assumptions C20_idle_row_exact_cmd.
Print Assumptions C20_idle_characterisation_partial.
Print Assumptions C20_idle_characterisation_cmd.
Print Assumptions C20_idle_characterisation_requested_false.
Print Assumptions C20_prepare_parse_command_agree.
Print Assumptions C20_prepare_parse_command_values.
Print Assumptions C20_prepare_search_command_resets.
Print Assumptions C20_reset_state_clears.
Print Assumptions C20_reset_state_held.
Print Assumptions C20_update_command_clears_implicit.
Print Assumptions C20_newline_choice.
Print Assumptions C20_newline_choice_u.
Print Assumptions C20_scratch_dead_step_partial.
Print Assumptions C20_scratch_dead_partial.
Print Assumptions C20_scratch_dead_step_cmd.
Print Assumptions C20_scratch_dead_cmd.
Print Assumptions C20_scratch_dead_step_counterexample.
Print Assumptions C20_fresh_vs_used.
Print Assumptions C20_fresh_vs_used_partial.
Print Assumptions C20_cr_in_idle_ignored.
Print Assumptions C20_cr_recorded.
Print Assumptions C20_cr_event_machine_preserves.
Print Assumptions C20_cr_changes_command_machine.
Print Assumptions C20_cr_other_ops_preserve.
