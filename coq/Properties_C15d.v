(* Properties_C15d.v — property C15, second half, in its honest form: NO ban on holds.
   Properties_C15b.v / Properties_C15c.v prove that the service loop reaches quiescence provided
   that no remaining script entry answers HOLD and that the command is not currently held.  The
   domain of C15 only excuses an UNRELEASED hold (scope decision D5).  Here ANY handler may answer
   HOLD at any time, the start state may be held, with or without a release already requested, and
   handlers of either machine may release the hold (inner cat_hold_exit calls, HOLD_EXIT return
   codes).  Theorems 1-3 need NO condition on HOLD answers at all — not even that of scope decision
   D3 (no HOLD answer to the event machine): a HOLD answer, whoever gets it, consumes a script
   entry and puts the command machine into CS_HOLD, which is all the liveness argument needs.
   (D3 is needed for the invariants Safe / J to be reached from cat_init: theorems 4, 5, which use
   Properties_Inv.scenario_inv_scripted, assume no_rt_hold — no HOLD in any read / test script,
   since script keys do not record which machine asks.)

   Under every finite readiness schedule, after at most  C15_bound D w + sched_left w  calls
   (the SAME bound as in Properties_C15c.v) the run is
     - quiescent: the input is consumed and cat_service answers OK, or
     - suspended in an unreleased hold: the command is held, no release has been requested, and
       everything that can be done without the application's cat_hold_exit has been done — the event
       machine is idle and the event queue is empty (no pending event is left behind).  From then
       on cat_service answers BUSY and changes nothing (theorem 3) until the application calls
       cat_hold_exit.
   A held state with a release requested (k_hold_exit <> 0) is not a stopping state: it ends in one
   of the two above (after the release, or in a later hold).

   Proofs: Lemmas_C15d.v.  The potential is that of Lemmas_C15b.v plus one complete run of the
   command machine while the command is held (the release restarts the command machine with the
   flush of the result code); a HOLD answer consumes a script entry, which pays for it.  The step
   lemmas of the command machine (Lemmas_C15ba.v) are reused; those of the event machine are
   proved again without the no-hold assumption, since the event machine runs while the command
   is held.  All that is used of J is its first clause, k_hold = true <-> k_state = CS_HOLD.

   Definitions used in the statements: script_ok, res_calls_ok, C15_bound (TermDefs.v, SchedDefs.v,
   see Properties_C15b.v), sched_left (Properties_C15c.v), no_rt_hold, res_calls_valid, valid_sop
   (Properties_Inv.v), svc / nsvc (SchedDefs.v). *)
From Coq Require Import List NArith ZArith Bool Arith Lia.
From Coq Require Import ZifyNat ZifyN.
From CatV Require Import Bytes Defs Codec Fsm Script TraceDefs Skel SkelInv ResolveDefs SchedDefs TermDefs.
From CatV Require Import Lemmas_C03 Lemmas_C15c Lemmas_Inv Lemmas_C15d.
Import ListNotations.

(* 1. quiescent, or suspended in an unreleased hold with every event drained *)
Theorem C15_quiescence_or_hold : forall D m (w : sworld),
  d_mutex D = false ->
  wf_desc D m -> Safe D m (st _ _ _ w) ->             (* safety invariant, e.g. any reachable state *)
  J (ctl_of (st _ _ _ w)) ->                          (* control invariant, e.g. any reachable state *)
  script_ok (res_calls_ok D) (hs _ _ _ w) = true ->   (* inner triggers name pool commands *)
  u_count (u (st _ _ _ w)) <= d_cap D ->              (* the queue holds at most d_cap events *)
  exists n, n <= C15_bound D w + sched_left w /\
    let w' := nsvc D n w in
    (inq (io _ _ _ w') = [] /\
     snd (do_op D sio smu shs s_read s_write s_lock s_unlock s_call w' OService) = ST_OK) \/
    (k_state (k (st _ _ _ w')) = CS_HOLD /\ Defs.k_hold_exit (k (st _ _ _ w')) = 0%Z /\
     u_state (u (st _ _ _ w')) = US_IDLE /\ u_count (u (st _ _ _ w')) = 0).
Proof. exact Lemmas_C15d.C15_quiescence_or_hold_proof. Qed.
Print Assumptions C15_quiescence_or_hold.

(* 2. ... with what is left behind in either case, and for ever after: in both cases no event is
   queued or in progress; quiescent: the command machine waits for input in a reading state and
   every further call answers OK and changes nothing; suspended: cat_is_hold reports HOLD, and
   every further call answers BUSY and changes neither the parser, nor the scripts, nor the io
   state (the pending input stays pending) *)
Theorem C15_quiescence_or_hold_nothing_left : forall D m (w : sworld),
  d_mutex D = false ->
  wf_desc D m -> Safe D m (st _ _ _ w) ->
  J (ctl_of (st _ _ _ w)) ->
  script_ok (res_calls_ok D) (hs _ _ _ w) = true ->
  u_count (u (st _ _ _ w)) <= d_cap D ->
  exists n, n <= C15_bound D w + sched_left w /\
    let w' := nsvc D n w in
    u_count (u (st _ _ _ w')) = 0 /\ u_state (u (st _ _ _ w')) = US_IDLE /\ ring_items D (st _ _ _ w') = [] /\
    ((inq (io _ _ _ w') = [] /\ reading_state (k_state (k (st _ _ _ w'))) = true /\
      forall j,
        snd (do_op D sio smu shs s_read s_write s_lock s_unlock s_call (nsvc D j w') OService) = ST_OK /\
        st _ _ _ (nsvc D j w') = st _ _ _ w' /\ hs _ _ _ (nsvc D j w') = hs _ _ _ w')
     \/
     (k_state (k (st _ _ _ w')) = CS_HOLD /\ is_hold (st _ _ _ w') = ST_HOLD /\
      Defs.k_hold_exit (k (st _ _ _ w')) = 0%Z /\
      forall j,
        snd (do_op D sio smu shs s_read s_write s_lock s_unlock s_call (nsvc D j w') OService) = ST_BUSY /\
        st _ _ _ (nsvc D j w') = st _ _ _ w' /\ hs _ _ _ (nsvc D j w') = hs _ _ _ w' /\
        io _ _ _ (nsvc D j w') = io _ _ _ w')).
Proof. exact Lemmas_C15d.C15_quiescence_or_hold_nothing_left_proof. Qed.
Print Assumptions C15_quiescence_or_hold_nothing_left.

(* 3. a suspended world stays suspended (any scripted world, no invariant needed): only the
   application's cat_hold_exit can go on *)
Theorem C15_hold_suspended_forever : forall D (w : sworld) j,
  d_mutex D = false ->
  k_state (k (st _ _ _ w)) = CS_HOLD -> Defs.k_hold_exit (k (st _ _ _ w)) = 0%Z ->
  u_state (u (st _ _ _ w)) = US_IDLE -> u_count (u (st _ _ _ w)) = 0 ->
  snd (do_op D sio smu shs s_read s_write s_lock s_unlock s_call (nsvc D j w) OService) = ST_BUSY /\
  st _ _ _ (nsvc D j w) = st _ _ _ w /\ hs _ _ _ (nsvc D j w) = hs _ _ _ w /\
  io _ _ _ (nsvc D j w) = io _ _ _ w.
Proof. exact Lemmas_C15d.C15_hold_suspended_forever_proof. Qed.
Print Assumptions C15_hold_suspended_forever.

(* 4. from cat_init: every scripted scenario (API calls — cat_hold_exit included —, new input and
   application stores in any order; Properties_Inv.scenario_inv_scripted) reaches a world from
   which the service loop ends quiescent or suspended.  No condition on the world reached.
   (no_rt_hold: scope decision D3, needed for Safe and J to hold in the world reached.) *)
Theorem C15_scenario_quiescence_or_hold : forall D m x mx h sops,
  d_mutex D = false -> wf_desc D m -> Forall (valid_sop D) sops ->
  no_rt_hold h = true -> script_ok (res_calls_valid D) h = true ->
  let w := srun D (sinit D m x mx h) sops in
  exists n, n <= C15_bound D w + sched_left w /\
    let w' := nsvc D n w in
    (inq (io _ _ _ w') = [] /\
     snd (do_op D sio smu shs s_read s_write s_lock s_unlock s_call w' OService) = ST_OK) \/
    (k_state (k (st _ _ _ w')) = CS_HOLD /\ Defs.k_hold_exit (k (st _ _ _ w')) = 0%Z /\
     u_state (u (st _ _ _ w')) = US_IDLE /\ u_count (u (st _ _ _ w')) = 0).
Proof. exact Lemmas_C15d.C15_scenario_quiescence_or_hold_proof. Qed.
Print Assumptions C15_scenario_quiescence_or_hold.

(* 4'. the same for histories of API calls *)
Theorem C15_reachable_quiescence_or_hold : forall D m x mx h ops0,
  d_mutex D = false -> wf_desc D m -> Forall (valid_op D) ops0 ->
  no_rt_hold h = true -> script_ok (res_calls_valid D) h = true ->
  let w := srun D (sinit D m x mx h) (map SOp ops0) in
  exists n, n <= C15_bound D w + sched_left w /\
    let w' := nsvc D n w in
    (inq (io _ _ _ w') = [] /\
     snd (do_op D sio smu shs s_read s_write s_lock s_unlock s_call w' OService) = ST_OK) \/
    (k_state (k (st _ _ _ w')) = CS_HOLD /\ Defs.k_hold_exit (k (st _ _ _ w')) = 0%Z /\
     u_state (u (st _ _ _ w')) = US_IDLE /\ u_count (u (st _ _ _ w')) = 0).
Proof. exact Lemmas_C15d.C15_reachable_quiescence_or_hold_proof. Qed.
Print Assumptions C15_reachable_quiescence_or_hold.

(* 5. statement 2 from cat_init *)
Theorem C15_scenario_quiescence_or_hold_nothing_left : forall D m x mx h sops,
  d_mutex D = false -> wf_desc D m -> Forall (valid_sop D) sops ->
  no_rt_hold h = true -> script_ok (res_calls_valid D) h = true ->
  let w := srun D (sinit D m x mx h) sops in
  exists n, n <= C15_bound D w + sched_left w /\
    let w' := nsvc D n w in
    u_count (u (st _ _ _ w')) = 0 /\ u_state (u (st _ _ _ w')) = US_IDLE /\ ring_items D (st _ _ _ w') = [] /\
    ((inq (io _ _ _ w') = [] /\ reading_state (k_state (k (st _ _ _ w'))) = true /\
      forall j,
        snd (do_op D sio smu shs s_read s_write s_lock s_unlock s_call (nsvc D j w') OService) = ST_OK /\
        st _ _ _ (nsvc D j w') = st _ _ _ w' /\ hs _ _ _ (nsvc D j w') = hs _ _ _ w')
     \/
     (k_state (k (st _ _ _ w')) = CS_HOLD /\ is_hold (st _ _ _ w') = ST_HOLD /\
      Defs.k_hold_exit (k (st _ _ _ w')) = 0%Z /\
      forall j,
        snd (do_op D sio smu shs s_read s_write s_lock s_unlock s_call (nsvc D j w') OService) = ST_BUSY /\
        st _ _ _ (nsvc D j w') = st _ _ _ w' /\ hs _ _ _ (nsvc D j w') = hs _ _ _ w' /\
        io _ _ _ (nsvc D j w') = io _ _ _ w')).
Proof. exact Lemmas_C15d.C15_scenario_quiescence_or_hold_nothing_left_proof. Qed.
Print Assumptions C15_scenario_quiescence_or_hold_nothing_left.

(* ------------------------------------------------------------------ *)
(* non-vacuity: scripted runs with holds and refusing schedules         *)
(* ------------------------------------------------------------------ *)

Definition rets (h : list event) : list Z :=
  flat_map (fun e => match e with ERet _ r => [r] | _ => [] end) h.
Definition written (h : list event) : list N :=
  flat_map (fun e => match e with EWr _ ch true => [ch] | _ => [] end) h.

(* one command "+X" with read and run handlers, no mutex, queue capacity 2 (as in Properties_C15c.v) *)
Definition exD : desc :=
  mkDesc [[mkCmd [43; 88]%N None false true true false [] false false false]] [] 16 None 0%N 2 false.
Local Notation exdo := (do_op exD sio smu shs s_read s_write s_lock s_unlock s_call).

Definition ex_rd : list bool := [false; true; false; false; true].
Definition ex_wr : list bool := [true; false; false; true; false; true; true; false].

(* the run handler of "+X" answers HOLD and triggers two read events of "+X" from inside; the read
   handler answers "+X=1" and "+X=2" *)
Definition scr_susp : shs :=
  [((2, 0, 0), [mkHres RC_HOLD None [] [ITrigger 0 T_READ; ITrigger 0 T_READ]]);
   ((1, 0, 0), [mkHres RC_DATA_OK (Some [43; 88; 61; 49]%N) [] [];
                mkHres RC_DATA_OK (Some [43; 88; 61; 50]%N) [] []])].
(* the same, but the second event's handler releases the hold (cat_hold_exit from inside) *)
Definition scr_rel : shs :=
  [((2, 0, 0), [mkHres RC_HOLD None [] [ITrigger 0 T_READ; ITrigger 0 T_READ]]);
   ((1, 0, 0), [mkHres RC_DATA_OK (Some [43; 88; 61; 49]%N) [] [];
                mkHres RC_DATA_OK (Some [43; 88; 61; 50]%N) [] [IHoldExit ST_OK]])].

(* input "AT+X\nAT\n", refusing read and write schedules, fresh parser *)
Definition exW (h : shs) : sworld :=
  sinit exD [] (mkSio [65; 84; 43; 88; 10; 65; 84; 10]%N ex_rd ex_wr) (mkSmu [] []) h.

Definition suspended (w : sworld) : Prop :=
  k_state (k (st _ _ _ w)) = CS_HOLD /\ Defs.k_hold_exit (k (st _ _ _ w)) = 0%Z /\
  u_state (u (st _ _ _ w)) = US_IDLE /\ u_count (u (st _ _ _ w)) = 0.

Lemma ex_wf : wf_desc exD [].
Proof. unfold wf_desc. cbn. repeat split; try lia; repeat (apply Forall_cons; [apply Forall_nil|]); apply Forall_nil. Qed.

(* the hypotheses of theorems 1, 2 hold for both worlds; the hypothesis `no HOLD any more` of
   Properties_C15c.v fails; the bound is 137864 + 13 *)
Example C15d_ex_hypotheses : forall h, h = scr_susp \/ h = scr_rel ->
  d_mutex exD = false /\ wf_desc exD [] /\ Safe exD [] (st _ _ _ (exW h)) /\ J (ctl_of (st _ _ _ (exW h))) /\
  script_ok (res_calls_ok exD) (hs _ _ _ (exW h)) = true /\
  u_count (u (st _ _ _ (exW h))) <= d_cap exD /\
  script_ok no_hold_res (hs _ _ _ (exW h)) = false /\
  N.of_nat (C15_bound exD (exW h) + sched_left (exW h)) = 137877%N.
Proof.
  intros h Hh. split; [reflexivity|]. split; [exact ex_wf|]. split; [exact (safe_init exD [] ex_wf)|].
  split; [exact J_init|]. destruct Hh as [-> | ->]; vm_compute; repeat split; try reflexivity; lia.
Qed.

(* second disjunct.  The first 43 calls: "AT+X\n" is parsed, the run handler answers HOLD and
   queues two events; while the command is held both events are delivered ("\n+X=1\n", "\n+X=2\n");
   then the run is suspended: held, no release requested, event machine idle, queue empty,
   cat_is_hold says HOLD, the second line "AT\n" is still pending.  It is never quiescent. *)
Example C15d_ex_suspended :
  let w := exW scr_susp in
  suspended (nsvc exD 43 w) /\
  filter (fun n => match k_state (k (st _ _ _ (nsvc exD n w))) with CS_HOLD => true | _ => false end &&
                   (u_count (u (st _ _ _ (nsvc exD n w))) =? 0) &&
                   match u_state (u (st _ _ _ (nsvc exD n w))) with US_IDLE => true | _ => false end)
         (seq 0 43) = [] /\
  is_hold (st _ _ _ (nsvc exD 43 w)) = ST_HOLD /\
  inq (io _ _ _ (nsvc exD 43 w)) = [65; 84; 10]%N /\
  written (hist _ _ _ (nsvc exD 43 w)) = [10; 43; 88; 61; 49; 10;  10; 43; 88; 61; 50; 10]%N /\
  map (fun n => snd (exdo (nsvc exD n w) OService)) (seq 0 120) =
    [ST_OK; ST_BUSY; ST_OK; ST_OK] ++ repeat ST_BUSY 116 /\
  written (hist _ _ _ (nsvc exD 120 w)) = written (hist _ _ _ (nsvc exD 43 w)) /\
  43 <= C15_bound exD w + sched_left w.
Proof.
  cbv zeta. split; [vm_compute; repeat split; reflexivity|].
  split; [vm_compute; reflexivity|]. split; [vm_compute; reflexivity|]. split; [vm_compute; reflexivity|].
  split; [vm_compute; reflexivity|]. split; [vm_compute; reflexivity|]. split; [vm_compute; reflexivity|].
  apply Nat.leb_le. vm_compute. reflexivity.
Qed.

(* first disjunct.  The second event's handler releases the hold: the command machine goes on with
   "\nOK\n", parses the second line "AT\n" ("\nOK\n" again) and the run is quiescent after 62
   calls; it is never suspended.  (The three early OKs are refused reads, cf.
   Properties_C15c.C15c_ex_early_ok.) *)
Example C15d_ex_released :
  let w := exW scr_rel in
  map (fun n => snd (exdo (nsvc exD n w) OService)) (seq 0 64) =
    [ST_OK; ST_BUSY; ST_OK; ST_OK] ++ repeat ST_BUSY 58 ++ [ST_OK; ST_OK] /\
  inq (io _ _ _ (nsvc exD 62 w)) = [] /\
  k_state (k (st _ _ _ (nsvc exD 62 w))) = CS_IDLE /\ is_hold (st _ _ _ (nsvc exD 62 w)) = ST_OK /\
  filter (fun n => match k_state (k (st _ _ _ (nsvc exD n w))) with CS_HOLD => true | _ => false end &&
                   (Defs.k_hold_exit (k (st _ _ _ (nsvc exD n w))) =? 0)%Z &&
                   (u_count (u (st _ _ _ (nsvc exD n w))) =? 0) &&
                   match u_state (u (st _ _ _ (nsvc exD n w))) with US_IDLE => true | _ => false end)
         (seq 0 64) = [] /\
  written (hist _ _ _ (nsvc exD 62 w)) =
    [10; 43; 88; 61; 49; 10;  10; 43; 88; 61; 50; 10;  10; 79; 75; 10;  10; 79; 75; 10]%N /\
  62 <= C15_bound exD w + sched_left w.
Proof.
  cbv zeta. split; [vm_compute; reflexivity|]. split; [vm_compute; reflexivity|].
  split; [vm_compute; reflexivity|]. split; [vm_compute; reflexivity|]. split; [vm_compute; reflexivity|].
  split; [vm_compute; reflexivity|]. apply Nat.leb_le. vm_compute. reflexivity.
Qed.

(* from the bound as a number *)
Lemma ex_applies : forall (w : sworld) (b : N) (P : nat -> Prop),
  (exists n, n <= C15_bound exD w + sched_left w /\ P n) ->
  N.of_nat (C15_bound exD w + sched_left w) = b -> exists n, (N.of_nat n <= b)%N /\ P n.
Proof. intros w b P (n & Hn & Hp) Hb. exists n. split; [rewrite <- Hb; lia | exact Hp]. Qed.

(* theorem 1 applies to both worlds *)
Example C15d_ex_theorem_applies : forall h, h = scr_susp \/ h = scr_rel ->
  exists n, (N.of_nat n <= 137877)%N /\
    ((inq (io _ _ _ (nsvc exD n (exW h))) = [] /\ snd (exdo (nsvc exD n (exW h)) OService) = ST_OK) \/
     suspended (nsvc exD n (exW h))).
Proof.
  intros h Hh. destruct (C15d_ex_hypotheses h Hh) as (H1 & H2 & H3 & H4 & H6 & H7 & _ & H9).
  exact (ex_applies (exW h) 137877%N _ (C15_quiescence_or_hold exD [] (exW h) H1 H2 H3 H4 H6 H7) H9).
Qed.

(* a held start state WITH a release requested: the scenario of the suspended run followed by the
   application's cat_hold_exit(OK).  The world reached is held with k_hold_exit = 1; theorem 4
   applies to it; the run goes on and is quiescent after 22 more calls, with the same total output
   as the released run above *)
Definition ex_sops : list sop := repeat (SOp OService) 43 ++ [SOp (OHoldExit ST_OK)].
Definition exWh : sworld := srun exD (exW scr_susp) ex_sops.

Example C15d_ex_scenario :
  Forall (valid_sop exD) ex_sops /\
  no_rt_hold scr_susp = true /\ script_ok (res_calls_valid exD) scr_susp = true /\
  k_state (k (st _ _ _ exWh)) = CS_HOLD /\ k_hold (k (st _ _ _ exWh)) = true /\
  Defs.k_hold_exit (k (st _ _ _ exWh)) = 1%Z /\
  last (rets (hist _ _ _ exWh)) 7%Z = ST_OK /\
  map (fun n => snd (exdo (nsvc exD n exWh) OService)) (seq 0 24) = repeat ST_BUSY 22 ++ [ST_OK; ST_OK] /\
  inq (io _ _ _ (nsvc exD 22 exWh)) = [] /\
  written (hist _ _ _ (nsvc exD 22 exWh)) =
    [10; 43; 88; 61; 49; 10;  10; 43; 88; 61; 50; 10;  10; 79; 75; 10;  10; 79; 75; 10]%N /\
  N.of_nat (C15_bound exD exWh + sched_left exWh) = 45068%N.
Proof.
  split.
  { unfold ex_sops. apply Forall_app. split; [|repeat constructor].
    apply Forall_forall. intros o Ho. apply repeat_spec in Ho. subst o. exact I. }
  vm_compute. repeat split; reflexivity.
Qed.

Example C15d_ex_scenario_applies :
  exists n, (N.of_nat n <= 45068)%N /\
    ((inq (io _ _ _ (nsvc exD n exWh)) = [] /\ snd (exdo (nsvc exD n exWh) OService) = ST_OK) \/
     suspended (nsvc exD n exWh)).
Proof.
  destruct C15d_ex_scenario as (F & A & B & _ & _ & _ & _ & _ & _ & _ & Hb).
  exact (ex_applies exWh 45068%N
           (fun n => (inq (io _ _ _ (nsvc exD n exWh)) = [] /\ snd (exdo (nsvc exD n exWh) OService) = ST_OK) \/
                     suspended (nsvc exD n exWh))
           (C15_scenario_quiescence_or_hold exD [] (mkSio [65; 84; 43; 88; 10; 65; 84; 10]%N ex_rd ex_wr)
              (mkSmu [] []) scr_susp ex_sops eq_refl ex_wf F A B) Hb).
Qed.

(* theorems 1-3 do not need D3.  Here the READ handler answers HOLD to the EVENT machine, 30 times
   (no_rt_hold fails).  The first answer puts the command machine — which had just consumed the
   `A` of "AT\n" — into CS_HOLD; the event machine stays in its handler loop and calls the handler
   again in every cat_service call, one script entry per call; when the script is exhausted the
   event ends, and the run is suspended after 32 calls with "T\n" pending.  (The command in
   progress is lost: that is the defect behind scope decision D3, and J does not survive it; the
   liveness statement is not affected.) *)
Definition scr_ev : shs := [((1, 0, 0), repeat (mkHres RC_HOLD None [] []) 30)].
Definition exWe : sworld :=
  srun exD (sinit exD [] (mkSio [65; 84; 10]%N [] []) (mkSmu [] []) scr_ev) [SOp (OTrigger 0 T_READ)].

Example C15d_ex_event_side_hold :
  no_rt_hold scr_ev = false /\
  (d_mutex exD = false /\ wf_desc exD [] /\ Safe exD [] (st _ _ _ exWe) /\ J (ctl_of (st _ _ _ exWe)) /\
   script_ok (res_calls_ok exD) (hs _ _ _ exWe) = true /\ u_count (u (st _ _ _ exWe)) <= d_cap exD) /\
  map (fun n => script_left (hs _ _ _ (nsvc exD n exWe))) [0; 10; 20; 30; 31] = [30; 21; 11; 1; 0] /\
  map (fun n => (k_state (k (st _ _ _ (nsvc exD n exWe))), u_state (u (st _ _ _ (nsvc exD n exWe)))))
      [0; 1; 2; 31; 32] =
    [(CS_IDLE, US_IDLE); (CS_PARSE_PREFIX, US_READ_LOOP); (CS_HOLD, US_READ_LOOP);
     (CS_HOLD, US_READ_LOOP); (CS_HOLD, US_IDLE)] /\
  map (fun n => snd (exdo (nsvc exD n exWe) OService)) (seq 0 40) = repeat ST_BUSY 40 /\
  suspended (nsvc exD 32 exWe) /\ inq (io _ _ _ (nsvc exD 32 exWe)) = [84; 10]%N /\
  N.of_nat (C15_bound exD exWe + sched_left exWe) = 414808%N.
Proof.
  split; [reflexivity|]. split.
  { split; [reflexivity|]. split; [exact ex_wf|]. split.
    { unfold Safe, Base, KS, US, ring_ok, cmd_wk. cbn. repeat split; try lia.
      repeat (apply Forall_cons; [cbn; lia|]). apply Forall_nil. }
    split.
    { replace (ctl_of (st _ _ _ exWe)) with init_ctl by (vm_compute; reflexivity). exact J_init. }
    split; [reflexivity | cbn; lia]. }
  vm_compute. repeat split; reflexivity.
Qed.

Example C15d_ex_event_side_hold_applies :
  exists n, (N.of_nat n <= 414808)%N /\
    ((inq (io _ _ _ (nsvc exD n exWe)) = [] /\ snd (exdo (nsvc exD n exWe) OService) = ST_OK) \/
     suspended (nsvc exD n exWe)).
Proof.
  destruct C15d_ex_event_side_hold as (_ & (H1 & H2 & H3 & H4 & H5 & H6) & _ & _ & _ & _ & _ & Hb).
  exact (ex_applies exWe 414808%N _ (C15_quiescence_or_hold exD [] exWe H1 H2 H3 H4 H5 H6) Hb).
Qed.
