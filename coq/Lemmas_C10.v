(* Lemmas_C10.v — property C10: handler return codes drive the response exactly as documented
   (table RespDefs.spec_action), for all integer codes, both machines, all four handler kinds;
   a failing variable callback aborts the command before the command handler runs.
   All the work for Properties_C10.v is here. *)
From Coq Require Import List NArith ZArith Bool Arith Lia.
From CatV Require Import Bytes Defs Codec Spec Fsm Script ResolveDefs TextDefs RespDefs.
Import ListNotations.
Local Open Scope nat_scope.

(* the handler-call projection of a trace (newest first, like the trace) *)
Definition call_of (e : event) : list (hreq * Z) :=
  match e with ECall q c => [(q, c)] | _ => [] end.
Definition calls_of (t : list event) : list (hreq * Z) := flat_map call_of t.

Lemma calls_of_app : forall a b, calls_of (a ++ b) = calls_of a ++ calls_of b.
Proof. intros. unfold calls_of. apply flat_map_app. Qed.

Lemma calls_of_nil_iff : forall t, calls_of t = [] <-> (forall q c, ~ In (ECall q c) t).
Proof.
  induction t as [|e t IH]; cbn [calls_of flat_map].
  - split; [intros _ q c []|reflexivity].
  - fold (calls_of t). split.
    + intros H q c [Hin|Hin].
      * subst e. cbn [call_of app] in H. discriminate.
      * apply app_eq_nil in H. destruct H as [_ H]. exact (proj1 IH H q c Hin).
    + intros H. destruct e; cbn [call_of app];
        try (apply (proj2 IH); intros q0 c0 Hin; apply (H q0 c0); right; exact Hin).
      exfalso. apply (H q code). left. reflexivity.
Qed.

(* everything of the object state that a handler call cannot touch directly or through the
   inner API calls: the whole command-machine record except hold_exit, both buffers *)
Definition kframe (s s' : state) : Prop :=
  set_k_hold_exit 0%Z (k s') = set_k_hold_exit 0%Z (k s) /\ cbuf s' = cbuf s /\ ubuf s' = ubuf s.

Lemma kframe_refl : forall s, kframe s s.
Proof. intros. repeat split. Qed.
Lemma kframe_trans : forall a b c, kframe a b -> kframe b c -> kframe a c.
Proof.
  intros a b c (H1 & H2 & H3) (G1 & G2 & G3). repeat split; congruence.
Qed.

Lemma kframe_k_state : forall s s', kframe s s' -> k_state (k s') = k_state (k s).
Proof. intros s s' (H & _). apply (f_equal k_state) in H. exact H. Qed.
Lemma kframe_k_cmd : forall s s', kframe s s' -> k_cmd (k s') = k_cmd (k s).
Proof. intros s s' (H & _). apply (f_equal k_cmd) in H. exact H. Qed.
Lemma kframe_k_length : forall s s', kframe s s' -> k_length (k s') = k_length (k s).
Proof. intros s s' (H & _). apply (f_equal k_length) in H. exact H. Qed.
Lemma kframe_k_index : forall s s', kframe s s' -> k_index (k s') = k_index (k s).
Proof. intros s s' (H & _). apply (f_equal k_index) in H. exact H. Qed.
Lemma kframe_k_position : forall s s', kframe s s' -> k_position (k s') = k_position (k s).
Proof. intros s s' (H & _). apply (f_equal k_position) in H. exact H. Qed.
Lemma kframe_cbuf : forall s s', kframe s s' -> cbuf s' = cbuf s.
Proof. intros s s' (_ & H & _). exact H. Qed.
Lemma kframe_ubuf : forall s s', kframe s s' -> ubuf s' = ubuf s.
Proof. intros s s' (_ & _ & H). exact H. Qed.

Lemma apply_poke_kframe : forall s p, kframe s (apply_poke s p).
Proof.
  intros. unfold apply_poke.
  destruct (nth_error (mem s) (fst p)); [|apply kframe_refl].
  destruct (store_prefix l (snd p)); [|apply kframe_refl]. repeat split.
Qed.

Lemma pokes_kframe : forall ps s, kframe s (fold_left apply_poke ps s).
Proof.
  induction ps as [|p ps IH]; intros; cbn [fold_left]; [apply kframe_refl|].
  eapply kframe_trans; [apply apply_poke_kframe|apply IH].
Qed.

Lemma push_kframe : forall D s ci t, kframe s (fst (push_unsolicited_cmd D s ci t)).
Proof.
  intros. unfold push_unsolicited_cmd.
  destruct (ring_full D s); [apply kframe_refl|].
  cbn [fst]. destruct (u_tail (u s) <? length (u_ring (u s))); repeat split.
Qed.

Lemma hold_exit_kframe : forall s z, kframe s (fst (hold_exit s z)).
Proof.
  intros. unfold hold_exit. destruct (negb (k_hold (k s))); cbn [fst]; repeat split.
Qed.

Section C10.
Variable D : desc.
Variables ioS muS hS : Type.
Variable io_read : ioS -> ioS * option N.
Variable io_write : ioS -> N -> ioS * bool.
Variable mu_lock : muS -> muS * bool.
Variable mu_unlock : muS -> muS * bool.
Variable h_call : hS -> hreq -> hS * hres.

Local Notation world := (Fsm.world ioS muS hS).
Local Notation st := (Fsm.st ioS muS hS).
Local Notation io := (Fsm.io ioS muS hS).
Local Notation mu := (Fsm.mu ioS muS hS).
Local Notation hs := (Fsm.hs ioS muS hS).
Local Notation tr := (Fsm.tr ioS muS hS).
Local Notation set_st := (Fsm.set_st ioS muS hS).
Local Notation set_io := (Fsm.set_io ioS muS hS).
Local Notation set_mu := (Fsm.set_mu ioS muS hS).
Local Notation set_hs := (Fsm.set_hs ioS muS hS).
Local Notation logw := (Fsm.logw ioS muS hS).
Local Notation upd_st := (Fsm.upd_st ioS muS hS).
Local Notation busy := (Fsm.busy ioS muS hS).
Local Notation bracket := (Fsm.bracket D ioS muS hS mu_lock mu_unlock).
Local Notation api_trigger := (Fsm.api_trigger D ioS muS hS mu_lock mu_unlock).
Local Notation api_hold_exit := (Fsm.api_hold_exit D ioS muS hS mu_lock mu_unlock).
Local Notation apply_icall := (Fsm.apply_icall D ioS muS hS mu_lock mu_unlock).
Local Notation call_h := (Fsm.call_h D ioS muS hS mu_lock mu_unlock h_call).
Local Notation format_read_args := (Fsm.format_read_args D ioS muS hS mu_lock mu_unlock h_call).
Local Notation parse_write_args := (Fsm.parse_write_args D ioS muS hS mu_lock mu_unlock h_call).
Local Notation process_rt_loop := (Fsm.process_rt_loop D ioS muS hS mu_lock mu_unlock h_call).
Local Notation process_write_loop := (Fsm.process_write_loop D ioS muS hS mu_lock mu_unlock h_call).
Local Notation process_run_loop := (Fsm.process_run_loop D ioS muS hS mu_lock mu_unlock h_call).
Local Notation process_io_write := (Fsm.process_io_write ioS muS hS io_write).
Local Notation unsolicited_process_io_write := (Fsm.unsolicited_process_io_write ioS muS hS io_write).
Local Notation unsolicited_events_service :=
  (Fsm.unsolicited_events_service D ioS muS hS io_write mu_lock mu_unlock h_call).
Local Notation cmd_service :=
  (Fsm.cmd_service D ioS muS hS io_read io_write mu_lock mu_unlock h_call).

(* ------------------------------------------------------------------ *)
(* 0. one callback: exactly one ECall, frame                            *)
(* ------------------------------------------------------------------ *)

(* a bracketed body that calls no handler and keeps hs, io *)
Lemma bracket_frame : forall (body : world -> world * Z) (P : state -> state -> Prop),
  (forall s, P s s) ->
  (forall w, hs (fst (body w)) = hs w /\ io (fst (body w)) = io w /\
             (exists l, tr (fst (body w)) = l ++ tr w /\ calls_of l = []) /\
             P (st w) (st (fst (body w)))) ->
  forall w, hs (fst (bracket w body)) = hs w /\ io (fst (bracket w body)) = io w /\
            (exists l, tr (fst (bracket w body)) = l ++ tr w /\ calls_of l = []) /\
            P (st w) (st (fst (bracket w body))).
Proof.
  intros body P Prefl Hb w. unfold Fsm.bracket.
  destruct (d_mutex D); [|apply Hb].
  destruct (mu_lock (mu w)) as [m1 ok]. destruct ok; cbn [negb].
  - set (w1 := logw (ELock true) (set_mu m1 w)).
    specialize (Hb w1). destruct (body w1) as [w2 s]. cbn [fst] in Hb.
    destruct Hb as (Hh & Hi & (l & Hl & Hc) & HP).
    destruct (mu_unlock (mu w2)) as [m2 ok2].
    assert (G : forall z : Z, hs (fst (logw (EUnlock ok2) (set_mu m2 w2), z)) = hs w /\
                io (fst (logw (EUnlock ok2) (set_mu m2 w2), z)) = io w /\
                (exists l0, tr (fst (logw (EUnlock ok2) (set_mu m2 w2), z)) = l0 ++ tr w /\ calls_of l0 = []) /\
                P (st w) (st (fst (logw (EUnlock ok2) (set_mu m2 w2), z)))).
    { intros z. cbn [fst Fsm.logw Fsm.set_mu Fsm.hs Fsm.io Fsm.tr Fsm.st].
      repeat split; try assumption.
      exists (EUnlock ok2 :: l ++ [ELock true]). split.
      - rewrite Hl. subst w1. cbn [Fsm.logw Fsm.set_mu Fsm.tr]. cbn [app].
        rewrite <- app_assoc. reflexivity.
      - change (EUnlock ok2 :: l ++ [ELock true]) with ([EUnlock ok2] ++ l ++ [ELock true]).
        rewrite !calls_of_app, Hc. reflexivity. }
    destruct ok2; cbn [negb]; apply G.
  - cbn [fst Fsm.logw Fsm.set_mu Fsm.hs Fsm.io Fsm.tr Fsm.st]. repeat split; try apply Prefl.
    exists [ELock false]. split; reflexivity.
Qed.

Lemma apply_icall_frame : forall w c,
  hs (apply_icall w c) = hs w /\ io (apply_icall w c) = io w /\
  (exists l, tr (apply_icall w c) = l ++ tr w /\ calls_of l = []) /\
  kframe (st w) (st (apply_icall w c)).
Proof.
  intros w c. unfold Fsm.apply_icall.
  assert (G : forall w' r,
     (hs w' = hs w /\ io w' = io w /\ (exists l, tr w' = l ++ tr w /\ calls_of l = []) /\
      kframe (st w) (st w')) ->
     hs (logw (EInner c r) w') = hs w /\ io (logw (EInner c r) w') = io w /\
     (exists l, tr (logw (EInner c r) w') = l ++ tr w /\ calls_of l = []) /\
     kframe (st w) (st (logw (EInner c r) w'))).
  { intros w' r (Hh & Hi & (l & Hl & Hc) & HP).
    cbn [Fsm.logw Fsm.hs Fsm.io Fsm.tr Fsm.st]. repeat split; try assumption; try apply HP.
    exists (EInner c r :: l). split; [rewrite Hl; reflexivity|].
    change (EInner c r :: l) with ([EInner c r] ++ l). rewrite calls_of_app, Hc. reflexivity. }
  destruct c as [ci t|status].
  - unfold Fsm.api_trigger.
    match goal with |- context [Fsm.bracket _ _ _ _ _ _ ?ww ?bb] =>
      assert (B := bracket_frame bb kframe kframe_refl) end.
    cbv beta in B.
    assert (Hb : forall w0 : world,
      hs (fst (let (s', r) := push_unsolicited_cmd D (st w0) ci t in (set_st s' w0, r))) = hs w0 /\
      io (fst (let (s', r) := push_unsolicited_cmd D (st w0) ci t in (set_st s' w0, r))) = io w0 /\
      (exists l, tr (fst (let (s', r) := push_unsolicited_cmd D (st w0) ci t in (set_st s' w0, r))) = l ++ tr w0 /\ calls_of l = []) /\
      kframe (st w0) (st (fst (let (s', r) := push_unsolicited_cmd D (st w0) ci t in (set_st s' w0, r))))).
    { intros w0. pose proof (push_kframe D (st w0) ci t) as K.
      destruct (push_unsolicited_cmd D (st w0) ci t) as [s' r]. cbn [fst] in *.
      cbn [Fsm.set_st Fsm.hs Fsm.io Fsm.tr Fsm.st]. repeat split; try apply K.
      exists []. split; reflexivity. }
    specialize (B Hb w).
    destruct (bracket w _) as [w' r]. cbn [fst] in B. apply G. exact B.
  - unfold Fsm.api_hold_exit.
    match goal with |- context [Fsm.bracket _ _ _ _ _ _ ?ww ?bb] =>
      assert (B := bracket_frame bb kframe kframe_refl) end.
    cbv beta in B.
    assert (Hb : forall w0 : world,
      hs (fst (let (s', r) := hold_exit (st w0) status in (set_st s' w0, r))) = hs w0 /\
      io (fst (let (s', r) := hold_exit (st w0) status in (set_st s' w0, r))) = io w0 /\
      (exists l, tr (fst (let (s', r) := hold_exit (st w0) status in (set_st s' w0, r))) = l ++ tr w0 /\ calls_of l = []) /\
      kframe (st w0) (st (fst (let (s', r) := hold_exit (st w0) status in (set_st s' w0, r))))).
    { intros w0. pose proof (hold_exit_kframe (st w0) status) as K.
      destruct (hold_exit (st w0) status) as [s' r]. cbn [fst] in *.
      cbn [Fsm.set_st Fsm.hs Fsm.io Fsm.tr Fsm.st]. repeat split; try apply K.
      exists []. split; reflexivity. }
    specialize (B Hb w).
    destruct (bracket w _) as [w' r]. cbn [fst] in B. apply G. exact B.
Qed.

Lemma icalls_frame : forall cs w,
  hs (fold_left apply_icall cs w) = hs w /\ io (fold_left apply_icall cs w) = io w /\
  (exists l, tr (fold_left apply_icall cs w) = l ++ tr w /\ calls_of l = []) /\
  kframe (st w) (st (fold_left apply_icall cs w)).
Proof.
  induction cs as [|c cs IH]; intros w; cbn [fold_left].
  - repeat split. exists []. split; reflexivity.
  - destruct (apply_icall_frame w c) as (H1 & H2 & (l1 & H3 & H3') & H4).
    destruct (IH (apply_icall w c)) as (G1 & G2 & (l2 & G3 & G3') & G4).
    repeat split; try congruence; try (eapply kframe_trans; eassumption).
    + exists (l2 ++ l1). split.
      * rewrite G3, H3, app_assoc. reflexivity.
      * rewrite calls_of_app, G3', H3'. reflexivity.
Qed.

(* the handler oracle is consulted exactly once per call_h; its result is what call_h returns *)
Lemma call_h_res : forall w q, snd (call_h w q) = snd (h_call (hs w) q).
Proof. intros. unfold Fsm.call_h. destruct (h_call (hs w) q). reflexivity. Qed.

Lemma call_h_hs : forall w q, hs (fst (call_h w q)) = fst (h_call (hs w) q).
Proof.
  intros. unfold Fsm.call_h. destruct (h_call (hs w) q) as [h' r]. cbn [fst].
  match goal with |- hs (fold_left _ ?cs ?w0) = _ =>
    destruct (icalls_frame cs w0) as (H & _) end.
  rewrite H. reflexivity.
Qed.

Lemma call_h_io : forall w q, io (fst (call_h w q)) = io w.
Proof.
  intros. unfold Fsm.call_h. destruct (h_call (hs w) q) as [h' r]. cbn [fst].
  match goal with |- io (fold_left _ ?cs ?w0) = _ =>
    destruct (icalls_frame cs w0) as (_ & H & _) end.
  rewrite H. reflexivity.
Qed.

Theorem C10_call_once : forall w q,
  let w1 := fst (call_h w q) in let r := snd (call_h w q) in
  exists inner, tr w1 = inner ++ ECall q (r_code r) :: tr w /\
                (forall q' c', ~ In (ECall q' c') inner).
Proof.
  intros w q. cbv zeta. unfold Fsm.call_h. destruct (h_call (hs w) q) as [h' r]. cbn [fst snd].
  match goal with |- context [fold_left _ ?cs ?w0] =>
    destruct (icalls_frame cs w0) as (_ & _ & (l & Hl & Hc) & _) end.
  exists l. split.
  - rewrite Hl. reflexivity.
  - apply calls_of_nil_iff. exact Hc.
Qed.

Lemma call_h_calls : forall w q,
  calls_of (tr (fst (call_h w q))) = (q, r_code (snd (call_h w q))) :: calls_of (tr w).
Proof.
  intros. destruct (C10_call_once w q) as (l & Hl & Hn). cbv zeta in Hl. rewrite Hl.
  rewrite calls_of_app. apply calls_of_nil_iff in Hn. rewrite Hn. reflexivity.
Qed.

Lemma call_h_kframe : forall w q, kframe (st w) (st (fst (call_h w q))).
Proof.
  intros. unfold Fsm.call_h. destruct (h_call (hs w) q) as [h' r]. cbn [fst].
  match goal with |- kframe _ (st (fold_left _ ?cs ?w0)) =>
    destruct (icalls_frame cs w0) as (_ & _ & _ & H) end.
  eapply kframe_trans; [|exact H].
  cbn [Fsm.upd_st Fsm.set_st Fsm.logw Fsm.set_hs Fsm.st]. apply pokes_kframe.
Qed.

(* ------------------------------------------------------------------ *)
(* 1. one call of each loop state against the table, for every integer  *)
(* ------------------------------------------------------------------ *)

Theorem C10_write_code : forall w ci,
  k_state (k (st w)) = CS_WRITE_LOOP -> k_cmd (k (st w)) = Some ci ->
  let q := HWrite ci (firstn (S (k_length (k (st w)))) (cbuf (st w)))
                  (k_length (k (st w))) (k_index (k (st w))) in
  let w1 := fst (call_h w q) in let r := snd (call_h w q) in
  exists w', process_write_loop w = (w', ST_BUSY) /\
    hs w' = hs w1 /\ io w' = io w1 /\ mu w' = mu w1 /\ tr w' = tr w1 /\
    st w' = match spec_action K_WRITE ATCMD (r_code r) with
            | A_OK => ack_ok (st w1)
            | A_AGAIN => st w1
            | A_HOLD => enable_hold_state (st w1)
            | _ => ack_error (st w1)
            end.
Proof.
  intros w ci _ Hc. cbv zeta. unfold Fsm.process_write_loop.
  change (g_cmd ATCMD (st w)) with (k_cmd (k (st w))). rewrite Hc.
  destruct (call_h w _) as [w1 r]. cbn [fst snd].
  eexists. split; [reflexivity|].
  cbn [Fsm.busy Fsm.upd_st Fsm.set_st Fsm.hs Fsm.io Fsm.mu Fsm.tr Fsm.st].
  repeat (split; [reflexivity|]).
  unfold spec_action.
  destruct (r_code r =? RC_OK)%Z; cbn [orb]; [reflexivity|].
  destruct (r_code r =? RC_DATA_OK)%Z; [reflexivity|].
  destruct (r_code r =? RC_DATA_NEXT)%Z; cbn [orb]; [rewrite orb_true_r; reflexivity|].
  rewrite orb_false_r.
  destruct (r_code r =? RC_NEXT)%Z; [reflexivity|].
  destruct (r_code r =? RC_HOLD)%Z; reflexivity.
Qed.

Theorem C10_run_code : forall w ci,
  k_state (k (st w)) = CS_RUN_LOOP -> k_cmd (k (st w)) = Some ci ->
  let q := HRun ci in
  let w1 := fst (call_h w q) in let r := snd (call_h w q) in
  exists w', process_run_loop w = (w', ST_BUSY) /\
    hs w' = hs w1 /\ io w' = io w1 /\ mu w' = mu w1 /\ tr w' = tr w1 /\
    st w' = match spec_action K_RUN ATCMD (r_code r) with
            | A_OK => ack_ok (st w1)
            | A_AGAIN => st w1
            | A_HOLD => enable_hold_state (st w1)
            | A_LIST => start_print_cmd_list D (st w1)
            | _ => ack_error (st w1)
            end.
Proof.
  intros w ci _ Hc. cbv zeta. unfold Fsm.process_run_loop.
  change (g_cmd ATCMD (st w)) with (k_cmd (k (st w))). rewrite Hc.
  destruct (call_h w _) as [w1 r]. cbn [fst snd].
  eexists. split; [reflexivity|].
  cbn [Fsm.busy Fsm.upd_st Fsm.set_st Fsm.hs Fsm.io Fsm.mu Fsm.tr Fsm.st].
  repeat (split; [reflexivity|]).
  unfold spec_action.
  destruct (r_code r =? RC_OK)%Z; cbn [orb]; [reflexivity|].
  destruct (r_code r =? RC_DATA_OK)%Z; [reflexivity|].
  destruct (r_code r =? RC_DATA_NEXT)%Z; cbn [orb]; [rewrite orb_true_r; reflexivity|].
  rewrite orb_false_r.
  destruct (r_code r =? RC_NEXT)%Z; [reflexivity|].
  destruct (r_code r =? RC_HOLD)%Z; [reflexivity|].
  destruct (r_code r =? RC_PRINT_CMD_LIST_OK)%Z; reflexivity.
Qed.

(* machine f is in its READ_LOOP (rd = true) / TEST_LOOP (rd = false) *)
Definition in_rt_loop (rd : bool) (f : fsm) (s : state) : Prop :=
  match f with
  | ATCMD => k_state (k s) = (if rd then CS_READ_LOOP else CS_TEST_LOOP)
  | UNSOL => u_state (u s) = (if rd then US_READ_LOOP else US_TEST_LOOP)
  end.

Theorem C10_rt_code : forall (rd : bool) (f : fsm) w ci,
  g_cmd f (st w) = Some ci ->
  in_rt_loop rd f (st w) ->
  let q := (if rd then HRead else HTest) f ci (firstn (S (g_pos f (st w))) (g_buf f (st w)))
             (g_pos f (st w)) (length (g_buf f (st w))) in
  let w1 := fst (call_h w q) in let r := snd (call_h w q) in
  let se := apply_edit f (r_edit r) (st w1) in
  exists w', process_rt_loop rd f w = (w', ST_BUSY) /\
    hs w' = hs w1 /\ io w' = io w1 /\ mu w' = mu w1 /\ tr w' = tr w1 /\
    st w' = match spec_action (if rd then K_READ else K_TEST) f (r_code r) with
            | A_OK => end_with_ok f se
            | A_ERROR => end_with_error f se
            | A_EMIT_OK => start_flush_after f CS_AFTER_OK US_AFTER_OK se
            | A_EMIT_AGAIN =>
                if rd then start_flush_after f CS_AFTER_FMT_READ US_AFTER_FMT_READ se
                else start_flush_after f CS_AFTER_FMT_TEST US_AFTER_FMT_TEST se
            | A_REFORMAT_AGAIN =>
                if rd then start_processing_format_read_args D f se
                else start_processing_format_test_args D f se
            | A_HOLD => enable_hold_state se
            | A_RELEASE_OK => end_with_ok f (fst (hold_exit se ST_OK))
            | A_RELEASE_ERROR => end_with_error f (fst (hold_exit se ST_ERROR))
            | A_LIST => start_print_cmd_list D se
            | A_AGAIN => se
            end.
Proof.
  intros rd f w ci Hc _. cbv zeta. unfold Fsm.process_rt_loop. rewrite Hc.
  change (g_bsz f (st w)) with (length (g_buf f (st w))).
  assert (Hq : (if rd then HRead f ci (firstn (S (g_pos f (st w))) (g_buf f (st w))) (g_pos f (st w)) (length (g_buf f (st w)))
                else HTest f ci (firstn (S (g_pos f (st w))) (g_buf f (st w))) (g_pos f (st w)) (length (g_buf f (st w))))
               = (if rd then HRead else HTest) f ci (firstn (S (g_pos f (st w))) (g_buf f (st w)))
                   (g_pos f (st w)) (length (g_buf f (st w)))) by (destruct rd; reflexivity).
  rewrite Hq. clear Hq.
  destruct (call_h w _) as [w1 r]. cbn [fst snd].
  eexists. split; [reflexivity|].
  cbn [Fsm.busy Fsm.upd_st Fsm.set_st Fsm.hs Fsm.io Fsm.mu Fsm.tr Fsm.st].
  repeat (split; [reflexivity|]).
  assert (Hs : spec_action (if rd then K_READ else K_TEST) f (r_code r) =
     if (r_code r =? RC_OK)%Z then A_OK
     else if (r_code r =? RC_DATA_OK)%Z then A_EMIT_OK
     else if (r_code r =? RC_DATA_NEXT)%Z then A_EMIT_AGAIN
     else if (r_code r =? RC_NEXT)%Z then A_REFORMAT_AGAIN
     else if (r_code r =? RC_HOLD)%Z then A_HOLD
     else if (r_code r =? RC_HOLD_EXIT_OK)%Z then A_RELEASE_OK
     else if (r_code r =? RC_HOLD_EXIT_ERROR)%Z then A_RELEASE_ERROR
     else if (r_code r =? RC_PRINT_CMD_LIST_OK)%Z then
       match (if rd then K_READ else K_TEST), f with
       | K_TEST, ATCMD => A_LIST | K_TEST, UNSOL => A_OK | _, _ => A_ERROR end
     else A_ERROR) by (destruct rd; reflexivity).
  rewrite Hs. clear Hs.
  destruct (r_code r =? RC_OK)%Z; [reflexivity|].
  destruct (r_code r =? RC_DATA_OK)%Z; [reflexivity|].
  destruct (r_code r =? RC_DATA_NEXT)%Z; [reflexivity|].
  destruct (r_code r =? RC_NEXT)%Z; [reflexivity|].
  destruct (r_code r =? RC_HOLD)%Z; [reflexivity|].
  destruct (r_code r =? RC_HOLD_EXIT_OK)%Z; [reflexivity|].
  destruct (r_code r =? RC_HOLD_EXIT_ERROR)%Z; [reflexivity|].
  destruct (r_code r =? RC_PRINT_CMD_LIST_OK)%Z; cbn [andb]; [|reflexivity].
  destruct rd, f; reflexivity.
Qed.

(* ------------------------------------------------------------------ *)
(* 2. continuations after an emission                                   *)
(* ------------------------------------------------------------------ *)

Theorem C10_continuation_c : forall w,
  (k_state (k (st w)) = CS_AFTER_OK -> cmd_service w = (upd_st ack_ok w, ST_BUSY)) /\
  (k_state (k (st w)) = CS_AFTER_FMT_READ ->
     cmd_service w = (upd_st (start_processing_format_read_args D ATCMD) w, ST_BUSY)) /\
  (k_state (k (st w)) = CS_AFTER_FMT_TEST ->
     cmd_service w = (upd_st (start_processing_format_test_args D ATCMD) w, ST_BUSY)).
Proof.
  intros w. repeat split; intros H; unfold Fsm.cmd_service; rewrite H; reflexivity.
Qed.

Theorem C10_continuation_u : forall w,
  (u_state (u (st w)) = US_AFTER_OK ->
     unsolicited_events_service w = (upd_st unsolicited_reset_state w, ST_BUSY)) /\
  (u_state (u (st w)) = US_AFTER_RESET ->
     unsolicited_events_service w = (upd_st unsolicited_reset_state w, ST_BUSY)) /\
  (u_state (u (st w)) = US_AFTER_FMT_READ ->
     unsolicited_events_service w = (upd_st (start_processing_format_read_args D UNSOL) w, ST_BUSY)) /\
  (u_state (u (st w)) = US_AFTER_FMT_TEST ->
     unsolicited_events_service w = (upd_st (start_processing_format_test_args D UNSOL) w, ST_BUSY)).
Proof.
  intros w. repeat split; intros H; unfold Fsm.unsolicited_events_service; rewrite H; reflexivity.
Qed.

(* -- the freshly formatted buffer starts with "<name>=" at offset 0 -- *)

Lemma upd_split : forall (l : list N) i v, i < length l ->
  upd l i v = firstn i l ++ v :: skipn (S i) l.
Proof.
  induction l as [|x l IH]; intros i v Hi; cbn [length] in Hi; [lia|].
  destruct i; cbn [upd firstn skipn app]; [reflexivity|].
  rewrite IH by lia. reflexivity.
Qed.

Lemma upd_length : forall (l : list N) i v, length (upd l i v) = length l.
Proof.
  induction l as [|x l IH]; intros i v; [reflexivity|].
  destruct i; cbn [upd length]; [reflexivity|]. rewrite IH. reflexivity.
Qed.

Lemma skipn_app_2 : forall (a b : list N) n, skipn (length a + n) (a ++ b) = skipn n b.
Proof. induction a as [|x a IH]; intros; cbn [length app Nat.add skipn]; [reflexivity|apply IH]. Qed.

Lemma skipn_skipn' : forall (l : list N) x y, skipn x (skipn y l) = skipn (x + y) l.
Proof.
  induction l as [|z l IH]; intros x y.
  - rewrite !skipn_nil. reflexivity.
  - destruct y.
    + rewrite Nat.add_0_r. reflexivity.
    + rewrite Nat.add_succ_r. cbn [skipn]. apply IH.
Qed.

Lemma cur_store_list_fits : forall l c i, i + length l <= length (cu_buf c) ->
  cur_store_list c i l =
  mkCur (firstn i (cu_buf c) ++ l ++ skipn (i + length l) (cu_buf c)) (cu_pos c) (cu_fault c).
Proof.
  induction l as [|x l IH]; intros c i Hi; cbn [cur_store_list length app] in *.
  - rewrite Nat.add_0_r, firstn_skipn. destruct c; reflexivity.
  - unfold cur_store at 1.
    destruct (i <? length (cu_buf c)) eqn:E; [|apply Nat.ltb_ge in E; lia].
    apply Nat.ltb_lt in E.
    rewrite IH; cbn [cu_buf cu_pos cu_fault]; [|rewrite upd_length; lia].
    f_equal.
    rewrite upd_split by exact E.
    assert (La : length (firstn i (cu_buf c)) = i) by (rewrite firstn_length; lia).
    set (a := firstn i (cu_buf c)) in *.
    replace (S i) with (length a + 1) at 1 by lia.
    rewrite firstn_app_2. cbn [firstn]. rewrite <- app_assoc. cbn [app].
    f_equal. f_equal. f_equal.
    replace (S i + length l) with (length a + S (length l)) by lia.
    rewrite skipn_app_2.
    change (skipn (S (length l)) (x :: skipn (S i) (cu_buf c)))
      with (skipn (length l) (skipn (S i) (cu_buf c))).
    rewrite skipn_skipn'. f_equal. lia.
Qed.

Lemma g_buf_setg : forall f b p s, g_buf f (setg_pos f p (setg_buf f b s)) = b.
Proof. destruct f; reflexivity. Qed.
Lemma g_pos_setg : forall f b p s, g_pos f (setg_pos f p (setg_buf f b s)) = p.
Proof. destruct f; reflexivity. Qed.
Lemma setg_setg : forall f b p b' p' s,
  setg_pos f p' (setg_buf f b' (setg_pos f p (setg_buf f b s))) = setg_pos f p' (setg_buf f b' s).
Proof. destruct f; reflexivity. Qed.

(* print_string when the text fits: the text goes to the current position, a NUL follows,
   the position advances; nothing else changes *)
Lemma print_string_fits : forall f s t, g_pos f s + length t < g_bsz f s ->
  print_string f s t =
  (setg_pos f (g_pos f s + length t)
     (setg_buf f (firstn (g_pos f s) (g_buf f s) ++ t ++ 0%N ::
                  skipn (g_pos f s + length t + 1) (g_buf f s)) s), true).
Proof.
  intros f s t H. unfold g_bsz in H. unfold print_string, print_nstring, get_cur.
  cbn [cu_buf cu_pos].
  destruct (length (g_buf f s) <? g_pos f s) eqn:E1; [apply Nat.ltb_lt in E1; lia|].
  destruct (length (g_buf f s) - g_pos f s <=? length t) eqn:E2; [apply Nat.leb_le in E2; lia|].
  rewrite cur_store_list_fits by (cbn [cu_buf]; lia).
  unfold cur_store, cur_set_pos. cbn [cu_buf cu_pos cu_fault].
  assert (L : length (firstn (g_pos f s) (g_buf f s) ++ t ++
                      skipn (g_pos f s + length t) (g_buf f s)) = length (g_buf f s)).
  { rewrite !app_length, firstn_length, skipn_length. lia. }
  rewrite L.
  destruct (g_pos f s + length t <? length (g_buf f s)) eqn:E3; [|apply Nat.ltb_ge in E3; lia].
  unfold put_cur. cbn [cu_buf cu_pos cu_fault].
  f_equal. f_equal. f_equal.
  rewrite upd_split by (rewrite L; lia).
  rewrite app_assoc.
  rewrite firstn_app.
  assert (L2 : length (firstn (g_pos f s) (g_buf f s) ++ t) = g_pos f s + length t).
  { rewrite app_length, firstn_length. lia. }
  rewrite L2, Nat.sub_diag. cbn [firstn]. rewrite app_nil_r.
  rewrite firstn_all2 by lia.
  rewrite <- app_assoc. f_equal. f_equal. f_equal.
  rewrite skipn_app, L2.
  rewrite skipn_all2 by lia. cbn [app].
  replace (S (g_pos f s + length t) - (g_pos f s + length t)) with 1 by lia.
  rewrite skipn_skipn'. f_equal. lia.
Qed.

Lemma text_of_app_nz : forall l r, (forall x, In x l -> x <> 0%N) -> text_of (l ++ 0%N :: r) = l.
Proof.
  induction l as [|y l IH]; intros r H; cbn [app text_of].
  - reflexivity.
  - destruct (y =? 0)%N eqn:E.
    + apply N.eqb_eq in E. exfalso. apply (H y); [left; reflexivity|exact E].
    + f_equal. apply IH. intros x Hx. apply H. right. exact Hx.
Qed.

(* the buffer after "<name>=" has been printed into a buffer `b` from offset 0 *)
Definition header_buf (name : list N) (b : list N) : list N :=
  name ++ ch_EQ :: 0%N :: skipn (length name + 2) b.

Lemma header_buf_props : forall name b, length name + 1 < length b ->
  length (header_buf name b) = length b /\
  firstn (length name + 1) (header_buf name b) = name ++ [ch_EQ] /\
  nth_error (header_buf name b) (length name + 1) = Some 0%N /\
  ((forall x, In x name -> x <> 0%N) -> text_of (header_buf name b) = name ++ [ch_EQ]).
Proof.
  intros name b H. unfold header_buf. repeat split.
  - rewrite app_length. cbn [length]. rewrite skipn_length. lia.
  - change (name ++ ch_EQ :: 0%N :: skipn (length name + 2) b)
      with (name ++ [ch_EQ] ++ 0%N :: skipn (length name + 2) b).
    rewrite app_assoc. rewrite firstn_app.
    rewrite app_length. cbn [length]. rewrite Nat.sub_diag. cbn [firstn]. rewrite app_nil_r.
    apply firstn_all2. rewrite app_length. cbn [length]. lia.
  - change (name ++ ch_EQ :: 0%N :: skipn (length name + 2) b)
      with (name ++ [ch_EQ] ++ 0%N :: skipn (length name + 2) b).
    rewrite app_assoc. rewrite nth_error_app2 by (rewrite app_length; cbn [length]; lia).
    rewrite app_length. cbn [length]. rewrite Nat.sub_diag. reflexivity.
  - intros Hnz.
    change (name ++ ch_EQ :: 0%N :: skipn (length name + 2) b)
      with (name ++ [ch_EQ] ++ 0%N :: skipn (length name + 2) b).
    rewrite app_assoc. apply text_of_app_nz.
    intros x Hx. apply in_app_or in Hx. destruct Hx as [Hx|[Hx|[]]].
    + apply Hnz. exact Hx.
    + subst x. discriminate.
Qed.

Lemma header_printed : forall f s (c : cmd), length (c_name c) + 1 < g_bsz f s ->
  let s0 := setg_pos f 0 s in
  exists s1, print_string f s0 (c_name c) = (s1, true) /\
    print_string f s1 [ch_EQ] =
      (setg_pos f (length (c_name c) + 1) (setg_buf f (header_buf (c_name c) (g_buf f s)) s), true).
Proof.
  intros f s c H. cbv zeta.
  assert (P0 : g_pos f (setg_pos f 0 s) = 0) by (destruct f; reflexivity).
  assert (B0 : g_buf f (setg_pos f 0 s) = g_buf f s) by (destruct f; reflexivity).
  eexists. split.
  - rewrite print_string_fits; [reflexivity|].
    unfold g_bsz in *. rewrite P0, B0. lia.
  - rewrite P0, B0. cbn [firstn app Nat.add].
    assert (E : setg_pos f (length (c_name c))
                  (setg_buf f (c_name c ++ 0%N :: skipn (length (c_name c) + 1) (g_buf f s))
                     (setg_pos f 0 s))
              = setg_pos f (length (c_name c))
                  (setg_buf f (c_name c ++ 0%N :: skipn (length (c_name c) + 1) (g_buf f s)) s))
      by (destruct f; reflexivity).
    rewrite E.
    rewrite print_string_fits.
    + rewrite g_buf_setg, g_pos_setg, setg_setg. cbn [length].
      f_equal. f_equal. f_equal. unfold header_buf.
      rewrite firstn_app, Nat.sub_diag. cbn [firstn]. rewrite app_nil_r.
      rewrite firstn_all. cbn [app]. f_equal. f_equal. f_equal.
      rewrite skipn_app.
      rewrite skipn_all2 by lia. cbn [app].
      replace (length (c_name c) + 1 + 1 - length (c_name c)) with 2 by lia.
      cbn [skipn].
      assert (L : length (c_name c) + 1 <= length (g_buf f s)) by (unfold g_bsz in H; lia).
      destruct (skipn (length (c_name c) + 1) (g_buf f s)) as [|z rest] eqn:Es.
      { apply (f_equal (@length N)) in Es. rewrite skipn_length in Es. cbn [length] in Es.
        unfold g_bsz in H. lia. }
      replace (length (c_name c) + 2) with (1 + (length (c_name c) + 1)) by lia.
      rewrite <- skipn_skipn', Es. reflexivity.
    + unfold g_bsz. rewrite g_buf_setg, g_pos_setg. cbn [length].
      rewrite app_length. cbn [length]. rewrite skipn_length. unfold g_bsz in H. lia.
Qed.

Theorem C10_reformat_read_fresh : forall f s ci c,
  g_cmd f s = Some ci -> cmd_at D ci = Some c -> length (c_name c) + 1 < g_bsz f s ->
  exists B, length B = g_bsz f s /\
    firstn (length (c_name c) + 1) B = c_name c ++ [ch_EQ] /\
    nth_error B (length (c_name c) + 1) = Some 0%N /\
    ((forall x, In x (c_name c) -> x <> 0%N) -> text_of B = c_name c ++ [ch_EQ]) /\
    let s2 := setg_pos f (length (c_name c) + 1) (setg_buf f B s) in
    start_processing_format_read_args D f s =
      if vars_access_possible c RO then
        match f with
        | ATCMD => s2 |> setk_state CS_FORMAT_READ_ARGS |> setk_index 0 |> setk_var 0
        | UNSOL => s2 |> setu_state US_FORMAT_READ_ARGS |> setu_index 0 |> setu_var 0
        end
      else if negb (c_hread c) then end_with_error f s2
      else set_loop_state f true s2.
Proof.
  intros f s ci c Hc Hat Hfit.
  exists (header_buf (c_name c) (g_buf f s)).
  destruct (header_buf_props (c_name c) (g_buf f s) Hfit) as (P1 & P2 & P3 & P4).
  repeat (split; [assumption|]).
  cbv zeta. unfold start_processing_format_read_args.
  assert (Hco : cmd_of D f (setg_pos f 0 s) = Some c).
  { unfold cmd_of. replace (g_cmd f (setg_pos f 0 s)) with (g_cmd f s) by (destruct f; reflexivity).
    rewrite Hc. exact Hat. }
  rewrite Hco.
  destruct (header_printed f s c Hfit) as (s1 & E1 & E2). cbv zeta in E1.
  rewrite E1. cbn [negb]. rewrite E2. cbn [negb]. reflexivity.
Qed.

Theorem C10_reformat_test_fresh : forall f s ci c,
  g_cmd f s = Some ci -> cmd_at D ci = Some c -> length (c_name c) + 1 < g_bsz f s ->
  exists B, length B = g_bsz f s /\
    firstn (length (c_name c) + 1) B = c_name c ++ [ch_EQ] /\
    nth_error B (length (c_name c) + 1) = Some 0%N /\
    ((forall x, In x (c_name c) -> x <> 0%N) -> text_of B = c_name c ++ [ch_EQ]) /\
    let s2 := setg_pos f (length (c_name c) + 1) (setg_buf f B s) in
    start_processing_format_test_args D f s =
      match c_vars c with
      | _ :: _ =>
        match f with
        | ATCMD => s2 |> setk_state CS_FORMAT_TEST_ARGS |> setk_index 0 |> setk_var 0
        | UNSOL => s2 |> setu_state US_FORMAT_TEST_ARGS |> setu_index 0 |> setu_var 0
        end
      | [] => let (s3, ok3) := print_response_test D f s2 in
              if ok3 then s3 else end_with_error f s3
      end.
Proof.
  intros f s ci c Hc Hat Hfit.
  exists (header_buf (c_name c) (g_buf f s)).
  destruct (header_buf_props (c_name c) (g_buf f s) Hfit) as (P1 & P2 & P3 & P4).
  repeat (split; [assumption|]).
  cbv zeta. unfold start_processing_format_test_args.
  assert (Hco : cmd_of D f (setg_pos f 0 s) = Some c).
  { unfold cmd_of. replace (g_cmd f (setg_pos f 0 s)) with (g_cmd f s) by (destruct f; reflexivity).
    rewrite Hc. exact Hat. }
  rewrite Hco.
  destruct (header_printed f s c Hfit) as (s1 & E1 & E2). cbv zeta in E1.
  rewrite E1. cbn [negb]. rewrite E2. cbn [negb]. reflexivity.
Qed.

(* ------------------------------------------------------------------ *)
(* 3. an emission is one unit of the buffer as the handler left it      *)
(* ------------------------------------------------------------------ *)

Theorem C10_start_flush_c : forall after s,
  let s' := start_flush_c after s in
  cbuf s' = cbuf s /\ ubuf s' = ubuf s /\ u s' = u s /\
  k_position (k s') = 0 /\ k_wstate (k s') = WS_BEFORE /\ k_wbuf (k s') = WB_NL (k_cr (k s)) /\
  k_wafter (k s') = after /\ k_state (k s') = CS_FLUSH_WAIT /\ k_cr (k s') = k_cr (k s).
Proof. intros. repeat split. Qed.

Theorem C10_start_flush_u : forall after s,
  let s' := start_flush_u after s in
  cbuf s' = cbuf s /\ ubuf s' = ubuf s /\ k s' = k s /\
  u_position (u s') = 0 /\ u_wstate (u s') = WS_BEFORE /\ u_wbuf (u s') = WB_NL (k_cr (k s)) /\
  u_wafter (u s') = after /\ u_state (u s') = US_FLUSH_WAIT.
Proof. intros. repeat split. Qed.

(* while the command machine flushes (FLUSH_WAIT, FLUSH) its step changes neither buffer, keeps
   the continuation, and leaves the flush only towards the continuation state *)
Theorem C10_flush_keeps_buffer_c : forall w,
  k_state (k (st w)) = CS_FLUSH_WAIT \/ k_state (k (st w)) = CS_FLUSH ->
  let w' := fst (cmd_service w) in
  cbuf (st w') = cbuf (st w) /\ ubuf (st w') = ubuf (st w) /\
  k_wafter (k (st w')) = k_wafter (k (st w)) /\
  (k_state (k (st w')) = CS_FLUSH_WAIT \/ k_state (k (st w')) = CS_FLUSH \/
   k_state (k (st w')) = k_wafter (k (st w))).
Proof.
  intros w [H|H]; cbv zeta; unfold Fsm.cmd_service; rewrite H.
  - cbn [fst Fsm.busy Fsm.upd_st Fsm.set_st Fsm.st]. unfold process_io_write_wait.
    destruct (negb (ustate_beq (u_state (u (st w))) US_FLUSH)); repeat split; auto.
  - unfold Fsm.process_io_write.
    destruct (wbuf_char (k_wbuf (k (st w))) (cbuf (st w)) (k_position (k (st w)))) as [ch|].
    + destruct (ch =? 0)%N.
      * cbn [fst Fsm.busy Fsm.upd_st Fsm.set_st Fsm.st].
        destruct (k_wstate (k (st w))); [repeat split; auto ..|].
        destruct (cstate_beq (k_wafter (k (st w))) CS_AFTER_RESET); repeat split; auto.
      * destruct (io_write (io w) ch) as [io' ok].
        destruct ok; cbn [fst Fsm.busy Fsm.upd_st Fsm.set_st Fsm.st Fsm.logw Fsm.set_io];
          repeat split; auto.
    + cbn [fst Fsm.busy Fsm.upd_st Fsm.set_st Fsm.st]. repeat split; auto.
Qed.

Theorem C10_flush_keeps_buffer_u : forall w,
  u_state (u (st w)) = US_FLUSH_WAIT \/ u_state (u (st w)) = US_FLUSH ->
  let w' := fst (unsolicited_events_service w) in
  cbuf (st w') = cbuf (st w) /\ ubuf (st w') = ubuf (st w) /\
  u_wafter (u (st w')) = u_wafter (u (st w)) /\
  (u_state (u (st w')) = US_FLUSH_WAIT \/ u_state (u (st w')) = US_FLUSH \/
   u_state (u (st w')) = u_wafter (u (st w))).
Proof.
  intros w [H|H]; cbv zeta; unfold Fsm.unsolicited_events_service; rewrite H.
  - cbn [fst Fsm.busy Fsm.upd_st Fsm.set_st Fsm.st]. unfold unsolicited_process_io_write_wait.
    destruct (negb (cstate_beq (k_state (k (st w))) CS_FLUSH)); repeat split; auto.
  - unfold Fsm.unsolicited_process_io_write.
    destruct (wbuf_char (u_wbuf (u (st w))) (ubuf (st w)) (u_position (u (st w)))) as [ch|].
    + destruct (ch =? 0)%N.
      * cbn [fst Fsm.busy Fsm.upd_st Fsm.set_st Fsm.st].
        destruct (u_wstate (u (st w))); repeat split; auto.
      * destruct (io_write (io w) ch) as [io' ok].
        destruct ok; cbn [fst Fsm.busy Fsm.upd_st Fsm.set_st Fsm.st Fsm.logw Fsm.set_io];
          repeat split; auto.
    + cbn [fst Fsm.busy Fsm.upd_st Fsm.set_st Fsm.st]. repeat split; auto.
Qed.

(* the two named functions, separately *)
Theorem C10_io_write_keeps_cbuf : forall w s,
  cbuf (process_io_write_wait s) = cbuf s /\
  cbuf (st (fst (process_io_write w))) = cbuf (st w) /\
  ubuf (unsolicited_process_io_write_wait s) = ubuf s /\
  ubuf (st (fst (unsolicited_process_io_write w))) = ubuf (st w).
Proof.
  intros w s. repeat split.
  - unfold process_io_write_wait. destruct (negb _); reflexivity.
  - unfold Fsm.process_io_write.
    destruct (wbuf_char _ _ _) as [ch|]; [|reflexivity].
    destruct (ch =? 0)%N.
    + cbn [fst Fsm.busy Fsm.upd_st Fsm.set_st Fsm.st].
      destruct (k_wstate (k (st w))); try reflexivity.
      destruct (cstate_beq _ _); reflexivity.
    + destruct (io_write (io w) ch) as [io' ok]. destruct ok; reflexivity.
  - unfold unsolicited_process_io_write_wait. destruct (negb _); reflexivity.
  - unfold Fsm.unsolicited_process_io_write.
    destruct (wbuf_char _ _ _) as [ch|]; [|reflexivity].
    destruct (ch =? 0)%N.
    + cbn [fst Fsm.busy Fsm.upd_st Fsm.set_st Fsm.st].
      destruct (u_wstate (u (st w))); reflexivity.
    + destruct (io_write (io w) ch) as [io' ok]. destruct ok; reflexivity.
Qed.

(* ------------------------------------------------------------------ *)
(* 4. variable callbacks                                                *)
(* ------------------------------------------------------------------ *)

Theorem C10_var_read_fails : forall f w ci c v,
  g_cmd f (st w) = Some ci -> cmd_at D ci = Some c ->
  nth_error (c_vars c) (g_var f (st w)) = Some v -> v_hread v = true ->
  let q := VRead f ci (g_var f (st w)) in
  let w1 := fst (call_h w q) in let r := snd (call_h w q) in
  r_code r <> 0%Z ->
  exists w', format_read_args f w = (w', ST_BUSY) /\
    st w' = end_with_error f (st w1) /\
    hs w' = hs w1 /\ io w' = io w1 /\ mu w' = mu w1 /\ tr w' = tr w1 /\
    (* the only handler call of this step is the variable's read callback *)
    calls_of (tr w') = (q, r_code r) :: calls_of (tr w).
Proof.
  intros f w ci c v Hc Hat Hv Hr. cbv zeta. intros Hcode.
  unfold Fsm.format_read_args. unfold cmd_of. rewrite Hc, Hat, Hv, Hr.
  pose proof (call_h_calls w (VRead f ci (g_var f (st w)))) as Hcalls.
  destruct (call_h w _) as [w1 r]. cbn [fst snd] in *.
  destruct (r_code r =? 0)%Z eqn:E; [apply Z.eqb_eq in E; contradiction|].
  cbn [negb]. eexists. split; [reflexivity|].
  cbn [Fsm.upd_st Fsm.set_st Fsm.hs Fsm.io Fsm.mu Fsm.tr Fsm.st].
  repeat (split; [reflexivity|]). exact Hcalls.
Qed.

Lemma upd_nth_same : forall (A : Type) (l : list A) i v, i < length l -> nth_error (upd l i v) i = Some v.
Proof.
  induction l as [|x l IH]; intros i v H; cbn [length] in H; [lia|].
  destruct i; cbn [upd nth_error]; [reflexivity|]. apply IH. lia.
Qed.

Theorem C10_var_write_fails : forall w ci c v data comma data' wsz n,
  k_cmd (k (st w)) = Some ci -> cmd_at D ci = Some c ->
  nth_error (c_vars c) (k_var (k (st w))) = Some v ->
  nth_error (mem (st w)) (v_slot v) = Some data ->
  decode_var v (skipn (k_position (k (st w))) (cbuf (st w))) data = (SOk comma, data', wsz, n) ->
  v_hwrite v = true ->
  (* the decoded value is stored first ... *)
  let s2 := st w |> setk_position (k_position (k (st w)) + n)
                 |> set_mem (upd (mem (st w)) (v_slot v) data')
                 |> setk_write_size wsz in
  (* ... then the callback sees it *)
  let q := VWrite ci (k_var (k (st w))) wsz data' in
  let w1 := fst (call_h (set_st s2 w) q) in let r := snd (call_h (set_st s2 w) q) in
  r_code r <> 0%Z ->
  nth_error (mem s2) (v_slot v) = Some data' /\
  exists w', parse_write_args w = (w', ST_BUSY) /\
    st w' = ack_error (st w1) /\
    hs w' = hs w1 /\ io w' = io w1 /\ mu w' = mu w1 /\ tr w' = tr w1 /\
    calls_of (tr w') = (q, r_code r) :: calls_of (tr w).
Proof.
  intros w ci c v data comma data' wsz n Hc Hat Hv Hm Hd Hw. cbv zeta. intros Hcode. split.
  - cbn [mem setk_write_size setk_position set_mem set_k].
    rewrite upd_nth_same; [reflexivity|].
    apply nth_error_Some. rewrite Hm. discriminate.
  - unfold Fsm.parse_write_args. unfold cmd_of.
    change (g_cmd ATCMD (st w)) with (k_cmd (k (st w))). rewrite Hc, Hat, Hv, Hm, Hd, Hw.
    match goal with |- context [call_h ?ww ?qq] =>
      pose proof (call_h_calls ww qq) as Hcalls; destruct (call_h ww qq) as [w1 r] end.
    cbn [fst snd] in *.
    destruct (r_code r =? 0)%Z eqn:E; [apply Z.eqb_eq in E; contradiction|].
    cbn [negb]. eexists. split; [reflexivity|].
    cbn [Fsm.upd_st Fsm.set_st Fsm.hs Fsm.io Fsm.mu Fsm.tr Fsm.st].
    repeat (split; [reflexivity|]). exact Hcalls.
Qed.

(* ------------------------------------------------------------------ *)
(* 5. sequences of any length for the handlers that own no buffer       *)
(* ------------------------------------------------------------------ *)

(* one service step of the command machine *)
Definition cstep (w : world) : world := fst (cmd_service w).

(* the handler oracle, asked q repeatedly from handler-state h, answers rs in this order *)
Fixpoint h_returns (h : hS) (q : hreq) (rs : list hres) : Prop :=
  match rs with
  | [] => True
  | r :: rs' => snd (h_call h q) = r /\ h_returns (fst (h_call h q)) q rs'
  end.

(* the same, whatever the arguments of the requests are, as long as they satisfy P *)
Fixpoint h_returns_any (P : hreq -> Prop) (h : hS) (rs : list hres) : Prop :=
  match rs with
  | [] => True
  | r :: rs' => forall q, P q -> snd (h_call h q) = r /\ h_returns_any P (fst (h_call h q)) rs'
  end.

Lemma h_returns_any_one : forall (P : hreq -> Prop) q rs h, P q -> h_returns_any P h rs -> h_returns h q rs.
Proof.
  intros P q. induction rs as [|r rs IH]; intros h HP H; cbn [h_returns h_returns_any] in *; [exact I|].
  destruct (H q HP) as [H1 H2]. split; [exact H1|]. apply IH; assumption.
Qed.

Section Loop.
Variable L : cstate.
Variable ci : nat.
Variable qof : state -> hreq.
Variable disp : Z -> state -> state.
Variable kd : hkind.
Hypothesis Hq : forall s s', kframe s s' -> qof s' = qof s.
Hypothesis Hstep : forall w, k_state (k (st w)) = L -> k_cmd (k (st w)) = Some ci ->
  cmd_service w = (upd_st (disp (r_code (snd (call_h w (qof (st w))))))
                          (fst (call_h w (qof (st w)))), ST_BUSY).
Hypothesis Hagain : forall code s, terminal (spec_action kd ATCMD code) = false -> disp code s = s.
Hypothesis Hterm : forall code s, terminal (spec_action kd ATCMD code) = true ->
  k_state (k (disp code s)) <> L.

Lemma loop_sequence : forall rs rn w,
  k_state (k (st w)) = L -> k_cmd (k (st w)) = Some ci ->
  h_returns (hs w) (qof (st w)) (rs ++ [rn]) ->
  (forall r, In r rs -> terminal (spec_action kd ATCMD (r_code r)) = false) ->
  terminal (spec_action kd ATCMD (r_code rn)) = true ->
  (forall m, m <= length rs ->
     k_state (k (st (iter m cstep w))) = L /\
     k_cmd (k (st (iter m cstep w))) = Some ci /\
     qof (st (iter m cstep w)) = qof (st w) /\
     calls_of (tr (iter m cstep w)) =
       rev (map (fun r => (qof (st w), r_code r)) (firstn m rs)) ++ calls_of (tr w)) /\
  snd (call_h (iter (length rs) cstep w) (qof (st w))) = rn /\
  st (iter (S (length rs)) cstep w) =
    disp (r_code rn) (st (fst (call_h (iter (length rs) cstep w) (qof (st w))))) /\
  k_state (k (st (iter (S (length rs)) cstep w))) <> L /\
  calls_of (tr (iter (S (length rs)) cstep w)) =
    rev (map (fun r => (qof (st w), r_code r)) (rs ++ [rn])) ++ calls_of (tr w).
Proof.
  induction rs as [|r rs IH]; intros rn w HL Hc Hret Hnt Ht.
  - cbn [app h_returns] in Hret. destruct Hret as [Hr _].
    cbn [length iter].
    assert (Hsnd : snd (call_h w (qof (st w))) = rn) by (rewrite call_h_res; exact Hr).
    split; [|split; [|split; [|split]]].
    + intros m Hm. assert (m = 0) by lia. subst m. cbn [iter firstn map rev app]. auto.
    + exact Hsnd.
    + unfold cstep. rewrite (Hstep w HL Hc). cbn [fst Fsm.upd_st Fsm.set_st Fsm.st].
      rewrite Hsnd. reflexivity.
    + unfold cstep. rewrite (Hstep w HL Hc). cbn [fst Fsm.upd_st Fsm.set_st Fsm.st].
      rewrite Hsnd. apply Hterm. exact Ht.
    + unfold cstep. rewrite (Hstep w HL Hc). cbn [fst Fsm.upd_st Fsm.set_st Fsm.tr].
      rewrite call_h_calls, Hsnd. reflexivity.
  - cbn [app h_returns] in Hret. destruct Hret as [Hr Hret].
    assert (Hsnd : snd (call_h w (qof (st w))) = r) by (rewrite call_h_res; exact Hr).
    assert (Hnr : terminal (spec_action kd ATCMD (r_code r)) = false)
      by (apply Hnt; left; reflexivity).
    set (w' := cstep w).
    assert (Hst : st w' = st (fst (call_h w (qof (st w))))).
    { unfold w', cstep. rewrite (Hstep w HL Hc). cbn [fst Fsm.upd_st Fsm.set_st Fsm.st].
      rewrite Hsnd. apply Hagain. exact Hnr. }
    assert (Hhs : hs w' = fst (h_call (hs w) (qof (st w)))).
    { unfold w', cstep. rewrite (Hstep w HL Hc). cbn [fst Fsm.upd_st Fsm.set_st Fsm.hs].
      apply call_h_hs. }
    assert (Htr : calls_of (tr w') = (qof (st w), r_code r) :: calls_of (tr w)).
    { unfold w', cstep. rewrite (Hstep w HL Hc). cbn [fst Fsm.upd_st Fsm.set_st Fsm.tr].
      rewrite call_h_calls, Hsnd. reflexivity. }
    pose proof (call_h_kframe w (qof (st w))) as Hk. rewrite <- Hst in Hk.
    assert (HL' : k_state (k (st w')) = L) by (rewrite (kframe_k_state _ _ Hk); exact HL).
    assert (Hc' : k_cmd (k (st w')) = Some ci) by (rewrite (kframe_k_cmd _ _ Hk); exact Hc).
    assert (Hq' : qof (st w') = qof (st w)) by (apply Hq; exact Hk).
    assert (Hret' : h_returns (hs w') (qof (st w')) (rs ++ [rn])) by (rewrite Hhs, Hq'; exact Hret).
    assert (Hnt' : forall r0, In r0 rs -> terminal (spec_action kd ATCMD (r_code r0)) = false)
      by (intros r0 Hin; apply Hnt; right; exact Hin).
    destruct (IH rn w' HL' Hc' Hret' Hnt' Ht) as (I1 & I2 & I3 & I4 & I5).
    rewrite Hq' in *.
    cbn [length]. split; [|split; [|split; [|split]]].
    + intros m Hm. destruct m as [|m].
      * cbn [iter firstn map rev app]. auto.
      * cbn [iter]. fold w'. destruct (I1 m ltac:(lia)) as (J1 & J2 & J3 & J4).
        repeat split; try assumption.
        rewrite J4, Htr. cbn [firstn map rev]. rewrite <- app_assoc. reflexivity.
    + cbn [iter]. fold w'. exact I2.
    + change (iter (S (S (length rs))) cstep w) with (iter (S (length rs)) cstep w').
      change (iter (S (length rs)) cstep w) with (iter (length rs) cstep w'). exact I3.
    + change (iter (S (S (length rs))) cstep w) with (iter (S (length rs)) cstep w'). exact I4.
    + change (iter (S (S (length rs))) cstep w) with (iter (S (length rs)) cstep w').
      rewrite I5, Htr. cbn [app map rev]. rewrite <- !app_assoc. reflexivity.
Qed.
End Loop.

Definition disp_w (code : Z) (s : state) : state :=
  if (code =? RC_OK)%Z || (code =? RC_DATA_OK)%Z then ack_ok s
  else if (code =? RC_DATA_NEXT)%Z || (code =? RC_NEXT)%Z then s
  else if (code =? RC_HOLD)%Z then enable_hold_state s
  else ack_error s.
Definition disp_r (code : Z) (s : state) : state :=
  if (code =? RC_OK)%Z || (code =? RC_DATA_OK)%Z then ack_ok s
  else if (code =? RC_DATA_NEXT)%Z || (code =? RC_NEXT)%Z then s
  else if (code =? RC_HOLD)%Z then enable_hold_state s
  else if (code =? RC_PRINT_CMD_LIST_OK)%Z then start_print_cmd_list D s
  else ack_error s.

Lemma disp_w_table : forall code s,
  disp_w code s = match spec_action K_WRITE ATCMD code with
                  | A_OK => ack_ok s | A_AGAIN => s | A_HOLD => enable_hold_state s
                  | _ => ack_error s end.
Proof.
  intros. unfold disp_w, spec_action.
  destruct (code =? RC_OK)%Z; cbn [orb]; [reflexivity|].
  destruct (code =? RC_DATA_OK)%Z; [reflexivity|].
  destruct (code =? RC_DATA_NEXT)%Z; cbn [orb]; [rewrite orb_true_r; reflexivity|].
  rewrite orb_false_r.
  destruct (code =? RC_NEXT)%Z; [reflexivity|].
  destruct (code =? RC_HOLD)%Z; reflexivity.
Qed.

Lemma disp_r_table : forall code s,
  disp_r code s = match spec_action K_RUN ATCMD code with
                  | A_OK => ack_ok s | A_AGAIN => s | A_HOLD => enable_hold_state s
                  | A_LIST => start_print_cmd_list D s
                  | _ => ack_error s end.
Proof.
  intros. unfold disp_r, spec_action.
  destruct (code =? RC_OK)%Z; cbn [orb]; [reflexivity|].
  destruct (code =? RC_DATA_OK)%Z; [reflexivity|].
  destruct (code =? RC_DATA_NEXT)%Z; cbn [orb]; [rewrite orb_true_r; reflexivity|].
  rewrite orb_false_r.
  destruct (code =? RC_NEXT)%Z; [reflexivity|].
  destruct (code =? RC_HOLD)%Z; [reflexivity|].
  destruct (code =? RC_PRINT_CMD_LIST_OK)%Z; reflexivity.
Qed.

Lemma spec_w_range : forall code,
  spec_action K_WRITE ATCMD code = A_OK \/ spec_action K_WRITE ATCMD code = A_AGAIN \/
  spec_action K_WRITE ATCMD code = A_HOLD \/ spec_action K_WRITE ATCMD code = A_ERROR.
Proof.
  intros. unfold spec_action.
  destruct ((code =? RC_OK)%Z || (code =? RC_DATA_OK)%Z); [auto|].
  destruct ((code =? RC_NEXT)%Z || (code =? RC_DATA_NEXT)%Z); [auto|].
  destruct (code =? RC_HOLD)%Z; auto.
Qed.
Lemma spec_r_range : forall code,
  spec_action K_RUN ATCMD code = A_OK \/ spec_action K_RUN ATCMD code = A_AGAIN \/
  spec_action K_RUN ATCMD code = A_HOLD \/ spec_action K_RUN ATCMD code = A_LIST \/
  spec_action K_RUN ATCMD code = A_ERROR.
Proof.
  intros. unfold spec_action.
  destruct ((code =? RC_OK)%Z || (code =? RC_DATA_OK)%Z); [auto|].
  destruct ((code =? RC_NEXT)%Z || (code =? RC_DATA_NEXT)%Z); [auto|].
  destruct (code =? RC_HOLD)%Z; [auto|].
  destruct (code =? RC_PRINT_CMD_LIST_OK)%Z; auto 6.
Qed.

Lemma ack_ok_state : forall s, k_state (k (ack_ok s)) = CS_FLUSH_WAIT.
Proof. reflexivity. Qed.
Lemma ack_error_state : forall s, k_state (k (ack_error s)) = CS_FLUSH_WAIT.
Proof. reflexivity. Qed.
Lemma hold_state : forall s, k_state (k (enable_hold_state s)) = CS_HOLD.
Proof. reflexivity. Qed.
Lemma list_state : forall s, k_state (k (start_print_cmd_list D s)) = CS_FLUSH_WAIT \/
                             k_state (k (start_print_cmd_list D s)) = CS_PRINT_CMD.
Proof. intros. unfold start_print_cmd_list. destruct (ncmds D =? 0); [left|right]; reflexivity. Qed.

Definition wq (ci : nat) (s : state) : hreq :=
  HWrite ci (firstn (S (k_length (k s))) (cbuf s)) (k_length (k s)) (k_index (k s)).

Theorem C10_write_sequence : forall rs rn w ci,
  k_state (k (st w)) = CS_WRITE_LOOP -> k_cmd (k (st w)) = Some ci ->
  let q := HWrite ci (firstn (S (k_length (k (st w)))) (cbuf (st w)))
                  (k_length (k (st w))) (k_index (k (st w))) in
  h_returns (hs w) q (rs ++ [rn]) ->
  (forall r, In r rs -> terminal (spec_action K_WRITE ATCMD (r_code r)) = false) ->
  terminal (spec_action K_WRITE ATCMD (r_code rn)) = true ->
  let n := length rs in
  (forall m, m <= n ->
     k_state (k (st (iter m cstep w))) = CS_WRITE_LOOP /\
     calls_of (tr (iter m cstep w)) =
       rev (map (fun r => (q, r_code r)) (firstn m rs)) ++ calls_of (tr w)) /\
  let wn := iter n cstep w in
  let w1 := fst (call_h wn q) in
  snd (call_h wn q) = rn /\
  st (iter (S n) cstep w) =
    match spec_action K_WRITE ATCMD (r_code rn) with
    | A_OK => ack_ok (st w1) | A_AGAIN => st w1 | A_HOLD => enable_hold_state (st w1)
    | _ => ack_error (st w1) end /\
  k_state (k (st (iter (S n) cstep w))) <> CS_WRITE_LOOP /\
  calls_of (tr (iter (S n) cstep w)) =
    rev (map (fun r => (q, r_code r)) (rs ++ [rn])) ++ calls_of (tr w).
Proof.
  intros rs rn w ci HL Hc q Hret Hnt Ht n.
  assert (LS := loop_sequence CS_WRITE_LOOP ci (wq ci) disp_w K_WRITE).
  assert (H1 : forall s s', kframe s s' -> wq ci s' = wq ci s).
  { intros s s' Hk. unfold wq.
    rewrite (kframe_k_length _ _ Hk), (kframe_k_index _ _ Hk), (kframe_cbuf _ _ Hk). reflexivity. }
  assert (H2 : forall w0, k_state (k (st w0)) = CS_WRITE_LOOP -> k_cmd (k (st w0)) = Some ci ->
    cmd_service w0 = (upd_st (disp_w (r_code (snd (call_h w0 (wq ci (st w0))))))
                             (fst (call_h w0 (wq ci (st w0)))), ST_BUSY)).
  { intros w0 G1 G2. unfold Fsm.cmd_service. rewrite G1. unfold Fsm.process_write_loop.
    change (g_cmd ATCMD (st w0)) with (k_cmd (k (st w0))). rewrite G2.
    unfold wq. destruct (call_h w0 _) as [w1' r']. reflexivity. }
  assert (H3 : forall code s, terminal (spec_action K_WRITE ATCMD code) = false -> disp_w code s = s).
  { intros code s G. rewrite disp_w_table.
    destruct (spec_w_range code) as [E|[E|[E|E]]]; rewrite E in *; try discriminate G. reflexivity. }
  assert (H4 : forall code s, terminal (spec_action K_WRITE ATCMD code) = true ->
                              k_state (k (disp_w code s)) <> CS_WRITE_LOOP).
  { intros code s G. rewrite disp_w_table.
    destruct (spec_w_range code) as [E|[E|[E|E]]]; rewrite E in *; try discriminate G;
      first [rewrite ack_ok_state|rewrite ack_error_state|rewrite hold_state]; discriminate. }
  specialize (LS H1 H2 H3 H4 rs rn w HL Hc Hret Hnt Ht).
  destruct LS as (L1 & L2 & L3 & L4 & L5).
  subst n q. unfold wq in *. cbv beta in *.
  split; [|split; [|split; [|split]]].
  - intros m Hm. destruct (L1 m Hm) as (J1 & _ & _ & J4). split; assumption.
  - exact L2.
  - rewrite L3. apply disp_w_table.
  - exact L4.
  - exact L5.
Qed.

Theorem C10_run_sequence : forall rs rn w ci,
  k_state (k (st w)) = CS_RUN_LOOP -> k_cmd (k (st w)) = Some ci ->
  let q := HRun ci in
  h_returns (hs w) q (rs ++ [rn]) ->
  (forall r, In r rs -> terminal (spec_action K_RUN ATCMD (r_code r)) = false) ->
  terminal (spec_action K_RUN ATCMD (r_code rn)) = true ->
  let n := length rs in
  (forall m, m <= n ->
     k_state (k (st (iter m cstep w))) = CS_RUN_LOOP /\
     calls_of (tr (iter m cstep w)) =
       rev (map (fun r => (q, r_code r)) (firstn m rs)) ++ calls_of (tr w)) /\
  let wn := iter n cstep w in
  let w1 := fst (call_h wn q) in
  snd (call_h wn q) = rn /\
  st (iter (S n) cstep w) =
    match spec_action K_RUN ATCMD (r_code rn) with
    | A_OK => ack_ok (st w1) | A_AGAIN => st w1 | A_HOLD => enable_hold_state (st w1)
    | A_LIST => start_print_cmd_list D (st w1)
    | _ => ack_error (st w1) end /\
  k_state (k (st (iter (S n) cstep w))) <> CS_RUN_LOOP /\
  calls_of (tr (iter (S n) cstep w)) =
    rev (map (fun r => (q, r_code r)) (rs ++ [rn])) ++ calls_of (tr w).
Proof.
  intros rs rn w ci HL Hc q Hret Hnt Ht n.
  assert (LS := loop_sequence CS_RUN_LOOP ci (fun _ => HRun ci) disp_r K_RUN).
  assert (H1 : forall s s' : state, kframe s s' -> HRun ci = HRun ci) by reflexivity.
  assert (H2 : forall w0, k_state (k (st w0)) = CS_RUN_LOOP -> k_cmd (k (st w0)) = Some ci ->
    cmd_service w0 = (upd_st (disp_r (r_code (snd (call_h w0 (HRun ci)))))
                             (fst (call_h w0 (HRun ci))), ST_BUSY)).
  { intros w0 G1 G2. unfold Fsm.cmd_service. rewrite G1. unfold Fsm.process_run_loop.
    change (g_cmd ATCMD (st w0)) with (k_cmd (k (st w0))). rewrite G2.
    destruct (call_h w0 _) as [w1' r']. reflexivity. }
  assert (H3 : forall code s, terminal (spec_action K_RUN ATCMD code) = false -> disp_r code s = s).
  { intros code s G. rewrite disp_r_table.
    destruct (spec_r_range code) as [E|[E|[E|[E|E]]]]; rewrite E in *; try discriminate G.
    reflexivity. }
  assert (H4 : forall code s, terminal (spec_action K_RUN ATCMD code) = true ->
                              k_state (k (disp_r code s)) <> CS_RUN_LOOP).
  { intros code s G. rewrite disp_r_table.
    destruct (spec_r_range code) as [E|[E|[E|[E|E]]]]; rewrite E in *; try discriminate G;
      try (first [rewrite ack_ok_state|rewrite ack_error_state|rewrite hold_state]; discriminate).
    destruct (list_state s) as [E'|E']; rewrite E'; discriminate. }
  specialize (LS H1 H2 H3 H4 rs rn w HL Hc Hret Hnt Ht).
  destruct LS as (L1 & L2 & L3 & L4 & L5).
  subst n q. unfold wq in *. cbv beta in *.
  split; [|split; [|split; [|split]]].
  - intros m Hm. destruct (L1 m Hm) as (J1 & _ & _ & J4). split; assumption.
  - exact L2.
  - rewrite L3. apply disp_r_table.
  - exact L4.
  - exact L5.
Qed.

(* ------------------------------------------------------------------ *)
(* 6. read handler of the command machine: sequences of any length,     *)
(*    flushes taken as completed                                        *)
(* ------------------------------------------------------------------ *)

Lemma text_of_app_zero : forall t r, text_of (t ++ 0%N :: r) = text_of t.
Proof.
  induction t as [|a t IH]; intros r; cbn [app text_of]; [reflexivity|].
  destruct (a =? 0)%N; [reflexivity|]. f_equal. apply IH.
Qed.

(* what the edit of a read/test handler does to the command machine's buffer *)
Definition edit_text (bsz : nat) (old : list N) (e : option (list N)) : list N :=
  match e with
  | Some t => if length t <? bsz then text_of t else old
  | None => old
  end.

Lemma apply_edit_c : forall e s,
  let s' := apply_edit ATCMD e s in
  set_k_position 0 (k s') = set_k_position 0 (k s) /\ length (cbuf s') = length (cbuf s) /\
  text_of (cbuf s') = edit_text (asz s) (text_of (cbuf s)) e.
Proof.
  intros e s. cbv zeta. destruct e as [t|]; [|repeat split].
  unfold apply_edit, edit_text, asz. change (g_bsz ATCMD s) with (length (cbuf s)).
  destruct (length t <? length (cbuf s)) eqn:E; [|repeat split].
  apply Nat.ltb_lt in E.
  unfold get_cur. rewrite cur_store_list_fits
    by (cbn [cu_buf g_buf]; rewrite app_length; cbn [length]; lia).
  unfold cur_set_pos, put_cur. cbn [cu_buf cu_pos cu_fault g_buf g_pos setg_buf setg_pos].
  cbn [firstn app Nat.add]. repeat split.
  - cbn [cbuf setk_position set_cbuf set_k]. rewrite !app_length, skipn_length.
    cbn [length]. lia.
  - cbn [cbuf setk_position set_cbuf set_k]. rewrite <- app_assoc. cbn [app].
    apply text_of_app_zero.
Qed.

Lemma apply_edit_c_k_state : forall e s, k_state (k (apply_edit ATCMD e s)) = k_state (k s).
Proof. intros. destruct (apply_edit_c e s) as (H & _). apply (f_equal k_state) in H. exact H. Qed.
Lemma apply_edit_c_k_cmd : forall e s, k_cmd (k (apply_edit ATCMD e s)) = k_cmd (k s).
Proof. intros. destruct (apply_edit_c e s) as (H & _). apply (f_equal k_cmd) in H. exact H. Qed.

Lemma firstn_S_nth : forall (l : list N) n x, nth_error l n = Some x -> firstn (S n) l = firstn n l ++ [x].
Proof.
  induction l as [|y l IH]; intros n x H; destruct n; cbn [nth_error] in H; try discriminate.
  - injection H as H. subst. reflexivity.
  - cbn [firstn app]. f_equal. apply IH. exact H.
Qed.

Lemma spec_read_range : forall code,
  let a := spec_action K_READ ATCMD code in
  a = A_OK \/ a = A_EMIT_OK \/ a = A_EMIT_AGAIN \/ a = A_REFORMAT_AGAIN \/ a = A_HOLD \/
  a = A_RELEASE_OK \/ a = A_RELEASE_ERROR \/ a = A_ERROR.
Proof.
  intros. unfold a, spec_action.
  destruct (code =? RC_OK)%Z; [auto|].
  destruct (code =? RC_DATA_OK)%Z; [auto|].
  destruct (code =? RC_DATA_NEXT)%Z; [auto|].
  destruct (code =? RC_NEXT)%Z; [auto 6|].
  destruct (code =? RC_HOLD)%Z; [auto 6|].
  destruct (code =? RC_HOLD_EXIT_OK)%Z; [auto 8|].
  destruct (code =? RC_HOLD_EXIT_ERROR)%Z; [auto 8|].
  destruct (code =? RC_PRINT_CMD_LIST_OK)%Z; auto 10.
Qed.

(* take a started emission of a unit as completed: collect the text of the buffer, continue in
   the after-state with one service step (the flush engine itself is C11) *)
Definition rd_settle (w : world) : world * list (list N) :=
  if cstate_beq (k_state (k (st w))) CS_FLUSH_WAIT &&
     negb (cstate_beq (k_wafter (k (st w))) CS_AFTER_RESET)
  then (cstep (upd_st (fun s => setk_state (k_wafter (k s)) s) w), [text_of (cbuf (st w))])
  else (w, []).
(* one handler call and its automatic consequences *)
Definition rd_macro (w : world) : world * list (list N) := rd_settle (cstep w).
Fixpoint rd_run (n : nat) (w : world) : world * list (list N) :=
  match n with
  | O => (w, [])
  | S n' => let (w1, u1) := rd_macro w in let (w2, u2) := rd_run n' w1 in (w2, u1 ++ u2)
  end.

Definition is_hread (ci : nat) (q : hreq) : Prop :=
  match q with HRead ATCMD ci' _ _ _ => ci' = ci | _ => False end.

(* the request the read loop makes in state s *)
Definition rq (ci : nat) (s : state) : hreq :=
  HRead ATCMD ci (firstn (S (k_position (k s))) (cbuf s)) (k_position (k s)) (length (cbuf s)).

(* the unit a result emits (if its code emits), given the text the buffer held before the call *)
Definition unit_of (bsz : nat) (old : list N) (r : hres) : list (list N) :=
  match spec_action K_READ ATCMD (r_code r) with
  | A_EMIT_OK | A_EMIT_AGAIN => [edit_text bsz old (r_edit r)]
  | _ => []
  end.
Fixpoint units_of (bsz : nat) (old hdr : list N) (rs : list hres) : list (list N) :=
  match rs with
  | [] => []
  | r :: rs' => unit_of bsz old r ++ units_of bsz hdr hdr rs'
  end.

Section ReadSeq.
Variable ci : nat.
Variable c : cmd.
Hypothesis Hat : cmd_at D ci = Some c.
Hypothesis Hhr : c_hread c = true.
Hypothesis Hnv : vars_access_possible c RO = false.
Hypothesis Hnz : forall x, In x (c_name c) -> x <> 0%N.

Let hdr := c_name c ++ [ch_EQ].

(* the loop state at a handler call *)
Definition RL (w : world) : Prop :=
  k_state (k (st w)) = CS_READ_LOOP /\ k_cmd (k (st w)) = Some ci /\
  length (c_name c) + 1 < asz (st w).

Lemma cstep_read : forall w, RL w ->
  let q := rq ci (st w) in
  let w1 := fst (call_h w q) in let r := snd (call_h w q) in
  let se := apply_edit ATCMD (r_edit r) (st w1) in
  hs (cstep w) = hs w1 /\ tr (cstep w) = tr w1 /\
  st (cstep w) = match spec_action K_READ ATCMD (r_code r) with
            | A_OK => ack_ok se
            | A_ERROR => ack_error se
            | A_EMIT_OK => start_flush_c CS_AFTER_OK se
            | A_EMIT_AGAIN => start_flush_c CS_AFTER_FMT_READ se
            | A_REFORMAT_AGAIN => start_processing_format_read_args D ATCMD se
            | A_HOLD => enable_hold_state se
            | A_RELEASE_OK => ack_ok (fst (hold_exit se ST_OK))
            | A_RELEASE_ERROR => ack_error (fst (hold_exit se ST_ERROR))
            | A_LIST => start_print_cmd_list D se
            | A_AGAIN => se
            end.
Proof.
  intros w (HL & Hc & _). cbv zeta.
  destruct (C10_rt_code true ATCMD w ci Hc HL) as (w' & E & H1 & _ & _ & H4 & H5).
  unfold cstep, Fsm.cmd_service. rewrite HL.
  cbv zeta in E. unfold rq.
  change (g_pos ATCMD (st w)) with (k_position (k (st w))) in *.
  change (g_buf ATCMD (st w)) with (cbuf (st w)) in *.
  rewrite E. cbn [fst]. repeat split; assumption.
Qed.

(* the state when the buffer has been re-formatted from a state s of the command machine *)
Lemma reformat_c : forall s, k_cmd (k s) = Some ci -> length (c_name c) + 1 < asz s ->
  let s' := start_processing_format_read_args D ATCMD s in
  k_state (k s') = CS_READ_LOOP /\ k_cmd (k s') = Some ci /\ asz s' = asz s /\
  k_position (k s') = length hdr /\ firstn (S (length hdr)) (cbuf s') = hdr ++ [0%N] /\
  text_of (cbuf s') = hdr.
Proof.
  intros s Hc Hfit. cbv zeta.
  destruct (C10_reformat_read_fresh ATCMD s ci c Hc Hat Hfit) as (B & B1 & B2 & B3 & B4 & E).
  cbv zeta in E. rewrite Hnv, Hhr in E. cbn [negb] in E. rewrite E.
  assert (Lh : length hdr = length (c_name c) + 1) by (unfold hdr; rewrite app_length; reflexivity).
  cbn [set_loop_state setg_pos setg_buf]. repeat split.
  - exact Hc.
  - exact B1.
  - rewrite Lh. reflexivity.
  - cbn [cbuf setk_state setk_position set_cbuf set_k]. rewrite Lh.
    rewrite (firstn_S_nth B _ 0%N B3), B2. reflexivity.
  - apply B4. exact Hnz.
Qed.

Definition fresh (w : world) : Prop :=
  k_position (k (st w)) = length hdr /\ firstn (S (length hdr)) (cbuf (st w)) = hdr ++ [0%N] /\
  text_of (cbuf (st w)) = hdr.

Lemma se_facts : forall w, RL w ->
  let q := rq ci (st w) in
  let w1 := fst (call_h w q) in let r := snd (call_h w q) in
  let se := apply_edit ATCMD (r_edit r) (st w1) in
  k_cmd (k se) = Some ci /\ asz se = asz (st w) /\
  text_of (cbuf se) = edit_text (asz (st w)) (text_of (cbuf (st w))) (r_edit r).
Proof.
  intros w (HL & Hc & Hfit). cbv zeta.
  pose proof (call_h_kframe w (rq ci (st w))) as Hk.
  set (w1 := fst (call_h w (rq ci (st w)))) in *.
  set (r := snd (call_h w (rq ci (st w)))).
  destruct (apply_edit_c (r_edit r) (st w1)) as (E1 & E2 & E3). cbv zeta in *.
  repeat split.
  - rewrite apply_edit_c_k_cmd, (kframe_k_cmd _ _ Hk). exact Hc.
  - unfold asz in *. rewrite E2, (kframe_cbuf _ _ Hk). reflexivity.
  - rewrite E3. unfold asz. rewrite (kframe_cbuf _ _ Hk). reflexivity.
Qed.

Lemma rd_macro_nonterminal : forall w, RL w ->
  let q := rq ci (st w) in
  let w1 := fst (call_h w q) in let r := snd (call_h w q) in
  terminal (spec_action K_READ ATCMD (r_code r)) = false ->
  RL (fst (rd_macro w)) /\ fresh (fst (rd_macro w)) /\
  asz (st (fst (rd_macro w))) = asz (st w) /\
  hs (fst (rd_macro w)) = hs w1 /\
  calls_of (tr (fst (rd_macro w))) = (q, r_code r) :: calls_of (tr w) /\
  snd (rd_macro w) = unit_of (asz (st w)) (text_of (cbuf (st w))) r.
Proof.
  intros w HRL. cbv zeta. intros Hnt.
  destruct (cstep_read w HRL) as (S1 & S2 & S3). cbv zeta in S1, S2, S3.
  destruct (se_facts w HRL) as (F1 & F2 & F3). cbv zeta in F1, F2, F3.
  pose proof (call_h_calls w (rq ci (st w))) as Hcalls.
  destruct HRL as (HL & Hc & Hfit).
  set (w1 := fst (call_h w (rq ci (st w)))) in *.
  set (r := snd (call_h w (rq ci (st w)))) in *.
  set (se := apply_edit ATCMD (r_edit r) (st w1)) in *.
  unfold rd_macro, rd_settle, unit_of. fold r.
  destruct (spec_read_range (r_code r)) as [E|[E|[E|[E|[E|[E|[E|E]]]]]]]; cbv zeta in E;
    rewrite E in *; try discriminate Hnt.
  - (* DATA_NEXT: emit, then re-format *)
    rewrite S3. cbn [start_flush_c k_state k_wafter k setk_state setk_wafter setk_wstate
                     setk_wbuf setk_position set_k set_k_state set_k_wafter cstate_beq andb negb fst snd].
    match goal with |- context [cstep ?ww] => set (w2 := ww) end.
    assert (K2 : k_state (k (st w2)) = CS_AFTER_FMT_READ).
    { unfold w2. cbn [Fsm.upd_st Fsm.set_st Fsm.st]. rewrite S3. reflexivity. }
    destruct (C10_continuation_c w2) as (_ & Cr & _). specialize (Cr K2).
    change (cstep w2) with (fst (cmd_service w2)). rewrite Cr. cbn [fst Fsm.upd_st Fsm.set_st Fsm.st Fsm.hs Fsm.tr].
    assert (Est : st w2 = setk_state CS_AFTER_FMT_READ (start_flush_c CS_AFTER_FMT_READ se)).
    { unfold w2. cbn [Fsm.upd_st Fsm.set_st Fsm.st]. rewrite S3. reflexivity. }
    rewrite Est.
    destruct (reformat_c (setk_state CS_AFTER_FMT_READ (start_flush_c CS_AFTER_FMT_READ se)))
      as (R1 & R2 & R3 & R4 & R5 & R6); [exact F1|unfold asz in *; exact (eq_ind_r (fun n => _ < n) Hfit F2)|].
    cbv zeta in *.
    assert (A : asz (start_processing_format_read_args D ATCMD
                  (setk_state CS_AFTER_FMT_READ (start_flush_c CS_AFTER_FMT_READ se))) = asz (st w)).
    { rewrite R3. exact F2. }
    split; [|split; [|split; [|split; [|split]]]].
    + unfold RL. cbn [Fsm.upd_st Fsm.set_st Fsm.st]. rewrite Est.
      repeat split; try assumption. rewrite A. exact Hfit.
    + unfold fresh. cbn [Fsm.upd_st Fsm.set_st Fsm.st]. rewrite Est. repeat split; assumption.
    + exact A.
    + unfold w2. cbn [Fsm.upd_st Fsm.set_st Fsm.hs]. exact S1.
    + unfold w2. cbn [Fsm.upd_st Fsm.set_st Fsm.tr]. rewrite S2. exact Hcalls.
    + f_equal. exact F3.
  - (* NEXT: re-format at once *)
    destruct (reformat_c se) as (R1 & R2 & R3 & R4 & R5 & R6);
      [exact F1|unfold asz in *; exact (eq_ind_r (fun n => _ < n) Hfit F2)|].
    cbv zeta in *.
    rewrite S3, R1. cbn [cstate_beq andb fst snd].
    assert (A : asz (st (cstep w)) = asz (st w)) by (rewrite S3, R3; exact F2).
    split; [|split; [|split; [|split; [|split]]]].
    + unfold RL. repeat split; rewrite ?S3; try assumption. rewrite <- S3, A. exact Hfit.
    + unfold fresh. repeat split; rewrite S3; assumption.
    + exact A.
    + exact S1.
    + rewrite S2. exact Hcalls.
    + reflexivity.
Qed.

Definition rd_final (a : action) (se : state) : state :=
  match a with
  | A_OK => ack_ok se
  | A_ERROR => ack_error se
  | A_EMIT_OK => ack_ok (setk_state CS_AFTER_OK (start_flush_c CS_AFTER_OK se))
  | A_HOLD => enable_hold_state se
  | A_RELEASE_OK => ack_ok (fst (hold_exit se ST_OK))
  | A_RELEASE_ERROR => ack_error (fst (hold_exit se ST_ERROR))
  | _ => se
  end.

Lemma rd_macro_terminal : forall w, RL w ->
  let q := rq ci (st w) in
  let w1 := fst (call_h w q) in let r := snd (call_h w q) in
  let se := apply_edit ATCMD (r_edit r) (st w1) in
  terminal (spec_action K_READ ATCMD (r_code r)) = true ->
  st (fst (rd_macro w)) = rd_final (spec_action K_READ ATCMD (r_code r)) se /\
  hs (fst (rd_macro w)) = hs w1 /\
  calls_of (tr (fst (rd_macro w))) = (q, r_code r) :: calls_of (tr w) /\
  snd (rd_macro w) = unit_of (asz (st w)) (text_of (cbuf (st w))) r.
Proof.
  intros w HRL. cbv zeta. intros Ht.
  destruct (cstep_read w HRL) as (S1 & S2 & S3). cbv zeta in S1, S2, S3.
  destruct (se_facts w HRL) as (F1 & F2 & F3). cbv zeta in F1, F2, F3.
  pose proof (call_h_calls w (rq ci (st w))) as Hcalls.
  destruct HRL as (HL & Hc & Hfit).
  set (w1 := fst (call_h w (rq ci (st w)))) in *.
  set (r := snd (call_h w (rq ci (st w)))) in *.
  set (se := apply_edit ATCMD (r_edit r) (st w1)) in *.
  unfold rd_macro, rd_settle, unit_of. fold r.
  destruct (spec_read_range (r_code r)) as [E|[E|[E|[E|[E|[E|[E|E]]]]]]]; cbv zeta in E;
    rewrite E in *; try discriminate Ht; cbn [rd_final].
  - rewrite S3. cbn [ack_ok start_flush_c k_state k_wafter k setk_state setk_wafter setk_wstate
                     setk_wbuf setk_position set_k set_k_state set_k_wafter set_gS set_cbuf
                     cstate_beq andb negb fst snd].
    repeat split; [exact S3|exact S1|rewrite S2; exact Hcalls].
  - rewrite S3. cbn [start_flush_c k_state k_wafter k setk_state setk_wafter setk_wstate
                     setk_wbuf setk_position set_k set_k_state set_k_wafter cstate_beq andb negb fst snd].
    match goal with |- context [cstep ?ww] => set (w2 := ww) end.
    assert (Est : st w2 = setk_state CS_AFTER_OK (start_flush_c CS_AFTER_OK se)).
    { unfold w2. cbn [Fsm.upd_st Fsm.set_st Fsm.st]. rewrite S3. reflexivity. }
    assert (K2 : k_state (k (st w2)) = CS_AFTER_OK) by (rewrite Est; reflexivity).
    destruct (C10_continuation_c w2) as (Cr & _). specialize (Cr K2).
    change (cstep w2) with (fst (cmd_service w2)). rewrite Cr.
    cbn [fst Fsm.upd_st Fsm.set_st Fsm.st Fsm.hs Fsm.tr]. rewrite Est.
    repeat split.
    + unfold w2. cbn [Fsm.upd_st Fsm.set_st Fsm.hs]. exact S1.
    + unfold w2. cbn [Fsm.upd_st Fsm.set_st Fsm.tr]. rewrite S2. exact Hcalls.
    + f_equal. exact F3.
  - rewrite S3. cbn [enable_hold_state k_state k setk_state setk_hold setk_hold_exit set_k
                     set_k_state set_k_hold set_k_hold_exit cstate_beq andb fst snd].
    repeat split; [exact S3|exact S1|rewrite S2; exact Hcalls].
  - rewrite S3. cbn [ack_ok start_flush_c k_state k_wafter k setk_state setk_wafter setk_wstate
                     setk_wbuf setk_position set_k set_k_state set_k_wafter set_gS set_cbuf
                     cstate_beq andb negb fst snd].
    repeat split; [exact S3|exact S1|rewrite S2; exact Hcalls].
  - rewrite S3. cbn [ack_error start_flush_c k_state k_wafter k setk_state setk_wafter setk_wstate
                     setk_wbuf setk_position set_k set_k_state set_k_wafter set_gS set_cbuf
                     cstate_beq andb negb fst snd].
    repeat split; [exact S3|exact S1|rewrite S2; exact Hcalls].
  - rewrite S3. cbn [ack_error start_flush_c k_state k_wafter k setk_state setk_wafter setk_wstate
                     setk_wbuf setk_position set_k set_k_state set_k_wafter set_gS set_cbuf
                     cstate_beq andb negb fst snd].
    repeat split; [exact S3|exact S1|rewrite S2; exact Hcalls].
Qed.

Lemma rd_run_S_fst : forall n w, fst (rd_run (S n) w) = fst (rd_run n (fst (rd_macro w))).
Proof.
  intros. cbn [rd_run]. destruct (rd_macro w) as [w1 u1]. cbn [fst].
  destruct (rd_run n w1). reflexivity.
Qed.
Lemma rd_run_S_snd : forall n w,
  snd (rd_run (S n) w) = snd (rd_macro w) ++ snd (rd_run n (fst (rd_macro w))).
Proof.
  intros. cbn [rd_run]. destruct (rd_macro w) as [w1 u1]. cbn [fst snd].
  destruct (rd_run n w1). reflexivity.
Qed.

Lemma rq_fresh : forall w, fresh w -> rq ci (st w) = HRead ATCMD ci (hdr ++ [0%N]) (length hdr) (asz (st w)).
Proof. intros w (P1 & P2 & _). unfold rq. rewrite P1, P2. reflexivity. Qed.

Lemma read_sequence_ind : forall rs rn w,
  RL w ->
  h_returns_any (is_hread ci) (hs w) (rs ++ [rn]) ->
  (forall r, In r rs -> terminal (spec_action K_READ ATCMD (r_code r)) = false) ->
  terminal (spec_action K_READ ATCMD (r_code rn)) = true ->
  RL (fst (rd_run (length rs) w)) /\
  snd (call_h (fst (rd_run (length rs) w)) (rq ci (st (fst (rd_run (length rs) w))))) = rn /\
  st (fst (rd_run (S (length rs)) w)) =
    rd_final (spec_action K_READ ATCMD (r_code rn))
      (apply_edit ATCMD (r_edit rn)
         (st (fst (call_h (fst (rd_run (length rs) w))
                          (rq ci (st (fst (rd_run (length rs) w)))))))) /\
  calls_of (tr (fst (rd_run (S (length rs)) w))) =
    rev (combine (rq ci (st w) ::
                  repeat (HRead ATCMD ci (hdr ++ [0%N]) (length hdr) (asz (st w))) (length rs))
                 (map r_code (rs ++ [rn]))) ++ calls_of (tr w) /\
  snd (rd_run (S (length rs)) w) =
    units_of (asz (st w)) (text_of (cbuf (st w))) hdr (rs ++ [rn]).
Proof.
  induction rs as [|r rs IH]; intros rn w HRL Hret Hnt Ht.
  - cbn [length app] in *.
    cbn [h_returns_any] in Hret.
    destruct (Hret (rq ci (st w)) eq_refl) as [Hr _].
    assert (Hsnd : snd (call_h w (rq ci (st w))) = rn) by (rewrite call_h_res; exact Hr).
    pose proof (rd_macro_terminal w HRL) as T. cbv zeta in T. rewrite Hsnd in T.
    destruct (T Ht) as (T1 & T2 & T3 & T4).
    rewrite rd_run_S_fst, rd_run_S_snd. cbn [rd_run fst snd]. rewrite app_nil_r.
    repeat split; try assumption.
    + apply HRL.
    + apply HRL.
    + apply HRL.
    + cbn [units_of]. rewrite app_nil_r. exact T4.
  - cbn [app h_returns_any] in Hret.
    destruct (Hret (rq ci (st w)) eq_refl) as [Hr Hret'].
    assert (Hsnd : snd (call_h w (rq ci (st w))) = r) by (rewrite call_h_res; exact Hr).
    assert (Hnr : terminal (spec_action K_READ ATCMD (r_code r)) = false)
      by (apply Hnt; left; reflexivity).
    pose proof (rd_macro_nonterminal w HRL) as T. cbv zeta in T. rewrite Hsnd in T.
    destruct (T Hnr) as (T1 & T2 & T3 & T4 & T5 & T6).
    set (w' := fst (rd_macro w)) in *.
    assert (Hret'' : h_returns_any (is_hread ci) (hs w') (rs ++ [rn])).
    { rewrite T4, call_h_hs. exact Hret'. }
    assert (Hnt' : forall r0, In r0 rs -> terminal (spec_action K_READ ATCMD (r_code r0)) = false)
      by (intros r0 Hin; apply Hnt; right; exact Hin).
    destruct (IH rn w' T1 Hret'' Hnt' Ht) as (I1 & I2 & I3 & I4 & I5).
    cbn [length].
    rewrite (rd_run_S_fst (S (length rs)) w), (rd_run_S_fst (length rs) w),
            (rd_run_S_snd (S (length rs)) w).
    fold w'.
    split; [exact I1|]. split; [exact I2|]. split; [exact I3|]. split.
    + rewrite I4, T5. rewrite (rq_fresh w' T2), T3.
      cbn [app map repeat combine rev]. rewrite <- !app_assoc. reflexivity.
    + rewrite I5, T6, T3. destruct T2 as (_ & _ & T2). rewrite T2.
      cbn [app units_of]. reflexivity.
Qed.

End ReadSeq.

Theorem C10_read_sequence : forall rs rn w ci c,
  k_state (k (st w)) = CS_READ_LOOP -> k_cmd (k (st w)) = Some ci -> cmd_at D ci = Some c ->
  c_hread c = true -> vars_access_possible c RO = false ->
  length (c_name c) + 1 < asz (st w) -> (forall x, In x (c_name c) -> x <> 0%N) ->
  h_returns_any (is_hread ci) (hs w) (rs ++ [rn]) ->
  (forall r, In r rs -> terminal (spec_action K_READ ATCMD (r_code r)) = false) ->
  terminal (spec_action K_READ ATCMD (r_code rn)) = true ->
  let n := length rs in
  let hdr := c_name c ++ [ch_EQ] in
  let wn := fst (rd_run n w) in
  let qn := rq ci (st wn) in
  let se := apply_edit ATCMD (r_edit rn) (st (fst (call_h wn qn))) in
  k_state (k (st wn)) = CS_READ_LOOP /\
  snd (call_h wn qn) = rn /\
  st (fst (rd_run (S n) w)) =
    match spec_action K_READ ATCMD (r_code rn) with
    | A_OK => ack_ok se
    | A_ERROR => ack_error se
    | A_EMIT_OK => ack_ok (setk_state CS_AFTER_OK (start_flush_c CS_AFTER_OK se))
    | A_HOLD => enable_hold_state se
    | A_RELEASE_OK => ack_ok (fst (hold_exit se ST_OK))
    | A_RELEASE_ERROR => ack_error (fst (hold_exit se ST_ERROR))
    | _ => se
    end /\
  calls_of (tr (fst (rd_run (S n) w))) =
    rev (combine (rq ci (st w) ::
                  repeat (HRead ATCMD ci (hdr ++ [0%N]) (length hdr) (asz (st w))) n)
                 (map r_code (rs ++ [rn]))) ++ calls_of (tr w) /\
  snd (rd_run (S n) w) = units_of (asz (st w)) (text_of (cbuf (st w))) hdr (rs ++ [rn]).
Proof.
  intros rs rn w ci c HL Hc Hat Hhr Hnv Hfit Hnz Hret Hnt Ht. cbv zeta.
  assert (HRL : RL ci c w) by (repeat split; assumption).
  destruct (read_sequence_ind ci c Hat Hhr Hnv Hnz rs rn w HRL Hret Hnt Ht)
    as (I1 & I2 & I3 & I4 & I5).
  split; [apply I1|]. split; [exact I2|]. split; [exact I3|]. split; [exact I4|exact I5].
Qed.

(* the result codes: text, one started result (ghost counter gS), flush towards the reset *)
Theorem C10_ack_shape : forall s,
  cbuf (ack_ok s) = strncpy_buf (asz s) txt_OK /\ cbuf (ack_error s) = strncpy_buf (asz s) txt_ERROR /\
  k_state (k (ack_ok s)) = CS_FLUSH_WAIT /\ k_state (k (ack_error s)) = CS_FLUSH_WAIT /\
  k_wafter (k (ack_ok s)) = CS_AFTER_RESET /\ k_wafter (k (ack_error s)) = CS_AFTER_RESET /\
  gS (ack_ok s) = S (gS s) /\ gS (ack_error s) = S (gS s).
Proof. intros. repeat split. Qed.

Lemma h_returns_any_weaken : forall (P P' : hreq -> Prop), (forall q, P q -> P' q) ->
  forall rs h, h_returns_any P' h rs -> h_returns_any P h rs.
Proof.
  intros P P' HPP. induction rs as [|r rs IH]; intros h H; cbn [h_returns_any] in *; [exact I|].
  intros q Hq. destruct (H q (HPP q Hq)) as [H1 H2]. split; [exact H1|]. apply IH. exact H2.
Qed.

End C10.

(* ------------------------------------------------------------------ *)
(* 3'. a machine never touches the OTHER machine's buffer               *)
(* ------------------------------------------------------------------ *)
(* the buffer of the other machine *)
Definition obuf (f : fsm) (s : state) : list N := match f with ATCMD => ubuf s | UNSOL => cbuf s end.

Lemma put_cur_obuf : forall f c s, obuf f (put_cur f c s) = obuf f s.
Proof. intros. unfold put_cur. destruct (cu_fault c), f; reflexivity. Qed.
Lemma print_string_obuf : forall f s t, obuf f (fst (print_string f s t)) = obuf f s.
Proof. intros. unfold print_string. destruct (print_nstring _ _). apply put_cur_obuf. Qed.
Lemma print_strings_obuf : forall f s t, obuf f (fst (print_strings f s t)) = obuf f s.
Proof. intros. unfold print_strings. destruct (print_pieces _ _). apply put_cur_obuf. Qed.
Lemma ewe_obuf : forall f s, obuf f (end_with_error f s) = obuf f s.
Proof. destruct f; reflexivity. Qed.
Lemma ewo_obuf : forall f s, obuf f (end_with_ok f s) = obuf f s.
Proof. destruct f; reflexivity. Qed.
Lemma sls_obuf : forall f rd s, obuf f (set_loop_state f rd s) = obuf f s.
Proof. destruct f; reflexivity. Qed.
Lemma sfao_obuf : forall f s, obuf f (start_flush_after_ok f s) = obuf f s.
Proof. destruct f; reflexivity. Qed.
Lemma sfa_obuf : forall f a b s, obuf f (start_flush_after f a b s) = obuf f s.
Proof. destruct f; reflexivity. Qed.
Lemma setg_pos_obuf : forall f p s, obuf f (setg_pos f p s) = obuf f s.
Proof. destruct f; reflexivity. Qed.
Lemma hold_exit_obuf : forall f s z, obuf f (fst (hold_exit s z)) = obuf f s.
Proof. intros. unfold hold_exit. destruct (negb _), f; reflexivity. Qed.
Lemma ack_ok_ubuf : forall s, ubuf (ack_ok s) = ubuf s. Proof. reflexivity. Qed.
Lemma ack_error_ubuf : forall s, ubuf (ack_error s) = ubuf s. Proof. reflexivity. Qed.

Lemma apply_edit_obuf : forall f e s, obuf f (apply_edit f e s) = obuf f s.
Proof.
  intros. unfold apply_edit. destruct e as [t|]; [|reflexivity].
  destruct (_ <? _); [|reflexivity]. apply put_cur_obuf.
Qed.

Section OtherBuf.
Variable D : desc.

Lemma print_response_test_obuf : forall f s, obuf f (fst (print_response_test D f s)) = obuf f s.
Proof.
  intros. unfold print_response_test. destruct (cmd_of D f s) as [c|]; [|destruct f; reflexivity].
  destruct (c_descr c) as [d|].
  - pose proof (print_strings_obuf f s [nl_chars s; d]) as H.
    destruct (print_strings f s [nl_chars s; d]) as [s1 ok]. cbn [fst] in H.
    destruct ok; cbn [negb fst]; [|exact H].
    destruct (c_htest c); cbn [fst]; rewrite ?sls_obuf, ?sfao_obuf; exact H.
  - cbn [negb]. destruct (c_htest c); cbn [fst]; rewrite ?sls_obuf, ?sfao_obuf; reflexivity.
Qed.

Lemma header_obuf : forall f s (c : cmd) (K : state -> state),
  (forall s', obuf f (K s') = obuf f s') ->
  obuf f (let (s1, ok1) := print_string f (setg_pos f 0 s) (c_name c) in
        if negb ok1 then end_with_error f s1 else
        let (s2, ok2) := print_string f s1 [ch_EQ] in
        if negb ok2 then end_with_error f s2 else K s2) = obuf f s.
Proof.
  intros f s c K HK.
  pose proof (print_string_obuf f (setg_pos f 0 s) (c_name c)) as H1.
  destruct (print_string f (setg_pos f 0 s) (c_name c)) as [s1 ok1]. cbn [fst] in H1.
  rewrite setg_pos_obuf in H1.
  destruct ok1; cbn [negb]; [|rewrite ewe_obuf; exact H1].
  pose proof (print_string_obuf f s1 [ch_EQ]) as H2.
  destruct (print_string f s1 [ch_EQ]) as [s2 ok2]. cbn [fst] in H2.
  destruct ok2; cbn [negb]; [rewrite HK|rewrite ewe_obuf]; congruence.
Qed.

Lemma spfr_obuf : forall f s, obuf f (start_processing_format_read_args D f s) = obuf f s.
Proof.
  intros. unfold start_processing_format_read_args.
  destruct (cmd_of D f (setg_pos f 0 s)) as [c|]; [|destruct f; reflexivity].
  apply (header_obuf f s c (fun s2 => if vars_access_possible c RO then _ else if negb (c_hread c) then _ else _)).
  intros s'. destruct (vars_access_possible c RO); [destruct f; reflexivity|].
  destruct (negb (c_hread c)); [apply ewe_obuf|apply sls_obuf].
Qed.

Lemma spft_obuf : forall f s, obuf f (start_processing_format_test_args D f s) = obuf f s.
Proof.
  intros. unfold start_processing_format_test_args.
  destruct (cmd_of D f (setg_pos f 0 s)) as [c|]; [|destruct f; reflexivity].
  apply (header_obuf f s c (fun s2 => match c_vars c with _ :: _ => _ | [] => _ end)).
  intros s'. destruct (c_vars c); [|destruct f; reflexivity].
  pose proof (print_response_test_obuf f s') as H. destruct (print_response_test D f s') as [s3 ok3].
  cbn [fst] in H. destruct ok3; rewrite ?ewe_obuf; exact H.
Qed.

Lemma next_format_var_obuf : forall f s, obuf f (fst (next_format_var D f s)) = obuf f s.
Proof.
  intros. unfold next_format_var. destruct (cmd_of D f s) as [c|]; [|destruct f; reflexivity].
  destruct (_ <? _); [|destruct f; reflexivity].
  destruct (_ <=? _); cbn [fst]; [rewrite ewe_obuf|]; destruct f; reflexivity.
Qed.

Lemma format_test_args_obuf : forall f s, obuf f (format_test_args D f s) = obuf f s.
Proof.
  intros. unfold format_test_args. destruct (cmd_of D f s) as [c|]; [|destruct f; reflexivity].
  destruct (nth_error _ _) as [v|]; [|destruct f; reflexivity].
  destruct (fmt_info v (get_cur f s)) as [c1 ok].
  pose proof (put_cur_obuf f c1 s) as H0.
  destruct ok; cbn [negb]; [|rewrite ewe_obuf; exact H0].
  pose proof (next_format_var_obuf f (put_cur f c1 s)) as H1.
  destruct (next_format_var D f (put_cur f c1 s)) as [s2 handled]. cbn [fst] in H1.
  destruct handled; [congruence|].
  pose proof (print_response_test_obuf f s2) as H2. destruct (print_response_test D f s2) as [s3 ok3].
  cbn [fst] in H2. destruct ok3; rewrite ?ewe_obuf; congruence.
Qed.

Lemma spcl_ubuf : forall s, ubuf (start_print_cmd_list D s) = ubuf s.
Proof. intros. unfold start_print_cmd_list. destruct (_ =? _); reflexivity. Qed.

Lemma check_cbuf : forall s, cbuf (check_unsolicited_buffers D s) = cbuf s.
Proof.
  intros. unfold check_unsolicited_buffers, pop_unsolicited_cmd.
  destruct (ring_empty _); [reflexivity|].
  destruct (nth_error _ _) as [[ci t]|]; [|reflexivity].
  destruct t; try reflexivity.
  - exact (eq_trans (spfr_obuf UNSOL _) eq_refl).
  - exact (eq_trans (spft_obuf UNSOL _) eq_refl).
Qed.

(* --- the pure steps of the command machine --- *)
Lemma set_cmd_state_ubuf : forall s i v, ubuf (set_cmd_state s i v) = ubuf s.
Proof. intros. unfold set_cmd_state. destruct (nth_error _ _); reflexivity. Qed.

Lemma update_command_ubuf : forall s, ubuf (update_command D s) = ubuf s.
Proof.
  intros. unfold update_command.
  destruct (cmd_by_index _ _) as [c|]; [|reflexivity].
  destruct (get_cmd_state D s _) as [cs|]; [|reflexivity].
  cbv zeta.
  match goal with |- ubuf (if _ then _ else setk_index _ ?X) = _ =>
    assert (H1 : ubuf X = ubuf s); [|revert H1; generalize X; intros s1 H1] end.
  { destruct (negb _); [|reflexivity].
    destruct (_ <? _); [apply set_cmd_state_ubuf|].
    destruct (k_length (k s)); [reflexivity|].
    destruct (nth_error _ _); [|reflexivity].
    destruct (negb _); [apply set_cmd_state_ubuf|].
    destruct (_ =? _); [|reflexivity].
    destruct (c_implicit c); cbn [ubuf setk_implicit set_k]; apply set_cmd_state_ubuf. }
  destruct (_ <=? _); [|exact H1].
  destruct (negb _); exact H1.
Qed.

Lemma search_command_ubuf : forall s, ubuf (search_command D s) = ubuf s.
Proof.
  intros. unfold search_command.
  destruct (get_cmd_state D s _) as [cs|]; [|reflexivity].
  cbv zeta beta.
  repeat (first [reflexivity | match goal with
     | |- context [if ?c then _ else _] => destruct c
     | |- context [match ?x with _ => _ end] => destruct x end]).
Qed.

Lemma command_found_ubuf : forall s, ubuf (command_found D s) = ubuf s.
Proof.
  intros. unfold command_found. destruct (cmd_of D ATCMD s) as [c|]; [|reflexivity].
  destruct (k_type (k s)); try reflexivity.
  - destruct (c_only_test c); [reflexivity|]. destruct (negb _); reflexivity.
  - destruct (c_only_test c); [reflexivity|]. apply (spfr_obuf ATCMD).
  - destruct (cbuf _); reflexivity.
Qed.

Lemma cmd_list_next_ubuf : forall s, ubuf (fst (cmd_list_next_cmd D s)) = ubuf s.
Proof. intros. unfold cmd_list_next_cmd. destruct (_ <=? _); reflexivity. Qed.

Lemma print_cmd_form_ubuf : forall s c avail suffix next,
  ubuf (print_cmd_form s c avail suffix next) = ubuf s.
Proof.
  intros. unfold print_cmd_form. destruct avail; [|reflexivity].
  unfold print_current_cmd_full_name.
  set (s1 := setk_position 0 s).
  assert (H1 : forall p : state * bool, ubuf (fst p) = ubuf s ->
     ubuf (let (s2, ok) := (let (s1', ok1) := p in if negb ok1 then (s1', false)
                            else print_strings ATCMD s1' [txt_AT; c_name c; suffix; nl_chars s1']) in
           if negb ok then ack_error s2 else s2 |> start_flush_raw_c CS_PRINT_CMD |> setk_type next) = ubuf s).
  { intros [s1' ok1] Hp. cbn [fst] in Hp. destruct ok1; cbn [negb]; [|exact Hp].
    pose proof (print_strings_obuf ATCMD s1' [txt_AT; c_name c; suffix; nl_chars s1']) as H.
    destruct (print_strings ATCMD s1' _) as [s2 ok]. cbn [fst obuf] in H.
    destruct ok; cbn [negb]; [|rewrite ack_error_ubuf; congruence].
    change (ubuf s2 = ubuf s). congruence. }
  apply H1.
  destruct (k_length (k s1) =? 0); [|reflexivity].
  pose proof (print_string_obuf ATCMD s1 (nl_chars s1)) as H.
  destruct (print_string ATCMD s1 (nl_chars s1)) as [s' ok]. cbn [fst obuf] in *.
  destruct ok; exact H.
Qed.

Lemma print_cmd_list_ubuf : forall s, ubuf (print_cmd_list D s) = ubuf s.
Proof.
  intros. unfold print_cmd_list. destruct (cmd_by_index _ _) as [c|]; [|reflexivity].
  cbv zeta.
  assert (N : forall s0, ubuf (let (s1, more) := cmd_list_next_cmd D s0 in if more then s1 else ack_ok s1) = ubuf s0).
  { intros s0. pose proof (cmd_list_next_ubuf s0) as H. destruct (cmd_list_next_cmd D s0) as [s1 more].
    cbn [fst] in H. destruct more; [exact H|rewrite ack_ok_ubuf; exact H]. }
  destruct (k_type _).
  - destruct (is_command_disable _ _ _); [rewrite N|]; reflexivity.
  - rewrite print_cmd_form_ubuf. reflexivity.
  - rewrite print_cmd_form_ubuf. reflexivity.
  - rewrite print_cmd_form_ubuf. reflexivity.
  - rewrite print_cmd_form_ubuf. reflexivity.
  - rewrite N. reflexivity.
Qed.

Lemma process_hold_state_ubuf : forall s, ubuf (process_hold_state s) = ubuf s.
Proof. intros. unfold process_hold_state. destruct (_ =? _)%Z; [reflexivity|]. destruct (_ <? _)%Z; reflexivity. Qed.
Lemma reset_state_ubuf : forall s, ubuf (reset_state s) = ubuf s.
Proof. intros. unfold reset_state. destruct (k_hold _); reflexivity. Qed.
End OtherBuf.

Section OtherBufW.
Variable D : desc.
Variables ioS muS hS : Type.
Variable io_read : ioS -> ioS * option N.
Variable io_write : ioS -> N -> ioS * bool.
Variable mu_lock : muS -> muS * bool.
Variable mu_unlock : muS -> muS * bool.
Variable h_call : hS -> hreq -> hS * hres.
Local Notation world := (Fsm.world ioS muS hS).
Local Notation st := (Fsm.st ioS muS hS).
Local Notation call_h := (Fsm.call_h D ioS muS hS mu_lock mu_unlock h_call).
Local Notation format_read_args := (Fsm.format_read_args D ioS muS hS mu_lock mu_unlock h_call).
Local Notation parse_write_args := (Fsm.parse_write_args D ioS muS hS mu_lock mu_unlock h_call).
Local Notation process_rt_loop := (Fsm.process_rt_loop D ioS muS hS mu_lock mu_unlock h_call).
Local Notation process_write_loop := (Fsm.process_write_loop D ioS muS hS mu_lock mu_unlock h_call).
Local Notation process_run_loop := (Fsm.process_run_loop D ioS muS hS mu_lock mu_unlock h_call).
Local Notation reading := (Fsm.reading ioS muS hS io_read).
Local Notation unsolicited_events_service :=
  (Fsm.unsolicited_events_service D ioS muS hS io_write mu_lock mu_unlock h_call).
Local Notation cmd_service :=
  (Fsm.cmd_service D ioS muS hS io_read io_write mu_lock mu_unlock h_call).

Lemma call_h_obuf : forall f w q, obuf f (st (fst (call_h w q))) = obuf f (st w).
Proof.
  intros. pose proof (call_h_kframe D ioS muS hS mu_lock mu_unlock h_call w q) as K.
  destruct f; [apply (kframe_ubuf _ _ K)|apply (kframe_cbuf _ _ K)].
Qed.

Lemma format_read_args_obuf : forall f w, obuf f (st (fst (format_read_args f w))) = obuf f (st w).
Proof.
  intros. unfold Fsm.format_read_args.
  destruct (g_cmd f (st w)) as [ci|]; [|destruct f; reflexivity].
  destruct (cmd_of D f (st w)) as [c|]; [|destruct f; reflexivity].
  destruct (nth_error _ _) as [v|]; [|destruct f; reflexivity].
  assert (G : forall w1 : world, obuf f (st w1) = obuf f (st w) -> forall failed : bool,
    obuf f (st (fst (if failed then Fsm.busy ioS muS hS (Fsm.upd_st ioS muS hS (end_with_error f) w1)
      else Fsm.busy ioS muS hS (Fsm.upd_st ioS muS hS (fun s =>
        match nth_error (mem s) (v_slot v) with
        | None => set_fault_flag s
        | Some data =>
          let (c1, ok) := fmt_var v data (get_cur f s) in
          let s1 := put_cur f c1 s in
          if negb ok then end_with_error f s1
          else
            let (s2, handled) := next_format_var D f s1 in
            if handled then s2
            else if c_hread c then set_loop_state f true s2
            else start_flush_after_ok f s2
        end) w1)))) = obuf f (st w)).
  { intros w1 H1 failed. destruct failed; cbn [fst Fsm.busy Fsm.upd_st Fsm.set_st Fsm.st];
      [rewrite ewe_obuf; exact H1|].
    destruct (nth_error _ _) as [data|]; [|destruct f; exact H1].
    destruct (fmt_var v data (get_cur f (st w1))) as [c1 ok].
    pose proof (put_cur_obuf f c1 (st w1)) as H0.
    destruct ok; cbn [negb]; [|rewrite ewe_obuf; congruence].
    pose proof (next_format_var_obuf D f (put_cur f c1 (st w1))) as H2.
    destruct (next_format_var D f (put_cur f c1 (st w1))) as [s2 handled]. cbn [fst] in H2.
    destruct handled; [congruence|].
    destruct (c_hread c); rewrite ?sls_obuf, ?sfao_obuf; congruence. }
  destruct (v_hread v).
  - pose proof (call_h_obuf f w (VRead f ci (g_var f (st w)))) as H.
    destruct (call_h w _) as [w' r]. cbn [fst] in H. exact (G w' H (negb (r_code r =? 0)%Z)).
  - exact (G w eq_refl false).
Qed.

Lemma process_rt_loop_obuf : forall rd f w, obuf f (st (fst (process_rt_loop rd f w))) = obuf f (st w).
Proof.
  intros. unfold Fsm.process_rt_loop.
  destruct (g_cmd f (st w)) as [ci|]; [|destruct f; reflexivity].
  match goal with |- context [call_h w ?q] => pose proof (call_h_obuf f w q) as H; destruct (call_h w q) as [w1 r] end.
  cbn [fst] in *. cbn [Fsm.busy Fsm.upd_st Fsm.set_st Fsm.st fst].
  pose proof (apply_edit_obuf f (r_edit r) (st w1)) as He.
  set (se := apply_edit f (r_edit r) (st w1)) in *.
  assert (Hs : obuf f se = obuf f (st w)) by congruence.
  destruct (_ =? RC_OK)%Z; [rewrite ewo_obuf; exact Hs|].
  destruct (_ =? RC_DATA_OK)%Z; [rewrite sfa_obuf; exact Hs|].
  destruct (_ =? RC_DATA_NEXT)%Z; [destruct rd; rewrite sfa_obuf; exact Hs|].
  destruct (_ =? RC_NEXT)%Z; [destruct rd; [rewrite spfr_obuf|rewrite spft_obuf]; exact Hs|].
  destruct (_ =? RC_HOLD)%Z; [destruct f; exact Hs|].
  destruct (_ =? RC_HOLD_EXIT_OK)%Z; [rewrite ewo_obuf, hold_exit_obuf; exact Hs|].
  destruct (_ =? RC_HOLD_EXIT_ERROR)%Z; [rewrite ewe_obuf, hold_exit_obuf; exact Hs|].
  destruct (_ && _); [|rewrite ewe_obuf; exact Hs].
  destruct f; [cbn [obuf]; rewrite spcl_ubuf; exact Hs|exact Hs].
Qed.

Theorem C10_event_machine_keeps_cbuf : forall w,
  cbuf (st (fst (unsolicited_events_service w))) = cbuf (st w).
Proof.
  intros. unfold Fsm.unsolicited_events_service.
  destruct (u_state (u (st w))).
  - destruct (negb _); [|reflexivity].
    cbn [fst Fsm.busy Fsm.upd_st Fsm.set_st Fsm.st].
    destruct (ring_items D (st w)); cbn [Fsm.st Fsm.logw]; apply check_cbuf.
  - apply (format_read_args_obuf UNSOL).
  - cbn [fst Fsm.busy Fsm.upd_st Fsm.set_st Fsm.st]. apply (format_test_args_obuf D UNSOL).
  - apply (process_rt_loop_obuf true UNSOL).
  - apply (process_rt_loop_obuf false UNSOL).
  - cbn [fst Fsm.busy Fsm.upd_st Fsm.set_st Fsm.st]. unfold unsolicited_process_io_write_wait.
    destruct (negb _); reflexivity.
  - unfold Fsm.unsolicited_process_io_write.
    destruct (wbuf_char _ _ _) as [ch|]; [|reflexivity].
    destruct (ch =? 0)%N.
    + cbn [fst Fsm.busy Fsm.upd_st Fsm.set_st Fsm.st]. destruct (u_wstate _); reflexivity.
    + destruct (io_write _ ch) as [io' ok]. destruct ok; reflexivity.
  - reflexivity.
  - reflexivity.
  - cbn [fst Fsm.busy Fsm.upd_st Fsm.set_st Fsm.st]. apply (spfr_obuf D UNSOL).
  - cbn [fst Fsm.busy Fsm.upd_st Fsm.set_st Fsm.st]. apply (spft_obuf D UNSOL).
Qed.

(* --- command machine --- *)
Lemma reading_ubuf : forall w (body : N -> state -> state),
  (forall ch s, ubuf (body ch s) = ubuf s) -> ubuf (st (fst (reading w body))) = ubuf (st w).
Proof.
  intros w body Hb. unfold Fsm.reading, Fsm.read_cmd_char.
  destruct (io_read _) as [io' r]. destruct r as [ch|]; [|reflexivity].
  cbn [negb fst Fsm.busy Fsm.upd_st Fsm.set_st Fsm.st]. rewrite Hb.
  destruct (_ && _); reflexivity.
Qed.

Lemma process_write_loop_ubuf : forall w, ubuf (st (fst (process_write_loop w))) = ubuf (st w).
Proof.
  intros. unfold Fsm.process_write_loop.
  destruct (g_cmd ATCMD (st w)) as [ci|]; [|reflexivity].
  match goal with |- context [call_h w ?q] => pose proof (call_h_obuf ATCMD w q) as H; destruct (call_h w q) as [w1 r] end.
  cbn [fst obuf] in *. cbn [Fsm.busy Fsm.upd_st Fsm.set_st Fsm.st fst].
  destruct (_ || _); [exact H|]. destruct (_ || _); [exact H|]. destruct (_ =? _)%Z; exact H.
Qed.

Lemma process_run_loop_ubuf : forall w, ubuf (st (fst (process_run_loop w))) = ubuf (st w).
Proof.
  intros. unfold Fsm.process_run_loop.
  destruct (g_cmd ATCMD (st w)) as [ci|]; [|reflexivity].
  match goal with |- context [call_h w ?q] => pose proof (call_h_obuf ATCMD w q) as H; destruct (call_h w q) as [w1 r] end.
  cbn [fst obuf] in *. cbn [Fsm.busy Fsm.upd_st Fsm.set_st Fsm.st fst].
  destruct (_ || _); [exact H|]. destruct (_ || _); [exact H|]. destruct (_ =? _)%Z; [exact H|].
  destruct (_ =? _)%Z; [rewrite spcl_ubuf|]; exact H.
Qed.

Lemma parse_write_args_ubuf : forall w, ubuf (st (fst (parse_write_args w))) = ubuf (st w).
Proof.
  intros. unfold Fsm.parse_write_args.
  destruct (g_cmd ATCMD (st w)) as [ci|]; [|reflexivity].
  destruct (cmd_of D ATCMD (st w)) as [c|]; [|reflexivity].
  destruct (nth_error _ _) as [v|]; [|reflexivity].
  destruct (nth_error _ _) as [data|]; [|reflexivity].
  destruct (decode_var _ _ _) as [[[pst data'] wsz] n].
  destruct pst; try reflexivity.
  assert (G : forall (w3 : world) (failed : bool), ubuf (st w3) = ubuf (st w) ->
    ubuf (st (fst (if failed then Fsm.busy ioS muS hS (Fsm.upd_st ioS muS hS ack_error w3)
     else Fsm.busy ioS muS hS (Fsm.upd_st ioS muS hS (fun s =>
            let idx := S (k_index (k s)) in
            let s := setk_index idx s in
            if (idx <? length (c_vars c)) && comma then setk_var idx s
            else if comma then ack_error s
            else if c_need_all c && negb (idx =? length (c_vars c)) then ack_error s
            else if negb (c_hwrite c) then ack_ok s
            else setk_state CS_WRITE_LOOP s) w3)))) = ubuf (st w)).
  { intros w3 failed H3. destruct failed; cbn [fst Fsm.busy Fsm.upd_st Fsm.set_st Fsm.st]; [exact H3|].
    destruct (_ && _); [exact H3|]. destruct comma; [exact H3|].
    destruct (_ && _); [exact H3|]. destruct (negb _); exact H3. }
  destruct (v_hwrite v).
  - match goal with |- context [call_h ?ww ?q] => pose proof (call_h_obuf ATCMD ww q) as H; destruct (call_h ww q) as [w1 r] end.
    cbn [fst obuf] in H. exact (G w1 (negb (r_code r =? 0)%Z) H).
  - match goal with |- context [Fsm.upd_st _ _ _ _ ?w3] => exact (G w3 false eq_refl) end.
Qed.

Theorem C10_command_machine_keeps_ubuf : forall w,
  ubuf (st (fst (cmd_service w))) = ubuf (st w).
Proof.
  intros. unfold Fsm.cmd_service.
  destruct (k_state (k (st w)));
    try (cbn [fst Fsm.busy Fsm.upd_st Fsm.set_st Fsm.st]; reflexivity).
  - apply reading_ubuf. intros ch s. destruct (_ =? _)%N; [reflexivity|]. destruct (_ =? _)%N; reflexivity.
  - apply reading_ubuf. intros ch s. destruct (_ =? _)%N; [reflexivity|]. destruct (_ || _); reflexivity.
  - apply reading_ubuf. intros ch s. destruct (_ =? _)%N; [reflexivity|]. destruct (_ =? _)%N; [reflexivity|].
    destruct (_ =? _)%N; reflexivity.
  - apply reading_ubuf. intros ch s.
    repeat (first [reflexivity | progress cbv zeta | match goal with |- context [if ?c then _ else _] => destruct c end]).
  - cbn [fst Fsm.busy Fsm.upd_st Fsm.set_st Fsm.st]. apply update_command_ubuf.
  - apply reading_ubuf. intros ch s. destruct (_ =? _)%N; [reflexivity|]. destruct (_ =? _)%N; reflexivity.
  - cbn [fst Fsm.busy Fsm.upd_st Fsm.set_st Fsm.st]. apply search_command_ubuf.
  - cbn [fst Fsm.busy Fsm.upd_st Fsm.set_st Fsm.st]. apply command_found_ubuf.
  - apply reading_ubuf. intros ch s. destruct (cmd_of D ATCMD s) as [c|]; [|reflexivity].
    repeat (first [reflexivity | progress cbv zeta | match goal with |- context [if ?c then _ else _] => destruct c end]).
  - apply parse_write_args_ubuf.
  - apply (format_read_args_obuf ATCMD).
  - apply reading_ubuf. intros ch s. destruct (_ =? _)%N; [apply (spft_obuf D ATCMD)|].
    destruct (_ =? _)%N; reflexivity.
  - cbn [fst Fsm.busy Fsm.upd_st Fsm.set_st Fsm.st]. apply (format_test_args_obuf D ATCMD).
  - apply process_write_loop_ubuf.
  - apply (process_rt_loop_obuf true ATCMD).
  - apply (process_rt_loop_obuf false ATCMD).
  - apply process_run_loop_ubuf.
  - cbn [fst Fsm.busy Fsm.upd_st Fsm.set_st Fsm.st]. apply process_hold_state_ubuf.
  - cbn [fst Fsm.busy Fsm.upd_st Fsm.set_st Fsm.st]. unfold process_io_write_wait. destruct (negb _); reflexivity.
  - unfold Fsm.process_io_write.
    destruct (wbuf_char _ _ _) as [ch|]; [|reflexivity].
    destruct (ch =? 0)%N.
    + cbn [fst Fsm.busy Fsm.upd_st Fsm.set_st Fsm.st]. destruct (k_wstate _); try reflexivity.
      destruct (cstate_beq _ _); reflexivity.
    + destruct (io_write _ ch) as [io' ok]. destruct ok; reflexivity.
  - cbn [fst Fsm.busy Fsm.upd_st Fsm.set_st Fsm.st]. apply reset_state_ubuf.
  - cbn [fst Fsm.busy Fsm.upd_st Fsm.set_st Fsm.st]. apply (spfr_obuf D ATCMD).
  - cbn [fst Fsm.busy Fsm.upd_st Fsm.set_st Fsm.st]. apply (spft_obuf D ATCMD).
  - cbn [fst Fsm.busy Fsm.upd_st Fsm.set_st Fsm.st]. apply print_cmd_list_ubuf.
Qed.
End OtherBufW.

(* ------------------------------------------------------------------ *)
(* 5b. the same on the scripted handler environment of Script.v:        *)
(*     "the handler returns c1..cn" is a statement about its script     *)
(* ------------------------------------------------------------------ *)

(* the results still to be delivered for a key *)
Fixpoint script_of (h : shs) (key : hkey) : list hres :=
  match h with
  | [] => []
  | (k0, sc) :: r => if key_eqb k0 key then sc else script_of r key
  end.

Lemma s_call_script : forall h q x sc, script_of h (key_of q) = x :: sc ->
  snd (s_call h q) = x /\ script_of (fst (s_call h q)) (key_of q) = sc.
Proof.
  induction h as [|[k0 s0] r IH]; intros q x sc H; cbn [script_of] in H; [discriminate|].
  cbn [s_call]. destruct (key_eqb k0 (key_of q)) eqn:E.
  - subst s0. cbn [fst snd script_of]. rewrite E. split; reflexivity.
  - specialize (IH q x sc H). destruct (s_call r q) as [r' x']. cbn [fst snd] in *.
    cbn [script_of]. rewrite E. exact IH.
Qed.

Lemma scripted_returns : forall key rs rest h, script_of h key = rs ++ rest ->
  h_returns_any shs s_call (fun q => key_of q = key) h rs.
Proof.
  intros key. induction rs as [|r rs IH]; intros rest h H; cbn [h_returns_any]; [exact I|].
  intros q Hq. subst key. cbn [app] in H.
  destruct (s_call_script h q r (rs ++ rest) H) as [H1 H2].
  split; [exact H1|]. apply (IH rest). exact H2.
Qed.

Section Scripted.
Variable D : desc.
Local Notation st := (Fsm.st sio smu shs).
Local Notation hs := (Fsm.hs sio smu shs).
Local Notation tr := (Fsm.tr sio smu shs).
Local Notation call_h := (Fsm.call_h D sio smu shs s_lock s_unlock s_call).
Local Notation cstep := (cstep D sio smu shs s_read s_write s_lock s_unlock s_call).

Theorem C10_write_sequence_scripted : forall rs rn rest (w : sworld) ci,
  k_state (k (st w)) = CS_WRITE_LOOP -> k_cmd (k (st w)) = Some ci ->
  script_of (hs w) (0, ci, 0) = rs ++ rn :: rest ->
  (forall r, In r rs -> terminal (spec_action K_WRITE ATCMD (r_code r)) = false) ->
  terminal (spec_action K_WRITE ATCMD (r_code rn)) = true ->
  let q := HWrite ci (firstn (S (k_length (k (st w)))) (cbuf (st w)))
                  (k_length (k (st w))) (k_index (k (st w))) in
  let n := length rs in
  (forall m, m <= n ->
     k_state (k (st (iter m cstep w))) = CS_WRITE_LOOP /\
     calls_of (tr (iter m cstep w)) =
       rev (map (fun r => (q, r_code r)) (firstn m rs)) ++ calls_of (tr w)) /\
  let wn := iter n cstep w in
  let w1 := fst (call_h wn q) in
  snd (call_h wn q) = rn /\
  st (iter (S n) cstep w) =
    match spec_action K_WRITE ATCMD (r_code rn) with
    | A_OK => ack_ok (st w1) | A_AGAIN => st w1 | A_HOLD => enable_hold_state (st w1)
    | _ => ack_error (st w1) end /\
  k_state (k (st (iter (S n) cstep w))) <> CS_WRITE_LOOP /\
  calls_of (tr (iter (S n) cstep w)) =
    rev (map (fun r => (q, r_code r)) (rs ++ [rn])) ++ calls_of (tr w).
Proof.
  intros rs rn rest w ci HL Hc Hs Hnt Ht q.
  apply (C10_write_sequence D sio smu shs s_read s_write s_lock s_unlock s_call rs rn w ci HL Hc);
    try assumption.
  apply (h_returns_any_one shs s_call (fun q0 => key_of q0 = (0, ci, 0))); [reflexivity|].
  apply (scripted_returns (0, ci, 0) (rs ++ [rn]) rest). rewrite <- app_assoc. exact Hs.
Qed.

Theorem C10_run_sequence_scripted : forall rs rn rest (w : sworld) ci,
  k_state (k (st w)) = CS_RUN_LOOP -> k_cmd (k (st w)) = Some ci ->
  script_of (hs w) (2, ci, 0) = rs ++ rn :: rest ->
  (forall r, In r rs -> terminal (spec_action K_RUN ATCMD (r_code r)) = false) ->
  terminal (spec_action K_RUN ATCMD (r_code rn)) = true ->
  let q := HRun ci in
  let n := length rs in
  (forall m, m <= n ->
     k_state (k (st (iter m cstep w))) = CS_RUN_LOOP /\
     calls_of (tr (iter m cstep w)) =
       rev (map (fun r => (q, r_code r)) (firstn m rs)) ++ calls_of (tr w)) /\
  let wn := iter n cstep w in
  let w1 := fst (call_h wn q) in
  snd (call_h wn q) = rn /\
  st (iter (S n) cstep w) =
    match spec_action K_RUN ATCMD (r_code rn) with
    | A_OK => ack_ok (st w1) | A_AGAIN => st w1 | A_HOLD => enable_hold_state (st w1)
    | A_LIST => start_print_cmd_list D (st w1)
    | _ => ack_error (st w1) end /\
  k_state (k (st (iter (S n) cstep w))) <> CS_RUN_LOOP /\
  calls_of (tr (iter (S n) cstep w)) =
    rev (map (fun r => (q, r_code r)) (rs ++ [rn])) ++ calls_of (tr w).
Proof.
  intros rs rn rest w ci HL Hc Hs Hnt Ht q.
  apply (C10_run_sequence D sio smu shs s_read s_write s_lock s_unlock s_call rs rn w ci HL Hc);
    try assumption.
  apply (h_returns_any_one shs s_call (fun q0 => key_of q0 = (2, ci, 0))); [reflexivity|].
  apply (scripted_returns (2, ci, 0) (rs ++ [rn]) rest). rewrite <- app_assoc. exact Hs.
Qed.

Local Notation rd_run := (rd_run D sio smu shs s_read s_write s_lock s_unlock s_call).

Theorem C10_read_sequence_scripted : forall rs rn rest (w : sworld) ci c,
  k_state (k (st w)) = CS_READ_LOOP -> k_cmd (k (st w)) = Some ci -> cmd_at D ci = Some c ->
  c_hread c = true -> vars_access_possible c RO = false ->
  length (c_name c) + 1 < asz (st w) -> (forall x, In x (c_name c) -> x <> 0%N) ->
  script_of (hs w) (1, ci, 0) = rs ++ rn :: rest ->
  (forall r, In r rs -> terminal (spec_action K_READ ATCMD (r_code r)) = false) ->
  terminal (spec_action K_READ ATCMD (r_code rn)) = true ->
  let n := length rs in
  let hdr := c_name c ++ [ch_EQ] in
  let wn := fst (rd_run n w) in
  let qn := rq ci (st wn) in
  let se := apply_edit ATCMD (r_edit rn) (st (fst (call_h wn qn))) in
  k_state (k (st wn)) = CS_READ_LOOP /\
  snd (call_h wn qn) = rn /\
  st (fst (rd_run (S n) w)) =
    match spec_action K_READ ATCMD (r_code rn) with
    | A_OK => ack_ok se
    | A_ERROR => ack_error se
    | A_EMIT_OK => ack_ok (setk_state CS_AFTER_OK (start_flush_c CS_AFTER_OK se))
    | A_HOLD => enable_hold_state se
    | A_RELEASE_OK => ack_ok (fst (hold_exit se ST_OK))
    | A_RELEASE_ERROR => ack_error (fst (hold_exit se ST_ERROR))
    | _ => se
    end /\
  calls_of (tr (fst (rd_run (S n) w))) =
    rev (combine (rq ci (st w) ::
                  repeat (HRead ATCMD ci (hdr ++ [0%N]) (length hdr) (asz (st w))) n)
                 (map r_code (rs ++ [rn]))) ++ calls_of (tr w) /\
  snd (rd_run (S n) w) = units_of (asz (st w)) (text_of (cbuf (st w))) hdr (rs ++ [rn]).
Proof.
  intros rs rn rest w ci c HL Hc Hat Hhr Hnv Hfit Hnz Hs Hnt Ht.
  apply (C10_read_sequence D sio smu shs s_read s_write s_lock s_unlock s_call rs rn w ci c);
    try assumption.
  apply (h_returns_any_weaken shs s_call (is_hread ci) (fun q0 => key_of q0 = (1, ci, 0))).
  - intros q Hq. destruct q; try contradiction. destruct f; try contradiction.
    cbn [is_hread] in Hq. subst. reflexivity.
  - apply (scripted_returns (1, ci, 0) (rs ++ [rn]) rest). rewrite <- app_assoc. exact Hs.
Qed.

End Scripted.
