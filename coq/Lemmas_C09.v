(* Lemmas_C09.v — property C09: a disabled command (own flag or group flag) is invisible.
   Part 1: the request forms served by the dispatcher (command_found / CS_PARSE_COMMAND_ARGS) agree
           with Spec.dispatch_accepts; a refused form is answered ERROR with no side effect.
   Part 2: in every history in which the enable flags are changed only between lines, whenever the
           command machine is in a state from which it calls a handler / variable callback or stores
           into a variable, the selected command is a registered, ENABLED one; and one step of the
           command machine stores at most into the current variable of the selected command.
   (The resolution part — a disabled command cannot be matched, abbreviated, nor make other
   abbreviations ambiguous — is C09_resolve_enabled / C09_resolve_ext in Lemmas_C02.v.)
   All the work for Properties_C09.v is here. *)
From Coq Require Import List NArith ZArith Bool Arith Lia.
From CatV Require Import Bytes Defs Codec Spec Fsm Script TraceDefs ResolveDefs TextDefs CollectDefs Lemmas_C02.
Import ListNotations.
Local Open Scope nat_scope.

(* ---------- reduction of record projections over setters; never touches arithmetic ---------- *)
Ltac sred :=
  cbn [k u cbuf ubuf mem dis_cmd dis_grp fault gL gS gR
       k_index k_partial k_length k_position k_write_size k_cmd k_var k_type k_char k_state k_cr
       k_hold k_hold_exit k_wbuf k_wstate k_wafter k_implicit
       u_state u_index u_position u_cmd u_var u_type u_wbuf u_wstate u_wafter u_ring u_tail u_head u_count
       set_k set_u set_cbuf set_ubuf set_mem set_dis_cmd set_dis_grp set_fault set_gL set_gS set_gR
       set_k_index set_k_partial set_k_length set_k_position set_k_write_size set_k_cmd set_k_var
       set_k_type set_k_char set_k_state set_k_cr set_k_hold set_k_hold_exit set_k_wbuf set_k_wstate
       set_k_wafter set_k_implicit
       set_u_state set_u_index set_u_position set_u_cmd set_u_var set_u_type set_u_wbuf set_u_wstate
       set_u_wafter set_u_ring set_u_tail set_u_head set_u_count
       setk_index setk_partial setk_length setk_position setk_write_size setk_cmd setk_var setk_type
       setk_char setk_state setk_cr setk_hold setk_hold_exit setk_wbuf setk_wstate setk_wafter
       setk_implicit
       setu_state setu_index setu_position setu_cmd setu_var setu_type setu_wbuf setu_wstate
       setu_wafter setu_ring setu_tail setu_head setu_count
       g_pos setg_pos g_buf setg_buf g_cmd g_var setg_var g_index setg_index g_bsz asz usz
       set_fault_flag fst snd cu_buf cu_pos cu_fault].
Ltac sred_in H :=
  cbn [k u cbuf ubuf mem dis_cmd dis_grp fault gL gS gR
       k_index k_partial k_length k_position k_write_size k_cmd k_var k_type k_char k_state k_cr
       k_hold k_hold_exit k_wbuf k_wstate k_wafter k_implicit
       u_state u_index u_position u_cmd u_var u_type u_wbuf u_wstate u_wafter u_ring u_tail u_head u_count
       set_k set_u set_cbuf set_ubuf set_mem set_dis_cmd set_dis_grp set_fault set_gL set_gS set_gR
       set_k_index set_k_partial set_k_length set_k_position set_k_write_size set_k_cmd set_k_var
       set_k_type set_k_char set_k_state set_k_cr set_k_hold set_k_hold_exit set_k_wbuf set_k_wstate
       set_k_wafter set_k_implicit
       set_u_state set_u_index set_u_position set_u_cmd set_u_var set_u_type set_u_wbuf set_u_wstate
       set_u_wafter set_u_ring set_u_tail set_u_head set_u_count
       setk_index setk_partial setk_length setk_position setk_write_size setk_cmd setk_var setk_type
       setk_char setk_state setk_cr setk_hold setk_hold_exit setk_wbuf setk_wstate setk_wafter
       setk_implicit
       setu_state setu_index setu_position setu_cmd setu_var setu_type setu_wbuf setu_wstate
       setu_wafter setu_ring setu_tail setu_head setu_count
       g_pos setg_pos g_buf setg_buf g_cmd g_var setg_var g_index setg_index g_bsz asz usz
       set_fault_flag fst snd cu_buf cu_pos cu_fault] in H.


Ltac sfull :=
  cbv [k u cbuf ubuf mem dis_cmd dis_grp fault gL gS gR
       k_index k_partial k_length k_position k_write_size k_cmd k_var k_type k_char k_state k_cr
       k_hold k_hold_exit k_wbuf k_wstate k_wafter k_implicit
       u_state u_index u_position u_cmd u_var u_type u_wbuf u_wstate u_wafter u_ring u_tail u_head u_count
       set_k set_u set_cbuf set_ubuf set_mem set_dis_cmd set_dis_grp set_fault set_gL set_gS set_gR
       set_k_index set_k_partial set_k_length set_k_position set_k_write_size set_k_cmd set_k_var
       set_k_type set_k_char set_k_state set_k_cr set_k_hold set_k_hold_exit set_k_wbuf set_k_wstate
       set_k_wafter set_k_implicit
       set_u_state set_u_index set_u_position set_u_cmd set_u_var set_u_type set_u_wbuf set_u_wstate
       set_u_wafter set_u_ring set_u_tail set_u_head set_u_count
       setk_index setk_partial setk_length setk_position setk_write_size setk_cmd setk_var setk_type
       setk_char setk_state setk_cr setk_hold setk_hold_exit setk_wbuf setk_wstate setk_wafter
       setk_implicit
       setu_state setu_index setu_position setu_cmd setu_var setu_type setu_wbuf setu_wstate
       setu_wafter setu_ring setu_tail setu_head setu_count
       g_pos setg_pos g_buf setg_buf g_cmd g_var setg_var g_index setg_index g_bsz asz usz
       set_fault_flag fst snd cu_buf cu_pos cu_fault].

(* ---------- cursors ---------- *)
Lemma cur_store_in : forall c i v, i < length (cu_buf c) ->
  cur_store c i v = mkCur (upd (cu_buf c) i v) (cu_pos c) (cu_fault c).
Proof. intros c i v H. unfold cur_store. apply Nat.ltb_lt in H. rewrite H. reflexivity. Qed.

Lemma cur_store_list_in : forall l c i, i + length l <= length (cu_buf c) ->
  cu_fault (cur_store_list c i l) = cu_fault c /\
  length (cu_buf (cur_store_list c i l)) = length (cu_buf c) /\
  cu_pos (cur_store_list c i l) = cu_pos c.
Proof.
  induction l as [|x l IH]; intros c i H; cbn [cur_store_list].
  - auto.
  - cbn [length] in H. rewrite cur_store_in by lia.
    destruct (IH (mkCur (upd (cu_buf c) i x) (cu_pos c) (cu_fault c)) (S i)) as [A [B C]].
    + cbn [cu_buf]. rewrite upd_length. lia.
    + cbn [cu_buf cu_pos cu_fault] in *. rewrite upd_length in B. auto.
Qed.

Lemma print_nstring_in : forall c t, cu_pos c <= length (cu_buf c) ->
  cu_fault (fst (print_nstring c t)) = cu_fault c /\
  length (cu_buf (fst (print_nstring c t))) = length (cu_buf c) /\
  cu_pos (fst (print_nstring c t)) <= length (cu_buf c).
Proof.
  intros c t H. unfold print_nstring.
  destruct (length (cu_buf c) <? cu_pos c) eqn:E1; [apply Nat.ltb_lt in E1; lia|].
  destruct (length (cu_buf c) - cu_pos c <=? length t) eqn:E2; cbn [fst]; [auto|].
  apply Nat.leb_gt in E2.
  destruct (cur_store_list_in t c (cu_pos c)) as [A [B C]]; [lia|].
  unfold cur_set_pos. rewrite cur_store_in; cbn [cu_buf cu_pos cu_fault]; [|lia].
  rewrite upd_length. repeat split; auto; lia.
Qed.

Lemma text_of_strncpy_ERROR : forall n, 5 <= n -> text_of (strncpy_buf n txt_ERROR) = txt_ERROR.
Proof.
  intros n H. unfold strncpy_buf, txt_ERROR.
  do 5 (destruct n as [|n]; [lia|]). destruct n; reflexivity.
Qed.

Section Forms.
Variable D : desc.

Definition refused (s s' : state) : Prop := s' = ack_error s.

Lemma refused_facts : forall s s', refused s s' -> 5 <= length (cbuf s) ->
  mem s' = mem s /\ u s' = u s /\ dis_cmd s' = dis_cmd s /\ dis_grp s' = dis_grp s /\
  fault s' = fault s /\ k_cmd (k s') = k_cmd (k s) /\
  k_state (k s') = CS_FLUSH_WAIT /\ k_wafter (k s') = CS_AFTER_RESET /\
  text_of (cbuf s') = txt_ERROR /\ gS s' = S (gS s).
Proof.
  intros s s' R H. red in R. subst s'. unfold ack_error, start_flush_c. sred.
  repeat split; try reflexivity. apply text_of_strncpy_ERROR. exact H.
Qed.

Theorem C09_only_test : forall c f, c_only_test c = true -> f <> F_TEST -> dispatch_accepts c f = false.
Proof. intros c f H Hf. destruct f; cbn [dispatch_accepts]; rewrite ?H; try reflexivity. congruence. Qed.

Theorem C09_run_form : forall s c, cmd_of D ATCMD s = Some c -> k_type (k s) = T_RUN ->
  if dispatch_accepts c F_RUN then command_found D s = setk_state CS_RUN_LOOP s
  else refused s (command_found D s).
Proof.
  intros s c Hc Ht. unfold command_found, refused. rewrite Hc, Ht. cbn [dispatch_accepts].
  destruct (c_only_test c), (c_hrun c); reflexivity.
Qed.

(* printing through the command machine's cursor from a position inside the buffer: only the
   buffer content and the position change *)
Lemma print_string_A : forall s t, k_position (k s) <= length (cbuf s) ->
  exists b p, length b = length (cbuf s) /\ p <= length (cbuf s) /\
    fst (print_string ATCMD s t) = (s |> set_cbuf b |> setk_position p).
Proof.
  intros s t H. unfold print_string.
  pose proof (print_nstring_in (get_cur ATCMD s) t) as P. unfold get_cur in *. sred_in P. sred.
  specialize (P H). destruct (print_nstring (mkCur (cbuf s) (k_position (k s)) false) t) as [c ok].
  cbn [fst] in *. destruct P as [A [B C]].
  exists (cu_buf c), (cu_pos c). unfold put_cur. sred. rewrite A. auto.
Qed.

Lemma ack_error_bufmod : forall s b p, length b = length (cbuf s) ->
  ack_error (s |> set_cbuf b |> setk_position p) = ack_error s.
Proof. intros s b p H. unfold ack_error, start_flush_c. sfull. rewrite H. reflexivity. Qed.

Lemma cmd_of_bufmod : forall s b p, cmd_of D ATCMD (s |> set_cbuf b |> setk_position p) = cmd_of D ATCMD s.
Proof. reflexivity. Qed.

Definition serves_read (c : cmd) (s s' : state) : Prop :=
  mem s' = mem s /\ k_cmd (k s') = k_cmd (k s) /\
  (refused s s' \/
   (readable c = true /\ k_state (k s') = CS_FORMAT_READ_ARGS /\ k_var (k s') = 0 /\ k_index (k s') = 0) \/
   (readable c = false /\ c_hread c = true /\ k_state (k s') = CS_READ_LOOP)).

Lemma spfra_A : forall s c, cmd_of D ATCMD s = Some c ->
  let s' := start_processing_format_read_args D ATCMD s in
  serves_read c s s' /\ (readable c = false -> c_hread c = false -> refused s s').
Proof.
  intros s c Hc. unfold serves_read, start_processing_format_read_args. sred.
  change (cmd_of D ATCMD (setk_position 0 s)) with (cmd_of D ATCMD s). rewrite Hc.
  destruct (print_string_A (setk_position 0 s) (c_name c)) as [b1 [p1 [L1 [P1 E1]]]]; [sred; lia|].
  destruct (print_string ATCMD (setk_position 0 s) (c_name c)) as [s1 ok1]. cbn [fst] in E1. subst s1.
  sred_in L1. sred_in P1.
  assert (AE : forall b p, length b = length (cbuf s) ->
            ack_error (setk_position 0 s |> set_cbuf b |> setk_position p) = ack_error s).
  { intros b p L. rewrite ack_error_bufmod by (sred; exact L).
    unfold ack_error, start_flush_c. sfull. reflexivity. }
  assert (RF : mem (ack_error s) = mem s /\ k_cmd (k (ack_error s)) = k_cmd (k s)).
  { unfold ack_error, start_flush_c. sred. auto. }
  destruct RF as [RF1 RF2].
  destruct ok1; cbn [negb end_with_error].
  2: { rewrite AE by exact L1. unfold refused. auto. }
  destruct (print_string_A (setk_position 0 s |> set_cbuf b1 |> setk_position p1) [ch_EQ])
    as [b2 [p2 [L2 [P2 E2]]]]; [sred; lia|].
  destruct (print_string ATCMD _ [ch_EQ]) as [s2 ok2]. cbn [fst] in E2. subst s2.
  sred_in L2. sred_in P2.
  assert (AE2 : forall s0 b p, length b = length (cbuf s0) ->
            ack_error (s0 |> set_cbuf b |> setk_position p) = ack_error s0) by (intros; apply ack_error_bufmod; assumption).
  destruct ok2; cbn [negb].
  2: { rewrite AE2 by (sred; exact L2). rewrite AE by exact L1. unfold refused. auto. }
  change (vars_access_possible c RO) with (readable c).
  destruct (readable c) eqn:R.
  - sred. split; [|discriminate]. split; [reflexivity|]. split; [reflexivity|]. right; left. auto.
  - destruct (c_hread c) eqn:HR; cbn [negb set_loop_state].
    + sred. split; [|discriminate]. split; [reflexivity|]. split; [reflexivity|]. right; right. auto.
    + rewrite AE2 by (sred; exact L2). rewrite AE by exact L1. unfold refused. auto.
Qed.

Theorem C09_read_form : forall s c, cmd_of D ATCMD s = Some c -> k_type (k s) = T_READ ->
  if dispatch_accepts c F_READ
  then command_found D s = start_processing_format_read_args D ATCMD s /\
       serves_read c s (command_found D s)
  else refused s (command_found D s).
Proof.
  intros s c Hc Ht. pose proof (spfra_A s c Hc) as S. cbv zeta in S. destruct S as [S1 S2].
  unfold command_found. rewrite Hc, Ht. cbn [dispatch_accepts].
  destruct (c_only_test c); cbn [negb andb]; [reflexivity|].
  destruct (c_hread c) eqn:HR; cbn [orb]; [split; [reflexivity | exact S1]|].
  destruct (readable c) eqn:R; [split; [reflexivity | exact S1]|].
  apply S2; reflexivity.
Qed.

Theorem C09_write_form : forall s c, cmd_of D ATCMD s = Some c ->
  let s' := pca_body D ch_LF s in
  if dispatch_accepts c F_WRITE
  then mem s' = mem s /\ k_cmd (k s') = k_cmd (k s) /\
       ((writable c = true /\ s' = (s |> setk_state CS_PARSE_WRITE_ARGS |> setk_position 0 |> setk_index 0 |> setk_var 0)) \/
        (writable c = false /\ c_hwrite c = true /\ s' = (s |> setk_index 0 |> setk_state CS_WRITE_LOOP)))
  else refused s s'.
Proof.
  intros s c Hc. cbv zeta. unfold pca_body, refused. rewrite Hc.
  change (ch_LF =? ch_LF)%N with true. cbn [dispatch_accepts].
  change (vars_access_possible c WO) with (writable c).
  destruct (c_only_test c); cbn [negb andb]; [reflexivity|].
  destruct (writable c) eqn:W.
  - rewrite orb_true_r. sred. split; [reflexivity|]. split; [reflexivity|]. left. auto.
  - rewrite orb_false_r. destruct (c_hwrite c); cbn [negb]; [|reflexivity].
    sred. split; [reflexivity|]. split; [reflexivity|]. right. auto.
Qed.

Lemma test_shortcut_accepts : forall c, test_shortcut c = dispatch_accepts c F_TEST.
Proof. intros c. unfold test_shortcut. cbn [dispatch_accepts]. destruct (c_vars c); reflexivity. Qed.

(* the state after an ordinary argument character *)
Definition arg_char (ch : N) (s : state) : state :=
  let len := k_length (k s) in
  if asz s <=? len then setk_state CS_ERROR s
  else
    let s1 := s |> set_cbuf (upd (cbuf s) len ch) |> setk_length (S len) in
    if S len <? asz s1 then set_cbuf (upd (cbuf s1) (S len) 0%N) s1
    else setk_state CS_ERROR s1.

Theorem C09_test_form : forall s c, cmd_of D ATCMD s = Some c -> k_length (k s) = 0 ->
  if dispatch_accepts c F_TEST
  then pca_body D ch_QM s = (s |> setk_type T_TEST |> setk_state CS_WAIT_TEST_ACK)
  else pca_body D ch_QM s = arg_char ch_QM s.
Proof.
  intros s c Hc Hl. unfold pca_body. rewrite Hc.
  change (ch_QM =? ch_LF)%N with false. change (ch_QM =? ch_CR)%N with false.
  change (ch_QM =? ch_QM)%N with true. rewrite Hl. cbn [Nat.eqb andb].
  rewrite <- test_shortcut_accepts. unfold test_shortcut.
  destruct ((c_htest c || match c_vars c with [] => false | _ :: _ => true end) && negb (c_implicit c)).
  - reflexivity.
  - unfold arg_char. rewrite Hl. reflexivity.
Qed.

Lemma arg_char_facts : forall ch s,
  let s' := arg_char ch s in
  mem s' = mem s /\ k_cmd (k s') = k_cmd (k s) /\ k_type (k s') = k_type (k s) /\
  (k_state (k s') = k_state (k s) \/ k_state (k s') = CS_ERROR).
Proof.
  intros ch s. cbv zeta. unfold arg_char.
  destruct (asz s <=? k_length (k s)); [sred; auto|].
  match goal with |- context [if ?b then _ else _] => destruct b end; sred; auto.
Qed.

End Forms.

(* ====================================================================== *)
(* Part 2: the selected command is an enabled one, in every history         *)
(* ====================================================================== *)

Definition uses_cmd (x : cstate) : bool :=
  match x with
  | CS_COMMAND_FOUND | CS_PARSE_COMMAND_ARGS | CS_PARSE_WRITE_ARGS | CS_FORMAT_READ_ARGS
  | CS_WAIT_TEST_ACK | CS_FORMAT_TEST_ARGS | CS_WRITE_LOOP | CS_READ_LOOP | CS_TEST_LOOP
  | CS_RUN_LOOP | CS_AFTER_FMT_READ | CS_AFTER_FMT_TEST => true
  | _ => false
  end.
Definition is_flush (x : cstate) : bool :=
  match x with CS_FLUSH_WAIT | CS_FLUSH => true | _ => false end.
(* continuations of a flush that come back to the selected command *)
Definition fmt_cont (wa : cstate) : bool :=
  match wa with CS_AFTER_FMT_READ | CS_AFTER_FMT_TEST => true | _ => false end.
Definition plain_cont (wa : cstate) : bool :=
  match wa with CS_AFTER_RESET | CS_AFTER_OK | CS_PRINT_CMD => true | _ => false end.

Definition needs_cmd (s : state) : bool :=
  uses_cmd (k_state (k s)) || (is_flush (k_state (k s)) && fmt_cont (k_wafter (k s))).

Definition flag_op (o : op) : bool :=
  match o with OSetCmdDisable _ _ | OSetGroupDisable _ _ => true | _ => false end.

(* printing only touches the machine's buffer, its position and (out-of-range cursor) the fault flag *)
Lemma put_cur_form : forall f c s, exists fl,
  put_cur f c s = set_fault fl (setg_pos f (cu_pos c) (setg_buf f (cu_buf c) s)).
Proof.
  intros f c s. unfold put_cur. destruct (cu_fault c).
  - exists true. reflexivity.
  - exists (fault s). destruct f; reflexivity.
Qed.
Lemma print_string_form : forall f s t, exists b p fl,
  fst (print_string f s t) = set_fault fl (setg_pos f p (setg_buf f b s)).
Proof.
  intros f s t. unfold print_string. destruct (print_nstring (get_cur f s) t) as [c ok]. cbn [fst].
  destruct (put_cur_form f c s) as [fl E]. rewrite E. eauto.
Qed.
Lemma print_strings_form : forall f s ts, exists b p fl,
  fst (print_strings f s ts) = set_fault fl (setg_pos f p (setg_buf f b s)).
Proof.
  intros f s ts. unfold print_strings. destruct (print_pieces (get_cur f s) ts) as [c ok]. cbn [fst].
  destruct (put_cur_form f c s) as [fl E]. rewrite E. eauto.
Qed.

Ltac brk1 :=
  cbv beta iota zeta;
  match goal with
  | |- context [print_string ?f ?s ?t] =>
    let b := fresh "b" in let p := fresh "p" in let fl := fresh "fl" in let E := fresh "E" in
    let s1 := fresh "s" in let ok := fresh "ok" in
    destruct (print_string_form f s t) as (b & p & fl & E);
    destruct (print_string f s t) as [s1 ok]; cbn [fst] in E; subst s1
  | |- context [print_strings ?f ?s ?t] =>
    let b := fresh "b" in let p := fresh "p" in let fl := fresh "fl" in let E := fresh "E" in
    let s1 := fresh "s" in let ok := fresh "ok" in
    destruct (print_strings_form f s t) as (b & p & fl & E);
    destruct (print_strings f s t) as [s1 ok]; cbn [fst] in E; subst s1
  | |- context [match (match (match ?x with _ => _ end) with _ => _ end) with _ => _ end] =>
    destruct x eqn:?
  | |- context [match (match ?x with _ => _ end) with _ => _ end] => destruct x eqn:?
  | |- context [match ?x with _ => _ end] => destruct x eqn:?
  end.
Ltac brk := repeat brk1.

Section Sel.
Variable D : desc.
Hypothesis Hn : 0 < ncmds D.

Definition disabled (dc dg : list bool) (i : nat) : bool :=
  match group_of_index (d_groups D) i 0 with
  | None => false
  | Some g => nthb dg g || nthb dc i
  end.

Lemma is_command_disable_eq : forall s i,
  is_command_disable D s i = disabled (dis_cmd s) (dis_grp s) i.
Proof. reflexivity. Qed.

Definition okP (dc dg : list bool) (i : nat) : Prop := i < ncmds D /\ disabled dc dg i = false.
Definition selP (dc dg : list bool) (o : option nat) : Prop := exists i, o = Some i /\ okP dc dg i.

Definition InvP (x wa : cstate) (o : option nat) (idx : nat) (dc dg : list bool) : Prop :=
  match x with
  | CS_SEARCH_COMMAND => idx < ncmds D /\ forall i, o = Some i -> okP dc dg i
  | CS_FLUSH_WAIT | CS_FLUSH => plain_cont wa = true \/ (fmt_cont wa = true /\ selP dc dg o)
  | _ => uses_cmd x = true -> selP dc dg o
  end.

Definition Inv (s : state) : Prop :=
  InvP (k_state (k s)) (k_wafter (k s)) (k_cmd (k s)) (k_index (k s)) (dis_cmd s) (dis_grp s).

Definition sel (s : state) : Prop := selP (dis_cmd s) (dis_grp s) (k_cmd (k s)).

(* the selected command is a registered, enabled one *)
Definition sel_enabled (s : state) : Prop :=
  needs_cmd s = true ->
  exists i, k_cmd (k s) = Some i /\ i < ncmds D /\ is_command_disable D s i = false.

Lemma sel_unfold : forall s, sel s <->
  exists i, k_cmd (k s) = Some i /\ i < ncmds D /\ is_command_disable D s i = false.
Proof. intros s. reflexivity. Qed.

(* targets that need nothing *)
Definition plain_tgt (x wa : cstate) : bool :=
  match x with
  | CS_SEARCH_COMMAND => false
  | CS_FLUSH_WAIT | CS_FLUSH => plain_cont wa
  | _ => negb (uses_cmd x)
  end.
(* targets that are fine once the selected command is *)
Definition sel_tgt (x wa : cstate) : bool :=
  match x with
  | CS_SEARCH_COMMAND => false
  | CS_FLUSH_WAIT | CS_FLUSH => plain_cont wa || fmt_cont wa
  | _ => true
  end.

Lemma Inv_plain : forall s, plain_tgt (k_state (k s)) (k_wafter (k s)) = true -> Inv s.
Proof.
  intros s H. unfold Inv. destruct (k_state (k s)); cbn in H |- *; try discriminate; auto.
Qed.

Lemma Inv_of_sel : forall s s', sel s ->
  k_cmd (k s') = k_cmd (k s) -> dis_cmd s' = dis_cmd s -> dis_grp s' = dis_grp s ->
  sel_tgt (k_state (k s')) (k_wafter (k s')) = true -> Inv s'.
Proof.
  intros s s' S E1 E2 E3 T. unfold Inv, sel in *. rewrite E1, E2, E3.
  destruct (k_state (k s')); cbn in T |- *; try discriminate; auto.
  all: destruct (k_wafter (k s')); cbn in T |- *; try discriminate; auto.
Qed.

Lemma Inv_sel : forall s, Inv s -> uses_cmd (k_state (k s)) = true -> sel s.
Proof.
  intros s I U. unfold Inv, sel in *. destruct (k_state (k s)); cbn in U, I |- *; try discriminate; auto.
Qed.

Lemma Inv_sel_enabled : forall s, Inv s -> sel_enabled s.
Proof.
  intros s I N. apply sel_unfold. unfold needs_cmd in N. unfold Inv, sel in *.
  destruct (k_state (k s)); cbn in N, I |- *; try discriminate; try (apply I; reflexivity).
  all: destruct I as [I|[_ I]]; [|exact I]; destruct (k_wafter (k s)); discriminate.
Qed.

Definition same (s s' : state) : Prop :=
  k_state (k s') = k_state (k s) /\ k_wafter (k s') = k_wafter (k s) /\ k_cmd (k s') = k_cmd (k s) /\
  k_index (k s') = k_index (k s) /\ dis_cmd s' = dis_cmd s /\ dis_grp s' = dis_grp s.

Lemma same_refl : forall s, same s s.
Proof. intros s. unfold same. auto 10. Qed.
Lemma same_trans : forall a b c, same a b -> same b c -> same a c.
Proof. unfold same. intros a b c H1 H2. intuition congruence. Qed.
Lemma Inv_same : forall s s', same s s' -> Inv s -> Inv s'.
Proof.
  intros s s' (E1 & E2 & E3 & E4 & E5 & E6) I. unfold Inv. rewrite E1, E2, E3, E4, E5, E6. exact I.
Qed.

(* the event machine may also push the command machine into CS_HOLD (a read/test handler of an
   event answering HOLD: scope decision D3); nothing is needed in that state *)
Definition evrel (s s' : state) : Prop :=
  k_wafter (k s') = k_wafter (k s) /\ k_cmd (k s') = k_cmd (k s) /\
  k_index (k s') = k_index (k s) /\ dis_cmd s' = dis_cmd s /\ dis_grp s' = dis_grp s /\
  (k_state (k s') = k_state (k s) \/ k_state (k s') = CS_HOLD).

Lemma evrel_refl : forall s, evrel s s.
Proof. intros s. unfold evrel. auto 10. Qed.
Lemma evrel_trans : forall a b c, evrel a b -> evrel b c -> evrel a c.
Proof.
  unfold evrel. intros a b c (A1 & A2 & A3 & A4 & A5 & A6) (B1 & B2 & B3 & B4 & B5 & B6).
  repeat split; try congruence. destruct B6 as [B6|B6]; [rewrite B6; exact A6 | right; exact B6].
Qed.
Lemma same_evrel : forall s s', same s s' -> evrel s s'.
Proof. unfold same, evrel. intuition. Qed.
Lemma Inv_evrel : forall s s', evrel s s' -> Inv s -> Inv s'.
Proof.
  intros s s' (E2 & E3 & E4 & E5 & E6 & [E1|E1]) I.
  - apply (Inv_same s); [unfold same; auto 10 | exact I].
  - apply Inv_plain. rewrite E1. reflexivity.
Qed.

(* ---------- leaf tactics ---------- *)
Ltac leaf_plain HX := apply Inv_plain; sred; rewrite ?HX; reflexivity.
Ltac leaf_sel S HX :=
  eapply Inv_of_sel; [exact S | sred; reflexivity | sred; reflexivity | sred; reflexivity
                     | sred; rewrite ?HX; reflexivity].

(* ---------- the pure state functions of the command machine ---------- *)
Lemma ack_error_Inv : forall s, Inv (ack_error s).
Proof. intros s. unfold ack_error, start_flush_c. apply Inv_plain. sred. reflexivity. Qed.
Lemma ack_ok_Inv : forall s, Inv (ack_ok s).
Proof. intros s. unfold ack_ok, start_flush_c. apply Inv_plain. sred. reflexivity. Qed.

Lemma start_search_Inv : forall s,
  Inv (s |> prepare_search_command |> setk_state CS_SEARCH_COMMAND).
Proof.
  intros s. unfold prepare_search_command, Inv. sred. cbn [InvP]. split; [exact Hn|]. discriminate.
Qed.

Lemma update_command_Inv : forall s, k_state (k s) = CS_UPDATE_COMMAND_STATE -> Inv (update_command D s).
Proof.
  intros s HX. unfold update_command, set_cmd_state, prepare_search_command. brk.
  all: try (leaf_plain HX).
  all: unfold Inv; sred; cbn [InvP]; (split; [exact Hn | discriminate]).
Qed.

Lemma InvP_search : forall s, Inv s -> k_state (k s) = CS_SEARCH_COMMAND ->
  k_index (k s) < ncmds D /\ forall i, k_cmd (k s) = Some i -> okP (dis_cmd s) (dis_grp s) i.
Proof. intros s I HX. unfold Inv in I. rewrite HX in I. exact I. Qed.

Lemma cand_ok : forall s cs, k_index (k s) < ncmds D ->
  get_cmd_state D s (k_index (k s)) = Some cs -> cs <> 0%N ->
  okP (dis_cmd s) (dis_grp s) (k_index (k s)).
Proof.
  intros s cs Hi G Hz. split; [exact Hi|]. unfold get_cmd_state in G.
  rewrite is_command_disable_eq in G.
  destruct (disabled (dis_cmd s) (dis_grp s) (k_index (k s))); [|reflexivity].
  injection G as G. unfold CMD_NOT_MATCH in G. congruence.
Qed.

Lemma search_command_Inv : forall s, Inv s -> k_state (k s) = CS_SEARCH_COMMAND ->
  Inv (search_command D s).
Proof.
  intros s I HX. destruct (InvP_search s I HX) as [Hi Hc].
  unfold search_command. destruct (get_cmd_state D s (k_index (k s))) as [cs|] eqn:G.
  2: { apply (Inv_same s); [unfold same; sred; auto 10 | exact I]. }
  assert (OK : cs <> 0%N -> okP (dis_cmd s) (dis_grp s) (k_index (k s))) by (apply cand_ok; assumption).
  cbv zeta.
  destruct (cs =? CMD_PARTIAL)%N eqn:E1.
  { apply N.eqb_eq in E1. assert (O1 : okP (dis_cmd s) (dis_grp s) (k_index (k s))) by (apply OK; rewrite E1; discriminate).
    brk. all: try (leaf_plain HX).
    all: unfold Inv; sred; rewrite ?HX; cbn [InvP uses_cmd].
    all: try (intros _; exists (k_index (k s)); split; [reflexivity | exact O1]).
    all: split; [apply Nat.leb_gt; assumption | intros i0 Ei; injection Ei as <-; exact O1]. }
  destruct (cs =? CMD_FULL)%N eqn:E2.
  { apply N.eqb_eq in E2. assert (O1 : okP (dis_cmd s) (dis_grp s) (k_index (k s))) by (apply OK; rewrite E2; discriminate).
    unfold Inv; sred; cbn [InvP uses_cmd]. intros _. exists (k_index (k s)). split; [reflexivity | exact O1]. }
  brk. all: try (leaf_plain HX).
  all: unfold Inv; sred; rewrite ?HX; cbn [InvP uses_cmd].
  - intros _.
    match goal with H : k_cmd _ = Some ?j |- _ => sred_in H; exists j; split; [exact H | apply Hc; exact H] end.
  - split; [apply Nat.leb_gt; assumption | exact Hc].
Qed.

Lemma uses_sel_tgt : forall x wa, uses_cmd x = true -> sel_tgt x wa = true.
Proof. intros x wa H. destruct x; try discriminate H; reflexivity. Qed.

(* leaf: a nest of setters over a base state b for which [sel b] is among the hypotheses *)
Ltac leaf :=
  first
    [ apply Inv_plain; reflexivity
    | match goal with
      | |- Inv (ack_error _) => apply ack_error_Inv
      | |- Inv (ack_ok _) => apply ack_ok_Inv
      end
    | match goal with
      | S : sel ?b |- _ =>
        apply Inv_of_sel with (s := b); [ exact S | reflexivity | reflexivity | reflexivity
                              | first [ reflexivity | apply uses_sel_tgt; assumption ] ]
      end ].

Ltac unf_fmt :=
  unfold format_test_args, start_processing_format_read_args, start_processing_format_test_args,
    print_response_test, next_format_var, end_with_error, end_with_ok, set_loop_state,
    start_flush_after_ok, start_flush_after, put_cur, get_cur, start_flush_c.

Lemma spfra_Inv : forall s, sel s -> uses_cmd (k_state (k s)) = true ->
  Inv (start_processing_format_read_args D ATCMD s).
Proof. intros s S U. unf_fmt. brk; leaf. Qed.

Lemma spfta_Inv : forall s, sel s -> uses_cmd (k_state (k s)) = true ->
  Inv (start_processing_format_test_args D ATCMD s).
Proof. intros s S U. unf_fmt. brk; leaf. Qed.

Lemma format_test_args_Inv : forall s, sel s -> uses_cmd (k_state (k s)) = true ->
  Inv (format_test_args D ATCMD s).
Proof. intros s S U. unf_fmt. brk; leaf. Qed.

Lemma command_found_Inv : forall s, sel s -> uses_cmd (k_state (k s)) = true ->
  Inv (command_found D s).
Proof.
  intros s S U. unfold command_found.
  destruct (cmd_of D ATCMD s); [|leaf]. destruct (k_type (k s)); try leaf.
  - brk; leaf.
  - destruct (c_only_test c); [leaf|]. apply spfra_Inv; assumption.
  - brk; leaf.
Qed.

Lemma pca_body_Inv : forall ch s, sel s -> uses_cmd (k_state (k s)) = true -> Inv (pca_body D ch s).
Proof. intros ch s S U. unfold pca_body. brk; leaf. Qed.

Lemma start_print_cmd_list_Inv : forall s, Inv (start_print_cmd_list D s).
Proof. intros s. unfold start_print_cmd_list. brk; leaf. Qed.

Lemma Inv_plain_st : forall s x, k_state (k s) = x -> plain_tgt x (k_wafter (k s)) = true -> Inv s.
Proof. intros s x <- H. apply Inv_plain. exact H. Qed.

(* leaf for a state function run in the plain state x, HX : k_state (k s) = x *)
Ltac leafx xx HX := first [ leaf | apply Inv_plain_st with (x := xx); [exact HX | reflexivity] ].

Lemma print_cmd_list_Inv : forall s, k_state (k s) = CS_PRINT_CMD -> Inv (print_cmd_list D s).
Proof.
  intros s HX. unfold print_cmd_list, print_cmd_form, print_current_cmd_full_name, cmd_list_next_cmd,
    start_flush_raw_c.
  brk; leafx CS_PRINT_CMD HX.
Qed.

Lemma reset_state_Inv : forall s, Inv (reset_state s).
Proof. intros s. unfold reset_state. brk; leaf. Qed.

Lemma process_hold_state_Inv : forall s, k_state (k s) = CS_HOLD -> Inv (process_hold_state s).
Proof. intros s HX. unfold process_hold_state. brk; leafx CS_HOLD HX. Qed.

Lemma process_io_write_wait_Inv : forall s, Inv s -> k_state (k s) = CS_FLUSH_WAIT ->
  Inv (process_io_write_wait s).
Proof.
  intros s I HX. unfold process_io_write_wait. brk; [|exact I].
  unfold Inv in *. rewrite HX in I. exact I.
Qed.

Lemma enable_hold_state_Inv : forall s, Inv (enable_hold_state s).
Proof. intros s. unfold enable_hold_state. leaf. Qed.

(* the reading states *)
Lemma error_body_Inv : forall ch s, k_state (k s) = CS_ERROR ->
  Inv (if (ch =? ch_LF)%N then ack_error s else if (ch =? ch_CR)%N then setk_cr true s else s).
Proof. intros ch s HX. brk; leafx CS_ERROR HX. Qed.

Lemma idle_body_Inv : forall ch s, k_state (k s) = CS_IDLE ->
  Inv (if (ch =? ch_A)%N then setk_state CS_PARSE_PREFIX s
       else if (ch =? ch_LF)%N || (ch =? ch_CR)%N then s else setk_state CS_ERROR s).
Proof. intros ch s HX. brk; leafx CS_IDLE HX. Qed.

Lemma prefix_body_Inv : forall ch s, k_state (k s) = CS_PARSE_PREFIX ->
  Inv (if (ch =? ch_T)%N then s |> prepare_parse_command |> setk_state CS_PARSE_COMMAND_CHAR
       else if (ch =? ch_LF)%N then ack_error s
       else if (ch =? ch_CR)%N then setk_cr true s
       else setk_state CS_ERROR s).
Proof. intros ch s HX. unfold prepare_parse_command. brk; leafx CS_PARSE_PREFIX HX. Qed.

Lemma parse_command_body_Inv : forall ch s, k_state (k s) = CS_PARSE_COMMAND_CHAR ->
  Inv (if (ch =? ch_LF)%N then
         if negb (k_length (k s) =? 0) then s |> prepare_search_command |> setk_state CS_SEARCH_COMMAND
         else ack_ok s
       else if (ch =? ch_CR)%N then setk_cr true s
       else if (ch =? ch_QM)%N then
         if k_length (k s) =? 0 then setk_state CS_ERROR s
         else s |> setk_type T_READ |> setk_state CS_WAIT_READ_ACK
       else if (ch =? ch_EQ)%N then
         if k_length (k s) =? 0 then setk_state CS_ERROR s
         else s |> setk_type T_WRITE |> prepare_search_command |> setk_state CS_SEARCH_COMMAND
       else if is_name_char ch then
         s |> setk_length (S (k_length (k s))) |> setk_state CS_UPDATE_COMMAND_STATE
       else setk_state CS_ERROR s).
Proof.
  intros ch s HX.
  pose proof (start_search_Inv s) as A1. pose proof (start_search_Inv (setk_type T_WRITE s)) as A2.
  brk; first [ assumption | leafx CS_PARSE_COMMAND_CHAR HX ].
Qed.

Lemma wait_read_body_Inv : forall ch s, k_state (k s) = CS_WAIT_READ_ACK ->
  Inv (if (ch =? ch_LF)%N then s |> prepare_search_command |> setk_state CS_SEARCH_COMMAND
       else if (ch =? ch_CR)%N then setk_cr true s
       else setk_state CS_ERROR s).
Proof.
  intros ch s HX. pose proof (start_search_Inv s) as A1.
  brk; first [ assumption | leafx CS_WAIT_READ_ACK HX ].
Qed.

Lemma wait_test_body_Inv : forall ch s, sel s -> k_state (k s) = CS_WAIT_TEST_ACK ->
  Inv (if (ch =? ch_LF)%N then start_processing_format_test_args D ATCMD s
       else if (ch =? ch_CR)%N then setk_cr true s
       else setk_state CS_ERROR s).
Proof.
  intros ch s S HX. assert (U : uses_cmd (k_state (k s)) = true) by (rewrite HX; reflexivity).
  pose proof (spfta_Inv s S U) as A1.
  brk; first [ assumption | leaf ].
Qed.
Lemma sel_after : forall b s2 s1, sel b ->
  k_cmd (k s2) = k_cmd (k b) -> dis_cmd s2 = dis_cmd b -> dis_grp s2 = dis_grp b ->
  same s2 s1 -> sel s1.
Proof.
  intros b s2 s1 S E1 E2 E3 (_ & _ & F3 & _ & F5 & F6). unfold sel in *.
  rewrite F3, F5, F6, E1, E2, E3. exact S.
Qed.
Lemma uses_after : forall b s2 s1, uses_cmd (k_state (k b)) = true ->
  k_state (k s2) = k_state (k b) -> same s2 s1 -> uses_cmd (k_state (k s1)) = true.
Proof. intros b s2 s1 U E (F1 & _). rewrite F1, E. exact U. Qed.
Lemma flush_done_Inv : forall s s', Inv s -> k_state (k s) = CS_FLUSH ->
  k_state (k s') = k_wafter (k s) -> k_cmd (k s') = k_cmd (k s) ->
  dis_cmd s' = dis_cmd s -> dis_grp s' = dis_grp s -> Inv s'.
Proof.
  intros s s' I HX E1 E2 E3 E4. unfold Inv in *. rewrite HX in I. rewrite E1, E2, E3, E4.
  cbn [InvP] in I. destruct I as [P | [F Ssel]].
  - destruct (k_wafter (k s)); try discriminate P; cbn; discriminate.
  - destruct (k_wafter (k s)); try discriminate F; cbn; intros _; exact Ssel.
Qed.

End Sel.

(* the leaf tactics again (Ltac definitions do not survive the section) *)
Ltac leaf :=
  first
    [ apply Inv_plain; reflexivity
    | match goal with
      | |- Inv _ (ack_error _) => apply ack_error_Inv
      | |- Inv _ (ack_ok _) => apply ack_ok_Inv
      | |- Inv _ (start_print_cmd_list _ _) => apply start_print_cmd_list_Inv
      | |- Inv _ (enable_hold_state _) => apply enable_hold_state_Inv
      end
    | match goal with
      | S : sel _ ?b |- _ =>
        apply Inv_of_sel with (s := b); [ exact S | reflexivity | reflexivity | reflexivity
                              | first [ reflexivity | apply uses_sel_tgt; assumption ] ]
      end ].

Ltac unf_fmt :=
  unfold format_test_args, start_processing_format_read_args, start_processing_format_test_args,
    print_response_test, next_format_var, end_with_error, end_with_ok, set_loop_state,
    start_flush_after_ok, start_flush_after, put_cur, get_cur, start_flush_c.

Ltac leafx xx HX := first [ leaf | apply Inv_plain_st with (x := xx); [exact HX | reflexivity] ].

(* ====================================================================== *)
(* the machine with its environment                                        *)
(* ====================================================================== *)
Section Hist.
Variable D : desc.
Variables ioS muS hS : Type.
Variable io_read : ioS -> ioS * option N.
Variable io_write : ioS -> N -> ioS * bool.
Variable mu_lock : muS -> muS * bool.
Variable mu_unlock : muS -> muS * bool.
Variable h_call : hS -> hreq -> hS * hres.
Hypothesis Hn : 0 < ncmds D.

Local Notation world := (Fsm.world ioS muS hS).
Local Notation st := (Fsm.st ioS muS hS).
Local Notation io := (Fsm.io ioS muS hS).
Local Notation mu := (Fsm.mu ioS muS hS).
Local Notation hs := (Fsm.hs ioS muS hS).
Local Notation tr := (Fsm.tr ioS muS hS).
Local Notation mkWorld := (Fsm.mkWorld ioS muS hS).
Local Notation set_st := (Fsm.set_st ioS muS hS).
Local Notation set_io := (Fsm.set_io ioS muS hS).
Local Notation set_mu := (Fsm.set_mu ioS muS hS).
Local Notation set_hs := (Fsm.set_hs ioS muS hS).
Local Notation logw := (Fsm.logw ioS muS hS).
Local Notation upd_st := (Fsm.upd_st ioS muS hS).
Local Notation busy := (Fsm.busy ioS muS hS).
Local Notation bracket := (Fsm.bracket D ioS muS hS mu_lock mu_unlock).
Local Notation api_trigger := (Fsm.api_trigger D ioS muS hS mu_lock mu_unlock).
Local Notation api_hold_exit := (Fsm.api_hold_exit D ioS muS hS mu_lock mu_unlock).
Local Notation apply_icall := (Fsm.apply_icall D ioS muS hS mu_lock mu_unlock).
Local Notation call_h := (Fsm.call_h D ioS muS hS mu_lock mu_unlock h_call).
Local Notation read_cmd_char := (Fsm.read_cmd_char ioS muS hS io_read).
Local Notation reading := (Fsm.reading ioS muS hS io_read).
Local Notation parse_write_args := (Fsm.parse_write_args D ioS muS hS mu_lock mu_unlock h_call).
Local Notation format_read_args := (Fsm.format_read_args D ioS muS hS mu_lock mu_unlock h_call).
Local Notation process_write_loop := (Fsm.process_write_loop D ioS muS hS mu_lock mu_unlock h_call).
Local Notation process_run_loop := (Fsm.process_run_loop D ioS muS hS mu_lock mu_unlock h_call).
Local Notation process_rt_loop := (Fsm.process_rt_loop D ioS muS hS mu_lock mu_unlock h_call).
Local Notation process_io_write := (Fsm.process_io_write ioS muS hS io_write).
Local Notation unsolicited_process_io_write := (Fsm.unsolicited_process_io_write ioS muS hS io_write).
Local Notation unsolicited_events_service :=
  (Fsm.unsolicited_events_service D ioS muS hS io_write mu_lock mu_unlock h_call).
Local Notation cmd_service :=
  (Fsm.cmd_service D ioS muS hS io_read io_write mu_lock mu_unlock h_call).
Local Notation service_body :=
  (Fsm.service_body D ioS muS hS io_read io_write mu_lock mu_unlock h_call).
Local Notation do_op := (Fsm.do_op D ioS muS hS io_read io_write mu_lock mu_unlock h_call).
Local Notation step := (Fsm.step D ioS muS hS io_read io_write mu_lock mu_unlock h_call).
Local Notation run := (Fsm.run D ioS muS hS io_read io_write mu_lock mu_unlock h_call).

Local Notation Inv := (Inv D).
Local Notation sel := (sel D).

Ltac wred := cbn [fst snd Fsm.busy Fsm.upd_st Fsm.set_st Fsm.set_io Fsm.set_mu Fsm.set_hs
                  Fsm.logw Fsm.tr Fsm.st Fsm.io Fsm.mu Fsm.hs].
Ltac wred_in H := cbn [fst snd Fsm.busy Fsm.upd_st Fsm.set_st Fsm.set_io Fsm.set_mu Fsm.set_hs
                       Fsm.logw Fsm.tr Fsm.st Fsm.io Fsm.mu Fsm.hs] in H.

(* ---------- lock; body; unlock ---------- *)
Lemma bracket_P : forall (P : state -> Prop) (w : world) (body : world -> world * Z),
  P (st w) -> (forall w0, st w0 = st w -> P (st (fst (body w0)))) -> P (st (fst (bracket w body))).
Proof.
  intros P w body H Hb. unfold Fsm.bracket. destruct (d_mutex D).
  - destruct (mu_lock (mu w)) as [m1 ok]. destruct ok; cbn [negb]; cbv zeta.
    + pose proof (Hb (logw (ELock true) (set_mu m1 w)) eq_refl) as H1.
      destruct (body (logw (ELock true) (set_mu m1 w))) as [w2 s]. cbn [fst] in H1.
      destruct (mu_unlock (mu w2)) as [m2 ok2]. destruct ok2; cbn [negb]; wred; exact H1.
    + wred. exact H.
  - apply Hb. reflexivity.
Qed.

(* ---------- callbacks ---------- *)
(* what a callback can do to the object: stores into variable storage, event triggers, a hold release *)
Definition poke_mem (m : list (list N)) (p : nat * list N) : list (list N) :=
  match nth_error m (fst p) with
  | None => m
  | Some data => match store_prefix data (snd p) with None => m | Some d => upd m (fst p) d end
  end.

Definition cbrel (pokes : list (nat * list N)) (s s' : state) : Prop :=
  k_state (k s') = k_state (k s) /\ k_wafter (k s') = k_wafter (k s) /\ k_cmd (k s') = k_cmd (k s) /\
  k_index (k s') = k_index (k s) /\ k_var (k s') = k_var (k s) /\ k_type (k s') = k_type (k s) /\
  dis_cmd s' = dis_cmd s /\ dis_grp s' = dis_grp s /\
  mem s' = fold_left poke_mem pokes (mem s).

Lemma apply_poke_rel : forall s p, cbrel [p] s (apply_poke s p).
Proof.
  intros s p. unfold cbrel, apply_poke, poke_mem. cbn [fold_left].
  destruct (nth_error (mem s) (fst p)); [|auto 10].
  destruct (store_prefix l (snd p)); sred; auto 10.
Qed.

Lemma cbrel_trans : forall l1 l2 a b c, cbrel l1 a b -> cbrel l2 b c -> cbrel (l1 ++ l2) a c.
Proof.
  unfold cbrel. intros l1 l2 a b c H1 H2. rewrite fold_left_app.
  destruct H1 as (A1&A2&A3&A4&A5&A6&A7&A8&A9). destruct H2 as (B1&B2&B3&B4&B5&B6&B7&B8&B9).
  rewrite <- A9. repeat split; congruence.
Qed.

Lemma cbrel_trans_nil : forall l a b c, cbrel l a b -> cbrel [] b c -> cbrel l a c.
Proof. intros l a b c H1 H2. rewrite <- (app_nil_r l). eapply cbrel_trans; eassumption. Qed.

Lemma cbrel_refl : forall s, cbrel [] s s.
Proof. intros s. unfold cbrel. cbn [fold_left]. auto 10. Qed.

Lemma fold_poke_rel : forall l s, cbrel l s (fold_left apply_poke l s).
Proof.
  induction l as [|p l IH]; intros s; cbn [fold_left].
  - apply cbrel_refl.
  - change (p :: l) with ([p] ++ l). eapply cbrel_trans; [apply apply_poke_rel | apply IH].
Qed.

Lemma push_rel : forall s ci t, cbrel [] s (fst (push_unsolicited_cmd D s ci t)).
Proof.
  intros s ci t. unfold push_unsolicited_cmd, cbrel. cbn [fold_left].
  brk; sred; auto 10.
Qed.

Lemma hold_exit_rel : forall s z, cbrel [] s (fst (hold_exit s z)).
Proof. intros s z. unfold hold_exit, cbrel. cbn [fold_left]. brk; sred; auto 10. Qed.

Lemma apply_icall_rel : forall (w : world) c, cbrel [] (st w) (st (apply_icall w c)).
Proof.
  intros w c. unfold Fsm.apply_icall, Fsm.api_trigger, Fsm.api_hold_exit. destruct c as [ci t|z].
  - match goal with |- context [bracket ?w0 ?b] =>
      pose proof (bracket_P (cbrel [] (st w)) w0 b (cbrel_refl _)) as H;
      destruct (bracket w0 b) as [w' r] end.
    wred. cbn [fst] in H. apply H. intros w0 E. rewrite E.
    pose proof (push_rel (st w) ci t) as P. destruct (push_unsolicited_cmd D (st w) ci t). exact P.
  - match goal with |- context [bracket ?w0 ?b] =>
      pose proof (bracket_P (cbrel [] (st w)) w0 b (cbrel_refl _)) as H;
      destruct (bracket w0 b) as [w' r] end.
    wred. cbn [fst] in H. apply H. intros w0 E. rewrite E.
    pose proof (hold_exit_rel (st w) z) as P. destruct (hold_exit (st w) z). exact P.
Qed.

Lemma fold_icall_rel : forall l (w : world), cbrel [] (st w) (st (fold_left apply_icall l w)).
Proof.
  induction l as [|c l IH]; intros w; cbn [fold_left].
  - apply cbrel_refl.
  - change (@nil (nat * list N)) with (@nil (nat * list N) ++ []).
    eapply cbrel_trans; [apply apply_icall_rel | apply IH].
Qed.

Lemma call_h_rel : forall (w : world) q,
  cbrel (r_pokes (snd (call_h w q))) (st w) (st (fst (call_h w q))) /\
  exists h, snd (call_h w q) = snd (h_call h q).
Proof.
  intros w q. unfold Fsm.call_h. destruct (h_call (hs w) q) as [hs' r] eqn:E. cbv zeta. cbn [fst snd].
  split.
  - eapply cbrel_trans_nil; [|apply fold_icall_rel].
    wred. apply fold_poke_rel.
  - exists (hs w). rewrite E. reflexivity.
Qed.

Lemma cbrel_same : forall l s s', cbrel l s s' -> same s s'.
Proof. unfold cbrel, same. intuition. Qed.

(* ---------- the state functions of the command machine ---------- *)
Ltac wcall :=
  match goal with
  | |- context [call_h ?w ?q] =>
    let R := fresh "R" in let w1 := fresh "w" in let r := fresh "r" in
    destruct (call_h_rel w q) as [R _]; apply cbrel_same in R;
    destruct (call_h w q) as [w1 r]; cbn [fst snd] in R;
    match goal with
    | S : sel ?b, U : uses_cmd (k_state (k ?b)) = true |- _ =>
      let S1 := fresh "S" in let U1 := fresh "U" in
      assert (S1 : sel (st w1))
        by (eapply (sel_after D b); [exact S | reflexivity | reflexivity | reflexivity | exact R]);
      assert (U1 : uses_cmd (k_state (k (st w1))) = true)
        by (eapply (uses_after b); [exact U | reflexivity | exact R])
    end
  end.
Ltac wgo := repeat (cbv beta iota zeta; wred; first [wcall | brk1]); cbv beta iota zeta; wred.

Lemma read_cmd_char_same : forall (w : world), same (st w) (st (fst (read_cmd_char w))).
Proof.
  intros w. unfold Fsm.read_cmd_char. destruct (io_read (io w)) as [io' [ch|]]; cbv zeta; wred.
  - brk; unfold same; sred; auto 10.
  - apply same_refl.
Qed.

Lemma reading_Inv : forall (w : world) body x,
  (forall ch s, Inv s -> k_state (k s) = x -> Inv (body ch s)) ->
  Inv (st w) -> k_state (k (st w)) = x -> Inv (st (fst (reading w body))).
Proof.
  intros w body x Hb I HX. unfold Fsm.reading.
  pose proof (read_cmd_char_same w) as R. destruct (read_cmd_char w) as [w1 got]. cbn [fst] in R.
  pose proof (Inv_same D _ _ R I) as I1. destruct R as (R1 & _).
  destruct got; cbn [negb]; wred; [|exact I1].
  apply Hb; [exact I1 | rewrite R1; exact HX].
Qed.

Lemma parse_write_args_Inv : forall (w : world), sel (st w) ->
  uses_cmd (k_state (k (st w))) = true -> Inv (st (fst (parse_write_args w))).
Proof. intros w S U. unfold Fsm.parse_write_args. wgo; leaf. Qed.

Lemma format_read_args_Inv : forall (w : world), sel (st w) ->
  uses_cmd (k_state (k (st w))) = true -> Inv (st (fst (format_read_args ATCMD w))).
Proof. intros w S U. unfold Fsm.format_read_args. unf_fmt. wgo; leaf. Qed.

Lemma process_write_loop_Inv : forall (w : world), sel (st w) ->
  uses_cmd (k_state (k (st w))) = true -> Inv (st (fst (process_write_loop w))).
Proof. intros w S U. unfold Fsm.process_write_loop, enable_hold_state. wgo; leaf. Qed.

Lemma process_run_loop_Inv : forall (w : world), sel (st w) ->
  uses_cmd (k_state (k (st w))) = true -> Inv (st (fst (process_run_loop w))).
Proof. intros w S U. unfold Fsm.process_run_loop. wgo; leaf. Qed.

Lemma process_rt_loop_Inv : forall rd (w : world), sel (st w) ->
  uses_cmd (k_state (k (st w))) = true -> Inv (st (fst (process_rt_loop rd ATCMD w))).
Proof.
  intros rd w S U. unfold Fsm.process_rt_loop, apply_edit, hold_exit. unf_fmt. wgo; leaf.
Qed.

Lemma process_io_write_Inv : forall (w : world), Inv (st w) -> k_state (k (st w)) = CS_FLUSH ->
  Inv (st (fst (process_io_write w))).
Proof.
  intros w I HX. unfold Fsm.process_io_write. wgo.
  all: first [ apply (Inv_same D (st w)); [unfold same; sred; solve [auto 10] | exact I]
             | apply (flush_done_Inv D (st w)); [exact I | exact HX | reflexivity ..] ].
Qed.

Ltac unfold_readers :=
  unfold Fsm.error_state, Fsm.process_idle_state, Fsm.parse_prefix, Fsm.parse_command,
         Fsm.wait_read_acknowledge, Fsm.wait_test_acknowledge, Fsm.parse_command_args.

Lemma pca_is_body : forall ch s,
  match cmd_of D ATCMD s with
    | None => set_fault_flag s
    | Some c =>
      if (ch =? ch_LF)%N then
        if c_only_test c then ack_error s
        else if vars_access_possible c WO then
          s |> setk_state CS_PARSE_WRITE_ARGS |> setk_position 0 |> setk_index 0 |> setk_var 0
        else if negb (c_hwrite c) then ack_error s
        else s |> setk_index 0 |> setk_state CS_WRITE_LOOP
      else if (ch =? ch_CR)%N then setk_cr true s
      else if (k_length (k s) =? 0) && (ch =? ch_QM)%N
              && (c_htest c || match c_vars c with [] => false | _ => true end)
              && negb (c_implicit c)
      then s |> setk_type T_TEST |> setk_state CS_WAIT_TEST_ACK
      else
        let len := k_length (k s) in
        if asz s <=? len then setk_state CS_ERROR s
        else
          let s1 := s |> set_cbuf (upd (cbuf s) len ch) |> setk_length (S len) in
          if S len <? asz s1 then set_cbuf (upd (cbuf s1) (S len) 0%N) s1
          else setk_state CS_ERROR s1
    end = pca_body D ch s.
Proof. reflexivity. Qed.

Theorem cmd_service_Inv : forall (w : world), Inv (st w) -> Inv (st (fst (cmd_service w))).
Proof.
  intros w I. unfold Fsm.cmd_service. destruct (k_state (k (st w))) eqn:HX.
  all: try (assert (U : uses_cmd (k_state (k (st w))) = true) by (rewrite HX; reflexivity);
            assert (S : sel (st w)) by (apply Inv_sel; assumption)).
  all: unfold_readers; wred.
  - (* ERROR *) apply (reading_Inv w _ CS_ERROR); [intros; apply error_body_Inv|..]; assumption.
  - (* IDLE *) apply (reading_Inv w _ CS_IDLE); [intros; apply idle_body_Inv|..]; assumption.
  - apply (reading_Inv w _ CS_PARSE_PREFIX); [intros; apply prefix_body_Inv|..]; assumption.
  - apply (reading_Inv w _ CS_PARSE_COMMAND_CHAR); [intros; apply parse_command_body_Inv|..]; assumption.
  - apply update_command_Inv; assumption.
  - apply (reading_Inv w _ CS_WAIT_READ_ACK); [intros; apply wait_read_body_Inv|..]; assumption.
  - apply search_command_Inv; assumption.
  - apply command_found_Inv; assumption.
  - apply ack_error_Inv.
  - apply (reading_Inv w _ CS_PARSE_COMMAND_ARGS); [|assumption..].
    intros ch s I1 H1. rewrite pca_is_body. apply pca_body_Inv.
    + apply Inv_sel; [exact I1 | rewrite H1; reflexivity].
    + rewrite H1; reflexivity.
  - apply parse_write_args_Inv; assumption.
  - apply format_read_args_Inv; assumption.
  - apply (reading_Inv w _ CS_WAIT_TEST_ACK); [|assumption..].
    intros ch s I1 H1. apply wait_test_body_Inv; [|exact H1].
    apply Inv_sel; [exact I1 | rewrite H1; reflexivity].
  - apply format_test_args_Inv; assumption.
  - apply process_write_loop_Inv; assumption.
  - apply process_rt_loop_Inv; assumption.
  - apply process_rt_loop_Inv; assumption.
  - apply process_run_loop_Inv; assumption.
  - apply process_hold_state_Inv; assumption.
  - apply process_io_write_wait_Inv; assumption.
  - apply process_io_write_Inv; assumption.
  - apply reset_state_Inv.
  - apply ack_ok_Inv.
  - apply spfra_Inv; assumption.
  - apply spfta_Inv; assumption.
  - apply print_cmd_list_Inv; assumption.
Qed.

(* ---------- the event machine ---------- *)
Ltac evleaf :=
  unfold evrel; split; [reflexivity|]; split; [reflexivity|]; split; [reflexivity|];
  split; [reflexivity|]; split; [reflexivity|]; first [left; reflexivity | right; reflexivity].

Ltac evfin :=
  match goal with
  | E : evrel _ ?b |- evrel _ _ => eapply evrel_trans; [exact E|]; evleaf
  end.

Ltac evcall :=
  match goal with
  | |- context [call_h ?w ?q] =>
    let R := fresh "R" in let w1 := fresh "w" in let r := fresh "r" in
    destruct (call_h_rel w q) as [R _]; apply cbrel_same, same_evrel in R;
    destruct (call_h w q) as [w1 r]; cbn [fst snd] in R;
    match goal with
    | E : evrel ?s0 ?b |- _ =>
      let E1 := fresh "E" in
      assert (E1 : evrel s0 (st w1))
        by (eapply evrel_trans; [exact E|]; eapply evrel_trans; [|exact R]; evleaf)
    end
  end.
Ltac evgo := repeat (cbv beta iota zeta; wred; first [evcall | brk1]); cbv beta iota zeta; wred.

Lemma uns_evrel : forall (w : world), evrel (st w) (st (fst (unsolicited_events_service w))).
Proof.
  intros w. pose proof (evrel_refl (st w)) as E0.
  unfold Fsm.unsolicited_events_service.
  destruct (u_state (u (st w))).
  - unfold check_unsolicited_buffers, pop_unsolicited_cmd. unf_fmt. evgo; evfin.
  - unfold Fsm.format_read_args. unf_fmt. unfold unsolicited_reset_state, start_flush_u. evgo; evfin.
  - unf_fmt. unfold unsolicited_reset_state, start_flush_u. evgo; evfin.
  - unfold Fsm.process_rt_loop, apply_edit, hold_exit, enable_hold_state. unf_fmt.
    unfold unsolicited_reset_state, start_flush_u. evgo; evfin.
  - unfold Fsm.process_rt_loop, apply_edit, hold_exit, enable_hold_state. unf_fmt.
    unfold unsolicited_reset_state, start_flush_u. evgo; evfin.
  - unfold unsolicited_process_io_write_wait. evgo; evfin.
  - unfold Fsm.unsolicited_process_io_write. evgo; evfin.
  - unfold unsolicited_reset_state. evgo; evfin.
  - unf_fmt. unfold unsolicited_reset_state. evgo; evfin.
  - unf_fmt. unfold unsolicited_reset_state, start_flush_u. evgo; evfin.
  - unf_fmt. unfold unsolicited_reset_state, start_flush_u. evgo; evfin.
Qed.

(* ---------- one cat_service call, one operation, a history ---------- *)
Lemma service_body_Inv : forall (w : world), Inv (st w) -> Inv (st (fst (service_body w))).
Proof.
  intros w I. unfold Fsm.service_body.
  pose proof (uns_evrel w) as E. destruct (unsolicited_events_service w) as [w1 us]. cbn [fst] in E.
  pose proof (cmd_service_Inv w1 (Inv_evrel D _ _ E I)) as C.
  destruct (cmd_service w1) as [w2 s]. cbn [fst] in C.
  destruct (negb (us =? ST_OK)%Z || negb (ustate_beq (u_state (u (st w2))) US_IDLE)); exact C.
Qed.

(* every flag operation is executed between lines (command machine in CS_IDLE) *)
Fixpoint flags_between_lines (w : world) (ops : list op) : Prop :=
  match ops with
  | [] => True
  | o :: r => (flag_op o = true -> k_state (k (st w)) = CS_IDLE) /\ flags_between_lines (step w o) r
  end.

Lemma do_op_Inv : forall (w : world) o, Inv (st w) ->
  (flag_op o = true -> k_state (k (st w)) = CS_IDLE) -> Inv (st (fst (do_op w o))).
Proof.
  intros w o I F. destruct o; cbn [Fsm.do_op flag_op] in *.
  - unfold Fsm.api_service. apply bracket_P; [exact I|]. intros w0 E. apply service_body_Inv.
    rewrite E. exact I.
  - unfold Fsm.api_trigger. apply bracket_P; [exact I|]. intros w0 E. rewrite E.
    pose proof (push_rel (st w) ci t) as P. destruct (push_unsolicited_cmd D (st w) ci t). wred.
    cbn [fst] in P. apply (Inv_same D (st w)); [eapply cbrel_same; exact P | exact I].
  - unfold Fsm.api_hold_exit. apply bracket_P; [exact I|]. intros w0 E. rewrite E.
    pose proof (hold_exit_rel (st w) status) as P. destruct (hold_exit (st w) status). wred.
    cbn [fst] in P. apply (Inv_same D (st w)); [eapply cbrel_same; exact P | exact I].
  - unfold Fsm.api_is_busy. apply bracket_P; [exact I|]. intros w0 E. wred. rewrite E. exact I.
  - unfold Fsm.api_is_hold. apply bracket_P; [exact I|]. intros w0 E. wred. rewrite E. exact I.
  - unfold Fsm.api_is_full. apply bracket_P; [exact I|]. intros w0 E. wred. rewrite E. exact I.
  - exact I.
  - exact I.
  - wred. apply Inv_plain_st with (x := CS_IDLE); [apply F; reflexivity | reflexivity].
  - wred. apply Inv_plain_st with (x := CS_IDLE); [apply F; reflexivity | reflexivity].
Qed.

Lemma step_st : forall (w : world) o, st (step w o) = st (fst (do_op w o)).
Proof. intros w o. unfold Fsm.step. destruct (do_op w o). reflexivity. Qed.

Lemma run_Inv : forall ops (w : world), Inv (st w) -> flags_between_lines w ops -> Inv (st (run w ops)).
Proof.
  induction ops as [|o ops IH]; intros w I F.
  - exact I.
  - cbn [flags_between_lines] in F. destruct F as [F1 F2].
    change (run w (o :: ops)) with (run (step w o) ops). apply IH; [|exact F2].
    rewrite step_st. apply do_op_Inv; assumption.
Qed.

Lemma init_Inv : forall m, Inv (init_state D m).
Proof. intros m. apply Inv_plain. reflexivity. Qed.

Theorem history_Inv : forall m x mx h ops,
  let w0 := mkWorld (init_state D m) x mx h [] in
  flags_between_lines w0 ops -> Inv (st (run w0 ops)).
Proof. intros m x mx h ops w0 F. apply run_Inv; [apply init_Inv | exact F]. Qed.

Theorem C09_selected_enabled : forall m x mx h ops,
  let w0 := mkWorld (init_state D m) x mx h [] in
  flags_between_lines w0 ops ->
  sel_enabled D (st (run w0 ops)).
Proof. intros m x mx h ops w0 F. apply Inv_sel_enabled. apply history_Inv. exact F. Qed.

(* while the table is searched the candidate, if any, is a registered, enabled command and the
   sweep index is inside the table *)
Theorem C09_candidate_enabled : forall m x mx h ops,
  let w0 := mkWorld (init_state D m) x mx h [] in
  flags_between_lines w0 ops ->
  let s := st (run w0 ops) in
  k_state (k s) = CS_SEARCH_COMMAND ->
  k_index (k s) < ncmds D /\
  forall i, k_cmd (k s) = Some i -> i < ncmds D /\ is_command_disable D s i = false.
Proof.
  intros m x mx h ops w0 F s HX. apply (InvP_search D s); [|exact HX]. apply history_Inv. exact F.
Qed.

(* ====================================================================== *)
(* the store frame                                                         *)
(* ====================================================================== *)
(* the pure state functions never touch variable storage *)
Ltac memgo := intros; brk; reflexivity.

Lemma mem_update_command : forall s, mem (update_command D s) = mem s.
Proof. unfold update_command, set_cmd_state, prepare_search_command. memgo. Qed.
Lemma mem_search_command : forall s, mem (search_command D s) = mem s.
Proof. unfold search_command. memgo. Qed.
Lemma mem_spfra : forall f s, mem (start_processing_format_read_args D f s) = mem s.
Proof. unf_fmt. unfold unsolicited_reset_state. intros f s; destruct f; memgo. Qed.
Lemma mem_spfta : forall f s, mem (start_processing_format_test_args D f s) = mem s.
Proof. unf_fmt. unfold unsolicited_reset_state, start_flush_u. intros f s; destruct f; memgo. Qed.
Lemma mem_format_test_args : forall f s, mem (format_test_args D f s) = mem s.
Proof. unf_fmt. unfold unsolicited_reset_state, start_flush_u. intros f s; destruct f; memgo. Qed.
Lemma mem_command_found : forall s, mem (command_found D s) = mem s.
Proof.
  intros s. unfold command_found. destruct (cmd_of D ATCMD s); [|reflexivity].
  destruct (k_type (k s)); try reflexivity.
  - brk; reflexivity.
  - destruct (c_only_test c); [reflexivity | apply mem_spfra].
  - brk; reflexivity.
Qed.
Lemma mem_pca_body : forall ch s, mem (pca_body D ch s) = mem s.
Proof. unfold pca_body. memgo. Qed.
Lemma mem_print_cmd_list : forall s, mem (print_cmd_list D s) = mem s.
Proof.
  unfold print_cmd_list, print_cmd_form, print_current_cmd_full_name, cmd_list_next_cmd,
    start_flush_raw_c. memgo.
Qed.
Lemma mem_reset_state : forall s, mem (reset_state s) = mem s.
Proof. unfold reset_state. memgo. Qed.
Lemma mem_process_hold_state : forall s, mem (process_hold_state s) = mem s.
Proof. unfold process_hold_state. memgo. Qed.
Lemma mem_process_io_write_wait : forall s, mem (process_io_write_wait s) = mem s.
Proof. unfold process_io_write_wait. memgo. Qed.

Lemma mem_read_cmd_char : forall (w : world), mem (st (fst (read_cmd_char w))) = mem (st w).
Proof.
  intros w. unfold Fsm.read_cmd_char. destruct (io_read (io w)) as [io' [ch|]]; cbv zeta; wred.
  - brk; reflexivity.
  - reflexivity.
Qed.
Lemma mem_reading : forall (w : world) body, (forall ch s, mem (body ch s) = mem s) ->
  mem (st (fst (reading w body))) = mem (st w).
Proof.
  intros w body Hb. unfold Fsm.reading. pose proof (mem_read_cmd_char w) as R.
  destruct (read_cmd_char w) as [w1 got]. cbn [fst] in R. destruct got; cbn [negb]; wred.
  - rewrite Hb. exact R.
  - exact R.
Qed.

(* the pokes of at most one callback *)
Definition handler_pokes (pokes : list (nat * list N)) : Prop :=
  pokes = [] \/ exists h q, pokes = r_pokes (snd (h_call h q)).

Ltac memcall :=
  match goal with
  | |- context [call_h ?w ?q] =>
    let R := fresh "R" in let w1 := fresh "w" in let r := fresh "r" in
    let h := fresh "h" in let Hh := fresh "Hh" in let M := fresh "M" in
    destruct (call_h_rel w q) as [R [h Hh]];
    destruct (call_h w q) as [w1 r]; cbn [fst snd] in R, Hh;
    destruct R as (_ & _ & _ & _ & _ & _ & _ & _ & M)
  end.
Ltac mgo := repeat (cbv beta iota zeta; wred; first [memcall | brk1]); cbv beta iota zeta; wred.
(* leaf: exists pokes, handler_pokes pokes /\ mem X = fold_left poke_mem pokes m1 *)
Ltac mleaf :=
  first
    [ exists []; split; [left; reflexivity | reflexivity]
    | match goal with
      | Hh : ?r = snd (h_call ?h ?q), M : mem _ = fold_left poke_mem (r_pokes ?r) _ |- _ =>
        exists (r_pokes r); split; [right; exists h, q; rewrite Hh; reflexivity | exact M]
      end ].

Lemma mem_format_read_args : forall (w : world), exists pokes, handler_pokes pokes /\
  mem (st (fst (format_read_args ATCMD w))) = fold_left poke_mem pokes (mem (st w)).
Proof. intros w. unfold Fsm.format_read_args. unf_fmt. mgo; mleaf. Qed.

Lemma mem_process_write_loop : forall (w : world), exists pokes, handler_pokes pokes /\
  mem (st (fst (process_write_loop w))) = fold_left poke_mem pokes (mem (st w)).
Proof. intros w. unfold Fsm.process_write_loop, enable_hold_state. mgo; mleaf. Qed.

Lemma mem_process_run_loop : forall (w : world), exists pokes, handler_pokes pokes /\
  mem (st (fst (process_run_loop w))) = fold_left poke_mem pokes (mem (st w)).
Proof.
  intros w. unfold Fsm.process_run_loop, enable_hold_state, start_print_cmd_list. mgo; mleaf.
Qed.

Lemma mem_process_rt_loop : forall rd (w : world), exists pokes, handler_pokes pokes /\
  mem (st (fst (process_rt_loop rd ATCMD w))) = fold_left poke_mem pokes (mem (st w)).
Proof.
  intros rd w. unfold Fsm.process_rt_loop, apply_edit, hold_exit, enable_hold_state, start_print_cmd_list.
  unf_fmt. mgo; mleaf.
Qed.

Lemma mem_process_io_write : forall (w : world), mem (st (fst (process_io_write w))) = mem (st w).
Proof. intros w. unfold Fsm.process_io_write. mgo; reflexivity. Qed.

(* the library's own store of one command-machine step taken in state s: none, or (argument parsing)
   the storage of the current variable of the selected command *)
Definition own_store (s : state) (m1 : list (list N)) : Prop :=
  m1 = mem s \/
  (k_state (k s) = CS_PARSE_WRITE_ARGS /\
   exists i c v d, k_cmd (k s) = Some i /\ nth_error (pool D) i = Some c /\
                   nth_error (c_vars c) (k_var (k s)) = Some v /\ m1 = upd (mem s) (v_slot v) d).

Lemma mem_parse_write_args : forall (w : world), exists pokes m1, handler_pokes pokes /\
  mem (st (fst (parse_write_args w))) = fold_left poke_mem pokes m1 /\
  (m1 = mem (st w) \/
   exists i c v d, k_cmd (k (st w)) = Some i /\ nth_error (pool D) i = Some c /\
                   nth_error (c_vars c) (k_var (k (st w))) = Some v /\
                   m1 = upd (mem (st w)) (v_slot v) d).
Proof.
  intros w. unfold Fsm.parse_write_args.
  assert (Triv : forall X : state, mem X = mem (st w) ->
            exists pokes m1, handler_pokes pokes /\ mem X = fold_left poke_mem pokes m1 /\
            (m1 = mem (st w) \/
             exists i c v d, k_cmd (k (st w)) = Some i /\ nth_error (pool D) i = Some c /\
                   nth_error (c_vars c) (k_var (k (st w))) = Some v /\
                   m1 = upd (mem (st w)) (v_slot v) d)).
  { intros X E. exists [], (mem (st w)). split; [left; reflexivity|]. split; [exact E | left; reflexivity]. }
  destruct (g_cmd ATCMD (st w)) as [ci|] eqn:G; [|apply Triv; reflexivity].
  destruct (cmd_of D ATCMD (st w)) as [c|] eqn:C; [|apply Triv; reflexivity].
  destruct (nth_error (c_vars c) (k_var (k (st w)))) as [v|] eqn:V; [|apply Triv; reflexivity].
  destruct (nth_error (mem (st w)) (v_slot v)) as [data|] eqn:Md; [|apply Triv; reflexivity].
  destruct (decode_var v (skipn (k_position (k (st w))) (cbuf (st w))) data) as [[[pst data'] wsz] n0].
  assert (Own : exists i c0 v0 d, k_cmd (k (st w)) = Some i /\ nth_error (pool D) i = Some c0 /\
                   nth_error (c_vars c0) (k_var (k (st w))) = Some v0 /\
                   upd (mem (st w)) (v_slot v) data' = upd (mem (st w)) (v_slot v0) d).
  { exists ci, c, v, data'. unfold cmd_of in C. rewrite G in C. cbn [g_cmd] in G. auto. }
  cut (exists pokes, handler_pokes pokes /\
         mem (st (fst
           (let s1 := set_mem (upd (mem (st w)) (v_slot v) data')
                        (setk_position (k_position (k (st w)) + n0) (st w)) in
            match pst with
            | SFault => busy (set_st (set_fault_flag s1) w)
            | SErr => busy (set_st (ack_error s1) w)
            | SOk comma =>
              let s2 := setk_write_size wsz s1 in
              let w2 := set_st s2 w in
              let '(w3, failed) :=
                if v_hwrite v
                then let (w', r) := call_h w2 (VWrite ci (k_var (k (st w))) wsz data') in
                     (w', negb (r_code r =? 0)%Z)
                else (w2, false) in
              if failed then busy (upd_st ack_error w3)
              else busy (upd_st (fun s =>
                let idx := S (k_index (k s)) in
                let s := setk_index idx s in
                if (idx <? length (c_vars c)) && comma then setk_var idx s
                else if comma then ack_error s
                else if c_need_all c && negb (idx =? length (c_vars c)) then ack_error s
                else if negb (c_hwrite c) then ack_ok s
                else setk_state CS_WRITE_LOOP s) w3)
            end))) = fold_left poke_mem pokes (upd (mem (st w)) (v_slot v) data')).
  { intros [pokes [HP E]]. exists pokes, (upd (mem (st w)) (v_slot v) data').
    split; [exact HP|]. split; [exact E | right; exact Own]. }
  mgo; mleaf.
Qed.

Theorem C09_store_frame : forall (w : world), exists pokes m1,
  handler_pokes pokes /\
  mem (st (fst (cmd_service w))) = fold_left poke_mem pokes m1 /\
  own_store (st w) m1.
Proof.
  intros w.
  assert (Triv : forall X : state, mem X = mem (st w) ->
            exists pokes m1, handler_pokes pokes /\ mem X = fold_left poke_mem pokes m1 /\
                             own_store (st w) m1).
  { intros X E. exists [], (mem (st w)). split; [left; reflexivity|]. split; [exact E | left; reflexivity]. }
  assert (Call : forall X : state,
            (exists pokes, handler_pokes pokes /\ mem X = fold_left poke_mem pokes (mem (st w))) ->
            exists pokes m1, handler_pokes pokes /\ mem X = fold_left poke_mem pokes m1 /\
                             own_store (st w) m1).
  { intros X [pokes [HP E]]. exists pokes, (mem (st w)). split; [exact HP|]. split; [exact E | left; reflexivity]. }
  unfold Fsm.cmd_service. destruct (k_state (k (st w))) eqn:HX; unfold_readers; wred.
  all: try (apply Triv;
            first [ apply mem_update_command | apply mem_search_command | apply mem_command_found
                  | apply mem_format_test_args | apply mem_process_hold_state
                  | apply mem_process_io_write_wait | apply mem_process_io_write
                  | apply mem_reset_state | apply mem_spfra | apply mem_spfta
                  | apply mem_print_cmd_list
                  | apply mem_reading; intros ch s;
                    first [ rewrite pca_is_body; apply mem_pca_body
                          | brk; first [reflexivity | apply mem_spfta] ]
                  | reflexivity ]).
  all: try (apply Call;
            first [ apply mem_format_read_args | apply mem_process_write_loop
                  | apply mem_process_rt_loop | apply mem_process_run_loop ]).
  destruct (mem_parse_write_args w) as (pokes & m1 & HP & E & O). exists pokes, m1.
  split; [exact HP|]. split; [exact E|].
  destruct O as [O|O]; [left; exact O | right; split; [exact HX | exact O]].
Qed.

(* with handlers that store nothing themselves, one command-machine step changes at most the
   storage of the current variable of the selected command *)
Corollary C09_store_frame_slots : (forall h q, r_pokes (snd (h_call h q)) = []) ->
  forall (w : world) j,
  nth_error (mem (st (fst (cmd_service w)))) j <> nth_error (mem (st w)) j ->
  k_state (k (st w)) = CS_PARSE_WRITE_ARGS /\
  exists i c v, k_cmd (k (st w)) = Some i /\ nth_error (pool D) i = Some c /\
                nth_error (c_vars c) (k_var (k (st w))) = Some v /\ j = v_slot v.
Proof.
  intros NP w j Hj. destruct (C09_store_frame w) as (pokes & m1 & HP & E & O).
  assert (P0 : pokes = []) by (destruct HP as [HP | (h & q & HP)]; [exact HP | rewrite HP; apply NP]).
  subst pokes. cbn [fold_left] in E. rewrite E in Hj. clear E.
  destruct O as [O | (HX & i & c & v & d & K & C & V & O)]; rewrite O in Hj; [congruence|].
  split; [exact HX|]. exists i, c, v. repeat split; try assumption.
  destruct (Nat.eq_dec (v_slot v) j) as [e|ne]; [symmetry; exact e|].
  rewrite nth_error_upd_ne in Hj by exact ne. congruence.
Qed.

(* in a history, the command-machine step of the next cat_service call (taken after the event
   machine's step, from any world w' carrying the reached object state) stores at most into a
   variable of a registered, ENABLED command *)
Theorem C09_stores_concern_enabled : forall m x mx h ops (w' : world),
  let w0 := mkWorld (init_state D m) x mx h [] in
  flags_between_lines w0 ops ->
  st w' = st (run w0 ops) ->
  let w1 := fst (unsolicited_events_service w') in
  exists pokes m1,
    handler_pokes pokes /\
    mem (st (fst (cmd_service w1))) = fold_left poke_mem pokes m1 /\
    (m1 = mem (st w1) \/
     exists i c v d, k_cmd (k (st w1)) = Some i /\ i < ncmds D /\
                     is_command_disable D (st w1) i = false /\
                     nth_error (cmds D) i = Some c /\
                     nth_error (c_vars c) (k_var (k (st w1))) = Some v /\
                     m1 = upd (mem (st w1)) (v_slot v) d).
Proof.
  intros m x mx h ops w' w0 F E w1.
  assert (I1 : Inv (st w1)).
  { apply (Inv_evrel D (st w')); [apply uns_evrel|]. rewrite E. apply history_Inv. exact F. }
  destruct (C09_store_frame w1) as (pokes & m1 & HP & EM & O). exists pokes, m1.
  split; [exact HP|]. split; [exact EM|].
  destruct O as [O | (HX & i & c & v & d & K & C & V & O)]; [left; exact O|]. right.
  assert (S : sel (st w1)) by (apply Inv_sel; [exact I1 | rewrite HX; reflexivity]).
  destruct S as (i' & K' & Hi & Hd). rewrite K in K'. injection K' as <-.
  exists i, c, v, d. repeat split; try assumption.
  unfold pool in C. rewrite nth_error_app1 in C by exact Hi. exact C.
Qed.
End Hist.

(* ====================================================================== *)
(* examples (non-vacuity), by computation on the scripted environment      *)
(* ====================================================================== *)
Definition exC09_calls (h : list event) : list hreq :=
  flat_map (fun e => match e with ECall q _ => [q] | _ => [] end) h.
Definition exC09_written (h : list event) : list N :=
  flat_map (fun e => match e with EWr _ ch true => [ch] | _ => [] end) h.

(* group 0: "+GO" (run handler), "+GET" (one uint8 RW variable, slot 0, no handler);
   group 1: "+T" (test-only, run and test handlers) *)
Definition exC09_D : desc :=
  mkDesc [[mkCmd [43; 71; 79]%N None false false true false [] false false false;
           mkCmd [43; 71; 69; 84]%N None false false false false
                 [mkVar None VUint 1 RW false false 0] false false false];
          [mkCmd [43; 84]%N None false false true true [] false true false]]
         [] 32 None 0%N 2 false.

(* operations pre, then n cat_service calls on the input line, then operations post; the variable holds 7 *)
Definition exC09_run (pre : list op) (line : list N) (n : nat) (post : list op) : sworld :=
  run exC09_D sio smu shs s_read s_write s_lock s_unlock s_call
      (sinit exC09_D [[7%N]] (mkSio line [] []) (mkSmu [] []) [])
      (pre ++ repeat OService n ++ post).
(* variable storage, bytes written, callbacks made *)
Definition exC09_obs (w : sworld) : list (list N) * list N * list hreq :=
  (mem (Fsm.st _ _ _ w), exC09_written (TraceDefs.hist _ _ _ w), exC09_calls (TraceDefs.hist _ _ _ w)).

Definition exC09_GET5 : list N := [65;84;43;71;69;84;61;53;10]%N.     (* AT+GET=5 *)
Definition exC09_GETq : list N := [65;84;43;71;69;84;63;10]%N.        (* AT+GET?  *)
Definition exC09_GETr : list N := [65;84;43;71;69;84;10]%N.           (* AT+GET   *)
Definition exC09_G : list N := [65;84;43;71;10]%N.                    (* AT+G     *)
Definition exC09_T : list N := [65;84;43;84;10]%N.                    (* AT+T     *)
Definition exC09_Tq : list N := [65;84;43;84;61;63;10]%N.             (* AT+T=?   *)
Definition exC09_OK : list N := [10; 79; 75; 10]%N.
Definition exC09_ERROR : list N := [10; 69; 82; 82; 79; 82; 10]%N.

(* enabled: the write is served *)
Example exC09_enabled : exC09_obs (exC09_run [] exC09_GET5 60 []) = ([[5%N]], exC09_OK, []).
Proof. vm_compute. reflexivity. Qed.
(* own flag / group flag: ERROR, variable untouched, nothing called *)
Example exC09_own_flag :
  exC09_obs (exC09_run [OSetCmdDisable 1 true] exC09_GET5 60 []) = ([[7%N]], exC09_ERROR, []).
Proof. vm_compute. reflexivity. Qed.
Example exC09_group_flag :
  exC09_obs (exC09_run [OSetGroupDisable 0 true] exC09_GET5 60 []) = ([[7%N]], exC09_ERROR, []).
Proof. vm_compute. reflexivity. Qed.
(* "+G" is ambiguous while "+GO" and "+GET" are both enabled; with "+GET" disabled it abbreviates "+GO" *)
Example exC09_ambiguous : exC09_obs (exC09_run [] exC09_G 60 []) = ([[7%N]], exC09_ERROR, []).
Proof. vm_compute. reflexivity. Qed.
Example exC09_not_ambiguous :
  exC09_obs (exC09_run [OSetCmdDisable 1 true] exC09_G 60 []) = ([[7%N]], exC09_OK, [HRun 0]).
Proof. vm_compute. reflexivity. Qed.
(* forms: "+GET" has no run handler; its variable is readable *)
Example exC09_run_refused : exC09_obs (exC09_run [] exC09_GETr 60 []) = ([[7%N]], exC09_ERROR, []).
Proof. vm_compute. reflexivity. Qed.
Example exC09_read_served :
  exC09_obs (exC09_run [] exC09_GETq 80 []) =
  ([[7%N]], [10; 43; 71; 69; 84; 61; 55; 10]%N ++ exC09_OK, []).
Proof. vm_compute. reflexivity. Qed.
(* a test-only command answers only '=?' (its run handler is never called) *)
Example exC09_only_test_run : exC09_obs (exC09_run [] exC09_T 60 []) = ([[7%N]], exC09_ERROR, []).
Proof. vm_compute. reflexivity. Qed.
Example exC09_only_test_test :
  exC09_obs (exC09_run [] exC09_Tq 60 []) =
  ([[7%N]], exC09_OK, [HTest ATCMD 2 [43; 84; 61; 0]%N 3 16]).
Proof. vm_compute. reflexivity. Qed.
Example exC09_only_test_disabled :
  exC09_obs (exC09_run [OSetGroupDisable 1 true] exC09_Tq 60 []) = ([[7%N]], exC09_ERROR, []).
Proof. vm_compute. reflexivity. Qed.

(* the hypothesis of the history theorems holds on these runs ... *)
Example exC09_flags_ok :
  flags_between_lines exC09_D sio smu shs s_read s_write s_lock s_unlock s_call
    (sinit exC09_D [[7%N]] (mkSio exC09_GET5 [] []) (mkSmu [] []) [])
    ([OSetCmdDisable 1 true] ++ repeat OService 60).
Proof. vm_compute. repeat split; intros; first [reflexivity | discriminate]. Qed.
(* ... and is necessary: after 22 calls "+GET" has been selected (CS_PARSE_COMMAND_ARGS); disabling it
   now leaves a disabled command selected, and its variable is written all the same *)
Example exC09_flag_mid_line :
  let s := Fsm.st _ _ _ (exC09_run [] exC09_GET5 22 [OSetCmdDisable 1 true]) in
  k_state (k s) = CS_PARSE_COMMAND_ARGS /\ needs_cmd s = true /\ k_cmd (k s) = Some 1 /\
  is_command_disable exC09_D s 1 = true /\
  exC09_obs (exC09_run [] exC09_GET5 22 (OSetCmdDisable 1 true :: repeat OService 40)) =
  ([[5%N]], exC09_OK, []).
Proof. vm_compute. repeat split; reflexivity. Qed.

(* the gating function on the example table *)
Example exC09_accepts :
  map (fun c => map (dispatch_accepts c) [F_RUN; F_READ; F_WRITE; F_TEST]) (cmds exC09_D) =
  [[true; false; false; false]; [false; true; true; true]; [false; false; false; true]].
Proof. vm_compute. reflexivity. Qed.
