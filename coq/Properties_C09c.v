(* Properties_C09c.v — property C09 for CALLBACKS: Properties_C09.v shows that in every history (flags
   changed only between lines) the selected command is a registered, enabled one whenever the command
   machine can use it, and that STORES concern such a command.  This file states the same for the calls
   into the application:
     1. every handler / variable callback made by the command machine's step of the next cat_service
        call is made for a registered, ENABLED command (same hypotheses as C09_stores_concern_enabled);
     2. every command-side callback recorded in the trace of a history was made for a command that was
        registered and enabled when the cat_service operation that made it started;
     3. a disabled command is invisible to name resolution: replacing its table entry by ANY other
        entry changes nothing, and resolving over the table with the disabled entries deleted selects
        the same command;
     4. test-only and handler-less commands: every command-side callback of a history is of a request
        form that Spec.dispatch_accepts allows for its command — the run / write / read handler and the
        variable callbacks are never called for a test-only command, a handler is called only if the
        command has it, a variable callback only for a variable that has it.  No hypothesis at all (any
        descriptor, any oracles, flag changes at any time, faults allowed).
   Proofs are in Lemmas_Calls.v. *)
From Coq Require Import List NArith ZArith Bool Arith.
From CatV Require Import Bytes Defs Codec Spec Fsm Script ResolveDefs EvSkelSim.
From CatV Require Lemmas_Calls.
Import ListNotations.
Local Open Scope nat_scope.

Definition flag_op (o : op) : bool :=
  match o with OSetCmdDisable _ _ | OSetGroupDisable _ _ => true | _ => false end.

(* which machine a request comes from (true = the event machine) *)
Definition ev_side (q : hreq) : bool :=
  match q with HRead UNSOL _ _ _ _ | HTest UNSOL _ _ _ _ | VRead UNSOL _ _ => true | _ => false end.

(* the state of the command machine in which a callback kind is made *)
Definition call_state (q : hreq) : cstate :=
  match q with
  | HRun _ => CS_RUN_LOOP
  | HWrite _ _ _ _ => CS_WRITE_LOOP
  | VWrite _ _ _ _ => CS_PARSE_WRITE_ARGS
  | HRead _ _ _ _ _ => CS_READ_LOOP
  | VRead _ _ _ => CS_FORMAT_READ_ARGS
  | HTest _ _ _ _ _ => CS_TEST_LOOP
  end.

(* the request form a callback kind belongs to, and what the command must have for that kind *)
Definition form_of (q : hreq) : form :=
  match q with
  | HRun _ => F_RUN
  | HWrite _ _ _ _ | VWrite _ _ _ _ => F_WRITE
  | HRead _ _ _ _ _ | VRead _ _ _ => F_READ
  | HTest _ _ _ _ _ => F_TEST
  end.
Definition served (c : cmd) (q : hreq) : bool :=
  match q with
  | HRun _ => c_hrun c
  | HWrite _ _ _ _ => c_hwrite c
  | HRead _ _ _ _ _ => c_hread c
  | HTest _ _ _ _ _ => c_htest c
  | VRead _ _ _ => readable c
  | VWrite _ _ _ _ => writable c
  end.

Section C09c.
Variable D : desc.
Variables ioS muS hS : Type.
Variable io_read : ioS -> ioS * option N.
Variable io_write : ioS -> N -> ioS * bool.
Variable mu_lock : muS -> muS * bool.
Variable mu_unlock : muS -> muS * bool.
Variable h_call : hS -> hreq -> hS * hres.

(* at least one registered command (cat_init contract) *)
Hypothesis Hn : 0 < ncmds D.

Local Notation world := (Fsm.world ioS muS hS).
Local Notation st := (Fsm.st ioS muS hS).
Local Notation tr := (Fsm.tr ioS muS hS).
Local Notation mkWorld := (Fsm.mkWorld ioS muS hS).
Local Notation step := (Fsm.step D ioS muS hS io_read io_write mu_lock mu_unlock h_call).
Local Notation run := (Fsm.run D ioS muS hS io_read io_write mu_lock mu_unlock h_call).
Local Notation cmd_service := (Fsm.cmd_service D ioS muS hS io_read io_write mu_lock mu_unlock h_call).
Local Notation unsolicited_events_service :=
  (Fsm.unsolicited_events_service D ioS muS hS io_write mu_lock mu_unlock h_call).

(* the enable flags are changed only between lines (as in Properties_C09.v) *)
Fixpoint flags_between_lines (w : world) (ops : list op) : Prop :=
  match ops with
  | [] => True
  | o :: r => (flag_op o = true -> k_state (k (st w)) = CS_IDLE) /\ flags_between_lines (step w o) r
  end.

(* 1. in a history, the callbacks of the command-machine step of the next cat_service call (taken after
   the event machine's step, from any world w' carrying the reached object state) are made for the
   selected command, which is registered and enabled.  No assumption on the handlers, on faults or on
   the descriptor beyond Hn. *)
Theorem C09_calls_concern_enabled : forall m x mx h ops (w' : world),
  let w0 := mkWorld (init_state D m) x mx h [] in
  flags_between_lines w0 ops ->
  st w' = st (run w0 ops) ->
  let w1 := fst (unsolicited_events_service w') in
  forall evs q code, tr (fst (cmd_service w1)) = evs ++ tr w1 -> In (ECall q code) evs ->
  exists i, req_cmd q = i /\ k_cmd (k (st w1)) = Some i /\ i < ncmds D /\
            is_command_disable D (st w1) i = false.
Proof.
  exact (Lemmas_Calls.calls_concern_enabled D ioS muS hS io_read io_write mu_lock mu_unlock h_call Hn).
Qed.

(* 2. the whole trace: a command-side callback was made by one cat_service operation of the history,
   and when that operation started its command was selected, registered and enabled (the flags are
   not touched inside cat_service, so "enabled" also holds at the moment of the call) *)
Theorem C09_calls_enabled_history : forall m x mx h ops q code,
  let w0 := mkWorld (init_state D m) x mx h [] in
  flags_between_lines w0 ops ->
  In (ECall q code) (tr (run w0 ops)) -> ev_side q = false ->
  exists ops1 ops2 evs, ops = ops1 ++ OService :: ops2 /\
    tr (run w0 (ops1 ++ [OService])) = evs ++ tr (run w0 ops1) /\ In (ECall q code) evs /\
    let s := st (run w0 ops1) in
    k_cmd (k s) = Some (req_cmd q) /\ k_state (k s) = call_state q /\
    req_cmd q < ncmds D /\ is_command_disable D s (req_cmd q) = false.
Proof.
  exact (Lemmas_Calls.calls_enabled_history D ioS muS hS io_read io_write mu_lock mu_unlock h_call Hn).
Qed.

End C09c.

(* 4. test-only and handler-less commands are never executed.  c is the command the callback names
   (commands are named by their index in pool D = registered commands ++ event-only commands) *)
Section Accepted.
Variable D : desc.
Variables ioS muS hS : Type.
Variable io_read : ioS -> ioS * option N.
Variable io_write : ioS -> N -> ioS * bool.
Variable mu_lock : muS -> muS * bool.
Variable mu_unlock : muS -> muS * bool.
Variable h_call : hS -> hreq -> hS * hres.
Local Notation tr := (Fsm.tr ioS muS hS).
Local Notation mkWorld := (Fsm.mkWorld ioS muS hS).
Local Notation run := (Fsm.run D ioS muS hS io_read io_write mu_lock mu_unlock h_call).

Theorem C09_calls_accepted : forall m x mx h ops q code c,
  let w0 := mkWorld (init_state D m) x mx h [] in
  In (ECall q code) (tr (run w0 ops)) -> ev_side q = false ->
  nth_error (pool D) (req_cmd q) = Some c ->
  dispatch_accepts c (form_of q) = true /\ served c q = true /\
  (form_of q <> F_TEST -> c_only_test c = false).
Proof.
  intros m x mx h ops q code c w0 H S Hc. apply Lemmas_Calls.req_accepts.
  exact (Lemmas_Calls.calls_accepted_history D ioS muS hS io_read io_write mu_lock mu_unlock h_call
           m x mx h ops q code c H S Hc).
Qed.

(* variable callbacks: the variable exists in the named command and has that callback *)
Definition var_handler (q : hreq) : Prop :=
  match q with
  | VWrite ci vi _ _ =>
    exists c v, nth_error (pool D) ci = Some c /\ nth_error (c_vars c) vi = Some v /\ v_hwrite v = true
  | VRead _ ci vi =>
    exists c v, nth_error (pool D) ci = Some c /\ nth_error (c_vars c) vi = Some v /\ v_hread v = true
  | _ => True
  end.

Theorem C09_var_calls_have_handler : forall m x mx h ops q code,
  let w0 := mkWorld (init_state D m) x mx h [] in
  In (ECall q code) (tr (run w0 ops)) -> ev_side q = false -> var_handler q.
Proof.
  intros m x mx h ops q code w0 H S.
  exact (Lemmas_Calls.var_calls_history D ioS muS hS io_read io_write mu_lock mu_unlock h_call
           w0 ops q code eq_refl H S).
Qed.
End Accepted.

(* 3. resolution and disabled entries *)
Theorem C09_disabled_irrelevant : forall typed en cs i c', en i = false ->
  resolve typed en (upd cs i c') = resolve typed en cs.
Proof. exact Lemmas_Calls.disabled_irrelevant. Qed.

(* the enabled commands of the table, each with its table index *)
Fixpoint enabled_sub (en : nat -> bool) (cs : list cmd) (i : nat) : list (nat * cmd) :=
  match cs with
  | [] => []
  | c :: r => (if en i then [(i, c)] else []) ++ enabled_sub en r (S i)
  end.

(* resolving over the table with the disabled entries deleted (every remaining entry enabled) selects
   position j of the reduced table exactly when resolving over the full table selects the table index
   of that entry; nothing is selected in the one exactly when nothing is selected in the other *)
Theorem C09_resolve_without_disabled : forall typed en cs,
  let sub := enabled_sub en cs 0 in
  resolve typed en cs =
  match resolve typed (fun _ => true) (map snd sub) with
  | Some j => option_map fst (nth_error sub j)
  | None => None
  end.
Proof. exact Lemmas_Calls.resolve_without_disabled. Qed.

Print Assumptions C09_calls_concern_enabled.
Print Assumptions C09_calls_enabled_history.
Print Assumptions C09_calls_accepted.
Print Assumptions C09_var_calls_have_handler.
Print Assumptions C09_disabled_irrelevant.
Print Assumptions C09_resolve_without_disabled.

(* ------------------------------------------------------------------ *)
(* non-vacuity                                                          *)
(* ------------------------------------------------------------------ *)
Module Examples.

(* command 0 "+GO" (run handler), command 1 "+GET" (run handler), command 2 "+GX" (run handler) *)
Definition exD : desc :=
  mkDesc [[mkCmd [43; 71; 79]%N None false false true false [] false false false;
           mkCmd [43; 71; 69; 84]%N None false false true false [] false false false];
          [mkCmd [43; 71; 88]%N None false false true false [] false false false]]
         [] 32 None 0%N 2 false.

(* "+GET" is disabled by its own flag and "+GX" by its group flag, then  AT+G  AT+GET  AT+GO  are sent *)
Definition exLine : list N := [65;84;43;71;10; 65;84;43;71;69;84;10; 65;84;43;71;79;10]%N.
Definition exOps (n : nat) : list op :=
  [OSetCmdDisable 1 true; OSetGroupDisable 1 true] ++ repeat OService n.
Definition exW0 : sworld := sinit exD [] (mkSio exLine [] []) (mkSmu [] []) [].
Definition exRun (n : nat) : sworld :=
  run exD sio smu shs s_read s_write s_lock s_unlock s_call exW0 (exOps n).
Definition ex_calls (w : sworld) : list hreq :=
  flat_map (fun e => match e with ECall q _ => [q] | _ => [] end) (rev (Fsm.tr _ _ _ w)).
Definition ex_written (w : sworld) : list N :=
  flat_map (fun e => match e with EWr _ ch true => [ch] | _ => [] end) (rev (Fsm.tr _ _ _ w)).

(* the hypothesis of the history theorems holds on this run *)
Example ex_flags_ok :
  flags_between_lines exD sio smu shs s_read s_write s_lock s_unlock s_call exW0 (exOps 200).
Proof. vm_compute. repeat split; intros; first [reflexivity | discriminate]. Qed.

(* with two of the three "+G..." commands disabled, "+G" abbreviates "+GO": its run handler is called;
   "+GET" by its full name is answered ERROR and nothing is called; only command 0 is ever called *)
Example ex_trace :
  ex_calls (exRun 200) = [HRun 0; HRun 0] /\
  ex_written (exRun 200) = [10; 79; 75; 10;  10; 69; 82; 82; 79; 82; 10;  10; 79; 75; 10]%N /\
  map (is_command_disable exD (Fsm.st _ _ _ (exRun 200))) [0; 1; 2] = [false; true; true].
Proof. vm_compute. repeat split; reflexivity. Qed.

(* resolution: the disabled entries can be replaced by anything, or deleted *)
Definition ex_en (i : nat) : bool := negb (is_command_disable exD (Fsm.st _ _ _ (exRun 0)) i).
Definition ex_other : cmd := mkCmd [43; 71]%N None true true true true [] false false true.
Example ex_resolve :
  resolve [43; 71]%N ex_en (cmds exD) = Some 0 /\
  resolve [43; 71]%N (fun _ => true) (cmds exD) = None /\
  resolve [43; 71]%N ex_en (upd (cmds exD) 1 ex_other) = Some 0 /\
  resolve [43; 71]%N (fun _ => true) (upd (cmds exD) 1 ex_other) = Some 1 /\
  map fst (enabled_sub ex_en (cmds exD) 0) = [0] /\
  resolve [43; 71]%N (fun _ => true) (map snd (enabled_sub ex_en (cmds exD) 0)) = Some 0.
Proof. vm_compute. repeat split; reflexivity. Qed.

(* test-only and handler-less: command 0 "+T" is test-only with run and test handlers, command 1 "+N" has
   no handler at all and one read-only variable without callbacks.  AT+T -> ERROR, nothing called;
   AT+T=? -> the test handler; AT+N -> ERROR; AT+N=1 -> ERROR; AT+N? -> the value, no callback *)
Definition exD2 : desc :=
  mkDesc [[mkCmd [43; 84]%N None false false true true [] false true false;
           mkCmd [43; 78]%N None false false false false [mkVar None VUint 1 RO false false 0] false false false]]
         [] 32 None 0%N 2 false.
Definition exLine2 : list N :=
  [65;84;43;84;10; 65;84;43;84;61;63;10; 65;84;43;78;10; 65;84;43;78;61;49;10; 65;84;43;78;63;10]%N.
Definition exRun2 (n : nat) : sworld :=
  run exD2 sio smu shs s_read s_write s_lock s_unlock s_call
      (sinit exD2 [[7%N]] (mkSio exLine2 [] []) (mkSmu [] []) []) (repeat OService n).
Example ex_accepted :
  ex_calls (exRun2 300) = [HTest ATCMD 0 [43; 84; 61; 0]%N 3 16] /\
  ex_written (exRun2 300) =
    [10;69;82;82;79;82;10;  10;79;75;10;  10;69;82;82;79;82;10;  10;69;82;82;79;82;10;
     10;43;78;61;55;10; 10;79;75;10]%N /\
  mem (Fsm.st _ _ _ (exRun2 300)) = [[7%N]] /\ k_state (k (Fsm.st _ _ _ (exRun2 300))) = CS_IDLE /\
  map (fun c => map (dispatch_accepts c) [F_RUN; F_READ; F_WRITE; F_TEST]) (cmds exD2) =
    [[false; false; false; true]; [false; true; false; true]].
Proof. vm_compute. repeat split; reflexivity. Qed.

End Examples.
