(* Properties_C16g.v — property C16, history-level guard.  With a mutex configured, in every
   history of API calls every io event (ERd / EWr), handler call (ECall), queue pop (EPop) and
   inner call (EInner) lies strictly between an `ELock true` and the matching EUnlock; brackets
   are never nested; a failed lock is followed by no guarded event; after the last completed
   operation the mutex is not held.  (ERet is logged by `step` after the unlock, hence outside
   the bracket: it is allowed anywhere.)  Proofs are in Lemmas_C16g.v. *)
From Coq Require Import List NArith ZArith Bool Arith.
From CatV Require Import Bytes Defs Codec Fsm Script TraceDefs SchedDefs Lemmas_C16 Lemmas_Inv Lemmas_C16g.
Import ListNotations.

(* the guard predicate (Lemmas_C16g.guarded), a fold over the history, oldest event first;
   `held` = the mutex is held at this point.  Restated here so that the reader sees it: *)
Example guarded_def : forall held h,
  guarded held h =
  match h with
  | [] => negb held                                      (* at the end the mutex is not held *)
  | ELock ok :: r => negb held && guarded ok r           (* never nested; a failed lock leaves held = false *)
  | EUnlock _ :: r => held && guarded false r            (* released even if the unlock reports failure *)
  | ERd _ :: r => held && guarded held r
  | EWr _ _ _ :: r => held && guarded held r
  | ECall _ _ :: r => held && guarded held r
  | EInner _ _ :: r => held && guarded held r
  | EPop _ _ :: r => held && guarded held r
  | ERet _ _ :: r => guarded held r
  end.
Proof. intros held h. destruct h as [|e r]; [|destruct e]; reflexivity. Qed.

(* it refines the lock discipline of C16_history *)
Theorem guarded_locks_ok : forall h b, guarded b h = true -> locks_ok b (locks h) = true.
Proof. exact Lemmas_C16g.guarded_locks_ok. Qed.
Print Assumptions guarded_locks_ok.

Section C16g.
Variable D : desc.
Variables ioS muS hS : Type.
Variable io_read : ioS -> ioS * option N.
Variable io_write : ioS -> N -> ioS * bool.
Variable mu_lock : muS -> muS * bool.
Variable mu_unlock : muS -> muS * bool.
Variable h_call : hS -> hreq -> hS * hres.

(* with a mutex configured, handlers make no inner API calls (they would self-deadlock in C) *)
Hypothesis no_inner : d_mutex D = true -> forall hs q, r_calls (snd (h_call hs q)) = [].

Local Notation world := (Fsm.world ioS muS hS).
Local Notation tr := (Fsm.tr ioS muS hS).
Local Notation mkWorld := (Fsm.mkWorld ioS muS hS).
Local Notation do_op := (Fsm.do_op D ioS muS hS io_read io_write mu_lock mu_unlock h_call).
Local Notation step := (Fsm.step D ioS muS hS io_read io_write mu_lock mu_unlock h_call).
Local Notation run := (Fsm.run D ioS muS hS io_read io_write mu_lock mu_unlock h_call).
Local Notation hist := (TraceDefs.hist ioS muS hS).

(* 1. every history from cat_init is guarded *)
Theorem C16_guarded : forall m x mx h ops, d_mutex D = true ->
  guarded false (hist (run (mkWorld (init_state D m) x mx h []) ops)) = true.
Proof.
  exact (Lemmas_C16g.C16_guarded D ioS muS hS io_read io_write mu_lock mu_unlock h_call no_inner).
Qed.

(* 2. the step form: one more API call (any op) keeps any guarded history guarded ... *)
Theorem C16_guarded_step : forall (w : world) o, d_mutex D = true ->
  guarded false (hist w) = true -> guarded false (hist (step w o)) = true.
Proof.
  exact (Lemmas_C16g.C16_guarded_step D ioS muS hS io_read io_write mu_lock mu_unlock h_call no_inner).
Qed.

(* ... hence so does any run from any world whose history is guarded *)
Theorem C16_guarded_run : forall ops (w : world), d_mutex D = true ->
  guarded false (hist w) = true -> guarded false (hist (run w ops)) = true.
Proof.
  exact (Lemmas_C16g.C16_guarded_run D ioS muS hS io_read io_write mu_lock mu_unlock h_call no_inner).
Qed.

(* 3. the operations that do not lock (cat_is_unsolicited_event_buffered, get_processed,
   set_cmd_disable, set_group_disable, ...) log no event at all; `step` adds their one ERet.
   (Sharpens C16_nonlocking, which only says "no lock event"; needs neither mutex nor no_inner.) *)
Theorem C16_nonlocking_silent : forall (w : world) o, locking_op o = false ->
  tr (fst (do_op w o)) = tr w.
Proof.
  exact (Lemmas_C16g.C16_nonlocking_silent D ioS muS hS io_read io_write mu_lock mu_unlock h_call).
Qed.

End C16g.

Print Assumptions C16_guarded.
Print Assumptions C16_guarded_step.
Print Assumptions C16_guarded_run.
Print Assumptions C16_nonlocking_silent.

(* 4. the same on an invariant HN of the handler oracle state instead of the universally
   quantified no_inner (as C16_history_inv in Lemmas_Inv.v) *)
Theorem C16_guarded_inv :
  forall (D : desc) (ioS muS hS : Type) (io_read : ioS -> ioS * option N)
         (io_write : ioS -> N -> ioS * bool) (mu_lock mu_unlock : muS -> muS * bool)
         (h_call : hS -> hreq -> hS * hres) (HN : hS -> Prop),
  (forall h q, HN h ->
     HN (fst (h_call h q)) /\ (d_mutex D = true -> r_calls (snd (h_call h q)) = [])) ->
  forall m x mx h ops, d_mutex D = true -> HN h ->
  guarded false (hist ioS muS hS (run D ioS muS hS io_read io_write mu_lock mu_unlock h_call
                                      (mkWorld ioS muS hS (init_state D m) x mx h []) ops)) = true.
Proof. exact Lemmas_C16g.C16_guarded_inv. Qed.
Print Assumptions C16_guarded_inv.

(* 5. scripted worlds: it is enough that the script of handler answers contains no inner call *)
Theorem C16_guarded_scripted : forall D m x mx h ops, d_mutex D = true ->
  script_ok res_no_calls h = true ->
  guarded false (hist sio smu shs (srun D (sinit D m x mx h) (map SOp ops))) = true.
Proof. exact Lemmas_C16g.C16_guarded_scripted. Qed.
Print Assumptions C16_guarded_scripted.

(* ------------------------------------------------------------------ *)
(* non-vacuity: scripted runs                                           *)
(* ------------------------------------------------------------------ *)

(* the events that must be inside a bracket *)
Definition needs_lock (e : event) : bool :=
  match e with ERd _ | EWr _ _ _ | ECall _ _ | EInner _ _ | EPop _ _ => true | _ => false end.

(* one command "+X" with a run handler, a mutex (or not), queue capacity 2 *)
Definition gD (mutex : bool) : desc :=
  mkDesc [[mkCmd [43; 88]%N None false false true false [] false false false]] [] 16 None 0%N 2 mutex.

(* (a) the run of Properties_C16.v: input "AT\n"; the 2nd lock fails, the 2nd unlock fails *)
Definition gOps : list op :=
  [OService; OIsBusy; OTrigger 0 T_READ; OIsFull] ++ repeat OService 13 ++ [OIsBusy].
Definition gW (mutex : bool) : sworld :=
  srun (gD mutex)
       (sinit (gD mutex) [] (mkSio [65; 84; 10]%N [] [])
              (mkSmu [true; false; true; true] [true; false; true]) [])
       (map SOp gOps).

Example C16g_ex_prefix : firstn 12 (hist _ _ _ (gW true)) =
  [ELock true; ERd (Some 65%N); EUnlock true; ERet OService 1;
   ELock false; ERet OIsBusy (-3);
   ELock true; EUnlock false; ERet (OTrigger 0 T_READ) (-2);
   ELock true; EUnlock true; ERet OIsFull 0].
Proof. vm_compute. reflexivity. Qed.

Example C16g_ex_guarded : guarded false (hist _ _ _ (gW true)) = true.
Proof. vm_compute. reflexivity. Qed.

(* this run is an instance of C16_guarded_scripted: its hypotheses hold *)
Example C16g_ex_hyps : d_mutex (gD true) = true /\ script_ok res_no_calls [] = true.
Proof. vm_compute. split; reflexivity. Qed.

(* (b) a run that exercises every guarded kind of event: an unsolicited event is queued, a
   non-locking call is made, then "AT+X\n" is served; the 2nd unlock fails, the 3rd lock fails.
   The history is guarded and does contain a pop, reads, a handler call and writes. *)
Definition gW2 : sworld :=
  srun (gD true)
       (sinit (gD true) [] (mkSio [65; 84; 43; 88; 10]%N [] []) (mkSmu [true; true; false] [true; false])
              [((2, 0, 0), [mkHres RC_OK None [] []; mkHres RC_OK None [] []])])
       (map SOp ([OTrigger 0 T_RUN; OIsBuffered 0 T_RUN] ++ repeat OService 20)).

Example C16g_ex2_prefix : firstn 11 (hist _ _ _ gW2) =
  [ELock true; EUnlock true; ERet (OTrigger 0 T_RUN) 0;
   ERet (OIsBuffered 0 T_RUN) 1;
   ELock true; EPop 0 T_RUN; ERd (Some 65%N); EUnlock false; ERet OService (-2);
   ELock false; ERet OService (-3)].
Proof. vm_compute. reflexivity. Qed.

Example C16g_ex2_events : filter needs_lock (hist _ _ _ gW2) =
  [EPop 0 T_RUN; ERd (Some 65%N); ERd (Some 84%N); ERd (Some 43%N); ERd (Some 88%N);
   ERd (Some 10%N); ECall (HRun 0) 3; EWr ATCMD 10 true; EWr ATCMD 79 true; EWr ATCMD 75 true;
   EWr ATCMD 10 true].
Proof. vm_compute. reflexivity. Qed.

Example C16g_ex2_guarded :
  script_ok res_no_calls [((2, 0, 0), [mkHres RC_OK None [] []; mkHres RC_OK None [] []])] = true /\
  guarded false (hist _ _ _ gW2) = true.
Proof. vm_compute. split; reflexivity. Qed.

(* (c) the predicate is not trivially true *)
Example C16g_ex_bad :
  guarded false [ERd None] = false /\                                   (* io outside a bracket *)
  guarded false [ELock false; ERd None] = false /\                      (* io after a failed lock *)
  guarded false [ELock true; ERd None] = false /\                       (* never released *)
  guarded false [ELock true; ELock true; EUnlock true; EUnlock true] = false /\   (* nested *)
  guarded false [ELock true; EUnlock true; EUnlock true] = false /\     (* released twice *)
  guarded false [ELock true; ERd None; EUnlock false; ERet OService (-2)] = true.
Proof. vm_compute. repeat split; reflexivity. Qed.

(* (d) the hypothesis d_mutex D = true is necessary: the run (a) without a mutex does its io
   with no lock at all *)
Example C16g_ex_nomutex : guarded false (hist _ _ _ (gW false)) = false.
Proof. vm_compute. reflexivity. Qed.

(* (e) the hypothesis no_inner is necessary: with a mutex, a run handler that calls
   cat_trigger_unsolicited_event from inside produces a nested lock (a self-deadlock in C);
   this is the run C16_ex_inner_call_nests of Properties_C16.v *)
Definition gW3 : sworld :=
  srun (gD true)
       (sinit (gD true) [] (mkSio [65; 84; 43; 88; 10]%N [] []) (mkSmu [] [])
              [((2, 0, 0), [mkHres RC_OK None [] [ITrigger 0 T_RUN]])])
       (repeat (SOp OService) 12).

Example C16g_ex_inner_call :
  script_ok res_no_calls [((2, 0, 0), [mkHres RC_OK None [] [ITrigger 0 T_RUN]])] = false /\
  guarded false (hist _ _ _ gW3) = false /\
  firstn 7 (skipn 32 (hist _ _ _ gW3)) =
    [ELock true; ECall (HRun 0) 3; ELock true; EUnlock true; EInner (ITrigger 0 T_RUN) 0;
     EUnlock true; ERet OService 1].
Proof. vm_compute. repeat split; reflexivity. Qed.
