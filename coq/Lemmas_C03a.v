(* Lemmas_C03a.v — property C03 (no fault), part a: list facts, the argument decoders never
   fault on a NUL-terminated text, the printing primitives never fault while the cursor is
   inside its buffer.  Everything here is about Codec.v only. *)
From Coq Require Import List NArith ZArith Bool Arith Lia.
From Coq Require Import ZifyBool ZifyNat ZifyN.
From CatV Require Import Bytes Defs Codec Spec Fsm Lemmas_C04 Lemmas_C05.
Import ListNotations.
Local Open Scope nat_scope.

#[local] Ltac Zify.zify_post_hook ::= Z.div_mod_to_equations.

#[local] Arguments N.mul : simpl never.
#[local] Arguments N.add : simpl never.
#[local] Arguments N.sub : simpl never.
#[local] Arguments N.div : simpl never.
#[local] Arguments N.modulo : simpl never.
#[local] Arguments N.pow : simpl never.
#[local] Arguments Z.mul : simpl never.
#[local] Arguments Z.add : simpl never.
#[local] Arguments Z.sub : simpl never.
#[local] Arguments Z.div : simpl never.
#[local] Arguments Z.modulo : simpl never.
#[local] Arguments Z.opp : simpl never.

(* ------------------------------------------------------------------ *)
(* lists                                                                *)
(* ------------------------------------------------------------------ *)

Lemma upd_len : forall {A} (l : list A) i v, length (upd l i v) = length l.
Proof. induction l as [|x r IH]; intros [|i] v; cbn [upd length]; auto. Qed.

Lemma nth_error_upd_eq : forall {A} (l : list A) i v, i < length l -> nth_error (upd l i v) i = Some v.
Proof.
  induction l as [|x r IH]; intros [|i] v H; cbn [upd length nth_error] in *; try lia; auto.
  apply IH. lia.
Qed.

Lemma nth_error_upd_ne : forall {A} (l : list A) i j v, i <> j -> nth_error (upd l i v) j = nth_error l j.
Proof.
  induction l as [|x r IH]; intros [|i] [|j] v H; cbn [upd nth_error]; auto; try lia.
Qed.

Lemma map_length_upd : forall (mm : list (list N)) i d d0,
  nth_error mm i = Some d0 -> length d = length d0 ->
  map (@length N) (upd mm i d) = map (@length N) mm.
Proof.
  induction mm as [|x r IH]; intros [|i] d d0 H L; cbn [upd map nth_error] in *; try discriminate.
  - injection H as ->. rewrite L. reflexivity.
  - f_equal. eapply IH; eauto.
Qed.

Lemma nth_error_map_length : forall (mm m : list (list N)) i d,
  map (@length N) mm = map (@length N) m -> nth_error m i = Some d ->
  exists d', nth_error mm i = Some d' /\ length d' = length d.
Proof.
  induction mm as [|x r IH]; intros [|y m] i d H E; cbn [map] in H; try discriminate.
  - destruct i; discriminate.
  - injection H as H1 H2. destruct i; cbn [nth_error] in *.
    + injection E as <-. eauto.
    + eapply IH; eauto.
Qed.

Lemma Forall_nth_error : forall {A} (P : A -> Prop) l i x,
  Forall P l -> nth_error l i = Some x -> P x.
Proof. intros A P l i x F E. rewrite Forall_forall in F. apply F. eapply nth_error_In; eauto. Qed.

Lemma Forall_upd : forall {A} (P : A -> Prop) l i x, Forall P l -> P x -> Forall P (upd l i x).
Proof.
  induction l as [|y r IH]; intros [|i] x F Px; cbn [upd]; auto; inversion F; subst; constructor; auto.
Qed.

(* the NUL facts *)
Definition nul_from (p : nat) (b : list N) : Prop := In 0%N (skipn p b).

Lemma nul_from_0 : forall b, nul_from 0 b <-> In 0%N b.
Proof. intros b. unfold nul_from. cbn [skipn]. tauto. Qed.

Lemma nul_from_nth : forall b p, nul_from p b -> exists c, nth_error b p = Some c.
Proof.
  induction b as [|x r IH]; intros [|p] H; unfold nul_from in *; cbn [skipn nth_error] in *; eauto.
  - destruct H.
  - destruct H.
Qed.

Lemma nul_from_S : forall b p c, nul_from p b -> nth_error b p = Some c -> c <> 0%N -> nul_from (S p) b.
Proof.
  induction b as [|x r IH]; intros [|p] c H E Hc; unfold nul_from in *; cbn [skipn nth_error] in *;
    try discriminate.
  - injection E as ->. destruct H as [H|H]; [congruence | destruct r; exact H].
  - eapply IH; eauto.
Qed.

Lemma nth_nul_from : forall b j p, nth_error b j = Some 0%N -> p <= j -> nul_from p b.
Proof.
  induction b as [|x r IH]; intros [|j] [|p] E L; unfold nul_from in *; cbn [skipn nth_error] in *;
    try discriminate; try lia.
  - injection E as ->. left. reflexivity.
  - right. apply (IH j 0); [exact E | lia].
  - apply (IH j p); [exact E | lia].
Qed.

Lemma nth_In0 : forall b j, nth_error b j = Some 0%N -> In 0%N b.
Proof. intros b j H. eapply nth_error_In; eauto. Qed.

Lemma skipn_skipn_add : forall {A} (l : list A) a b, skipn a (skipn b l) = skipn (b + a) l.
Proof.
  induction l as [|x r IH]; intros a [|b]; cbn [skipn plus]; auto.
  - destruct a; reflexivity.
Qed.

(* ------------------------------------------------------------------ *)
(* the scanners: never SFault on a text with a NUL; after a field that ended in a comma the
   rest of the text still holds the NUL                                                      *)
(* ------------------------------------------------------------------ *)

Definition scan_ok (l : list N) (st : pstat) (n0 n : nat) : Prop :=
  st <> SFault /\ (st = SOk true -> n0 < n /\ In 0%N (skipn (n - n0) l)).

Lemma scan_ok_now : forall a l n0 (b : bool),
  (b = true -> a <> 0%N) -> In 0%N (a :: l) -> scan_ok (a :: l) (SOk b) n0 (S n0).
Proof.
  intros a l n0 b Hb Hin. split; [discriminate|]. intros E. injection E as ->.
  split; [lia|]. replace (S n0 - n0) with 1 by lia. cbn [skipn].
  destruct Hin as [->|Hin]; [exfalso; apply Hb; reflexivity | exact Hin].
Qed.

Lemma scan_ok_err : forall l n0 n, scan_ok l SErr n0 n.
Proof. intros. split; discriminate. Qed.

Lemma scan_ok_step : forall a l st n0 n, scan_ok l st (S n0) n -> scan_ok (a :: l) st n0 n.
Proof.
  intros a l st n0 n [H1 H2]. split; [exact H1|]. intros E. destruct (H2 E) as [L I].
  split; [lia|]. replace (n - n0) with (S (n - S n0)) by lia. exact I.
Qed.

Lemma comma_nz : forall a, (a =? ch_COMMA)%N = true -> a <> 0%N.
Proof. intros a H. apply N.eqb_eq in H. subst. discriminate. Qed.

Lemma in0_tl : forall a (l : list N), a <> 0%N -> In 0%N (a :: l) -> In 0%N l.
Proof. intros a l H [E|I]; [congruence | exact I]. Qed.

Lemma dec_nz : forall a, is_dec a = true -> a <> 0%N.
Proof. intros a H ->. discriminate H. Qed.
Lemma hex_nz : forall a, is_hex (to_upper a) = true -> a <> 0%N.
Proof. intros a H ->. discriminate H. Qed.

Lemma uint_go_ok : forall l val ok n0, In 0%N l ->
  let '(st, _, n) := parse_uint_go l val ok n0 in scan_ok l st n0 n.
Proof.
  induction l as [|a l IH]; intros val ok n0 Hin; [destruct Hin|].
  cbn [parse_uint_go].
  destruct (ok && is_term a).
  { apply scan_ok_now; [apply comma_nz | exact Hin]. }
  destruct (is_dec a) eqn:Ed; [|apply scan_ok_err].
  destruct (_ <? val)%N; [apply scan_ok_err|].
  specialize (IH ((val * 10 + (a - 48)) mod two64)%N true (S n0) (in0_tl _ _ (dec_nz _ Ed) Hin)).
  destruct (parse_uint_go l _ true (S n0)) as [[st v] n]. apply scan_ok_step. exact IH.
Qed.

Lemma int_go_ok : forall l val sign ok n0, In 0%N l ->
  let '(st, _, n) := parse_int_go l val sign ok n0 in scan_ok l st n0 n.
Proof.
  induction l as [|a l IH]; intros val sign ok n0 Hin; [destruct Hin|].
  cbn [parse_int_go].
  destruct (ok && is_term a).
  { apply scan_ok_now; [apply comma_nz | exact Hin]. }
  destruct (sign =? 0)%Z.
  - destruct (a =? ch_MINUS)%N eqn:E1.
    { apply N.eqb_eq in E1. subst a.
      specialize (IH val (-1)%Z ok (S n0) (in0_tl ch_MINUS l ltac:(unfold ch_MINUS; discriminate) Hin)).
      destruct (parse_int_go l val (-1)%Z ok (S n0)) as [[st v] n]. apply scan_ok_step. exact IH. }
    destruct (a =? ch_PLUS)%N eqn:E2.
    { apply N.eqb_eq in E2. subst a.
      specialize (IH val 1%Z ok (S n0) (in0_tl ch_PLUS l ltac:(unfold ch_PLUS; discriminate) Hin)).
      destruct (parse_int_go l val 1%Z ok (S n0)) as [[st v] n]. apply scan_ok_step. exact IH. }
    destruct (is_dec a) eqn:Ed; [|apply scan_ok_err].
    specialize (IH (Z.of_N (a - 48)) 1%Z true (S n0) (in0_tl _ _ (dec_nz _ Ed) Hin)).
    destruct (parse_int_go l _ 1%Z true (S n0)) as [[st v] n]. apply scan_ok_step. exact IH.
  - destruct (is_dec a) eqn:Ed; [|apply scan_ok_err].
    destruct (Z.ltb_spec ((max_i64 - Z.of_N (a - 48)) / 10) val) as [L1|L1]; [apply scan_ok_err|].
    destruct (Z.ltb_spec max_i64 (val * 10 + Z.of_N (a - 48))) as [L2|L2].
    { exfalso. unfold max_i64 in *. lia. }
    specialize (IH (val * 10 + Z.of_N (a - 48))%Z sign true (S n0) (in0_tl _ _ (dec_nz _ Ed) Hin)).
    destruct (parse_int_go l _ sign true (S n0)) as [[st v] n]. apply scan_ok_step. exact IH.
Qed.

Lemma hex_go_ok : forall l val s n0, In 0%N l ->
  let '(st, _, n) := parse_hex_go l val s n0 in scan_ok l st n0 n.
Proof.
  induction l as [|a l IH]; intros val s n0 Hin; [destruct Hin|].
  cbn [parse_hex_go].
  destruct ((3 <=? s) && is_term (to_upper a)) eqn:Et.
  { apply scan_ok_now; [|exact Hin]. intros Hc Ha. subst a. discriminate Hc. }
  destruct s as [|[|s]].
  - destruct (to_upper a =? ch_0)%N eqn:E; [|apply scan_ok_err].
    assert (a <> 0%N) by (intros ->; discriminate E).
    specialize (IH val 1 (S n0) (in0_tl _ _ H Hin)).
    destruct (parse_hex_go l val 1 (S n0)) as [[st v] n]. apply scan_ok_step. exact IH.
  - destruct (to_upper a =? ch_X)%N eqn:E; [|apply scan_ok_err].
    assert (a <> 0%N) by (intros ->; discriminate E).
    specialize (IH val 2 (S n0) (in0_tl _ _ H Hin)).
    destruct (parse_hex_go l val 2 (S n0)) as [[st v] n]. apply scan_ok_step. exact IH.
  - destruct (is_hex (to_upper a)) eqn:Eh; [|apply scan_ok_err].
    destruct (negb _); [apply scan_ok_err|].
    specialize (IH ((val * 16 + hexval (to_upper a)) mod two64)%N 3 (S n0)
                   (in0_tl _ _ (hex_nz _ Eh) Hin)).
    destruct (parse_hex_go l _ 3 (S n0)) as [[st v] n]. apply scan_ok_step. exact IH.
Qed.

(* the two buffer decoders: only the "comma keeps the NUL" half (C05_bounds_* give the rest) *)
Definition scan_keep (l : list N) (st : pstat) (n0 n : nat) : Prop :=
  st = SOk true -> n0 < n /\ In 0%N (skipn (n - n0) l).

Lemma scan_keep_now : forall a l n0 (b : bool) d w,
  (b = true -> a <> 0%N) -> In 0%N (a :: l) ->
  scan_keep (a :: l) (b_st (mkBres (SOk b) d w (S n0))) n0 (b_n (mkBres (SOk b) d w (S n0))).
Proof.
  intros. cbn [b_st b_n]. intros E. eapply scan_ok_now; eauto.
Qed.

Lemma scan_keep_step : forall a l st n0 n, scan_keep l st (S n0) n -> scan_keep (a :: l) st n0 n.
Proof.
  intros a l st n0 n H2 E. destruct (H2 E) as [L I].
  split; [lia|]. replace (n - n0) with (S (n - S n0)) by lia. exact I.
Qed.

Lemma scan_keep_other : forall l st n0 n, st <> SOk true -> scan_keep l st n0 n.
Proof. intros l st n0 n H E. contradiction. Qed.

Lemma bufhex_go_keep : forall l byte s size data ro dsz n0, In 0%N l ->
  let r := parse_bufhex_go l byte s size data ro dsz n0 in scan_keep l (b_st r) n0 (b_n r).
Proof.
  induction l as [|a l IH]; intros byte s size data ro dsz n0 Hin; [destruct Hin|].
  cbn [parse_bufhex_go].
  destruct ((0 <? size) && negb s && is_term (to_upper a)).
  { apply scan_keep_now; [|exact Hin]. intros Hc Ha. subst a. discriminate Hc. }
  destruct (is_hex (to_upper a)) eqn:Eh; cbn [negb];
    [|apply scan_keep_other; cbn [b_st]; discriminate].
  pose proof (in0_tl _ _ (hex_nz _ Eh) Hin) as Hl.
  destruct s.
  - destruct (dsz <=? size); [apply scan_keep_other; cbn [b_st]; discriminate|].
    destruct ro; [apply scan_keep_step; apply IH; exact Hl|].
    destruct (size <? length data); [|apply scan_keep_other; cbn [b_st]; discriminate].
    apply scan_keep_step; apply IH; exact Hl.
  - apply scan_keep_step; apply IH; exact Hl.
Qed.

Lemma bufstr_go_keep : forall l s size data ro dsz n0, In 0%N l ->
  let r := parse_bufstr_go l s size data ro dsz n0 in scan_keep l (b_st r) n0 (b_n r).
Proof.
  induction l as [|a l IH]; intros s size data ro dsz n0 Hin; [destruct Hin|].
  cbn [parse_bufstr_go].
  assert (Hother : forall d w n, scan_keep (a :: l) (b_st (mkBres SErr d w n)) n0 (b_n (mkBres SErr d w n)))
    by (intros; apply scan_keep_other; cbn [b_st]; discriminate).
  assert (Hfault : forall d w n, scan_keep (a :: l) (b_st (mkBres SFault d w n)) n0 (b_n (mkBres SFault d w n)))
    by (intros; apply scan_keep_other; cbn [b_st]; discriminate).
  destruct s as [|[|[|s]]].
  - destruct (a =? ch_QUOTE)%N eqn:E; [|apply Hother].
    assert (Ha : a <> 0%N) by (intros ->; discriminate E).
    apply scan_keep_step, IH, (in0_tl _ _ Ha Hin).
  - destruct (a =? 0)%N eqn:E0; [apply Hother|].
    assert (Ha : a <> 0%N) by (apply N.eqb_neq; exact E0).
    pose proof (in0_tl _ _ Ha Hin) as Hl.
    destruct (a =? ch_BSL)%N; [apply scan_keep_step, IH, Hl|].
    destruct (a =? ch_QUOTE)%N; [apply scan_keep_step, IH, Hl|].
    destruct (dsz <=? size); [apply Hother|].
    destruct ro; [apply scan_keep_step, IH, Hl|].
    destruct (size <? length data); [apply scan_keep_step, IH, Hl | apply Hfault].
  - assert (Ha : forall c, (if (a =? ch_BSL)%N then Some ch_BSL
                 else if (a =? ch_QUOTE)%N then Some ch_QUOTE
                 else if (a =? ch_n)%N then Some ch_LF else None) = Some c -> In 0%N l).
    { intros c Hc. apply (in0_tl a); [|exact Hin]. intros ->. discriminate Hc. }
    destruct (if (a =? ch_BSL)%N then _ else _) as [c|]; [|apply Hother].
    specialize (Ha c eq_refl).
    destruct (dsz <=? size); [apply Hother|].
    destruct ro; [apply scan_keep_step, IH, Ha|].
    destruct (size <? length data); [apply scan_keep_step, IH, Ha | apply Hfault].
  - destruct (is_term a) eqn:Et; [|apply Hother].
    destruct (dsz <=? size); [apply Hother|].
    destruct ro; [apply scan_keep_now; [apply comma_nz | exact Hin]|].
    destruct (size <? length data); [|apply Hfault].
    apply scan_keep_now; [apply comma_nz | exact Hin].
Qed.

(* ---- the validators keep the length of the storage and never fault when the width fits ---- *)
Lemma store_prefix_len : forall data bytes d, store_prefix data bytes = Some d -> length d = length data.
Proof.
  intros data bytes d H. unfold store_prefix in H.
  destruct (Nat.ltb_spec (length data) (length bytes)) as [L|L]; [discriminate|].
  injection H as <-. rewrite app_length, skipn_length. lia.
Qed.

Lemma validate_uint_ok : forall ro dsz val data, dsz <= length data ->
  match validate_uint ro dsz val data with
  | VFault => False | VErr => True | VOk d _ => length d = length data end.
Proof.
  intros ro dsz val data H. unfold validate_uint.
  destruct ro; [reflexivity|]. destruct (negb _); [exact I|]. destruct (_ <? val)%N; [exact I|].
  rewrite store_prefix_ok by (rewrite le_bytes_length; exact H).
  rewrite app_length, skipn_length, le_bytes_length. lia.
Qed.

Lemma validate_int_ok : forall ro dsz val data, dsz <= length data ->
  match validate_int ro dsz val data with
  | VFault => False | VErr => True | VOk d _ => length d = length data end.
Proof.
  intros ro dsz val data H. unfold validate_int.
  destruct ro; [reflexivity|]. destruct (negb _); [exact I|]. destruct (_ || _); [exact I|].
  unfold le_bytes_signed.
  rewrite store_prefix_ok by (rewrite le_bytes_length; exact H).
  rewrite app_length, skipn_length, le_bytes_length. lia.
Qed.

(* ---- decode_var ---- *)
Theorem decode_var_safe : forall v rest data,
  In 0%N rest -> v_size v <= length data ->
  let '(pst, data', _, n) := decode_var v rest data in
  pst <> SFault /\ length data' = length data /\ (pst = SOk true -> In 0%N (skipn n rest)).
Proof.
  intros v rest data Hin Hsz. unfold decode_var.
  destruct (v_type v).
  - unfold parse_int. pose proof (int_go_ok rest 0%Z 0%Z false 0 Hin) as H.
    destruct (parse_int_go rest 0 0 false 0) as [[pst val] n]. destruct H as [H1 H2].
    rewrite Nat.sub_0_r in H2.
    destruct pst as [| |c]; [congruence | repeat split; [discriminate | discriminate] |].
    pose proof (validate_int_ok (vaccess_beq (v_access v) RO) (v_size v) val data Hsz) as Hv.
    destruct (validate_int _ _ _ _); [destruct Hv | repeat split; discriminate |].
    repeat split; [discriminate | exact Hv | intros E; apply H2; exact E].
  - unfold parse_uint. pose proof (uint_go_ok rest 0%N false 0 Hin) as H.
    destruct (parse_uint_go rest 0 false 0) as [[pst val] n]. destruct H as [H1 H2].
    rewrite Nat.sub_0_r in H2.
    destruct pst as [| |c]; [congruence | repeat split; [discriminate | discriminate] |].
    pose proof (validate_uint_ok (vaccess_beq (v_access v) RO) (v_size v) val data Hsz) as Hv.
    destruct (validate_uint _ _ _ _); [destruct Hv | repeat split; discriminate |].
    repeat split; [discriminate | exact Hv | intros E; apply H2; exact E].
  - unfold parse_hex. pose proof (hex_go_ok rest 0%N 0 0 Hin) as H.
    destruct (parse_hex_go rest 0 0 0) as [[pst val] n]. destruct H as [H1 H2].
    rewrite Nat.sub_0_r in H2.
    destruct pst as [| |c]; [congruence | repeat split; [discriminate | discriminate] |].
    pose proof (validate_uint_ok (vaccess_beq (v_access v) RO) (v_size v) val data Hsz) as Hv.
    destruct (validate_uint _ _ _ _); [destruct Hv | repeat split; discriminate |].
    repeat split; [discriminate | exact Hv | intros E; apply H2; exact E].
  - pose proof (C05_bounds_hex rest data (vaccess_beq (v_access v) RO) (v_size v) Hin Hsz) as B.
    cbv zeta in B. destruct B as (B1 & B2 & _).
    pose proof (bufhex_go_keep rest 0%N false 0 data (vaccess_beq (v_access v) RO) (v_size v) 0 Hin) as K.
    cbv zeta in K. fold (parse_bufhex rest data (vaccess_beq (v_access v) RO) (v_size v)) in K.
    repeat split; [exact B1 | exact B2 |]. intros E. destruct (K E) as [_ K2].
    rewrite Nat.sub_0_r in K2. exact K2.
  - pose proof (C05_bounds_str rest data (vaccess_beq (v_access v) RO) (v_size v) Hin Hsz) as B.
    cbv zeta in B. destruct B as (B1 & B2 & _).
    pose proof (bufstr_go_keep rest 0 0 data (vaccess_beq (v_access v) RO) (v_size v) 0 Hin) as K.
    cbv zeta in K. fold (parse_bufstr rest data (vaccess_beq (v_access v) RO) (v_size v)) in K.
    repeat split; [exact B1 | exact B2 |]. intros E. destruct (K E) as [_ K2].
    rewrite Nat.sub_0_r in K2. exact K2.
Qed.

(* ------------------------------------------------------------------ *)
(* the cursor                                                           *)
(* ------------------------------------------------------------------ *)

Definition cur_ok (n : nat) (c : cur) : Prop :=
  cu_fault c = false /\ length (cu_buf c) = n /\ cu_pos c <= n.
Definition cur_nul (c : cur) : Prop := nth_error (cu_buf c) (cu_pos c) = Some 0%N.

Lemma cur_store_in : forall c i v, i < length (cu_buf c) ->
  cur_store c i v = mkCur (upd (cu_buf c) i v) (cu_pos c) (cu_fault c).
Proof.
  intros c i v H. unfold cur_store. destruct (Nat.ltb_spec i (length (cu_buf c))); [reflexivity | lia].
Qed.

Lemma csl_props : forall l c i, i + length l <= length (cu_buf c) ->
  length (cu_buf (cur_store_list c i l)) = length (cu_buf c) /\
  cu_pos (cur_store_list c i l) = cu_pos c /\ cu_fault (cur_store_list c i l) = cu_fault c.
Proof.
  induction l as [|x r IH]; intros c i H; cbn [cur_store_list length] in *; [auto|].
  rewrite cur_store_in by lia.
  destruct (IH (mkCur (upd (cu_buf c) i x) (cu_pos c) (cu_fault c)) (S i)) as (A & B & C).
  { cbn [cu_buf]. rewrite upd_len. lia. }
  cbn [cu_buf cu_pos cu_fault] in *. rewrite upd_len in A. auto.
Qed.

Lemma csl_last : forall l c i x, i + length l < length (cu_buf c) ->
  nth_error (cu_buf (cur_store_list c i (l ++ [x]))) (i + length l) = Some x.
Proof.
  induction l as [|a r IH]; intros c i x H; cbn [cur_store_list length app] in *.
  - rewrite cur_store_in by lia. cbn [cu_buf]. rewrite Nat.add_0_r. apply nth_error_upd_eq. lia.
  - rewrite cur_store_in by lia.
    replace (i + S (length r)) with (S i + length r) by lia. apply IH.
    cbn [cu_buf]. rewrite upd_len. lia.
Qed.

Lemma print_nstring_ok : forall n c s, cur_ok n c ->
  cur_ok n (fst (print_nstring c s)) /\ (snd (print_nstring c s) = true -> cur_nul (fst (print_nstring c s))).
Proof.
  intros n c s (F & L & P). unfold print_nstring.
  destruct (Nat.ltb_spec (length (cu_buf c)) (cu_pos c)) as [H|H]; [lia|].
  destruct (Nat.leb_spec (length (cu_buf c) - cu_pos c) (length s)) as [H1|H1]; cbn [fst snd].
  - split; [repeat split; assumption | discriminate].
  - destruct (csl_props s c (cu_pos c) ltac:(lia)) as (A & B & C).
    unfold cur_set_pos. cbn [cu_pos cu_buf cu_fault].
    rewrite cur_store_in by (cbn [cu_buf]; lia). cbn [cu_pos cu_buf cu_fault].
    split.
    + unfold cur_ok. cbn [cu_pos cu_buf cu_fault]. rewrite upd_len. repeat split; try lia. congruence.
    + intros _. unfold cur_nul. cbn [cu_pos cu_buf]. apply nth_error_upd_eq. lia.
Qed.

Lemma print_num_ok : forall n c s, cur_ok n c ->
  cur_ok n (fst (print_num c s)) /\ (snd (print_num c s) = true -> cur_nul (fst (print_num c s))).
Proof.
  intros n c s (F & L & P). unfold print_num.
  destruct (Nat.ltb_spec (length (cu_buf c)) (cu_pos c)) as [H|H]; [lia|].
  set (len := length (cu_buf c) - cu_pos c).
  destruct (Nat.leb_spec len (length s)) as [H1|H1]; cbn [fst snd].
  - split; [|discriminate].
    destruct (Nat.eqb_spec len 0) as [E|E]; [repeat split; assumption|].
    destruct (csl_props (firstn (len - 1) s ++ [0%N]) c (cu_pos c)) as (A & B & C).
    { rewrite app_length, firstn_length. cbn [length]. lia. }
    unfold cur_ok. rewrite A, B, C. auto.
  - destruct (Nat.eqb_spec len 0) as [E|E]; [lia|].
    rewrite firstn_all2 by lia.
    destruct (csl_props (s ++ [0%N]) c (cu_pos c)) as (A & B & C).
    { rewrite app_length. cbn [length]. lia. }
    unfold cur_set_pos, cur_ok, cur_nul. cbn [cu_pos cu_buf cu_fault]. rewrite A, C.
    split; [repeat split; try assumption; lia|].
    intros _. apply csl_last. lia.
Qed.

Lemma print_pieces_ok : forall ps n c, cur_ok n c ->
  cur_ok n (fst (print_pieces c ps)) /\
  (snd (print_pieces c ps) = true -> cur_nul c \/ ps <> [] -> cur_nul (fst (print_pieces c ps))).
Proof.
  induction ps as [|p r IH]; intros n c H; cbn [print_pieces fst snd].
  - split; [exact H|]. intros _ [N|N]; [exact N | congruence].
  - destruct (print_nstring_ok n c p H) as [A B].
    destruct (print_nstring c p) as [c1 ok]. cbn [fst snd] in *. destruct ok.
    + destruct (IH n c1 A) as [A2 B2]. split; [exact A2|]. intros E _. apply B2; auto.
    + cbn [fst snd]. split; [exact A | discriminate].
Qed.

Lemma print_nums_ok : forall ps n c, cur_ok n c ->
  cur_ok n (fst (print_nums c ps)) /\
  (snd (print_nums c ps) = true -> cur_nul c \/ ps <> [] -> cur_nul (fst (print_nums c ps))).
Proof.
  induction ps as [|p r IH]; intros n c H; cbn [print_nums fst snd].
  - split; [exact H|]. intros _ [N|N]; [exact N | congruence].
  - destruct (print_num_ok n c p H) as [A B].
    destruct (print_num c p) as [c1 ok]. cbn [fst snd] in *. destruct ok.
    + destruct (IH n c1 A) as [A2 B2]. split; [exact A2|]. intros E _. apply B2; auto.
    + cbn [fst snd]. split; [exact A | discriminate].
Qed.

(* a variable "prints something": everything but a hex buffer of size 0 *)
Definition prints_something (v : var) : Prop := v_type v = VBufHex -> 0 < v_size v.

Lemma fmt_var_ok : forall v data n c, cur_ok n c -> v_size v <= length data ->
  cur_ok n (fst (fmt_var v data c)) /\
  (snd (fmt_var v data c) = true -> cur_nul c \/ prints_something v -> cur_nul (fst (fmt_var v data c))).
Proof.
  intros v data n c H Hsz. unfold fmt_var, prints_something.
  assert (RF : read_fault (v_size v) data = false).
  { unfold read_fault. destruct (Nat.ltb_spec (length data) (v_size v)); [lia|]. apply andb_false_r. }
  destruct (v_type v).
  - destruct (fmt_int_text v data); [|split; [exact H | discriminate]].
    rewrite RF. destruct (print_num_ok n c l H) as [A B]. split; [exact A|]. intros E _. auto.
  - destruct (fmt_uint_text v data); [|split; [exact H | discriminate]].
    rewrite RF. destruct (print_num_ok n c l H) as [A B]. split; [exact A|]. intros E _. auto.
  - destruct (fmt_hex_text v data); [|split; [exact H | discriminate]].
    rewrite RF. destruct (print_num_ok n c l H) as [A B]. split; [exact A|]. intros E _. auto.
  - destruct (Nat.ltb_spec (length data) (v_size v)); [lia|].
    destruct (print_nums_ok (fmt_bufhex_pieces v data) n c H) as [A B]. split; [exact A|].
    intros E [N|N]; [apply B; auto|]. apply B; [exact E|]. right.
    specialize (N eq_refl). unfold fmt_bufhex_pieces.
    destruct data as [|d0 dr]; [cbn [length] in *; lia|].
    destruct (v_size v); [lia|]. cbn [firstn map]. discriminate.
  - destruct (Nat.ltb_spec (length data) (v_size v)); [lia|].
    destruct (print_pieces_ok (fmt_bufstr_pieces v data) n c H) as [A B]. split; [exact A|].
    intros E _. apply B; [exact E|]. right. unfold fmt_bufstr_pieces. discriminate.
Qed.

Lemma fmt_info_ok : forall v n c, cur_ok n c ->
  cur_ok n (fst (fmt_info v c)) /\ (snd (fmt_info v c) = true -> cur_nul (fst (fmt_info v c))).
Proof.
  intros v n c H. unfold fmt_info.
  destruct (type_name (v_type v) (v_size v)); [|split; [exact H | discriminate]].
  destruct (print_pieces_ok (info_pieces v l) n c H) as [A B]. split; [exact A|].
  intros E. apply B; [exact E|]. right. unfold info_pieces. discriminate.
Qed.

(* strncpy of a short text leaves a NUL *)
Lemma strncpy_len : forall n t, length (Fsm.strncpy_buf n t) = n.
Proof.
  intros n t. unfold Fsm.strncpy_buf. rewrite firstn_length, app_length, repeat_length. lia.
Qed.

Lemma nth_error_firstn_lt : forall {A} (l : list A) n i, i < n -> nth_error (firstn n l) i = nth_error l i.
Proof.
  induction l as [|x r IH]; intros [|n] [|i] H; cbn [firstn nth_error]; auto; try lia.
  apply IH. lia.
Qed.

Lemma strncpy_nul : forall n t, length t < n -> In 0%N (Fsm.strncpy_buf n t).
Proof.
  intros n t H. unfold Fsm.strncpy_buf. apply (nth_In0 _ (length t)).
  rewrite nth_error_firstn_lt by lia.
  rewrite nth_error_app2 by lia. rewrite Nat.sub_diag.
  destruct n; [lia|]. reflexivity.
Qed.
