(* Legacy.v — the PRE-REPAIR behaviour of the five repaired functions, and machine-checked witnesses
   that the corresponding property theorems are FALSE of it.

   The model (Bytes/Defs/Codec/Fsm/Script/Spec) describes cat.c AS REPAIRED by five small commits:
     95e8aae  search_command        ambiguous abbreviated name + non-LF char goes to the drain state   (C01)
     eb37b05  parse_*_decimal/hex   overflow tests on the 64-bit accumulator                            (C04)
     2c4ed82  unsolicited_events_service, IDLE case: BUSY when an event was just taken from the queue   (C15)
     8513c4a  is_busy               also looks at the event machine                                     (C18)
     9b1f4c1  print_cmd_list        uses is_command_disable (own flag OR group flag)                    (C19)
   Here each repair is undone in a `*_legacy` copy of the model function (everything else is the
   current model), a scripted-world runner `srun_with` re-instantiates the call chain of Fsm.v /
   Script.v around an arbitrary choice of the five functions, and the historical failing inputs
   (corpus/*.scn) are replayed by vm_compute.  So the repairs are not cosmetic and the theorems are not
   vacuous: each `Cxx_refuted` exhibits a closed counter-example to a property statement for the
   legacy behaviour, together with the current model's answer on the same scenario.

   `srun_with_current` proves that the runner instantiated with the five CURRENT functions is exactly
   Script.srun, for every descriptor, world and operation list — the runner itself adds nothing.
   The `*_agrees_*` lemmas prove that four of the legacy functions coincide with the current ones
   outside the repaired situation (LF as current character; event machine idle; queue empty; no
   group flag set), i.e. that exactly the repair was undone. *)
From Coq Require Import List NArith ZArith Bool Arith.
From CatV Require Import Bytes Defs Codec Spec Fsm Script ResolveDefs TextDefs GlueDefs.
Import ListNotations.
Local Open Scope nat_scope.

(* ================================================================================================ *)
(* 1. The pre-repair leaf functions                                                                  *)
(* ================================================================================================ *)

(* ---- eb37b05^ : parse_uint_decimal (cat.c:1109) without the test
        `if (val > (UINT64_MAX - (uint64_t)(ch - '0')) / 10U) return -1;`
        val *= 10; val += ch - '0';  on uint64_t, i.e. modulo 2^64 ---- *)
Fixpoint parse_uint_go_legacy (l : list N) (val : N) (ok : bool) (n : nat) : pstat * N * nat :=
  match l with
  | [] => (SFault, val, n)
  | ch :: r =>
    let n := S n in
    if ok && is_term ch then (SOk (ch =? ch_COMMA)%N, val, n)
    else if is_dec ch then
      let d := (ch - 48)%N in
      parse_uint_go_legacy r ((val * 10 + d) mod two64)%N true n
    else (SErr, val, n)
  end.
Definition parse_uint_legacy (l : list N) := parse_uint_go_legacy l 0%N false O.

(* ---- eb37b05^ : parse_int_decimal (cat.c:1064) without the test
        `if (val > (INT64_MAX - (ch - '0')) / 10) return -1;`
        The accumulator is an int64_t: its overflow is UNDEFINED BEHAVIOUR in C.  What the compiled
        code did on the targets at hand (and what the differential tests observed) is the two's
        complement wrap on 64 bits, which is what is modelled here; the current model marks the same
        situation SFault. ---- *)
Definition wrap_i64 (z : Z) : Z :=
  ((z + 9223372036854775808) mod 18446744073709551616 - 9223372036854775808)%Z.

Fixpoint parse_int_go_legacy (l : list N) (val sign : Z) (ok : bool) (n : nat) : pstat * Z * nat :=
  match l with
  | [] => (SFault, val, n)
  | ch :: r =>
    let n := S n in
    if ok && is_term ch then (SOk (ch =? ch_COMMA)%N, wrap_i64 (val * sign), n)
    else if (sign =? 0)%Z then
      if (ch =? ch_MINUS)%N then parse_int_go_legacy r val (-1)%Z ok n
      else if (ch =? ch_PLUS)%N then parse_int_go_legacy r val 1%Z ok n
      else if is_dec ch then parse_int_go_legacy r (Z.of_N (ch - 48)) 1%Z true n
      else (SErr, val, n)
    else if is_dec ch then
      let d := Z.of_N (ch - 48) in
      parse_int_go_legacy r (wrap_i64 (val * 10 + d)) sign true n
    else (SErr, val, n)
  end.
Definition parse_int_legacy (l : list N) := parse_int_go_legacy l 0%Z 0%Z false O.

(* ---- eb37b05^ : parse_num_hexadecimal (cat.c:1138) without the test
        `if ((val >> 60) != 0) return -1;`    val <<= 4; val += digit;  modulo 2^64 ---- *)
Fixpoint parse_hex_go_legacy (l : list N) (val : N) (st : nat) (n : nat) : pstat * N * nat :=
  match l with
  | [] => (SFault, val, n)
  | ch0 :: r =>
    let n := S n in
    let ch := to_upper ch0 in
    if (3 <=? st)%nat && is_term ch then (SOk (ch =? ch_COMMA)%N, val, n)
    else match st with
         | O => if (ch =? ch_0)%N then parse_hex_go_legacy r val 1%nat n else (SErr, val, n)
         | S O => if (ch =? ch_X)%N then parse_hex_go_legacy r val 2%nat n else (SErr, val, n)
         | _ =>
           if is_hex ch then
             parse_hex_go_legacy r ((val * 16 + hexval ch) mod two64)%N 3%nat n
           else (SErr, val, n)
         end
  end.
Definition parse_hex_legacy (l : list N) := parse_hex_go_legacy l 0%N O O.

(* decode + validate one argument field (Codec.decode_var), over a choice of the three scanners *)
Definition decode_var_with
    (p_int : list N -> pstat * Z * nat) (p_uint p_hex : list N -> pstat * N * nat)
    (v : var) (rest : list N) (data : list N) : pstat * list N * nat * nat :=
  let ro := vaccess_beq (v_access v) RO in
  match v_type v with
  | VInt =>
    let '(pst, val, n) := p_int rest in
    match pst with
    | SOk _ => match validate_int ro (v_size v) val data with
               | VFault => (SFault, data, O, n)
               | VErr => (SErr, data, O, n)
               | VOk d ws => (pst, d, ws, n)
               end
    | _ => (pst, data, O, n)
    end
  | VUint =>
    let '(pst, val, n) := p_uint rest in
    match pst with
    | SOk _ => match validate_uint ro (v_size v) val data with
               | VFault => (SFault, data, O, n)
               | VErr => (SErr, data, O, n)
               | VOk d ws => (pst, d, ws, n)
               end
    | _ => (pst, data, O, n)
    end
  | VHex =>
    let '(pst, val, n) := p_hex rest in
    match pst with
    | SOk _ => match validate_uint ro (v_size v) val data with
               | VFault => (SFault, data, O, n)
               | VErr => (SErr, data, O, n)
               | VOk d ws => (pst, d, ws, n)
               end
    | _ => (pst, data, O, n)
    end
  | VBufHex =>
    let r := parse_bufhex rest data ro (v_size v) in (b_st r, b_data r, b_wsize r, b_n r)
  | VBufStr =>
    let r := parse_bufstr rest data ro (v_size v) in (b_st r, b_data r, b_wsize r, b_n r)
  end.

Definition decode_var_legacy := decode_var_with parse_int_legacy parse_uint_legacy parse_hex_legacy.

Lemma decode_var_with_current : forall v rest data,
  decode_var_with parse_int parse_uint parse_hex v rest data = decode_var v rest data.
Proof. intros. unfold decode_var_with, decode_var. destruct (v_type v); reflexivity. Qed.

(* ---- 8513c4a^ : is_busy (cat.c:87) was
        `return (self->state != CAT_STATE_IDLE) ? CAT_STATUS_BUSY : CAT_STATUS_OK;` ---- *)
Definition is_busy_legacy (s : state) : Z :=
  if negb (cstate_beq (k_state (k s)) CS_IDLE) then ST_BUSY else ST_OK.

Section LegacyFunctions.
Variable D : desc.

(* ---- 95e8aae^ : search_command (cat.c:933).  At the end of the sweep, with a candidate recorded,
        `self->state = (self->partial_cntr == 1) ? CAT_STATE_COMMAND_FOUND : CAT_STATE_COMMAND_NOT_FOUND;`
        regardless of the current character ---- *)
Definition search_command_legacy (s : state) : state :=
  let i := k_index (k s) in
  let lf := (k_char (k s) =? ch_LF)%N in
  match get_cmd_state D s i with
  | None => set_fault_flag s
  | Some cs =>
    let finish (s : state) :=
      let i' := S (k_index (k s)) in
      let s := setk_index i' s in
      if ncmds D <=? i' then
        match k_cmd (k s) with
        | None => setk_state (if lf then CS_COMMAND_NOT_FOUND else CS_ERROR) s
        | Some _ =>
          if k_partial (k s) =? 1 then setk_state CS_COMMAND_FOUND s
          else setk_state CS_COMMAND_NOT_FOUND s                       (* <- the defect *)
        end
      else s in
    if (cs =? CMD_PARTIAL)%N then
      match k_cmd (k s) with
      | Some _ =>
        if S i =? ncmds D then setk_state (if lf then CS_COMMAND_NOT_FOUND else CS_ERROR) s
        else finish (s |> setk_cmd (Some i) |> setk_partial (S (k_partial (k s))))
      | None => finish (s |> setk_cmd (Some i) |> setk_partial (S (k_partial (k s))))
      end
    else if (cs =? CMD_FULL)%N then s |> setk_cmd (Some i) |> setk_state CS_COMMAND_FOUND
    else finish s
  end.

(* ---- 9b1f4c1^ : print_cmd_list (cat.c:2078), case CAT_CMD_TYPE_NONE, tested only the command's
        own flag: `if (self->cmd->disable != false)` ---- *)
Definition print_cmd_list_legacy (s : state) : state :=
  let i := k_index (k s) in
  match cmd_by_index (d_groups D) i with
  | None => set_fault_flag s
  | Some c =>
    let s := setk_cmd (Some i) s in
    match k_type (k s) with
    | T_NONE =>
      if nthb (dis_cmd s) i then                                       (* <- the defect *)
        let (s1, more) := cmd_list_next_cmd D s in
        if more then s1 else ack_ok s1
      else setk_type (if c_only_test c then T_TEST else T_RUN) s
    | T_RUN => print_cmd_form s c (c_hrun c) [] T_READ
    | T_READ => print_cmd_form s c (c_hread c || vars_access_possible c RO) [ch_QM] T_WRITE
    | T_WRITE => print_cmd_form s c (c_hwrite c || vars_access_possible c WO) [ch_EQ] T_TEST
    | T_TEST =>
      print_cmd_form s c (c_htest c || match c_vars c with [] => false | _ => true end)
                     [ch_EQ; ch_QM] T_TOTAL
    | T_TOTAL =>
      let (s1, more) := cmd_list_next_cmd D s in
      if more then s1 else ack_ok s1
    end
  end.

(* ================================================================================================ *)
(* 2. The call chain of Fsm.v / Script.v in the scripted world, over a choice of the five functions  *)
(* ================================================================================================ *)

Local Notation ST := (st sio smu shs).
Local Notation BUSY := (busy sio smu shs).
Local Notation UPD := (upd_st sio smu shs).
Local Notation SETST := (set_st sio smu shs).
Local Notation LOGW := (logw sio smu shs).
Local Notation CALLH := (call_h D sio smu shs s_lock s_unlock s_call).
Local Notation BRACKET := (bracket D sio smu shs s_lock s_unlock).
Local Notation CMD_SERVICE := (cmd_service D sio smu shs s_read s_write s_lock s_unlock s_call).
Local Notation UES := (unsolicited_events_service D sio smu shs s_write s_lock s_unlock s_call).
Local Notation DO_OP := (do_op D sio smu shs s_read s_write s_lock s_unlock s_call).

(* ---- 2c4ed82^ : unsolicited_events_service (cat.c:2523), case CAT_UNSOLICITED_STATE_IDLE, was
        `check_unsolicited_buffers(self); break;` with `s` left at its initial CAT_STATUS_OK.
        (EPop is the ghost record of the item taken, as in the current model.) ---- *)
Definition ev_idle_legacy (w : sworld) : sworld * Z :=
  let w1 := match ring_items D (ST w) with
            | it :: _ => LOGW (EPop (fst it) (snd it)) w
            | [] => w
            end in
  (UPD (check_unsolicited_buffers D) w1, ST_OK).                      (* <- the defect: OK *)

(* the five replaceable functions *)
Record impl := mkImpl {
  i_search : state -> state;                                           (* search_command *)
  i_decode : var -> list N -> list N -> pstat * list N * nat * nat;    (* decode_var (the scanners) *)
  i_ev_idle : sworld -> sworld * Z;                                    (* event machine, IDLE case *)
  i_is_busy : state -> Z;                                              (* is_busy *)
  i_list : state -> state                                              (* print_cmd_list *)
}.

Definition current : impl :=
  mkImpl (search_command D) decode_var UES is_busy (print_cmd_list D).
Definition legacy1 : impl :=      (* C01 *)
  mkImpl search_command_legacy decode_var UES is_busy (print_cmd_list D).
Definition legacy2 : impl :=      (* C04 *)
  mkImpl (search_command D) decode_var_legacy UES is_busy (print_cmd_list D).
Definition legacy3 : impl :=      (* C15 *)
  mkImpl (search_command D) decode_var ev_idle_legacy is_busy (print_cmd_list D).
Definition legacy4 : impl :=      (* C18 *)
  mkImpl (search_command D) decode_var UES is_busy_legacy (print_cmd_list D).
Definition legacy5 : impl :=      (* C19 *)
  mkImpl (search_command D) decode_var UES is_busy print_cmd_list_legacy.

Variable I : impl.

(* Fsm.parse_write_args (cat.c:1365) with the decoder replaced *)
Definition parse_write_args_with (w : sworld) : sworld * Z :=
  let s := ST w in
  match g_cmd ATCMD s, cmd_of D ATCMD s with
  | Some ci, Some c =>
    match nth_error (c_vars c) (k_var (k s)) with
    | None => BUSY (UPD set_fault_flag w)
    | Some v =>
      match nth_error (mem s) (v_slot v) with
      | None => BUSY (UPD set_fault_flag w)
      | Some data =>
        let rest := skipn (k_position (k s)) (cbuf s) in
        let '(pst, data', wsz, n) := i_decode I v rest data in
        let s1 := s |> setk_position (k_position (k s) + n)
                    |> set_mem (upd (mem s) (v_slot v) data') in
        match pst with
        | SFault => BUSY (SETST (set_fault_flag s1) w)
        | SErr => BUSY (SETST (ack_error s1) w)
        | SOk comma =>
          let s2 := setk_write_size wsz s1 in
          let w2 := SETST s2 w in
          let '(w3, failed) :=
            if v_hwrite v then
              let (w', r) := CALLH w2 (VWrite ci (k_var (k s)) wsz data') in
              (w', negb (r_code r =? 0)%Z)
            else (w2, false) in
          if failed then BUSY (UPD ack_error w3)
          else BUSY (UPD (fun s =>
            let idx := S (k_index (k s)) in
            let s := setk_index idx s in
            if (idx <? length (c_vars c)) && comma then setk_var idx s
            else if comma then ack_error s
            else if c_need_all c && negb (idx =? length (c_vars c)) then ack_error s
            else if negb (c_hwrite c) then ack_ok s
            else setk_state CS_WRITE_LOOP s) w3)
        end
      end
    end
  | _, _ => BUSY (UPD set_fault_flag w)
  end.

(* Fsm.cmd_service: the three states whose function is replaceable; every other state is the
   current model's *)
Definition cmd_service_with (w : sworld) : sworld * Z :=
  match k_state (k (ST w)) with
  | CS_SEARCH_COMMAND => BUSY (UPD (i_search I) w)
  | CS_PARSE_WRITE_ARGS => parse_write_args_with w
  | CS_PRINT_CMD => BUSY (UPD (i_list I) w)
  | _ => CMD_SERVICE w
  end.

(* Fsm.unsolicited_events_service: the IDLE case is replaceable *)
Definition ues_with (w : sworld) : sworld * Z :=
  match u_state (u (ST w)) with
  | US_IDLE => i_ev_idle I w
  | _ => UES w
  end.

(* Fsm.service_body (cat.c:2577) *)
Definition service_body_with (w : sworld) : sworld * Z :=
  let (w1, us) := ues_with w in
  let (w2, s) := cmd_service_with w1 in
  if negb (us =? ST_OK)%Z || negb (ustate_beq (u_state (u (ST w2))) US_IDLE)
  then (w2, ST_BUSY) else (w2, s).

(* Fsm.do_op: cat_service and cat_is_busy go through the replaceable functions *)
Definition do_op_with (w : sworld) (o : op) : sworld * Z :=
  match o with
  | OService => BRACKET w service_body_with
  | OIsBusy => BRACKET w (fun w => (w, i_is_busy I (ST w)))
  | _ => DO_OP w o
  end.

Definition step_with (w : sworld) (o : op) : sworld :=
  let (w', r) := do_op_with w o in LOGW (ERet o r) w'.

(* Script.sstep / Script.srun *)
Definition sstep_with (w : sworld) (o : sop) : sworld :=
  match o with
  | SOp o => step_with w o
  | _ => sstep D w o
  end.

Definition srun_with (w : sworld) (ops : list sop) : sworld := fold_left sstep_with ops w.

End LegacyFunctions.

(* ---- sanity of the runner: with the five current functions it IS Script.srun ---- *)
Section RunnerIsFaithful.
Variable D : desc.
Local Notation BRACKET := (bracket D sio smu shs s_lock s_unlock).

Lemma bracket_ext : forall (f g : sworld -> sworld * Z) w,
  (forall w, f w = g w) -> BRACKET w f = BRACKET w g.
Proof.
  intros f g w H. unfold bracket. destruct (d_mutex D); [|apply H].
  destruct (s_lock (mu sio smu shs w)) as [m1 ok]. destruct (negb ok); [reflexivity|].
  rewrite H. reflexivity.
Qed.

Lemma parse_write_args_with_current : forall w,
  parse_write_args_with D (current D) w = parse_write_args D sio smu shs s_lock s_unlock s_call w.
Proof. intros w. reflexivity. Qed.

Lemma cmd_service_with_current : forall w,
  cmd_service_with D (current D) w = cmd_service D sio smu shs s_read s_write s_lock s_unlock s_call w.
Proof.
  intros w. unfold cmd_service_with, cmd_service.
  destruct (k_state (k (st sio smu shs w))); reflexivity.
Qed.

Lemma ues_with_current : forall w,
  ues_with D (current D) w = unsolicited_events_service D sio smu shs s_write s_lock s_unlock s_call w.
Proof.
  intros w. unfold ues_with. destruct (u_state (u (st sio smu shs w))) eqn:E; reflexivity.
Qed.

Lemma service_body_with_current : forall w,
  service_body_with D (current D) w = service_body D sio smu shs s_read s_write s_lock s_unlock s_call w.
Proof.
  intros w. unfold service_body_with, service_body. rewrite ues_with_current.
  destruct (unsolicited_events_service D sio smu shs s_write s_lock s_unlock s_call w) as [w1 us].
  rewrite cmd_service_with_current. reflexivity.
Qed.

Lemma do_op_with_current : forall w o,
  do_op_with D (current D) w o = do_op D sio smu shs s_read s_write s_lock s_unlock s_call w o.
Proof.
  intros w o. destruct o; try reflexivity.
  cbn [do_op_with do_op]. unfold api_service. apply bracket_ext. apply service_body_with_current.
Qed.

Theorem srun_with_current : forall w ops, srun_with D (current D) w ops = srun D w ops.
Proof.
  intros w ops. revert w. unfold srun_with, srun.
  induction ops as [|o ops IH]; intro w; [reflexivity|].
  cbn [fold_left]. rewrite <- IH. f_equal.
  destruct o; try reflexivity.
  cbn [sstep_with sstep]. unfold step_with, step. rewrite do_op_with_current. reflexivity.
Qed.
End RunnerIsFaithful.
Print Assumptions srun_with_current.

Definition srun_legacy1 (D : desc) := srun_with D (legacy1 D).
Definition srun_legacy2 (D : desc) := srun_with D (legacy2 D).
Definition srun_legacy3 (D : desc) := srun_with D (legacy3 D).
Definition srun_legacy4 (D : desc) := srun_with D (legacy4 D).
Definition srun_legacy5 (D : desc) := srun_with D (legacy5 D).

(* ---- each legacy function differs from the current one ONLY in the repaired situation ---- *)
Lemma search_command_legacy_agrees_at_LF : forall D s,
  k_char (k s) = ch_LF -> search_command_legacy D s = search_command D s.
Proof. intros D s H. unfold search_command_legacy, search_command. rewrite H. reflexivity. Qed.

Lemma is_busy_legacy_agrees_when_event_idle : forall s,
  u_state (u s) = US_IDLE -> is_busy_legacy s = is_busy s.
Proof. intros s H. unfold is_busy_legacy, is_busy. rewrite H. cbn [ustate_beq negb]. rewrite orb_false_r. reflexivity. Qed.

Lemma ev_idle_legacy_agrees_when_queue_empty : forall D w,
  u_state (u (st sio smu shs w)) = US_IDLE -> u_count (u (st sio smu shs w)) = 0 ->
  ev_idle_legacy D w = unsolicited_events_service D sio smu shs s_write s_lock s_unlock s_call w.
Proof.
  intros D w Hi Hc. unfold ev_idle_legacy, unsolicited_events_service. rewrite Hi.
  unfold ring_items, ring_empty. rewrite Hc. cbn [ring_items_go Nat.eqb negb].
  destruct w as [s x m h t]. cbn [st] in Hc.
  unfold upd_st, set_st, check_unsolicited_buffers, pop_unsolicited_cmd, ring_empty.
  cbn [st io mu hs tr]. rewrite Hc. reflexivity.
Qed.

Lemma group_of_index_some : forall gs i g0 c,
  cmd_by_index gs i = Some c -> exists g, group_of_index gs i g0 = Some g.
Proof.
  induction gs as [|g gs IH]; intros i g0 c H; [discriminate|].
  cbn [cmd_by_index group_of_index] in *. destruct (i <? length g); [eexists; reflexivity|].
  eapply IH; eassumption.
Qed.

Lemma print_cmd_list_legacy_agrees_without_group_flags : forall D s,
  (forall g, nthb (dis_grp s) g = false) -> print_cmd_list_legacy D s = print_cmd_list D s.
Proof.
  intros D s H. unfold print_cmd_list_legacy, print_cmd_list.
  destruct (cmd_by_index (d_groups D) (k_index (k s))) as [c|] eqn:E; [|reflexivity].
  destruct (group_of_index_some _ _ 0 _ E) as [g Hg].
  unfold is_command_disable. cbn [dis_grp dis_cmd setk_cmd set_k]. rewrite Hg, H. reflexivity.
Qed.
Print Assumptions search_command_legacy_agrees_at_LF.
Print Assumptions is_busy_legacy_agrees_when_event_idle.
Print Assumptions ev_idle_legacy_agrees_when_queue_empty.
Print Assumptions print_cmd_list_legacy_agrees_without_group_flags.

(* the list printer iterated as in TextDefs.list_run, with the legacy printer *)
Fixpoint list_run_legacy (D : desc) (fuel : nat) (s : state) (acc : list (list N)) : list (list N) * state :=
  match fuel with
  | O => (acc, s)
  | S n =>
    if cstate_beq (k_state (k s)) CS_PRINT_CMD then
      let s1 := print_cmd_list_legacy D s in
      if cstate_beq (k_state (k s1)) CS_FLUSH_WAIT && cstate_beq (k_wafter (k s1)) CS_PRINT_CMD
      then list_run_legacy D n (setk_state CS_PRINT_CMD s1) (acc ++ [text_of (cbuf s1)])
      else list_run_legacy D n s1 acc
    else (acc, s)
  end.

(* ================================================================================================ *)
(* 3. The historical failing inputs (corpus/*.scn), replayed                                         *)
(* ================================================================================================ *)

Local Notation ST := (st sio smu shs).
Local Notation TR := (tr sio smu shs).

(* n calls of cat_service *)
Definition services (n : nat) : list sop := repeat (SOp OService) n.
(* a fresh parser: no input yet, always-ready io, no mutex failures, handler scripts h *)
Definition fresh (D : desc) (m : list (list N)) (h : shs) : sworld :=
  sinit D m (mkSio [] [] []) (mkSmu [] []) h.
(* the statuses returned by the API calls of a trace, oldest first *)
Definition rets_of (t : list event) : list (op * Z) :=
  flat_map (fun e => match e with ERet o r => [(o, r)] | _ => [] end) (rev t).

(* texts *)
Definition t_ERROR : list N := [10; 69; 82; 82; 79; 82; 10]%N.                 (* "\nERROR\n" *)
Definition t_OK : list N := [10; 79; 75; 10]%N.                                (* "\nOK\n" *)

(* ------------------------------------------------------------------------------------------------ *)
(* C01 — corpus/c01_ambiguous_eq.scn                                                                 *)
(* commands "+TA", "+TB" (write and run handlers), "Z" (run handler); input "AT+T=ATZ\n"             *)
(* ------------------------------------------------------------------------------------------------ *)
Module C01_scn.
Definition c_TA := mkCmd [43; 84; 65]%N None true false true false [] false false false.
Definition c_TB := mkCmd [43; 84; 66]%N None true false true false [] false false false.
Definition c_Z := mkCmd [90]%N None false false true false [] false false false.
Definition D := mkDesc [[c_TA; c_TB; c_Z]] [] 64 None 0%N 1 false.
Definition line : list N := [65; 84; 43; 84; 61; 65; 84; 90; 10]%N.            (* "AT+T=ATZ\n" *)
Definition ops : list sop := SFeed line :: services 60.
Definition w_legacy : sworld := srun_legacy1 D (fresh D [] []) ops.
Definition w_current : sworld := srun D (fresh D [] []) ops.
End C01_scn.

(* Contradicts C01 — "exactly one final result code per command line, in order; no byte after a
   line's LF is consumed before that line's result code is complete" — in the form of
   Properties_C01.C01_one_result_per_line:  gR s <= gL s <= S (gR s) /\ gR s <= gS s <= gL s
   (completed results <= started results <= terminated lines), and of C01_lookup_exits (a failed
   lookup with a non-LF current character goes to the drain state).
   ONE line is fed.  The legacy lookup acknowledges "AT+T=" at the '=' (ambiguous: +TA / +TB) without
   draining the line, so "ATZ\n" is parsed as a second command: TWO result codes are emitted for one
   line feed (gL = 1, gS = gR = 2) and the run handler of command 2 ("Z") is called.  The current
   model answers one ERROR and calls nothing.  In both runs the parser ends idle with all input
   consumed. *)
Theorem C01_refuted :
  (* legacy search_command *)
  (output_of (TR C01_scn.w_legacy) = t_ERROR ++ t_OK /\
   calls_of (TR C01_scn.w_legacy) = [(HRun 2, RC_OK)] /\
   gL (ST C01_scn.w_legacy) = 1 /\ gS (ST C01_scn.w_legacy) = 2 /\ gR (ST C01_scn.w_legacy) = 2 /\
   (gR (ST C01_scn.w_legacy) <=? gL (ST C01_scn.w_legacy)) = false /\
   fault (ST C01_scn.w_legacy) = false /\ k_state (k (ST C01_scn.w_legacy)) = CS_IDLE /\
   inq (io sio smu shs C01_scn.w_legacy) = []) /\
  (* current model, same scenario *)
  (output_of (TR C01_scn.w_current) = t_ERROR /\
   calls_of (TR C01_scn.w_current) = [] /\
   gL (ST C01_scn.w_current) = 1 /\ gS (ST C01_scn.w_current) = 1 /\ gR (ST C01_scn.w_current) = 1 /\
   fault (ST C01_scn.w_current) = false /\ k_state (k (ST C01_scn.w_current)) = CS_IDLE /\
   inq (io sio smu shs C01_scn.w_current) = []).
Proof. vm_compute. repeat split; reflexivity. Qed.
Print Assumptions C01_refuted.

(* ------------------------------------------------------------------------------------------------ *)
(* C04 — corpus/c04_wrap.scn                                                                         *)
(* "+SET" with one UINT8 variable (initially 7), "+HEX" with one HEX32 variable, "+INT" with one     *)
(* INT32 variable (initially 01 02 03 04); 18446744073709551621 = 2^64 + 5, 0x10000000000000005 =    *)
(* 2^64 + 5                                                                                          *)
(* ------------------------------------------------------------------------------------------------ *)
Module C04_scn.
Definition v_u8 := mkVar None VUint 1 RW false false 0.
Definition v_h32 := mkVar None VHex 4 RW false false 1.
Definition v_i32 := mkVar None VInt 4 RW false false 2.
Definition c_SET := mkCmd [43; 83; 69; 84]%N None false false false false [v_u8] false false false.
Definition c_HEX := mkCmd [43; 72; 69; 88]%N None false false false false [v_h32] false false false.
Definition c_INT := mkCmd [43; 73; 78; 84]%N None false false false false [v_i32] false false false.
Definition D := mkDesc [[c_SET; c_HEX; c_INT]] [] 128 None 0%N 1 false.
Definition m0 : list (list N) := [[7]; [1; 2; 3; 4]; [1; 2; 3; 4]]%N.
(* "18446744073709551621" *)
Definition dec_text : list N :=
  [49; 56; 52; 52; 54; 55; 52; 52; 48; 55; 51; 55; 48; 57; 53; 53; 49; 54; 50; 49]%N.
(* "0x10000000000000005" *)
Definition hex_text : list N :=
  [48; 120; 49; 48; 48; 48; 48; 48; 48; 48; 48; 48; 48; 48; 48; 48; 48; 48; 53]%N.
Definition ops : list sop :=
  SFeed ([65; 84; 43; 83; 69; 84; 61]%N ++ dec_text ++ [10]%N) :: services 100 ++      (* AT+SET=...\n *)
  SFeed ([65; 84; 43; 72; 69; 88; 61]%N ++ hex_text ++ [10]%N) :: services 100 ++      (* AT+HEX=...\n *)
  SFeed ([65; 84; 43; 73; 78; 84; 61]%N ++ dec_text ++ [10]%N) :: services 100.        (* AT+INT=...\n *)
Definition w_legacy : sworld := srun_legacy2 D (fresh D m0 []) ops.
Definition w_current : sworld := srun D (fresh D m0 []) ops.
End C04_scn.

(* Contradicts C04 — "the numeric argument decoders accept exactly the well-formed, in-range texts
   and store exactly the mathematical value" — in the form of Properties_C04.C04_parse_uint /
   C04_parse_int / C04_parse_hex (value above the 64-bit range => SErr) and C04_numeric
   (decode_var stores iff num_accepts, otherwise SErr and the variable untouched).
   The legacy scanners wrap the accumulator: 2^64 + 5 is accepted as 5, which then passes the range
   check of a 1-byte / 4-byte variable and is stored, although num_accepts is false.  (For the signed
   scanner the wrap is what the compiled code did; in C it is undefined behaviour — the current
   model never reaches it, Properties_C04: "SFault is never produced".) *)
Theorem C04_refuted :
  (* the scanners: legacy says OK with value 5, the current ones reject *)
  (parse_uint_legacy (C04_scn.dec_text ++ [0%N]) = (SOk false, 5%N, 21) /\
   fst (fst (parse_uint (C04_scn.dec_text ++ [0%N]))) = SErr /\
   parse_hex_legacy (C04_scn.hex_text ++ [0%N]) = (SOk false, 5%N, 20) /\
   fst (fst (parse_hex (C04_scn.hex_text ++ [0%N]))) = SErr /\
   parse_int_legacy (C04_scn.dec_text ++ [0%N]) = (SOk false, 5%Z, 21) /\
   fst (fst (parse_int (C04_scn.dec_text ++ [0%N]))) = SErr) /\
  (* scanner + validate_uint / validate_int: 5 is stored in a UINT8, a HEX32, an INT32 although the
     specification does not accept the text; the current decoder answers SErr, storage untouched *)
  (num_accepts C04_scn.v_u8 C04_scn.dec_text = false /\
   decode_var_legacy C04_scn.v_u8 (C04_scn.dec_text ++ [0%N]) [7%N] = (SOk false, [5%N], 1, 21) /\
   decode_var C04_scn.v_u8 (C04_scn.dec_text ++ [0%N]) [7%N] = (SErr, [7%N], 0, 20) /\
   num_accepts C04_scn.v_h32 C04_scn.hex_text = false /\
   decode_var_legacy C04_scn.v_h32 (C04_scn.hex_text ++ [0%N]) [1; 2; 3; 4]%N
     = (SOk false, [5; 0; 0; 0]%N, 4, 20) /\
   decode_var C04_scn.v_h32 (C04_scn.hex_text ++ [0%N]) [1; 2; 3; 4]%N = (SErr, [1; 2; 3; 4]%N, 0, 19) /\
   num_accepts C04_scn.v_i32 C04_scn.dec_text = false /\
   decode_var_legacy C04_scn.v_i32 (C04_scn.dec_text ++ [0%N]) [1; 2; 3; 4]%N
     = (SOk false, [5; 0; 0; 0]%N, 4, 21) /\
   decode_var C04_scn.v_i32 (C04_scn.dec_text ++ [0%N]) [1; 2; 3; 4]%N = (SErr, [1; 2; 3; 4]%N, 0, 20)) /\
  (* the whole machine, legacy scanners: three OK, the three variables overwritten with 5 *)
  (output_of (TR C04_scn.w_legacy) = t_OK ++ t_OK ++ t_OK /\
   mem (ST C04_scn.w_legacy) = [[5]; [5; 0; 0; 0]; [5; 0; 0; 0]]%N /\
   fault (ST C04_scn.w_legacy) = false /\ k_state (k (ST C04_scn.w_legacy)) = CS_IDLE) /\
  (* the whole machine, current model: three ERROR, nothing stored *)
  (output_of (TR C04_scn.w_current) = t_ERROR ++ t_ERROR ++ t_ERROR /\
   mem (ST C04_scn.w_current) = C04_scn.m0 /\
   fault (ST C04_scn.w_current) = false /\ k_state (k (ST C04_scn.w_current)) = CS_IDLE).
Proof. vm_compute. repeat split; reflexivity. Qed.
Print Assumptions C04_refuted.

(* ------------------------------------------------------------------------------------------------ *)
(* C15 — corpus/c15_ok_with_pending.scn                                                              *)
(* queue capacity 2; "+BAD" has no read handler and no variable (a READ event on it fails at once),  *)
(* "+GOOD" has one UINT8 variable; both events are queued, then cat_service is called                *)
(* ------------------------------------------------------------------------------------------------ *)
Module C15_scn.
Definition c_BAD := mkCmd [43; 66; 65; 68]%N None false false false false [] false false false.
Definition c_GOOD := mkCmd [43; 71; 79; 79; 68]%N None false false false false
                           [mkVar None VUint 1 RW false false 0] false false false.
Definition D := mkDesc [[c_BAD; c_GOOD]] [] 64 None 0%N 2 false.
(* both events queued *)
Definition w2 : sworld :=
  srun D (fresh D [[5%N]] []) [SOp (OTrigger 0 T_READ); SOp (OTrigger 1 T_READ)].
Definition body_legacy := service_body_with D (legacy3 D) w2.
Definition body_current := service_body D sio smu shs s_read s_write s_lock s_unlock s_call w2.
End C15_scn.

(* Contradicts C15 — "cat_service reports OK only when the parser is truly quiescent — no event
   queued or in progress, no output pending, no input byte consumed in that call" — in the form of
   Properties_C15.C15_ok_is_quiescent:
     service_body w = (w', ST_OK) -> ... u_count (u (st w)) = 0 /\ ring_items D (st w) = [] /\ ... st w' = st w
   and C15_busy_when_work (u_count <> 0 -> BUSY).
   With two events queued the legacy body takes the first one (EPop 0 READ), which fails at once and
   leaves the event machine idle, and returns OK although it changed the state and the second event
   is still queued (u_count = 1).  An application that polls until OK stops here with +GOOD
   undelivered.  The current model returns BUSY for the same call (the state transition is the
   same).  The last line shows the status sequence of three cat_service calls under both. *)
Theorem C15_refuted :
  (u_count (u (ST C15_scn.w2)) = 2 /\
   ring_items C15_scn.D (ST C15_scn.w2) = [(0, T_READ); (1, T_READ)]) /\
  (* legacy IDLE case *)
  (snd C15_scn.body_legacy = ST_OK /\
   u_count (u (ST (fst C15_scn.body_legacy))) = 1 /\
   ring_items C15_scn.D (ST (fst C15_scn.body_legacy)) = [(1, T_READ)] /\
   u_state (u (ST (fst C15_scn.body_legacy))) = US_IDLE /\
   firstn 2 (TR (fst C15_scn.body_legacy)) = [ERd None; EPop 0 T_READ]) /\
  (* current model: same transition, status BUSY *)
  (snd C15_scn.body_current = ST_BUSY /\
   ST (fst C15_scn.body_current) = ST (fst C15_scn.body_legacy) /\
   TR (fst C15_scn.body_current) = TR (fst C15_scn.body_legacy)) /\
  (* statuses of three successive cat_service calls *)
  (skipn 2 (rets_of (TR (srun_legacy3 C15_scn.D C15_scn.w2 (services 3))))
     = [(OService, ST_OK); (OService, ST_BUSY); (OService, ST_BUSY)] /\
   skipn 2 (rets_of (TR (srun C15_scn.D C15_scn.w2 (services 3))))
     = [(OService, ST_BUSY); (OService, ST_BUSY); (OService, ST_BUSY)]).
Proof. vm_compute. repeat split; reflexivity. Qed.
Print Assumptions C15_refuted.

(* ------------------------------------------------------------------------------------------------ *)
(* C18 — corpus/c18_busy_event.scn                                                                   *)
(* one command "+U" with a UINT8 variable (= 5); a READ event is triggered; after 7 cat_service      *)
(* calls the first three bytes of the line "\n+U=5\n" have been written                              *)
(* ------------------------------------------------------------------------------------------------ *)
Module C18_scn.
Definition c_U := mkCmd [43; 85]%N None false false false false
                        [mkVar None VUint 1 RW false false 0] false false false.
Definition D := mkDesc [[c_U]] [] 64 None 0%N 2 false.
Definition ops : list sop := SOp (OTrigger 0 T_READ) :: services 7 ++ [SOp OIsBusy].
Definition w_legacy : sworld := srun_legacy4 D (fresh D [[5%N]] []) ops.
Definition w_current : sworld := srun D (fresh D [[5%N]] []) ops.
End C18_scn.

(* Contradicts C18 — "cat_is_busy / cat_is_hold never report idle while work is in flight" — in the
   form of Properties_C18.C18_busy_sound:
     is_busy s = ST_OK -> ... u_state (u s) <> US_FLUSH /\ u_state (u s) <> US_FLUSH_WAIT
   (neither machine owns or waits for the output channel, no output unit partially emitted) and
   C18_busy_iff (OK iff BOTH machines are idle).
   In the middle of the unsolicited line (3 of its 6 bytes written, event machine in US_FLUSH,
   command machine idle) the legacy query answers OK; the current one answers BUSY. *)
Theorem C18_refuted :
  (* the state is the same under both runners: mid-line *)
  (ST C18_scn.w_legacy = ST C18_scn.w_current /\
   output_of (TR C18_scn.w_legacy) = [10; 43; 85]%N /\                   (* "\n+U" of "\n+U=5\n" *)
   u_state (u (ST C18_scn.w_legacy)) = US_FLUSH /\
   u_wstate (u (ST C18_scn.w_legacy)) = WS_MAIN /\ u_position (u (ST C18_scn.w_legacy)) = 2 /\
   k_state (k (ST C18_scn.w_legacy)) = CS_IDLE /\ fault (ST C18_scn.w_legacy) = false) /\
  (* the function *)
  (is_busy_legacy (ST C18_scn.w_legacy) = ST_OK /\ is_busy (ST C18_scn.w_legacy) = ST_BUSY) /\
  (* the API call cat_is_busy, last operation of the scenario *)
  (hd (ERd None) (TR C18_scn.w_legacy) = ERet OIsBusy ST_OK /\
   hd (ERd None) (TR C18_scn.w_current) = ERet OIsBusy ST_BUSY).
Proof. vm_compute. repeat split; reflexivity. Qed.
Print Assumptions C18_refuted.

(* ------------------------------------------------------------------------------------------------ *)
(* C19 — corpus/c19_group_disabled_list.scn                                                          *)
(* group 0: "+LIST" (run handler returning PRINT_CMD_LIST_OK); group 1: "+HID" (read and run         *)
(* handlers).  Group 1 is disabled; then "AT+LIST\n", "AT+HID\n", "AT+HID?\n"                        *)
(* ------------------------------------------------------------------------------------------------ *)
Module C19_scn.
Definition c_LIST := mkCmd [43; 76; 73; 83; 84]%N None false false true false [] false false false.
Definition c_HID := mkCmd [43; 72; 73; 68]%N None false true true false [] false false false.
Definition D := mkDesc [[c_LIST]; [c_HID]] [] 128 None 0%N 1 false.
Definition h : shs := [((2, 0, 0), [mkHres RC_PRINT_CMD_LIST_OK None [] []])].
Definition ops : list sop :=
  SOp (OSetGroupDisable 1 true) ::
  SFeed [65; 84; 43; 76; 73; 83; 84; 10]%N :: services 120 ++                  (* "AT+LIST\n" *)
  SFeed [65; 84; 43; 72; 73; 68; 10]%N :: services 60 ++                       (* "AT+HID\n"  *)
  SFeed [65; 84; 43; 72; 73; 68; 63; 10]%N :: services 60.                     (* "AT+HID?\n" *)
Definition w_legacy : sworld := srun_legacy5 D (fresh D [] h) ops.
Definition w_current : sworld := srun D (fresh D [] h) ops.
Definition l_LIST : list N := [10; 65; 84; 43; 76; 73; 83; 84; 10]%N.          (* "\nAT+LIST\n" *)
Definition l_HID : list N := [10; 65; 84; 43; 72; 73; 68; 10]%N.               (* "\nAT+HID\n"  *)
Definition l_HIDq : list N := [65; 84; 43; 72; 73; 68; 63; 10]%N.              (* "AT+HID?\n"   *)
(* the object state with group 1 disabled, for the function-level run of the printer *)
Definition s_dis : state := set_dis_grp [false; true] (init_state D []).
End C19_scn.

(* Contradicts C19 — "the automatic TEST response and the command list are faithful to the
   descriptor" — in the form of Properties_C19.C19_list:
     let lines := spec_cmd_list D (fun i => negb (is_command_disable D s i)) (nl_chars s) in
     ... list_run D fuel (start_print_cmd_list D s) [] = (out, s') ... out = lines
   (the list shows exactly the forms of the ENABLED commands, i.e. what the dispatcher serves).
   With its group disabled, "+HID" is disabled for the lookup (get_cmd_state / is_command_disable):
   "AT+HID" and "AT+HID?" both answer ERROR and its handlers are never called; yet the legacy list
   printer, which looks only at the command's own flag, advertises both forms.  The current printer
   lists "+LIST" only, which is the specified list. *)
Theorem C19_refuted :
  (* the specified list in this state, and command 1 is disabled *)
  (spec_cmd_list C19_scn.D (fun i => negb (is_command_disable C19_scn.D C19_scn.s_dis i)) [10%N]
     = [C19_scn.l_LIST] /\
   is_command_disable C19_scn.D C19_scn.s_dis 1 = true /\ nthb (dis_cmd C19_scn.s_dis) 1 = false) /\
  (* the printer alone (TextDefs.list_run and its legacy twin) *)
  (fst (list_run_legacy C19_scn.D 20 (start_print_cmd_list C19_scn.D C19_scn.s_dis) [])
     = [C19_scn.l_LIST; C19_scn.l_HID; C19_scn.l_HIDq] /\
   fst (list_run C19_scn.D 20 (start_print_cmd_list C19_scn.D C19_scn.s_dis) []) = [C19_scn.l_LIST]) /\
  (* the whole machine, legacy printer: +HID listed, then ERROR for each of its forms; only the
     run handler of +LIST was ever called *)
  (output_of (TR C19_scn.w_legacy)
     = C19_scn.l_LIST ++ C19_scn.l_HID ++ C19_scn.l_HIDq ++ t_OK ++ t_ERROR ++ t_ERROR /\
   calls_of (TR C19_scn.w_legacy) = [(HRun 0, RC_PRINT_CMD_LIST_OK)] /\
   fault (ST C19_scn.w_legacy) = false /\ k_state (k (ST C19_scn.w_legacy)) = CS_IDLE) /\
  (* the whole machine, current model: +HID not listed *)
  (output_of (TR C19_scn.w_current) = C19_scn.l_LIST ++ t_OK ++ t_ERROR ++ t_ERROR /\
   calls_of (TR C19_scn.w_current) = [(HRun 0, RC_PRINT_CMD_LIST_OK)] /\
   fault (ST C19_scn.w_current) = false /\ k_state (k (ST C19_scn.w_current)) = CS_IDLE).
Proof. vm_compute. repeat split; reflexivity. Qed.
Print Assumptions C19_refuted.
