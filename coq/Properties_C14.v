(* Properties_C14.v — property C14: HOLD suspends the command until released, then answers exactly
   once.  Arbitrary oracles; history theorems from cat_init under D3 (the hold is entered by a
   command-side handler; event-side handlers release it with the HOLD_EXIT codes), `fault = false` is
   discharged by C03 in the supported domain.  Proofs: Lemmas_C14, Lemmas_Ctl, EvSkelSim. *)
From Coq Require Import List NArith ZArith Bool Arith.
From CatV Require Import Bytes Defs Codec Fsm Skel SkelInv SkelSim EvSkel EvSkelSim Lemmas_Ctl Lemmas_C03 Lemmas_Domain Lemmas_C14.
Import ListNotations.

Section C14.
Variable D : desc.
Variables ioS muS hS : Type.
Variable io_read : ioS -> ioS * option N.
Variable io_write : ioS -> N -> ioS * bool.
Variable mu_lock : muS -> muS * bool.
Variable mu_unlock : muS -> muS * bool.
Variable h_call : hS -> hreq -> hS * hres.
Hypothesis no_uhold : forall hs q, unsol_req q = true -> r_code (snd (h_call hs q)) <> RC_HOLD.

Notation st := (Fsm.st ioS muS hS).
Notation io := (Fsm.io ioS muS hS).
Notation hs := (Fsm.hs ioS muS hS).
Notation tr := (Fsm.tr ioS muS hS).
Notation run := (Fsm.run D ioS muS hS io_read io_write mu_lock mu_unlock h_call).
Notation cmd_service := (Fsm.cmd_service D ioS muS hS io_read io_write mu_lock mu_unlock h_call).
Notation api_hold_exit := (Fsm.api_hold_exit D ioS muS hS mu_lock mu_unlock).
Notation api_is_hold := (Fsm.api_is_hold D ioS muS hS mu_lock mu_unlock).
Notation reach m x mx h ops := (run (mkWorld ioS muS hS (init_state D m) x mx h []) ops).

(* the suspension flag is exactly "the command machine is in CS_HOLD", at every point of every history;
   while suspended the line's result code has not been started (gS = gR) although its LF was consumed *)
Theorem C14_flag_is_state : forall m x mx h ops,
  let s := st (reach m x mx h ops) in
  fault s = false ->
  (k_hold (k s) = true <-> k_state (k s) = CS_HOLD) /\
  (k_state (k s) = CS_HOLD -> gL s = S (gR s) /\ gS s = gR s).
Proof.
  intros m x mx h ops s Hf.
  pose proof (J_reachable D ioS muS hS io_read io_write mu_lock mu_unlock h_call no_uhold m x mx h ops Hf) as HJ.
  split; [exact (J_hold_iff _ HJ) | exact (J_held_no_result _ HJ)].
Qed.

(* entering a hold (the effect of a handler returning HOLD) clears any stale release request *)
Theorem C14_enter_clears : forall s,
  let s' := enable_hold_state s in
  k_state (k s') = CS_HOLD /\ k_hold (k s') = true /\ k_hold_exit (k s') = 0%Z /\
  cbuf s' = cbuf s /\ mem s' = mem s /\ u s' = u s /\ gS s' = gS s.
Proof. exact enable_hold_clears. Qed.

(* while held and not released the command machine's step does NOTHING: no input byte consumed, no
   output, no callback, no state change — whatever input is queued *)
Theorem C14_held_step_is_noop : forall w,
  k_state (k (st w)) = CS_HOLD -> k_hold_exit (k (st w)) = 0%Z ->
  st (fst (cmd_service w)) = st w /\ io (fst (cmd_service w)) = io w /\
  hs (fst (cmd_service w)) = hs w /\ tr (fst (cmd_service w)) = tr w /\
  snd (cmd_service w) = ST_BUSY.
Proof. exact (hold_step_waits D ioS muS hS io_read io_write mu_lock mu_unlock h_call). Qed.

(* the event machine never consumes input, so unsolicited events keep flowing without touching the
   queued input (its own steps are described by uns_next / uns_evs) *)
Theorem C14_events_do_not_read : forall w evs r,
  tr (fst (Fsm.unsolicited_events_service D ioS muS hS io_write mu_lock mu_unlock h_call w)) = evs ++ tr w ->
  ~ In (ERd r) evs.
Proof. exact (event_machine_never_reads D ioS muS hS io_write mu_lock mu_unlock h_call). Qed.

(* a release request: outside a hold ERROR_NOT_HOLD and no effect at all; during a hold OK and the
   status is recorded; repeated requests: the last one wins *)
Theorem C14_release_not_held : forall s status,
  k_hold (k s) = false -> hold_exit s status = (s, ST_NOT_HOLD).
Proof. exact hold_exit_not_held. Qed.
Theorem C14_release_held : forall s status,
  k_hold (k s) = true ->
  hold_exit s status = (setk_hold_exit (if (status =? ST_OK)%Z then 1%Z else (-1)%Z) s, ST_OK).
Proof. exact hold_exit_held. Qed.
Theorem C14_last_release_wins : forall s a b,
  k_hold (k s) = true -> fst (hold_exit (fst (hold_exit s a)) b) = fst (hold_exit s b).
Proof. exact hold_exit_last_wins. Qed.

(* after a release request the next command step starts exactly one result code — OK iff the recorded
   status is positive — clears the flag, and touches neither io, handlers nor the trace *)
Theorem C14_release_answers_once : forall w,
  k_state (k (st w)) = CS_HOLD -> k_hold_exit (k (st w)) <> 0%Z ->
  let s := st w in
  st (fst (cmd_service w)) =
    (if (k_hold_exit (k s) <? 0)%Z then ack_error (setk_hold false s) else ack_ok (setk_hold false s)) /\
  io (fst (cmd_service w)) = io w /\ hs (fst (cmd_service w)) = hs w /\ tr (fst (cmd_service w)) = tr w.
Proof. exact (hold_step_releases D ioS muS hS io_read io_write mu_lock mu_unlock h_call). Qed.
Theorem C14_release_result : forall s,
  let a := ack_ok (setk_hold false s) in let e := ack_error (setk_hold false s) in
  k_hold (k a) = false /\ k_hold (k e) = false /\ gS a = S (gS s) /\ gS e = S (gS s) /\
  k_state (k a) = CS_FLUSH_WAIT /\ k_state (k e) = CS_FLUSH_WAIT /\
  k_wafter (k a) = CS_AFTER_RESET /\ k_wafter (k e) = CS_AFTER_RESET /\
  cbuf a = strncpy_buf (asz s) txt_OK /\ cbuf e = strncpy_buf (asz s) txt_ERROR.
Proof. exact release_ack. Qed.

(* the public functions (no mutex configured; with a mutex see C16) *)
Theorem C14_api_hold_exit : forall w status, d_mutex D = false ->
  api_hold_exit w status =
    (set_st _ _ _ (fst (hold_exit (st w) status)) w, snd (hold_exit (st w) status)).
Proof. exact (api_hold_exit_nomutex D ioS muS hS mu_lock mu_unlock). Qed.
Theorem C14_api_is_hold : forall w, d_mutex D = false ->
  api_is_hold w = (w, if k_hold (k (st w)) then ST_HOLD else ST_OK).
Proof. exact (api_is_hold_nomutex D ioS muS hS mu_lock mu_unlock). Qed.
End C14.

Print Assumptions C14_flag_is_state.
Print Assumptions C14_enter_clears.
Print Assumptions C14_held_step_is_noop.
Print Assumptions C14_events_do_not_read.
Print Assumptions C14_release_not_held.
Print Assumptions C14_release_held.
Print Assumptions C14_last_release_wins.
Print Assumptions C14_release_answers_once.
Print Assumptions C14_release_result.
Print Assumptions C14_api_hold_exit.
Print Assumptions C14_api_is_hold.

(* ---------------------------------------------------------------------------------------------
   The same, unconditionally, in the supported domain: C03 (Lemmas_C03.C03_no_fault) shows that the
   fault flag is never raised for descriptors satisfying wf_desc, events naming pool commands
   (valid_op / valid_icall) — so the hypothesis `fault = false` above is discharged. *)
Section InDomain.
Variable D : desc.
Variables ioS muS hS : Type.
Variable io_read : ioS -> ioS * option N.
Variable io_write : ioS -> N -> ioS * bool.
Variable mu_lock : muS -> muS * bool.
Variable mu_unlock : muS -> muS * bool.
Variable h_call : hS -> hreq -> hS * hres.
Hypothesis no_uhold : forall hs q, unsol_req q = true -> r_code (snd (h_call hs q)) <> RC_HOLD.
Hypothesis handlers_valid : forall hs q, Forall (valid_icall D) (r_calls (snd (h_call hs q))).
Notation st := (Fsm.st ioS muS hS).
Notation run := (Fsm.run D ioS muS hS io_read io_write mu_lock mu_unlock h_call).
Notation reach m x mx h ops := (run (mkWorld ioS muS hS (init_state D m) x mx h []) ops).
Notation JD := (J_in_domain D ioS muS hS io_read io_write mu_lock mu_unlock h_call no_uhold handlers_valid).

Theorem C14_in_domain : forall m x mx h ops,
  wf_desc D m -> Forall (valid_op D) ops ->
  let s := st (reach m x mx h ops) in
  (k_hold (k s) = true <-> k_state (k s) = CS_HOLD) /\
  (k_state (k s) = CS_HOLD -> gL s = S (gR s) /\ gS s = gR s).
Proof.
  intros m x mx h ops Hwf Hops s. destruct (JD m x mx h ops Hwf Hops) as [_ HJ]. fold s in HJ.
  split; [exact (J_hold_iff s HJ) | exact (J_held_no_result s HJ)].
Qed.
End InDomain.
Print Assumptions C14_in_domain.
