(* Properties_C15.v — property C15: cat_service reports OK ("nothing left to do") only when the
   parser is truly quiescent — no event queued or in progress, no output pending, no input byte
   consumed in that call — so that an immediate second call would also do nothing; otherwise it
   reports BUSY.  Proofs are in Lemmas_C15.v.  Arbitrary oracles, ANY world (no reachability
   assumption). *)
From Coq Require Import List NArith ZArith Bool Arith.
From CatV Require Import Bytes Defs Codec Fsm Script TraceDefs SkelInv ResolveDefs SchedDefs Lemmas_C15.
Import ListNotations.

Section C15.
Variable D : desc.
Variables ioS muS hS : Type.
Variable io_read : ioS -> ioS * option N.
Variable io_write : ioS -> N -> ioS * bool.
Variable mu_lock : muS -> muS * bool.
Variable mu_unlock : muS -> muS * bool.
Variable h_call : hS -> hreq -> hS * hres.

Local Notation world := (Fsm.world ioS muS hS).
Local Notation st := (Fsm.st ioS muS hS).
Local Notation io := (Fsm.io ioS muS hS).
Local Notation mu := (Fsm.mu ioS muS hS).
Local Notation hs := (Fsm.hs ioS muS hS).
Local Notation tr := (Fsm.tr ioS muS hS).
Local Notation set_io := (Fsm.set_io ioS muS hS).
Local Notation logw := (Fsm.logw ioS muS hS).
Local Notation service_body :=
  (Fsm.service_body D ioS muS hS io_read io_write mu_lock mu_unlock h_call).
Local Notation api_service :=
  (Fsm.api_service D ioS muS hS io_read io_write mu_lock mu_unlock h_call).

(* 1. OK means quiescent, and the call did nothing but one refused read: no byte consumed, no byte
   written, no handler called, nothing changed *)
Theorem C15_ok_is_quiescent : forall (w w' : world), service_body w = (w', ST_OK) ->
  reading_state (k_state (k (st w))) = true /\
  u_state (u (st w)) = US_IDLE /\ u_count (u (st w)) = 0 /\ ring_items D (st w) = [] /\
  exists io', io_read (io w) = (io', None) /\
              st w' = st w /\ hs w' = hs w /\ mu w' = mu w /\ io w' = io' /\
              tr w' = ERd None :: tr w.
Proof.
  exact (Lemmas_C15.C15_ok_is_quiescent D ioS muS hS io_read io_write mu_lock mu_unlock h_call).
Qed.

(* 2. the only statuses of the body are OK and BUSY *)
Theorem C15_status_range : forall (w : world),
  snd (service_body w) = ST_OK \/ snd (service_body w) = ST_BUSY.
Proof.
  exact (Lemmas_C15.C15_status_range D ioS muS hS io_read io_write mu_lock mu_unlock h_call).
Qed.

(* 3. idempotence: after an OK, a second call that again finds no input returns OK and changes
   nothing but the oracle state of io and the one logged refused read *)
Theorem C15_ok_idempotent : forall (w w' : world), service_body w = (w', ST_OK) ->
  forall io'', io_read (io w') = (io'', None) ->
  service_body w' = (logw (ERd None) (set_io io'' w'), ST_OK).
Proof.
  exact (Lemmas_C15.C15_ok_idempotent D ioS muS hS io_read io_write mu_lock mu_unlock h_call).
Qed.

(* 4. conversely, BUSY is reported whenever something was done or is pending (also when the event
   machine is not idle at the start but becomes idle in this very call) *)
Theorem C15_busy_when_work : forall (w : world),
  (u_state (u (st w)) <> US_IDLE \/ u_count (u (st w)) <> 0 \/
   reading_state (k_state (k (st w))) = false \/
   (exists io' ch, io_read (io w) = (io', Some ch))) ->
  snd (service_body w) = ST_BUSY.
Proof.
  exact (Lemmas_C15.C15_busy_when_work D ioS muS hS io_read io_write mu_lock mu_unlock h_call).
Qed.

(* 5. API level (with or without mutex): cat_service returns OK only if the lock/unlock succeeded
   and the body said OK *)
Theorem C15_api_ok : forall (w : world), snd (api_service w) = ST_OK ->
  reading_state (k_state (k (st w))) = true /\ u_state (u (st w)) = US_IDLE /\
  ring_items D (st w) = [] /\
  st (fst (api_service w)) = st w /\ hs (fst (api_service w)) = hs w.
Proof.
  exact (Lemmas_C15.C15_api_ok D ioS muS hS io_read io_write mu_lock mu_unlock h_call).
Qed.

End C15.

Print Assumptions C15_ok_is_quiescent.
Print Assumptions C15_status_range.
Print Assumptions C15_ok_idempotent.
Print Assumptions C15_busy_when_work.
Print Assumptions C15_api_ok.

(* 6. scripted environment (Script.v): once OK with no input left, every further cat_service call
   returns OK and the state never changes *)
Theorem C15_quiescent_forever : forall (D : desc) (w : sworld) n, d_mutex D = false ->
  inq (io _ _ _ w) = [] ->
  snd (do_op D sio smu shs s_read s_write s_lock s_unlock s_call w OService) = ST_OK ->
  st _ _ _ (nsvc D n w) = st _ _ _ w /\ hs _ _ _ (nsvc D n w) = hs _ _ _ w.
Proof. exact Lemmas_C15.C15_quiescent_forever. Qed.
Print Assumptions C15_quiescent_forever.

Theorem C15_quiescent_forever_ok : forall (D : desc) (w : sworld) n, d_mutex D = false ->
  inq (io _ _ _ w) = [] ->
  snd (do_op D sio smu shs s_read s_write s_lock s_unlock s_call w OService) = ST_OK ->
  snd (do_op D sio smu shs s_read s_write s_lock s_unlock s_call (nsvc D n w) OService) = ST_OK.
Proof. exact Lemmas_C15.C15_quiescent_forever_ok. Qed.
Print Assumptions C15_quiescent_forever_ok.

(* ------------------------------------------------------------------ *)
(* non-vacuity: scripted runs                                           *)
(* ------------------------------------------------------------------ *)

Definition rets (h : list event) : list Z :=
  flat_map (fun e => match e with ERet _ r => [r] | _ => [] end) h.
Definition written (h : list event) : list N :=
  flat_map (fun e => match e with EWr _ ch true => [ch] | _ => [] end) h.

(* one command "+X" with read and run handlers, no mutex, queue capacity 2 *)
Definition exD : desc :=
  mkDesc [[mkCmd [43; 88]%N None false true true false [] false false false]] [] 16 None 0%N 2 false.
Local Notation exdo := (do_op exD sio smu shs s_read s_write s_lock s_unlock s_call).

(* input "AT\n"; the read handler of the event answers "+X=1" with CAT_RETURN_STATE_DATA_OK *)
Definition exW0 : sworld :=
  sinit exD [] (mkSio [65; 84; 10]%N [] []) (mkSmu [] [])
        [((1, 0, 0), [mkHres RC_DATA_OK (Some [43; 88; 61; 49]%N) [] []])].

(* an input byte is available: BUSY *)
Example C15_ex_first_call_busy : snd (exdo exW0 OService) = ST_BUSY.
Proof. vm_compute. reflexivity. Qed.

(* 12 calls consume "AT\n" and write "\nOK\n", each reporting BUSY *)
Definition exW1 : sworld := nsvc exD 12 exW0.
Example C15_ex_answering :
  rets (hist _ _ _ exW1) = repeat ST_BUSY 12 /\ written (hist _ _ _ exW1) = [10; 79; 75; 10]%N.
Proof. vm_compute. split; reflexivity. Qed.

(* after "AT\n" is fully answered service returns OK, the call only logs one refused read, and
   (theorem 6) further calls never change the state *)
Example C15_ex_then_ok :
  snd (exdo exW1 OService) = ST_OK /\
  tr _ _ _ (fst (exdo exW1 OService)) = ERd None :: tr _ _ _ exW1 /\
  st _ _ _ (nsvc exD 5 exW1) = st _ _ _ exW1.
Proof. vm_compute. repeat split; reflexivity. Qed.

(* with an event queued it returns BUSY *)
Definition exW2 : sworld := sstep exD (nsvc exD 2 exW1) (SOp (OTrigger 0 T_READ)).
Example C15_ex_event_queued :
  ring_items exD (st _ _ _ exW2) = [(0, T_READ)] /\ snd (exdo exW2 OService) = ST_BUSY.
Proof. vm_compute. split; reflexivity. Qed.

(* ... and keeps returning BUSY until the event's output "\n+X=1\n" is completely written and the
   event machine is idle again; then OK for ever *)
Example C15_ex_event_run :
  rets (hist _ _ _ (nsvc exD 22 exW2)) =
    repeat ST_BUSY 12 ++ [ST_OK; ST_OK] ++ [ST_OK (* trigger *)] ++ repeat ST_BUSY 13 ++ repeat ST_OK 9 /\
  written (hist _ _ _ (nsvc exD 22 exW2)) = [10; 79; 75; 10; 10; 43; 88; 61; 49; 10]%N.
Proof. vm_compute. split; reflexivity. Qed.
