(* FormatTieLib.v -- static part of the "format tie" (translator tie for the five typed FORMATTERS
   of cat.c and the bounded printing helpers they use; it complements CodecTieLib / CodecTie, which
   tie the five typed DECODERS).  tools/format_translate.py copies this file into its work
   directory and compiles it there (or uses the compiled copy of this directory when it is up to
   date), before the generated FormatGen.v and the assembled FormatTie_<fn>.v.  It depends on
   Bytes.v / Defs.v / Codec.v only.

     1. vocabulary     results (fres), the variable seen by a formatter (vobj), the choice by
                       state machine (sel), the C vocabulary of the generated code that the model
                       does not have (conversions, partial stores, snprintf into the buffer)
     2. printf table   the TRUSTED reading of the printf conversions used by cat.c in terms of the
                       renderers of Bytes.v (render)
     3. model side     the model functions of Codec.v as functions of (buffer, position) with
                       observable results (m_print_nstring, m_print_num, m_print_pieces,
                       m_print_nums, m_format), and -- proved once, about the model only -- their
                       normal forms in the vocabulary of section 1
     4. loops          run_for (a counted `for` loop with early return / break), the two canonical
                       per-byte steps (print one piece, stop on failure), and the DRIVER LEMMAS
                       that relate "for each byte: print its piece, stop on failure" to
                       print_nums / print_pieces over the list of pieces
     5. format_tie     the generic proof tactic
     6. diagnosis      decidable comparison of results and the deterministic families of concrete
                       inputs on which a FAILED tie is evaluated to find a witness (nothing of
                       section 6 is used by a tie theorem)
   Every lemma is proved; nothing is assumed. *)
From Coq Require Import List NArith ZArith Bool Arith Lia.
From Coq Require Import ZifyBool ZifyNat ZifyN.
From CatV Require Import Bytes Defs Codec.
Import ListNotations.
Local Open Scope N_scope.

(* ====================================================================================== *)
(* 1. Vocabulary                                                                          *)
(* ====================================================================================== *)

(* What a formatter sees of `struct cat_variable`: the descriptor and the storage var->data. *)
Record vobj := mkVobj { o_var : var; o_data : list N }.

(* get_var_by_fsm / get_left_buffer_space_by_fsm / ... : the command machine's or the event
   machine's.  The generated functions receive BOTH variables (self->var and
   self->unsolicited_fsm.var) and the selector, so that code which looks at the wrong one is
   different from the model. *)
Definition sel {A : Type} (f : fsm) (a u : A) : A := match f with ATCMD => a | UNSOL => u end.

(* Result of a printing function on the working buffer of one machine: the buffer, the position
   and the status (true = the C function returned 0, false = it returned -1).  FFault = undefined
   behaviour happened (a store or a load outside an object, the position behind the buffer):
   nothing is observable then. *)
Inductive fres := FFault | FRet (buf : list N) (pos : nat) (ok : bool).

(* what a caller can observe of a model result *)
Definition fobs (r : cur * bool) : fres :=
  if cu_fault (fst r) then FFault else FRet (cu_buf (fst r)) (cu_pos (fst r)) (snd r).

(* ---- C integer vocabulary (same definitions as in CodecTieLib; repeated here so that the two
        ties stay independent) ---- *)
Definition c_int_of_char (b : N) : Z := if b <? 128 then Z.of_N b else (Z.of_N b - 256)%Z.
Definition c_wrap_u (m : Z) (z : Z) : N := Z.to_N (z mod m).
Definition c_wrap_s (m : Z) (z : Z) : Z := ((z + m / 2) mod m - m / 2)%Z.
Definition c_in (lo hi x : Z) : bool := ((lo <=? x) && (x <=? hi))%Z.
(* a - b in size_t when the result may wrap around *)
Definition c_size_sub (a b : nat) : N := (N.of_nat a + two64 - N.of_nat b) mod two64.

(* ---- stores into the working buffer: None = outside the buffer ---- *)
Definition c_store (buf : list N) (i : nat) (v : N) : option (list N) :=
  if (i <? length buf)%nat then Some (upd buf i v) else None.
(* memcpy(&buf[i], l, length l) *)
Fixpoint c_store_list (buf : list N) (i : nat) (l : list N) : option (list N) :=
  match l with
  | [] => Some buf
  | x :: r => if (i <? length buf)%nat then c_store_list (upd buf i x) (S i) r else None
  end.
(* snprintf(&buf[pos], n, ...) when the complete text would be `text`: nothing when n = 0, else
   the first n - 1 characters and a terminator (C11 7.21.6.5) *)
Definition c_snprintf (buf : list N) (pos n : nat) (text : list N) : option (list N) :=
  if (n =? 0)%nat then Some buf else c_store_list buf pos (firstn (n - 1) text ++ [0]).

(* snprintf(a, n, ...) into a local array a of at least n bytes: the bytes of a that are DEFINED
   afterwards (the others are indeterminate; the guards of the generated code refuse to read
   behind the list) *)
Definition c_snprintf_obj (n : nat) (text : list N) : list N :=
  if (n =? 0)%nat then [] else firstn (n - 1) text ++ [0].

(* ---- C strings: an object is the list of its bytes, terminator included ---- *)
Fixpoint c_strlen (s : list N) : nat :=
  match s with [] => O | x :: r => if x =? 0 then O else S (c_strlen r) end.
Definition c_has_nul (s : list N) : bool := (c_strlen s <? length s)%nat.

(* "the storage holds bytes" *)
Definition bytes_ok (l : list N) : bool := forallb (fun b => b <? 256) l.

(* ====================================================================================== *)
(* 2. The printf table (TRUSTED)                                                          *)
(* ====================================================================================== *)
(* A format string accepted by the translator is a literal prefix without '%' followed by exactly
   one conversion of this table; the variadic argument is a 32-bit unsigned int (checked by the
   translator).  This is the reading of C11 7.21.6.1 in terms of Bytes.v:
        %d     the argument reinterpreted as int (two's complement), decimal     print_dec_z
        %u     decimal                                                            print_dec
        %0wX   upper-case hexadecimal, at least w digits, zero padded             print_hex_pad w *)
Inductive conv := CvD | CvU | CvX (w : nat).
Record fmtspec := mkFmt { f_prefix : list N; f_conv : conv }.

Definition render (fs : fmtspec) (val : N) : list N :=
  f_prefix fs ++
  match f_conv fs with
  | CvD => print_dec_z (c_wrap_s 4294967296 (Z.of_N val))
  | CvU => print_dec val
  | CvX w => print_hex_pad w val
  end.

(* ====================================================================================== *)
(* 3. The model side                                                                      *)
(* ====================================================================================== *)

Definition m_print_nstring (str : list N) (buf : list N) (pos : nat) : fres :=
  fobs (print_nstring (mkCur buf pos false) str).
Definition m_print_num (text : list N) (buf : list N) (pos : nat) : fres :=
  fobs (print_num (mkCur buf pos false) text).
Definition m_print_pieces (ps : list (list N)) (buf : list N) (pos : nat) : fres :=
  fobs (print_pieces (mkCur buf pos false) ps).
Definition m_print_nums (ps : list (list N)) (buf : list N) (pos : nat) : fres :=
  fobs (print_nums (mkCur buf pos false) ps).
(* the formatter dispatch of the model, for the variable o *)
Definition m_format (o : vobj) (buf : list N) (pos : nat) : fres :=
  fobs (fmt_var (o_var o) (o_data o) (mkCur buf pos false)).

(* sequencing: go on with k when the status is 0, else return -1 *)
Definition bind_ok (r : fres) (k : list N -> nat -> fres) : fres :=
  match r with
  | FFault => FFault
  | FRet b p true => k b p
  | FRet b p false => FRet b p false
  end.

Lemma length_upd : forall {A} (l : list A) i v, length (upd l i v) = length l.
Proof. induction l as [|x r IH]; intros [|i] v; cbn; auto. Qed.

(* ---- the cursor functions of Codec.v and the partial stores ---- *)
Lemma cur_store_fault : forall c i v, cu_fault c = true -> cu_fault (cur_store c i v) = true.
Proof. intros c i v H. unfold cur_store. destruct (i <? length (cu_buf c))%nat; cbn; auto. Qed.

Lemma cur_store_list_fault : forall l c i,
  cu_fault c = true -> cu_fault (cur_store_list c i l) = true.
Proof.
  induction l as [|x r IH]; intros c i H; cbn; auto using cur_store_fault.
Qed.

Lemma cur_store_spec : forall buf pos i v,
  match c_store buf i v with
  | Some b => cur_store (mkCur buf pos false) i v = mkCur b pos false
  | None => cu_fault (cur_store (mkCur buf pos false) i v) = true
  end.
Proof.
  intros. unfold c_store, cur_store. cbn [cu_buf cu_pos cu_fault].
  destruct (i <? length buf)%nat; reflexivity.
Qed.

Lemma cur_store_list_spec : forall l buf pos i,
  match c_store_list buf i l with
  | Some b => cur_store_list (mkCur buf pos false) i l = mkCur b pos false
  | None => cu_fault (cur_store_list (mkCur buf pos false) i l) = true
  end.
Proof.
  induction l as [|x r IH]; intros buf pos i.
  - reflexivity.
  - cbn [c_store_list cur_store_list]. unfold cur_store. cbn [cu_buf cu_pos cu_fault].
    destruct (i <? length buf)%nat eqn:E.
    + apply IH.
    + apply cur_store_list_fault. reflexivity.
Qed.

Lemma c_store_list_length : forall l buf i b,
  c_store_list buf i l = Some b -> length b = length buf.
Proof.
  induction l as [|x r IH]; intros buf i b H; cbn [c_store_list] in H.
  - injection H as <-. reflexivity.
  - destruct (i <? length buf)%nat; [|discriminate].
    apply IH in H. rewrite H. apply length_upd.
Qed.

(* ---- print_nstring in the vocabulary of section 1 ---- *)
Lemma m_print_nstring_unfold : forall str buf pos,
  m_print_nstring str buf pos =
  if (length buf <? pos)%nat then FFault
  else if (length buf - pos <=? length str)%nat then FRet buf pos false
  else match c_store_list buf pos str with
       | None => FFault
       | Some b1 =>
         match c_store b1 (pos + length str) 0 with
         | None => FFault
         | Some b2 => FRet b2 (pos + length str) true
         end
       end.
Proof.
  intros str buf pos. unfold m_print_nstring, print_nstring. cbn [cu_buf cu_pos].
  destruct (length buf <? pos)%nat; [reflexivity|].
  destruct (length buf - pos <=? length str)%nat; [reflexivity|].
  pose proof (cur_store_list_spec str buf pos pos) as H1.
  destruct (c_store_list buf pos str) as [b1|].
  - rewrite H1. unfold cur_set_pos. cbn [cu_buf cu_pos cu_fault].
    pose proof (cur_store_spec b1 (pos + length str) (pos + length str) 0) as H2.
    destruct (c_store b1 (pos + length str) 0) as [b2|].
    + rewrite H2. reflexivity.
    + unfold fobs. cbn [fst]. rewrite H2. reflexivity.
  - unfold fobs. cbn [fst]. rewrite cur_store_fault; [reflexivity|].
    unfold cur_set_pos. cbn [cu_fault]. exact H1.
Qed.

(* ---- print_num in the vocabulary of section 1 ---- *)
Lemma m_print_num_unfold : forall text buf pos,
  m_print_num text buf pos =
  if (length buf <? pos)%nat then FFault
  else match c_snprintf buf pos (length buf - pos) text with
       | None => FFault
       | Some b1 =>
         if (length buf - pos <=? length text)%nat then FRet b1 pos false
         else FRet b1 (pos + length text) true
       end.
Proof.
  intros text buf pos. unfold m_print_num, print_num, c_snprintf. cbn [cu_buf cu_pos].
  destruct (length buf <? pos)%nat; [reflexivity|].
  destruct (length buf - pos =? 0)%nat.
  - destruct (length buf - pos <=? length text)%nat; reflexivity.
  - pose proof (cur_store_list_spec (firstn (length buf - pos - 1) text ++ [0]) buf pos pos) as H1.
    destruct (c_store_list buf pos (firstn (length buf - pos - 1) text ++ [0])) as [b1|].
    + rewrite H1. destruct (length buf - pos <=? length text)%nat; reflexivity.
    + unfold fobs.
      destruct (length buf - pos <=? length text)%nat; cbn [fst cur_set_pos cu_fault];
        rewrite H1; reflexivity.
Qed.

(* the model never stores outside the buffer in print_num: its result is a fault only through
   the position test *)
Lemma print_num_fault : forall c t,
  cu_fault c = true -> cu_fault (fst (print_num c t)) = true.
Proof.
  intros c t H. unfold print_num.
  destruct (length (cu_buf c) <? cu_pos c)%nat; [reflexivity|].
  assert (H1 : cu_fault (if (length (cu_buf c) - cu_pos c =? 0)%nat then c
               else cur_store_list c (cu_pos c)
                      (firstn (length (cu_buf c) - cu_pos c - 1) t ++ [0])) = true).
  { destruct (length (cu_buf c) - cu_pos c =? 0)%nat; auto using cur_store_list_fault. }
  destruct (length (cu_buf c) - cu_pos c <=? length t)%nat; cbn [fst cur_set_pos cu_fault]; exact H1.
Qed.

Lemma print_nstring_fault : forall c t,
  cu_fault c = true -> cu_fault (fst (print_nstring c t)) = true.
Proof.
  intros c t H. unfold print_nstring.
  destruct (length (cu_buf c) <? cu_pos c)%nat; [reflexivity|].
  destruct (length (cu_buf c) - cu_pos c <=? length t)%nat; [exact H|].
  cbn [fst]. apply cur_store_fault. unfold cur_set_pos. cbn [cu_fault].
  apply cur_store_list_fault. exact H.
Qed.

Lemma print_nums_fault : forall ps c,
  cu_fault c = true -> cu_fault (fst (print_nums c ps)) = true.
Proof.
  induction ps as [|p r IH]; intros c H; cbn [print_nums fst]; [exact H|].
  pose proof (print_num_fault c p H) as H1.
  destruct (print_num c p) as [c1 ok]. cbn [fst] in H1.
  destruct ok; [apply IH; exact H1|exact H1].
Qed.

Lemma print_pieces_fault : forall ps c,
  cu_fault c = true -> cu_fault (fst (print_pieces c ps)) = true.
Proof.
  induction ps as [|p r IH]; intros c H; cbn [print_pieces fst]; [exact H|].
  pose proof (print_nstring_fault c p H) as H1.
  destruct (print_nstring c p) as [c1 ok]. cbn [fst] in H1.
  destruct ok; [apply IH; exact H1|exact H1].
Qed.

Lemma m_print_nums_nil : forall buf pos, m_print_nums [] buf pos = FRet buf pos true.
Proof. reflexivity. Qed.
Lemma m_print_pieces_nil : forall buf pos, m_print_pieces [] buf pos = FRet buf pos true.
Proof. reflexivity. Qed.

Lemma m_print_nums_cons : forall p r buf pos,
  m_print_nums (p :: r) buf pos = bind_ok (m_print_num p buf pos) (m_print_nums r).
Proof.
  intros p r buf pos. unfold m_print_nums, m_print_num. cbn [print_nums].
  destruct (print_num (mkCur buf pos false) p) as [[b1 p1 f1] ok] eqn:E.
  unfold fobs at 2. cbn [fst snd cu_fault cu_buf cu_pos].
  destruct f1.
  - cbn [bind_ok]. unfold fobs.
    destruct ok; [rewrite print_nums_fault by reflexivity|]; reflexivity.
  - destruct ok; reflexivity.
Qed.

Lemma m_print_pieces_cons : forall p r buf pos,
  m_print_pieces (p :: r) buf pos = bind_ok (m_print_nstring p buf pos) (m_print_pieces r).
Proof.
  intros p r buf pos. unfold m_print_pieces, m_print_nstring. cbn [print_pieces].
  destruct (print_nstring (mkCur buf pos false) p) as [[b1 p1 f1] ok] eqn:E.
  unfold fobs at 2. cbn [fst snd cu_fault cu_buf cu_pos].
  destruct f1.
  - cbn [bind_ok]. unfold fobs.
    destruct ok; [rewrite print_pieces_fault by reflexivity|]; reflexivity.
  - destruct ok; reflexivity.
Qed.

Lemma m_print_pieces_app : forall a b buf pos,
  m_print_pieces (a ++ b) buf pos = bind_ok (m_print_pieces a buf pos) (m_print_pieces b).
Proof.
  induction a as [|p r IH]; intros b buf pos.
  - reflexivity.
  - cbn [app]. rewrite !m_print_pieces_cons.
    destruct (m_print_nstring p buf pos) as [|b1 p1 [|]]; cbn [bind_ok]; [reflexivity| |reflexivity].
    apply IH.
Qed.

Lemma bind_ok_ret : forall r, bind_ok r (fun b p => FRet b p true) = r.
Proof. intros [|b p [|]]; reflexivity. Qed.

(* the idiom `if (f(..) != 0) return -1; return 0;` gives back the callee's result *)
Lemma fres_status_eta : forall r,
  match r with
  | FFault => FFault
  | FRet b p ok => if negb ok then FRet b p false else FRet b p true
  end = r.
Proof. intros [|b p [|]]; reflexivity. Qed.

(* ---- the five formatters of the model (Codec.fmt_var) in normal form ---- *)
Definition piece_bufhex (v : var) (b : N) : list N :=
  print_hex_pad 2 (match v_access v with WO => 0 | _ => b end).

(* the escaped text of one character of a string variable; None = the terminator *)
Definition str_piece (ch : N) : option (list N) :=
  if ch =? 0 then None
  else Some (if ch =? ch_BSL then [ch_BSL; ch_BSL]
             else if ch =? ch_QUOTE then [ch_BSL; ch_QUOTE]
             else if ch =? ch_LF then [ch_BSL; ch_n]
             else [ch]).

Fixpoint pieces_until (piece : N -> option (list N)) (l : list N) : list (list N) :=
  match l with
  | [] => []
  | b :: r => match piece b with None => [] | Some t => t :: pieces_until piece r end
  end.

Lemma str_body_pieces_until : forall l, str_body_pieces l = pieces_until str_piece l.
Proof.
  induction l as [|ch r IH]; [reflexivity|].
  cbn [str_body_pieces pieces_until]. unfold str_piece at 1.
  destruct (ch =? 0); [reflexivity|]. rewrite IH. reflexivity.
Qed.

Lemma m_format_VInt : forall o buf pos, v_type (o_var o) = VInt ->
  m_format o buf pos =
  if supported_width (v_size (o_var o)) then
    if (length (o_data o) <? v_size (o_var o))%nat then FFault
    else m_print_num (print_dec_z (match v_access (o_var o) with
                                   | WO => 0%Z
                                   | _ => le_value_signed (v_size (o_var o)) (o_data o)
                                   end)) buf pos
  else FRet buf pos false.
Proof.
  intros [v data] buf pos H. cbn [o_var o_data] in *. unfold m_format, fmt_var. cbn [o_var o_data].
  rewrite H. unfold fmt_int_text, read_fault.
  destruct (supported_width (v_size v)); [|reflexivity].
  cbn [andb]. destruct (length data <? v_size v)%nat; reflexivity.
Qed.

Lemma m_format_VUint : forall o buf pos, v_type (o_var o) = VUint ->
  m_format o buf pos =
  if supported_width (v_size (o_var o)) then
    if (length (o_data o) <? v_size (o_var o))%nat then FFault
    else m_print_num (print_dec (match v_access (o_var o) with
                                 | WO => 0
                                 | _ => le_value (firstn (v_size (o_var o)) (o_data o))
                                 end)) buf pos
  else FRet buf pos false.
Proof.
  intros [v data] buf pos H. cbn [o_var o_data] in *. unfold m_format, fmt_var. cbn [o_var o_data].
  rewrite H. unfold fmt_uint_text, read_fault.
  destruct (supported_width (v_size v)); [|reflexivity].
  cbn [andb]. destruct (length data <? v_size v)%nat; reflexivity.
Qed.

Lemma m_format_VHex : forall o buf pos, v_type (o_var o) = VHex ->
  m_format o buf pos =
  if supported_width (v_size (o_var o)) then
    if (length (o_data o) <? v_size (o_var o))%nat then FFault
    else m_print_num (48 :: 120 :: print_hex_pad (2 * v_size (o_var o))
                        (match v_access (o_var o) with
                         | WO => 0
                         | _ => le_value (firstn (v_size (o_var o)) (o_data o))
                         end)) buf pos
  else FRet buf pos false.
Proof.
  intros [v data] buf pos H. cbn [o_var o_data] in *. unfold m_format, fmt_var. cbn [o_var o_data].
  rewrite H. unfold fmt_hex_text, read_fault.
  destruct (supported_width (v_size v)); [|reflexivity].
  cbn [andb]. destruct (length data <? v_size v)%nat; reflexivity.
Qed.

Lemma m_format_VBufHex : forall o buf pos, v_type (o_var o) = VBufHex ->
  m_format o buf pos =
  if (length (o_data o) <? v_size (o_var o))%nat then FFault
  else m_print_nums (map (piece_bufhex (o_var o)) (firstn (v_size (o_var o)) (o_data o))) buf pos.
Proof.
  intros [v data] buf pos H. cbn [o_var o_data] in *. unfold m_format, fmt_var. cbn [o_var o_data].
  rewrite H. destruct (length data <? v_size v)%nat; reflexivity.
Qed.

Lemma m_format_VBufStr : forall o buf pos, v_type (o_var o) = VBufStr ->
  m_format o buf pos =
  if (length (o_data o) <? v_size (o_var o))%nat then FFault
  else bind_ok (m_print_nstring [ch_QUOTE] buf pos) (fun b1 p1 =>
       bind_ok (m_print_pieces
                  (pieces_until str_piece
                     (match v_access (o_var o) with
                      | WO => []
                      | _ => firstn (v_size (o_var o)) (o_data o)
                      end)) b1 p1)
               (m_print_nstring [ch_QUOTE])).
Proof.
  intros [v data] buf pos H. cbn [o_var o_data] in *. unfold m_format, fmt_var. cbn [o_var o_data].
  rewrite H. destruct (length data <? v_size v)%nat; [reflexivity|].
  change (fobs (print_pieces (mkCur buf pos false) (fmt_bufstr_pieces v data)))
    with (m_print_pieces (fmt_bufstr_pieces v data) buf pos).
  unfold fmt_bufstr_pieces. rewrite m_print_pieces_cons, str_body_pieces_until.
  destruct (m_print_nstring [ch_QUOTE] buf pos) as [|b1 p1 [|]]; cbn [bind_ok]; try reflexivity.
  rewrite m_print_pieces_app.
  destruct (m_print_pieces _ b1 p1) as [|b2 p2 [|]]; cbn [bind_ok]; try reflexivity.
  rewrite m_print_pieces_cons.
  destruct (m_print_nstring [ch_QUOTE] b2 p2) as [|b3 p3 [|]]; reflexivity.
Qed.

(* ---- arithmetic of the loads and of the "%d" round trip ---- *)
Lemma two_pow8_S : forall k, two_pow8 (S k) = 256 * two_pow8 k.
Proof.
  intro k. unfold two_pow8.
  replace (8 * N.of_nat (S k)) with (8 + 8 * N.of_nat k) by lia.
  rewrite N.pow_add_r. reflexivity.
Qed.

Lemma two_pow8_pos : forall k, 0 < two_pow8 k.
Proof. intro k. unfold two_pow8. apply N.neq_0_lt_0. apply N.pow_nonzero. discriminate. Qed.

Lemma le_value_firstn_lt : forall k l, bytes_ok l = true -> le_value (firstn k l) < two_pow8 k.
Proof.
  induction k as [|k IH]; intros l H.
  - reflexivity.
  - destruct l as [|b r]; cbn [firstn le_value].
    + apply two_pow8_pos.
    + cbn [bytes_ok forallb] in H. apply andb_prop in H. destruct H as [Hb Hr].
      apply N.ltb_lt in Hb. specialize (IH r Hr). rewrite two_pow8_S. lia.
Qed.

Lemma le_value_signed_range_1 : forall d, bytes_ok d = true ->
  (-128 <= le_value_signed 1 d <= 127)%Z.
Proof.
  intros d H. unfold le_value_signed. pose proof (le_value_firstn_lt 1 d H) as B.
  change (two_pow8 1) with 256 in *. change (256 / 2) with 128.
  destruct (N.ltb_spec (le_value (firstn 1 d)) 128); lia.
Qed.
Lemma le_value_signed_range_2 : forall d, bytes_ok d = true ->
  (-32768 <= le_value_signed 2 d <= 32767)%Z.
Proof.
  intros d H. unfold le_value_signed. pose proof (le_value_firstn_lt 2 d H) as B.
  change (two_pow8 2) with 65536 in *. change (65536 / 2) with 32768.
  destruct (N.ltb_spec (le_value (firstn 2 d)) 32768); lia.
Qed.
Lemma le_value_signed_range_4 : forall d, bytes_ok d = true ->
  (-2147483648 <= le_value_signed 4 d <= 2147483647)%Z.
Proof.
  intros d H. unfold le_value_signed. pose proof (le_value_firstn_lt 4 d H) as B.
  change (two_pow8 4) with 4294967296 in *. change (4294967296 / 2) with 2147483648.
  destruct (N.ltb_spec (le_value (firstn 4 d)) 2147483648); lia.
Qed.

Ltac lia_div := Zify.zify; Z.to_euclidean_division_equations; lia.

(* passing an int where print_format_num takes a uint32_t and printing it with "%d" *)
Lemma c_wrap_s_u32 : forall z, (-2147483648 <= z <= 2147483647)%Z ->
  c_wrap_s 4294967296 (Z.of_N (c_wrap_u 4294967296 z)) = z.
Proof.
  intros z H. unfold c_wrap_s, c_wrap_u.
  rewrite Z2N.id by (apply Z.mod_pos_bound; lia).
  change (4294967296 / 2)%Z with 2147483648%Z. lia_div.
Qed.

Lemma render_CvD_wrap : forall p z, (-2147483648 <= z <= 2147483647)%Z ->
  render (mkFmt p CvD) (c_wrap_u 4294967296 z) = p ++ print_dec_z z.
Proof. intros p z H. unfold render. cbn [f_prefix f_conv]. rewrite c_wrap_s_u32 by exact H. reflexivity. Qed.

Lemma render_CvD_nonneg : forall p n, n <= 2147483647 ->
  render (mkFmt p CvD) n = p ++ print_dec_z (Z.of_N n).
Proof.
  intros p n H. unfold render. cbn [f_prefix f_conv]. unfold c_wrap_s.
  change (4294967296 / 2)%Z with 2147483648%Z.
  replace ((Z.of_N n + 2147483648) mod 4294967296 - 2147483648)%Z with (Z.of_N n) by lia_div.
  reflexivity.
Qed.

(* ====================================================================================== *)
(* 4. Loops                                                                               *)
(* ====================================================================================== *)

(* one execution of the body of `for (i = a; i < b; i++) BODY`: fall out of the body (or
   `continue`), `break`, or `return` *)
Inductive lres := LNext (buf : list N) (pos : nat) | LBreak (buf : list N) (pos : nat) | LRet (r : fres).

(* the loop: [count] iterations are left, the counter is i; k is what follows the loop *)
Fixpoint run_for (step : nat -> list N -> nat -> lres) (count i : nat) (buf : list N) (pos : nat)
         (k : list N -> nat -> fres) : fres :=
  match count with
  | O => k buf pos
  | S c =>
    match step i buf pos with
    | LNext b p => run_for step c (S i) b p k
    | LBreak b p => k b p
    | LRet r => r
    end
  end.

(* the two canonical bodies: print the text of one byte with print_format_num /
   print_[n]string_to_buf, return -1 when that fails *)
Definition step_num (text : list N) (buf : list N) (pos : nat) : lres :=
  match m_print_num text buf pos with
  | FFault => LRet FFault
  | FRet b p true => LNext b p
  | FRet b p false => LRet (FRet b p false)
  end.
Definition step_piece (piece : option (list N)) (buf : list N) (pos : nat) : lres :=
  match piece with
  | None => LBreak buf pos
  | Some t =>
    match m_print_nstring t buf pos with
    | FFault => LRet FFault
    | FRet b p true => LNext b p
    | FRet b p false => LRet (FRet b p false)
    end
  end.

Lemma skipn_nth_error : forall {A} i (l : list A) b,
  nth_error l i = Some b -> skipn i l = b :: skipn (S i) l.
Proof.
  induction i as [|i IH]; intros [|x r] b H; cbn in H; try discriminate.
  - injection H as <-. reflexivity.
  - cbn [skipn]. rewrite (IH r b H). reflexivity.
Qed.

Lemma nth_error_in_range : forall {A} (l : list A) i, (i < length l)%nat -> exists b, nth_error l i = Some b.
Proof.
  intros A l i H. destruct (nth_error l i) as [b|] eqn:E; [eauto|].
  apply nth_error_None in E. lia.
Qed.

(* DRIVER 1: one print_format_num per byte *)
Lemma run_for_nums : forall (data : list N) step (piece : N -> list N),
  (forall i b buf pos, nth_error data i = Some b -> step i buf pos = step_num (piece b) buf pos) ->
  forall n i buf pos k, (i + n <= length data)%nat ->
  run_for step n i buf pos k
  = bind_ok (m_print_nums (map piece (firstn n (skipn i data))) buf pos) k.
Proof.
  intros data step piece Hs. induction n as [|n IH]; intros i buf pos k Hn.
  - reflexivity.
  - destruct (nth_error_in_range data i) as [b Hb]; [lia|].
    rewrite (skipn_nth_error i data b Hb). cbn [firstn map run_for].
    rewrite m_print_nums_cons, (Hs i b buf pos Hb). unfold step_num.
    destruct (m_print_num (piece b) buf pos) as [|b1 p1 [|]]; cbn [bind_ok]; try reflexivity.
    apply IH. lia.
Qed.

Lemma run_for_nums_0 : forall (data : list N) step (piece : N -> list N),
  (forall i b buf pos, nth_error data i = Some b -> step i buf pos = step_num (piece b) buf pos) ->
  forall n buf pos k, (n <= length data)%nat ->
  run_for step n 0 buf pos k = bind_ok (m_print_nums (map piece (firstn n data)) buf pos) k.
Proof. intros data step piece Hs n buf pos k Hn. apply (run_for_nums data step piece Hs n 0). lia. Qed.

(* DRIVER 2: one print_[n]string_to_buf per byte, up to a terminator *)
Lemma run_for_pieces : forall (data : list N) step (piece : N -> option (list N)),
  (forall i b buf pos, nth_error data i = Some b -> step i buf pos = step_piece (piece b) buf pos) ->
  forall n i buf pos k, (i + n <= length data)%nat ->
  run_for step n i buf pos k
  = bind_ok (m_print_pieces (pieces_until piece (firstn n (skipn i data))) buf pos) k.
Proof.
  intros data step piece Hs. induction n as [|n IH]; intros i buf pos k Hn.
  - reflexivity.
  - destruct (nth_error_in_range data i) as [b Hb]; [lia|].
    rewrite (skipn_nth_error i data b Hb). cbn [firstn pieces_until run_for].
    rewrite (Hs i b buf pos Hb). unfold step_piece.
    destruct (piece b) as [t|]; [|reflexivity].
    rewrite m_print_pieces_cons.
    destruct (m_print_nstring t buf pos) as [|b1 p1 [|]]; cbn [bind_ok]; try reflexivity.
    apply IH. lia.
Qed.

Lemma run_for_pieces_0 : forall (data : list N) step (piece : N -> option (list N)),
  (forall i b buf pos, nth_error data i = Some b -> step i buf pos = step_piece (piece b) buf pos) ->
  forall n buf pos k, (n <= length data)%nat ->
  run_for step n 0 buf pos k
  = bind_ok (m_print_pieces (pieces_until piece (firstn n data)) buf pos) k.
Proof. intros data step piece Hs n buf pos k Hn. apply (run_for_pieces data step piece Hs n 0). lia. Qed.

(* ====================================================================================== *)
(* 5. format_tie                                                                          *)
(* ====================================================================================== *)
(* Goal:  g_<fn> .. = <model normal form>   or   g_step_<f> .. i buf pos = step_.. (piece b) buf pos.
   Method (as CodecTieLib.codec_tie): unfold the head of the generated side; replace the variable
   selected by the machine by its fields and split on its access mode; then repeatedly
     - normalise: beta/iota/zeta, the small definitions of this file, andb/orb/negb/app/.. on
       constructors (cbn with an explicit list: no N / Z arithmetic is ever unfolded),
     - rewrite: the "%d" round trip (c_wrap_s_u32), conversions of values already in range,
       length (firstn n l), and -- when the step tie Hs of the loop body is in the context -- the
       DRIVER LEMMA that turns run_for over the generated step into print_nums / print_pieces,
     - find the scrutinee on which the evaluation of a side is stuck and split on it ONCE through
       its reflection lemma (the results of the model's printing functions are split by destruct:
       the same term occurs on both sides),
   until both sides are constructor terms: reflexivity, or congruence + lia, or the hypotheses
   are contradictory.  No backtracking; fuel bounds the depth. *)

Lemma c_in_spec : forall lo hi x, reflect (lo <= x <= hi)%Z (c_in lo hi x).
Proof.
  intros lo hi x. unfold c_in.
  destruct (lo <=? x)%Z eqn:E1; destruct (x <=? hi)%Z eqn:E2; constructor;
    rewrite ?Z.leb_le, ?Z.leb_gt in *; lia.
Qed.
Lemma c_int_of_char_small : forall b, b < 128 -> c_int_of_char b = Z.of_N b.
Proof. intros b H. unfold c_int_of_char. destruct (b <? 128) eqn:E; [reflexivity|]. apply N.ltb_ge in E. lia. Qed.
Lemma c_wrap_u_small : forall m z, (0 <= z < m)%Z -> c_wrap_u m z = Z.to_N z.
Proof. intros m z H. unfold c_wrap_u. rewrite Z.mod_small by exact H. reflexivity. Qed.
Lemma c_wrap_s_small : forall m z,
  (0 < m)%Z -> (- (m / 2) <= z < m - m / 2)%Z -> c_wrap_s m z = z.
Proof. intros m z Hm H. unfold c_wrap_s. rewrite Z.mod_small by lia. lia. Qed.

Ltac fmt_consts := unfold max_u64, two64, max_i64 in *.
Ltac fmt_lia := fmt_consts; lia.

Ltac tie_stuck t :=
  match t with
  | match ?x with _ => _ end => tie_stuck x
  | match ?x with _ => _ end => x
  | andb ?a _ => tie_stuck a
  | orb ?a _ => tie_stuck a
  | negb ?a => tie_stuck a
  | andb ?a _ => a
  | orb ?a _ => a
  | negb ?a => a
  | ?f ?a => tie_stuck a
  | ?f _ => tie_stuck f
  end.

Ltac tie_subst_if_var a := tryif is_var a then subst a else idtac.
Ltac nat_lit a := lazymatch a with O => idtac | S ?n => nat_lit n end.
Ltac tie_eval_nat x :=
  lazymatch x with ?op ?a ?b => nat_lit a; nat_lit b end;
  let v := eval compute in x in
  lazymatch v with
  | true => change x with true
  | false => change x with false
  end.

Ltac tie_split x :=
  let E := fresh "E" in
  lazymatch x with
  | N.eqb ?a ?b => destruct (N.eqb_spec a b) as [E|E]
  | N.ltb ?a ?b => destruct (N.ltb_spec0 a b) as [E|E]
  | N.leb ?a ?b => destruct (N.leb_spec0 a b) as [E|E]
  | Z.eqb ?a ?b => destruct (Z.eqb_spec a b) as [E|E]; [tie_subst_if_var a|]
  | Z.ltb ?a ?b => destruct (Z.ltb_spec0 a b) as [E|E]
  | Z.leb ?a ?b => destruct (Z.leb_spec0 a b) as [E|E]
  | Nat.eqb ?a ?b =>
      first [tie_eval_nat x | destruct (Nat.eqb_spec a b) as [E|E]; [tie_subst_if_var a|]]
  | Nat.leb ?a ?b => first [tie_eval_nat x | destruct (Nat.leb_spec0 a b) as [E|E]]
  | Nat.ltb ?a ?b => first [tie_eval_nat x | destruct (Nat.ltb_spec0 a b) as [E|E]]
  | c_in ?lo ?hi ?v => destruct (c_in_spec lo hi v) as [E|E]
  | _ => tryif is_var x then destruct x else (destruct x eqn:E)
  end.

Ltac tie_norm :=
  cbv beta iota zeta delta [bind_ok step_num step_piece str_piece piece_bufhex
                            ch_NUL ch_LF ch_QUOTE ch_COMMA ch_PLUS ch_MINUS ch_0 ch_X ch_BSL ch_n];
  cbn [andb orb negb fst snd app pieces_until map length Nat.mul Nat.add
       o_var o_data v_type v_size v_access vaccess_beq render f_prefix f_conv];
  change (two_pow8 1) with 256 in *;
  change (two_pow8 2) with 65536 in *;
  change (two_pow8 4) with 4294967296 in *.

Ltac tie_rewrites :=
  rewrite ?Nat.sub_0_r, ?Nat2Z.id, ?firstn_O, ?m_print_pieces_nil, ?m_print_nums_nil;
  repeat match goal with
  | |- context [length (firstn ?n ?l)] => rewrite (firstn_length_le l (n:=n)) by fmt_lia
  | |- context [c_wrap_s 4294967296 (Z.of_N (c_wrap_u 4294967296 ?z))] =>
      rewrite (c_wrap_s_u32 z) by fmt_lia
  | H : _ <= ?c <= _ |- context [c_int_of_char ?c] =>
      rewrite (c_int_of_char_small c) by fmt_lia
  | |- context [c_wrap_u ?m ?z] => rewrite (c_wrap_u_small m z) by fmt_lia
  | |- context [c_wrap_s ?m ?z] => rewrite (c_wrap_s_small m z) by fmt_lia
  | Hs : (forall i b buf pos, nth_error _ i = Some b -> _ = step_num _ buf pos)
    |- context [run_for _ _ 0%nat _ _ _] =>
      rewrite (run_for_nums_0 _ _ _ Hs) by fmt_lia
  | Hs : (forall i b buf pos, nth_error _ i = Some b -> _ = step_piece _ buf pos)
    |- context [run_for _ _ 0%nat _ _ _] =>
      rewrite (run_for_pieces_0 _ _ _ Hs) by fmt_lia
  end.

Ltac fmt_congr :=
  repeat first
    [ reflexivity
    | match goal with
      | |- FRet _ _ _ = FRet _ _ _ => apply f_equal3
      | |- LNext _ _ = LNext _ _ => apply f_equal2
      | |- LBreak _ _ = LBreak _ _ => apply f_equal2
      | |- LRet _ = LRet _ => apply f_equal
      | |- Some _ = Some _ => apply f_equal
      | |- (_, _) = (_, _) => apply f_equal2
      end ].

Ltac tie_leaf :=
  first [ reflexivity
        | solve [ fmt_congr; fmt_lia ]
        | exfalso; fmt_lia
        | congruence ].

Ltac tie_go n :=
  tie_norm; tie_rewrites; tie_norm;
  lazymatch goal with
  | |- ?L = ?R =>
    tryif (let x := tie_stuck L in idtac) then (let x := tie_stuck L in tie_next n x)
    else tryif (let x := tie_stuck R in idtac) then (let x := tie_stuck R in tie_next n x)
    else tie_leaf
  end
with tie_next n x :=
  lazymatch n with
  | O => fail "format_tie: out of fuel"
  | S ?n' => tie_split x; tie_go n'
  end.

Ltac tie_head t := lazymatch t with ?f _ => tie_head f | _ => t end.
Ltac tie_unfold_head t := let h := tie_head t in try unfold h.

(* facts about the variable's storage that lia can use *)
Ltac fmt_facts :=
  repeat match goal with
  | H : bytes_ok ?d = true |- _ =>
      pose proof (le_value_signed_range_1 d H);
      pose proof (le_value_signed_range_2 d H);
      pose proof (le_value_signed_range_4 d H);
      clear H
  | H : nth_error ?d ?i = Some ?b |- _ =>
      let Hlt := fresh "Hlt" in
      assert (Hlt : (i < length d)%nat) by (apply nth_error_Some; rewrite H; discriminate);
      rewrite (nth_error_nth d i 0 H) in *;
      clear H
  end.

Ltac format_tie_core :=
  lazymatch goal with |- ?L = ?R => tie_unfold_head L end;
  cbv delta [ch_NUL ch_LF ch_QUOTE ch_COMMA ch_PLUS ch_MINUS ch_0 ch_X ch_BSL ch_n
             supported_width c_store c_has_nul];
  cbv zeta;
  (* the variable selected by the machine, by its fields *)
  try match goal with
      | |- context [sel ?f ?oa ?ou] =>
          let o := fresh "o" in
          let Ho := fresh "Ho" in
          remember (sel f oa ou) as o eqn:Ho in *; clear Ho;
          destruct o as [[nm ty sz acc hr hw sl] data];
          cbn [o_var o_data v_type v_size v_access] in *;
          destruct acc
      end;
  fmt_facts;
  tie_go 60%nat.

(* the whole proof of a tie; for the main theorem of a buffer formatter the step tie of its loop
   body must have been posed as a hypothesis before (see FormatTie.v.in) *)
Ltac format_tie := format_tie_core.

(* ====================================================================================== *)
(* 6. Diagnosis of a failed tie: concrete inputs                                          *)
(* ====================================================================================== *)

Fixpoint list_eqb {A} (e : A -> A -> bool) (x y : list A) : bool :=
  match x, y with
  | [], [] => true
  | a :: x', b :: y' => e a b && list_eqb e x' y'
  | _, _ => false
  end.
Definition fres_eqb (a b : fres) : bool :=
  match a, b with
  | FFault, FFault => true
  | FRet b1 p1 o1, FRet b2 p2 o2 => list_eqb N.eqb b1 b2 && Nat.eqb p1 p2 && Bool.eqb o1 o2
  | _, _ => false
  end.
Definition lres_eqb (a b : lres) : bool :=
  match a, b with
  | LNext b1 p1, LNext b2 p2 => list_eqb N.eqb b1 b2 && Nat.eqb p1 p2
  | LBreak b1 p1, LBreak b2 p2 => list_eqb N.eqb b1 b2 && Nat.eqb p1 p2
  | LRet r1, LRet r2 => fres_eqb r1 r2
  | _, _ => false
  end.

(* what a diagnosis prints: the input, what the generated definition and the model give *)
Record witness (T R : Type) := mkWitness { w_input : T; w_generated : R; w_model : R }.
Arguments mkWitness {T R}.
Definition first_diff {T R} (eqb : R -> R -> bool) (gen model : T -> R) (inputs : list T)
  : option (witness T R) :=
  match find (fun x => negb (eqb (gen x) (model x))) inputs with
  | Some x => Some (mkWitness x (gen x) (model x))
  | None => None
  end.

(* ---- the families; the unremarkable members come first, so that the first difference found is
        a plain one ---- *)
(* working buffers (filled with '#') of sizes around the lengths of the texts, positions at the
   start, inside, at the end and behind the end *)
Definition fam_cursor : list (list N * nat) :=
  flat_map (fun n => map (fun p => (repeat 35 n, p)) [0; 1; n - 1; n; S n]%nat)
           [14; 12; 11; 10; 9; 6; 5; 4; 3; 2; 1; 0]%nat.

Definition a_var (t : vtype) (sz : nat) (a : vaccess) : var := mkVar None t sz a false false O.
Definition fam_storage : list (list N) :=
  [[65; 92; 34; 10; 200; 0; 7]; [128; 255; 127; 1; 9]; [5; 0; 0; 128]; [200; 1]; [255]; []].
Definition fam_vobj (t : vtype) (sizes : list nat) : list vobj :=
  flat_map (fun d => flat_map (fun sz => map (fun a => mkVobj (a_var t sz a) d) [RW; RO; WO]) sizes)
           fam_storage.
(* the two variables of the object: first the same twice, then with a write-only / a readable
   companion with other contents on the other machine *)
Definition fam_pairs (t : vtype) (sizes : list nat) : list (fsm * (vobj * vobj)) :=
  let os := fam_vobj t sizes in
  let other1 := mkVobj (a_var t 2 WO) [49; 50; 51; 52; 53] in
  let other2 := mkVobj (a_var t 2 RW) [49; 50; 51; 52; 53] in
  flat_map (fun f => map (fun o => (f, (o, o))) os) [ATCMD; UNSOL] ++
  flat_map (fun f => flat_map (fun o => [(f, (o, other1)); (f, (other1, o));
                                         (f, (o, other2)); (f, (other2, o))]) os) [ATCMD; UNSOL].
Definition num_sizes : list nat := [1; 2; 4; 0; 3; 8]%nat.
Definition buf_sizes : list nat := [3; 5; 1; 0; 2; 4]%nat.
Definition the_var (x : fsm * (vobj * vobj)) : vobj := sel (fst x) (fst (snd x)) (snd (snd x)).

(* numeric formatters: input = ((f, (oa, ou)), (buf, pos)) *)
Definition fam_numeric (t : vtype) : list ((fsm * (vobj * vobj)) * (list N * nat)) :=
  list_prod (fam_pairs t num_sizes) fam_cursor.
(* buffer formatters: only variables whose storage has data_size bytes (hypothesis of the tie) *)
Definition fam_buffer (t : vtype) : list ((fsm * (vobj * vobj)) * (list N * nat)) :=
  list_prod (filter (fun x => (v_size (o_var (the_var x)) <=? length (o_data (the_var x)))%nat)
                    (fam_pairs t buf_sizes)) fam_cursor.
(* loop bodies: input = (((f, (oa, ou)), i), (buf, pos)), i inside the storage *)
Definition fam_step (t : vtype) : list (((fsm * (vobj * vobj)) * nat) * (list N * nat)) :=
  list_prod (filter (fun y => (snd y <? length (o_data (the_var (fst y))))%nat)
                    (list_prod (fam_pairs t [3]%nat) [0; 1; 2; 3; 4; 5; 6]%nat)) fam_cursor.

Definition fam_fmt : list fmtspec :=
  [mkFmt [] CvD; mkFmt [] CvU; mkFmt [] (CvX 2); mkFmt [48; 120] (CvX 2); mkFmt [48; 120] (CvX 4);
   mkFmt [48; 120] (CvX 8)].
Definition fam_u32 : list N := [0; 7; 255; 4096; 123456789; 2147483647; 2147483648; 4294967295].
(* print_format_num: input = ((fmt, val), (buf, pos)) *)
Definition fam_print_num : list ((fmtspec * N) * (list N * nat)) :=
  flat_map (fun c => map (fun x => (x, c)) (list_prod fam_fmt fam_u32)) fam_cursor.
(* print_nstring_to_buf: input = ((str, len), (buf, pos)), len <= length str *)
Definition fam_text : list (list N) := [[65; 66; 67]; [65]; []; [92; 92; 0]; [65; 66; 67; 68; 69; 70; 0]].
Definition fam_print_nstring : list ((list N * nat) * (list N * nat)) :=
  list_prod (filter (fun x => (snd x <=? length (fst x))%nat)
                    (list_prod fam_text [0; 1; 2; 3; 6; 7]%nat)) fam_cursor.
(* print_string_to_buf: input = (str, (buf, pos)) *)
Definition fam_print_string : list (list N * (list N * nat)) := list_prod fam_text fam_cursor.
