(* Lemmas_C17b.v -- the bridge  threads + real (blocking) lock  ==>  one sequential operation list,
   which is the part of property C17 that the sequential model (Fsm.v: run w ops) leaves implicit.

   Generic development (section LockSerializes): a shared state Sh, operations Op, the effect
   body o : Sh -> Sh of the critical section of o.  A thread is the list of operations it still
   has to execute, plus a phase for its current operation:
        Idle --ACQUIRE--> Holding o --BODY--> Done' o --RELEASE--> Idle
   ACQUIRE is enabled only when nobody holds the lock (a real lock blocks, it never fails).
   Steps of different threads interleave arbitrarily, in particular between ACQUIRE, BODY, RELEASE
   of another thread.  The linearisation of an execution is the list of (thread, operation)
   collected at the ACQUIRE steps.

   Results:  mutual exclusion; the shared state is the sequential fold of the bodies along the
   linearisation; the linearisation respects each thread's program order; conversely every
   program-order-respecting interleaving is the linearisation of an execution.
   Instantiation (section Instance): Sh := world, Op := op, body o w := step w o; with
   Lemmas_C13.C17_per_producer this gives C17_threads_exactly_once.

   Scope note.  The micro-step system describes operations that take the lock (service, trigger,
   hold_exit, is_busy, is_hold, is_full: do_op = bracket ...).  The model operations that do not
   take the lock (OIsBuffered, OGetProcessed, OSet*Disable) are accepted by the instantiated
   theorem too (it quantifies over all operation lists), but for them atomicity is an assumption
   of the micro-step system, not a consequence of the lock. *)
From Coq Require Import List NArith ZArith Arith Bool Lia.
From CatV Require Import Bytes Defs Codec Fsm TraceDefs Lemmas_C13.
Import ListNotations.
Local Open Scope nat_scope.

(* ------------------------------------------------------------------ *)
(* 0. replacing the i-th element of a list                              *)
(* ------------------------------------------------------------------ *)

Fixpoint set_nth {A : Type} (i : nat) (x : A) (l : list A) : list A :=
  match l with
  | [] => []
  | y :: r => match i with 0 => x :: r | S j => y :: set_nth j x r end
  end.

Lemma nth_error_set_nth_eq : forall A (l : list A) i x y,
  nth_error l i = Some y -> nth_error (set_nth i x l) i = Some x.
Proof.
  induction l as [|a l IH]; intros [|i] x y H; cbn in *; try discriminate; eauto.
Qed.

Lemma nth_error_set_nth_neq : forall A (l : list A) i j x,
  i <> j -> nth_error (set_nth i x l) j = nth_error l j.
Proof.
  induction l as [|a l IH]; intros [|i] [|j] x H; cbn; try reflexivity; try congruence.
  apply IH; congruence.
Qed.

Lemma length_set_nth : forall A (l : list A) i x, length (set_nth i x l) = length l.
Proof. induction l as [|a l IH]; intros [|i] x; cbn; auto. Qed.

Lemma set_nth_set_nth : forall A (l : list A) i x y, set_nth i x (set_nth i y l) = set_nth i x l.
Proof. induction l as [|a l IH]; intros [|i] x y; cbn; try reflexivity. now rewrite IH. Qed.

Lemma Forall_nth_error : forall A (P : A -> Prop) (l : list A),
  Forall P l <-> (forall i t, nth_error l i = Some t -> P t).
Proof.
  intros A P l. rewrite Forall_forall. split.
  - intros H i t Hi. apply H. eapply nth_error_In; eauto.
  - intros H t Hin. destruct (In_nth_error _ _ Hin) as [i Hi]. eauto.
Qed.

(* ------------------------------------------------------------------ *)
(* 1. DEFINITIONS: the micro-step system                                *)
(* ------------------------------------------------------------------ *)

Section LockSerializes.
Variables (Sh : Type) (Op : Type).            (* shared state; operations *)
Variable body : Op -> Sh -> Sh.               (* effect of the critical section of an operation *)

Inductive phase := Idle | Holding (o : Op) | Done' (o : Op).
Record conf := mkConf { shared : Sh; holder : option nat; threads : list (list Op * phase) }.

(* one micro-step of some thread i; the label is [(i,o)] for ACQUIRE and [] otherwise *)
Inductive lstep : conf -> list (nat * Op) -> conf -> Prop :=
  | step_acquire : forall c i o rest,
      holder c = None -> nth_error (threads c) i = Some (o :: rest, Idle) ->
      lstep c [(i, o)] (mkConf (shared c) (Some i) (set_nth i (rest, Holding o) (threads c)))
  | step_body : forall c i o rest,
      holder c = Some i -> nth_error (threads c) i = Some (rest, Holding o) ->
      lstep c [] (mkConf (body o (shared c)) (Some i) (set_nth i (rest, Done' o) (threads c)))
  | step_release : forall c i o rest,
      holder c = Some i -> nth_error (threads c) i = Some (rest, Done' o) ->
      lstep c [] (mkConf (shared c) None (set_nth i (rest, Idle) (threads c))).

Definition mstep (c c' : conf) : Prop := exists l, lstep c l c'.

(* reflexive-transitive closure; the index is the linearisation (ACQUIRE order) *)
Inductive msteps (c0 : conf) : list (nat * Op) -> conf -> Prop :=
  | msteps_refl : msteps c0 [] c0
  | msteps_snoc : forall lin c l c', msteps c0 lin c -> lstep c l c' -> msteps c0 (lin ++ l) c'.

(* no operation in flight *)
Definition all_idle (c : conf) : Prop := Forall (fun t => snd t = Idle) (threads c).
Definition quiescent (c : conf) : Prop := holder c = None /\ all_idle c.
(* an initial configuration is a quiescent one; start s tl is the canonical one *)
Definition start (s : Sh) (tl : list (list Op)) : conf := mkConf s None (map (fun l => (l, Idle)) tl).

(* the sequential semantics of a linearisation, and its projection on thread i *)
Definition exec (lin : list (nat * Op)) (s : Sh) : Sh :=
  fold_left (fun s (io : nat * Op) => body (snd io) s) lin s.
Definition proj (i : nat) (lin : list (nat * Op)) : list Op :=
  map snd (filter (fun io => fst io =? i) lin).
(* operations thread i has not started yet ([] if there is no thread i) *)
Definition remaining (c : conf) (i : nat) : list Op :=
  match nth_error (threads c) i with Some t => fst t | None => [] end.

(* an executable scheduler, for examples: thread i performs its next micro-step if it can
   (None: no such thread, nothing left to do, or blocked on the lock) *)
Definition tstep (c : conf) (i : nat) : option (conf * list (nat * Op)) :=
  match nth_error (threads c) i with
  | Some (o :: rest, Idle) =>
      match holder c with
      | None => Some (mkConf (shared c) (Some i) (set_nth i (rest, Holding o) (threads c)), [(i, o)])
      | Some _ => None
      end
  | Some (rest, Holding o) =>
      match holder c with
      | Some j => if j =? i
                  then Some (mkConf (body o (shared c)) (Some i) (set_nth i (rest, Done' o) (threads c)), [])
                  else None
      | None => None
      end
  | Some (rest, Done' o) =>
      match holder c with
      | Some j => if j =? i
                  then Some (mkConf (shared c) None (set_nth i (rest, Idle) (threads c)), [])
                  else None
      | None => None
      end
  | _ => None
  end.
Fixpoint sched (c : conf) (sch : list nat) : conf * list (nat * Op) :=
  match sch with
  | [] => (c, [])
  | i :: r => match tstep c i with
              | Some (c', l) => let (c'', l') := sched c' r in (c'', l ++ l')
              | None => sched c r
              end
  end.

(* ------------------------------------------------------------------ *)
(* 2. basic facts                                                       *)
(* ------------------------------------------------------------------ *)

Lemma msteps_one : forall c l c', lstep c l c' -> msteps c l c'.
Proof. intros c l c' H. exact (msteps_snoc c [] c l c' (msteps_refl c) H). Qed.

Lemma msteps_trans : forall a l1 b l2 c, msteps a l1 b -> msteps b l2 c -> msteps a (l1 ++ l2) c.
Proof.
  intros a l1 b l2 c H1 H2. induction H2 as [|lin c1 l c2 _ IH Hs].
  - now rewrite app_nil_r.
  - rewrite app_assoc. eapply msteps_snoc; eauto.
Qed.

Lemma all_idle_nth : forall c,
  all_idle c <-> (forall i t, nth_error (threads c) i = Some t -> snd t = Idle).
Proof. intro c. apply Forall_nth_error. Qed.

Lemma exec_app : forall l1 l2 s, exec (l1 ++ l2) s = exec l2 (exec l1 s).
Proof. intros. apply fold_left_app. Qed.

Lemma proj_app : forall i l1 l2, proj i (l1 ++ l2) = proj i l1 ++ proj i l2.
Proof. intros. unfold proj. now rewrite filter_app, map_app. Qed.

Lemma proj_cons_eq : forall i o l, proj i ((i, o) :: l) = o :: proj i l.
Proof. intros. unfold proj. cbn. now rewrite Nat.eqb_refl. Qed.

Lemma proj_cons_neq : forall i k o l, k <> i -> proj i ((k, o) :: l) = proj i l.
Proof. intros i k o l H. unfold proj. cbn. apply Nat.eqb_neq in H. now rewrite H. Qed.

Lemma start_quiescent : forall s tl, quiescent (start s tl).
Proof.
  intros s tl. split; [reflexivity|]. unfold all_idle, start. cbn.
  apply Forall_forall. intros t Ht. apply in_map_iff in Ht. destruct Ht as [l [<- _]]. reflexivity.
Qed.

Lemma remaining_start : forall s tl i, remaining (start s tl) i = nth i tl [].
Proof.
  intros s tl. unfold remaining, start. cbn. induction tl as [|l tl IH]; intros [|i]; cbn; auto.
Qed.

(* ------------------------------------------------------------------ *)
(* 3. the invariant: mutual exclusion + the shared state is sequential  *)
(* ------------------------------------------------------------------ *)

Definition inv (s0 : Sh) (lin : list (nat * Op)) (c : conf) : Prop :=
  match holder c with
  | None => (forall j t, nth_error (threads c) j = Some t -> snd t = Idle) /\ shared c = exec lin s0
  | Some i =>
      (forall j t, nth_error (threads c) j = Some t -> j <> i -> snd t = Idle) /\
      exists rest ph, nth_error (threads c) i = Some (rest, ph) /\
        match ph with
        | Idle => False
        | Holding o => exists lin', lin = lin' ++ [(i, o)] /\ shared c = exec lin' s0
        | Done' o => shared c = exec lin s0
        end
  end.

Lemma inv_step : forall s0 lin c l c', lstep c l c' -> inv s0 lin c -> inv s0 (lin ++ l) c'.
Proof.
  intros s0 lin c l c' Hs Hi. destruct Hs as [c i o rest Hh Hn | c i o rest Hh Hn | c i o rest Hh Hn];
    unfold inv in *; rewrite Hh in Hi; cbn [holder threads shared].
  - destruct Hi as [Hid Hsh]. split.
    + intros j t Hj Hne. rewrite nth_error_set_nth_neq in Hj by congruence. eauto.
    + exists rest, (Holding o). split; [eapply nth_error_set_nth_eq; eauto|].
      exists lin. split; [reflexivity|exact Hsh].
  - destruct Hi as [Hid [rest' [ph [Hn' Hph]]]]. rewrite Hn in Hn'. injection Hn' as <- <-.
    destruct Hph as [lin' [-> Hsh]]. split.
    + intros j t Hj Hne. rewrite nth_error_set_nth_neq in Hj by congruence. eauto.
    + exists rest, (Done' o). split; [eapply nth_error_set_nth_eq; eauto|].
      rewrite app_nil_r, exec_app, <- Hsh. reflexivity.
  - destruct Hi as [Hid [rest' [ph [Hn' Hph]]]]. rewrite Hn in Hn'. injection Hn' as <- <-.
    rewrite app_nil_r. split; [|exact Hph].
    intros j t Hj. destruct (Nat.eq_dec i j) as [<-|Hne].
    + erewrite nth_error_set_nth_eq in Hj by eauto. injection Hj as <-. reflexivity.
    + rewrite nth_error_set_nth_neq in Hj by exact Hne. eapply Hid; eauto.
Qed.

Lemma inv_msteps : forall c0 lin c, quiescent c0 -> msteps c0 lin c -> inv (shared c0) lin c.
Proof.
  intros c0 lin c [Hh Hq] H. induction H as [|lin c l c' _ IH Hs].
  - unfold inv. rewrite Hh. split; [apply all_idle_nth; exact Hq|reflexivity].
  - eapply inv_step; eauto.
Qed.

Theorem C17_mutual_exclusion : forall c0 lin c, quiescent c0 -> msteps c0 lin c ->
  (forall i rest ph, nth_error (threads c) i = Some (rest, ph) -> ph <> Idle -> holder c = Some i) /\
  (forall i, holder c = Some i ->
     exists rest ph, nth_error (threads c) i = Some (rest, ph) /\ ph <> Idle) /\
  (forall i j ri pi rj pj, nth_error (threads c) i = Some (ri, pi) -> nth_error (threads c) j = Some (rj, pj) ->
     pi <> Idle -> pj <> Idle -> i = j).
Proof.
  intros c0 lin c Hq H. pose proof (inv_msteps c0 lin c Hq H) as Hi.
  assert (A : forall i rest ph, nth_error (threads c) i = Some (rest, ph) -> ph <> Idle -> holder c = Some i).
  { intros i rest ph Hn Hph. unfold inv in Hi. destruct (holder c) as [k|].
    - destruct (Nat.eq_dec i k) as [->|Hne]; [reflexivity|].
      destruct Hi as [Hid _]. specialize (Hid i _ Hn Hne). cbn in Hid. congruence.
    - destruct Hi as [Hid _]. specialize (Hid i _ Hn). cbn in Hid. congruence. }
  split; [exact A|]. split.
  - intros i Hh. unfold inv in Hi. rewrite Hh in Hi. destruct Hi as [_ [rest [ph [Hn Hph]]]].
    exists rest, ph. split; [exact Hn|]. intros ->. exact Hph.
  - intros i j ri pi rj pj Hi' Hj' Hpi Hpj.
    pose proof (A i ri pi Hi' Hpi) as E1. pose proof (A j rj pj Hj' Hpj) as E2. congruence.
Qed.

Theorem C17_lock_serializes : forall c0 lin c, quiescent c0 -> msteps c0 lin c ->
  (all_idle c -> shared c = exec lin (shared c0)) /\
  (forall i rest o, nth_error (threads c) i = Some (rest, Done' o) -> shared c = exec lin (shared c0)) /\
  (forall i rest o, nth_error (threads c) i = Some (rest, Holding o) ->
     exists lin', lin = lin' ++ [(i, o)] /\ shared c = exec lin' (shared c0)).
Proof.
  intros c0 lin c Hq H. pose proof (inv_msteps c0 lin c Hq H) as Hi.
  destruct (C17_mutual_exclusion c0 lin c Hq H) as [A _].
  unfold inv in Hi. split; [|split].
  - intro Hid. destruct (holder c) as [k|]; [|tauto].
    destruct Hi as [_ [rest [ph [Hn Hph]]]]. pose proof (proj1 (all_idle_nth c) Hid) as Hid'. clear Hid. rename Hid' into Hid. specialize (Hid k _ Hn). cbn in Hid.
    subst ph. contradiction.
  - intros i rest o Hn. assert (E : holder c = Some i) by (eapply A; eauto; discriminate).
    rewrite E in Hi. destruct Hi as [_ [rest' [ph [Hn' Hph]]]]. rewrite Hn in Hn'. injection Hn' as <- <-.
    exact Hph.
  - intros i rest o Hn. assert (E : holder c = Some i) by (eapply A; eauto; discriminate).
    rewrite E in Hi. destruct Hi as [_ [rest' [ph [Hn' Hph]]]]. rewrite Hn in Hn'. injection Hn' as <- <-.
    exact Hph.
Qed.

(* ------------------------------------------------------------------ *)
(* 4. the linearisation respects program order                          *)
(* ------------------------------------------------------------------ *)

Lemma lstep_threads : forall c l c', lstep c l c' ->
  length (threads c') = length (threads c) /\
  (forall io, In io l -> fst io < length (threads c)) /\
  (forall i rest ph, nth_error (threads c') i = Some (rest, ph) ->
     exists ph1, nth_error (threads c) i = Some (proj i l ++ rest, ph1)).
Proof.
  intros c l c' Hs. destruct Hs as [c k o r Hh Hn | c k o r Hh Hn | c k o r Hh Hn]; cbn [threads];
    (split; [apply length_set_nth|split]).
  - intros io [<-|[]]. cbn. apply nth_error_Some. congruence.
  - intros i rest ph Hi. destruct (Nat.eq_dec k i) as [<-|Hne].
    + erewrite nth_error_set_nth_eq in Hi by eauto. injection Hi as <- <-.
      rewrite proj_cons_eq. cbn. eauto.
    + rewrite nth_error_set_nth_neq in Hi by exact Hne. rewrite proj_cons_neq by exact Hne. cbn. eauto.
  - intros io [].
  - intros i rest ph Hi. cbn. destruct (Nat.eq_dec k i) as [<-|Hne].
    + erewrite nth_error_set_nth_eq in Hi by eauto. injection Hi as <- <-. eauto.
    + rewrite nth_error_set_nth_neq in Hi by exact Hne. eauto.
  - intros io [].
  - intros i rest ph Hi. cbn. destruct (Nat.eq_dec k i) as [<-|Hne].
    + erewrite nth_error_set_nth_eq in Hi by eauto. injection Hi as <- <-. eauto.
    + rewrite nth_error_set_nth_neq in Hi by exact Hne. eauto.
Qed.

Theorem C17_linearisation_respects_program_order : forall c0 lin c, msteps c0 lin c ->
  length (threads c) = length (threads c0) /\
  (forall io, In io lin -> fst io < length (threads c0)) /\
  (forall i rest ph, nth_error (threads c) i = Some (rest, ph) ->
     exists ph0, nth_error (threads c0) i = Some (proj i lin ++ rest, ph0)).
Proof.
  intros c0 lin c H. induction H as [|lin c l c' _ [IHl [IHb IHp]] Hs].
  - split; [reflexivity|]. split; [intros io []|]. intros i rest ph Hn. cbn. eauto.
  - destruct (lstep_threads _ _ _ Hs) as [Sl [Sb Sp]]. split; [congruence|]. split.
    + intros io Hin. apply in_app_or in Hin. destruct Hin as [Hin|Hin]; [auto|].
      rewrite <- IHl. auto.
    + intros i rest ph Hn. destruct (Sp _ _ _ Hn) as [ph1 Hn1]. destruct (IHp _ _ _ Hn1) as [ph0 Hn0].
      exists ph0. rewrite Hn0, proj_app, app_assoc. reflexivity.
Qed.

(* ------------------------------------------------------------------ *)
(* 5. every program-order-respecting interleaving is a linearisation    *)
(* ------------------------------------------------------------------ *)

(* one whole operation of thread k: ACQUIRE, BODY, RELEASE *)
Lemma msteps_cycle : forall c k o r,
  holder c = None -> nth_error (threads c) k = Some (o :: r, Idle) ->
  msteps c [(k, o)] (mkConf (body o (shared c)) None (set_nth k (r, Idle) (threads c))).
Proof.
  intros c k o r Hh Hn.
  pose (c1 := mkConf (shared c) (Some k) (set_nth k (r, Holding o) (threads c))).
  pose (c2 := mkConf (body o (shared c)) (Some k) (set_nth k (r, Done' o) (threads c))).
  assert (H1 : lstep c [(k, o)] c1) by (apply step_acquire; assumption).
  assert (H2 : lstep c1 [] c2).
  { unfold c2. rewrite <- (set_nth_set_nth _ (threads c) k (r, Done' o) (r, Holding o)).
    apply (step_body c1 k o r); [reflexivity|]. cbn. eapply nth_error_set_nth_eq; eauto. }
  assert (H3 : lstep c2 [] (mkConf (body o (shared c)) None (set_nth k (r, Idle) (threads c)))).
  { rewrite <- (set_nth_set_nth _ (threads c) k (r, Idle) (r, Done' o)).
    apply (step_release c2 k o r); [reflexivity|]. cbn. eapply nth_error_set_nth_eq; eauto. }
  exact (msteps_snoc _ _ _ _ _ (msteps_snoc _ _ _ _ _ (msteps_one _ _ _ H1) H2) H3).
Qed.

Lemma remaining_set_nth_neq : forall s h ths k x i, k <> i ->
  remaining (mkConf s h (set_nth k x ths)) i = remaining (mkConf s h ths) i.
Proof. intros. unfold remaining. cbn. now rewrite nth_error_set_nth_neq. Qed.

Theorem C17_every_interleaving : forall lin c0, quiescent c0 ->
  (forall i, exists rest, remaining c0 i = proj i lin ++ rest) ->
  exists c, msteps c0 lin c /\ quiescent c /\ shared c = exec lin (shared c0) /\
            forall i, remaining c0 i = proj i lin ++ remaining c i.
Proof.
  induction lin as [|[k o] lin IH]; intros c0 Hq Hr.
  - exists c0. split; [constructor|]. split; [exact Hq|]. split; reflexivity.
  - destruct Hq as [Hh Hid]. destruct (Hr k) as [rk Hk]. rewrite proj_cons_eq in Hk.
    unfold remaining in Hk. destruct (nth_error (threads c0) k) as [[l ph]|] eqn:Hn; [|discriminate].
    cbn in Hk. subst l. assert (ph = Idle) by (apply (proj1 (all_idle_nth c0) Hid k _ Hn)). subst ph.
    pose proof (msteps_cycle c0 k o _ Hh Hn) as Hc.
    set (c1 := mkConf (body o (shared c0)) None (set_nth k (proj k lin ++ rk, Idle) (threads c0))) in *.
    assert (R1 : remaining c1 k = proj k lin ++ rk).
    { unfold remaining, c1. cbn. erewrite nth_error_set_nth_eq by eauto. reflexivity. }
    assert (Rn : forall i, k <> i -> remaining c1 i = remaining c0 i).
    { intros i Hne. unfold c1. rewrite remaining_set_nth_neq by exact Hne. reflexivity. }
    destruct (IH c1) as [c [Hm [Hq' [Hsh Hrem]]]].
    + split; [reflexivity|]. apply all_idle_nth. intros j t Hj. unfold c1 in Hj. cbn in Hj.
      destruct (Nat.eq_dec k j) as [<-|Hne].
      * erewrite nth_error_set_nth_eq in Hj by eauto. injection Hj as <-. reflexivity.
      * rewrite nth_error_set_nth_neq in Hj by exact Hne. eapply (proj1 (all_idle_nth c0) Hid); eauto.
    + intro i. destruct (Nat.eq_dec k i) as [<-|Hne]; [rewrite R1; eauto|].
      rewrite (Rn i Hne). destruct (Hr i) as [ri Hi]. rewrite proj_cons_neq in Hi by exact Hne. eauto.
    + exists c. split; [exact (msteps_trans _ _ _ _ _ Hc Hm)|]. split; [exact Hq'|]. split.
      * rewrite Hsh. reflexivity.
      * intro i. destruct (Nat.eq_dec k i) as [<-|Hne].
        -- rewrite proj_cons_eq. unfold remaining at 1. rewrite Hn. cbn. rewrite <- R1, <- Hrem. reflexivity.
        -- rewrite proj_cons_neq by exact Hne. rewrite <- (Rn i Hne). apply Hrem.
Qed.

(* ------------------------------------------------------------------ *)
(* 6. the executable scheduler is sound                                 *)
(* ------------------------------------------------------------------ *)

Lemma tstep_sound : forall c i c' l, tstep c i = Some (c', l) -> lstep c l c'.
Proof.
  intros c i c' l H. unfold tstep in H.
  destruct (nth_error (threads c) i) as [[ops ph]|] eqn:Hn; [|discriminate].
  destruct ph as [|o|o].
  - destruct ops as [|o rest]; [discriminate|]. destruct (holder c) eqn:Hh; [discriminate|].
    injection H as <- <-. now apply step_acquire.
  - destruct (holder c) as [j|] eqn:Hh.
    + destruct (Nat.eqb_spec j i) as [->|]; [|destruct ops; discriminate].
      assert (E : Some (mkConf (body o (shared c)) (Some i) (set_nth i (ops, Done' o) (threads c)), [])
                  = Some (c', l)) by (destruct ops; exact H).
      injection E as <- <-. now apply step_body.
    + destruct ops; discriminate.
  - destruct (holder c) as [j|] eqn:Hh.
    + destruct (Nat.eqb_spec j i) as [->|]; [|destruct ops; discriminate].
      assert (E : Some (mkConf (shared c) None (set_nth i (ops, Idle) (threads c)), []) = Some (c', l))
        by (destruct ops; exact H).
      injection E as <- <-. now apply step_release with (o := o).
    + destruct ops; discriminate.
Qed.

Lemma sched_sound : forall sch c, msteps c (snd (sched c sch)) (fst (sched c sch)).
Proof.
  induction sch as [|i sch IH]; intro c; cbn.
  - constructor.
  - destruct (tstep c i) as [[c' l]|] eqn:Ht; [|apply IH].
    specialize (IH c'). destruct (sched c' sch) as [c'' l']. cbn in *.
    eapply msteps_trans; [apply msteps_one; eapply tstep_sound; eauto|exact IH].
Qed.

End LockSerializes.

Arguments Idle {Op}.
Arguments Holding {Op} o.
Arguments Done' {Op} o.
Arguments mkConf {Sh Op} shared holder threads.
Arguments shared {Sh Op} c.
Arguments holder {Sh Op} c.
Arguments threads {Sh Op} c.
Arguments lstep {Sh Op} body _ _ _.
Arguments mstep {Sh Op} body c c'.
Arguments msteps {Sh Op} body c0 _ _.
Arguments all_idle {Sh Op} c.
Arguments quiescent {Sh Op} c.
Arguments start {Sh Op} s tl.
Arguments exec {Sh Op} body lin s.
Arguments proj {Op} i lin.
Arguments remaining {Sh Op} c i.
Arguments tstep {Sh Op} body c i.
Arguments sched {Sh Op} body c sch.

(* complete interleavings of the canonical initial configuration: every thread runs to the end *)
Corollary every_complete_interleaving : forall (Sh Op : Type) (body : Op -> Sh -> Sh) s0 tl lin,
  (forall i, nth i tl [] = proj i lin) ->
  exists c, msteps body (start s0 tl) lin c /\ quiescent c /\ shared c = exec body lin s0 /\
            forall i, remaining c i = [].
Proof.
  intros Sh Op body s0 tl lin H.
  destruct (C17_every_interleaving Sh Op body lin (start s0 tl) (start_quiescent _ _ s0 tl))
    as [c [Hm [Hq [Hs Hr]]]].
  - intro i. exists []. rewrite remaining_start, app_nil_r. apply H.
  - exists c. split; [exact Hm|]. split; [exact Hq|]. split; [exact Hs|].
    intro i. specialize (Hr i). rewrite remaining_start, H in Hr.
    rewrite <- (app_nil_r (proj i lin)) in Hr at 1. apply app_inv_head in Hr. congruence.
Qed.

(* ------------------------------------------------------------------ *)
(* 7. instantiation: the cAT model                                      *)
(* ------------------------------------------------------------------ *)

Lemma fold_left_map_snd : forall (A B C : Type) (f : A -> C -> A) (l : list (B * C)) (a : A),
  fold_left (fun s (io : B * C) => f s (snd io)) l a = fold_left f (map snd l) a.
Proof. intros A B C f. induction l as [|x l IH]; intro a; cbn; auto. Qed.

Section Instance.
Variable D : desc.
Variables ioS muS hS : Type.
Variable io_read : ioS -> ioS * option N.
Variable io_write : ioS -> N -> ioS * bool.
Variable mu_lock : muS -> muS * bool.
Variable mu_unlock : muS -> muS * bool.
Variable h_call : hS -> hreq -> hS * hres.

Notation World := (world ioS muS hS).
Notation Step := (step D ioS muS hS io_read io_write mu_lock mu_unlock h_call).
Notation Run := (run D ioS muS hS io_read io_write mu_lock mu_unlock h_call).

(* the critical section of operation o, return status logged: exactly one step of the model *)
Definition cat_body (o : op) (w : World) : World := Step w o.

(* the shared world of a quiescent configuration is the sequential run of the linearisation *)
Lemma threads_run : forall (c0 : conf World op) lin c,
  quiescent c0 -> msteps cat_body c0 lin c -> all_idle c ->
  shared c = Run (shared c0) (map snd lin).
Proof.
  intros c0 lin c Hq Hm Hid.
  destruct (C17_lock_serializes _ _ cat_body c0 lin c Hq Hm) as [H _].
  rewrite (H Hid). unfold exec, run, cat_body. apply fold_left_map_snd.
Qed.

Theorem C17_threads_exactly_once :
  forall (P : nat * ctype -> bool) m x mx h (tl : list (list op)) lin (c : conf World op),
  0 < d_cap D -> (forall m, snd (mu_unlock m) = true) ->
  let w0 := mkWorld ioS muS hS (init_state D m) x mx h [] in
  msteps cat_body (start w0 tl) lin c -> all_idle c ->
  let w := shared c in
  w = Run w0 (map snd lin) /\
  filter P (accepted (hist ioS muS hS w)) =
  filter P (popped (hist ioS muS hS w)) ++ filter P (ring_items D (st ioS muS hS w)).
Proof.
  intros P m x mx h tl lin c Hcap Hun w0 Hm Hid w.
  assert (E : w = Run w0 (map snd lin)).
  { unfold w. rewrite (threads_run _ lin c (start_quiescent _ _ w0 tl) Hm Hid). reflexivity. }
  split; [exact E|]. rewrite E.
  apply (Lemmas_C13.C17_per_producer D ioS muS hS io_read io_write mu_lock mu_unlock h_call
           P m x mx h (map snd lin) Hcap).
  right. exact Hun.
Qed.

End Instance.
