(* Properties_C07r.v — property C07 (round trip) through the real line reader.
   A. A READ line  AT<name>? LF  answered from variables prints  LF name=args LF LF OK LF ; the text after
      name= of that response, fed back as the WRITE line  AT<name2>=<that text> LF , is answered
      LF OK LF and leaves in every variable the value it had when it was read.
        E2E_read_line_re     the READ line (read-only variables allowed), with what the next line needs:
                             the world is again a scripted always-ready world, the parser is idle with
                             clear flags, same buffer size, same enable flags
        C07_roundtrip_line   two-world form: the WRITE line is accepted in ANY later state s2 of the same
                             shape (in particular the state after line 1, or after the application
                             changed the variables)
        C07_roundtrip_queue  both lines in one input queue, one run of cat_service calls
      Extra hypothesis  ~ In ch_CR args : a string variable that holds a carriage return is printed with
      the raw CR (Codec.str_body_pieces escapes only backslash, quote and LF) and the line reader drops
      CRs; Example C07r_ex_cr_needed shows the round trip failing in that case.
   All proofs are in Lemmas_E2Ec.v.

   Definitions (Lemmas_E2Ec.P5, Lemmas_C07e, Lemmas_C07, GlueDefs; repeated for the reader):
     rt_var_ok' m v   : v is read-write or read-only, has no callbacks, its slot in m holds exactly v_size
                        bytes (< 256), strings NUL-terminated inside their storage, hex buffers non-empty,
                        numeric widths supported          (Lemmas_C07e.rt_var_ok: the same with RW only)
     rt_cmd_ok' m c   : c has at least one variable, all variables rt_var_ok', distinct slots, no
                        read/write handler, not test-only, no NUL in its name
     read_args_text m c = Some args : args is the comma-joined text of c's variables in memory m
     same_shape m m'  : same number of slots, same slot sizes
     same_value v d1 d2 : equal byte for byte; strings up to and including the first NUL
     ready_like s s'  : see Example ready_like_def below *)
From Coq Require Import List NArith ZArith Bool Arith.
From CatV Require Import Bytes Defs Codec Spec Fsm Script ResolveDefs SchedDefs GlueDefs TextDefs.
From CatV Require Import Lemmas_C07 Lemmas_C07e Lemmas_E2E.
From CatV Require Lemmas_E2Ec.
Import ListNotations.
Local Open Scope nat_scope.

Local Notation wst := (Fsm.st sio smu shs).
Local Notation wio := (Fsm.io sio smu shs).
Local Notation whs := (Fsm.hs sio smu shs).
Local Notation wtr := (Fsm.tr sio smu shs).
Local Notation rt_var_ok' := Lemmas_E2Ec.P5.rt_var_ok'.
Local Notation rt_cmd_ok' := Lemmas_E2Ec.P5.rt_cmd_ok'.
Local Notation ready_like := Lemmas_E2Ec.P5.ready_like.

Example rt_var_ok'_def : forall m v, rt_var_ok' m v =
  ((v_access v = RW \/ v_access v = RO) /\ v_hread v = false /\ v_hwrite v = false /\
   exists data, nth_error m (v_slot v) = Some data /\ length data = v_size v /\
     Forall (fun b => (b < 256)%N) data /\
     (v_type v = VBufStr -> In 0%N data) /\ (v_type v = VBufHex -> 0 < v_size v) /\
     (is_numeric (v_type v) = true -> supported_width (v_size v) = true)).
Proof. reflexivity. Qed.

Example rt_cmd_ok'_def : forall m c, rt_cmd_ok' m c =
  (c_vars c <> [] /\ Forall (rt_var_ok' m) (c_vars c) /\ NoDup (map v_slot (c_vars c)) /\
   c_hread c = false /\ c_hwrite c = false /\ c_only_test c = false /\ ~ In 0%N (c_name c)).
Proof. reflexivity. Qed.

(* a later state in which the same table can be used again *)
Example ready_like_def : forall s s', ready_like s s' =
  (length (cbuf s') = length (cbuf s) /\ fault s' = false /\
   k_state (k s') = CS_IDLE /\ k_cr (k s') = false /\ k_implicit (k s') = false /\ k_hold (k s') = false /\
   u_state (u s') = US_IDLE /\ u_count (u s') = 0 /\ same_shape (mem s) (mem s')).
Proof. reflexivity. Qed.

(* ================= A1. the READ line, re-entrant ================= *)
Theorem E2E_read_line_re : forall D s name rest h i c args,
  d_mutex D = false -> 0 < ncmds D -> ncmds D <= 4 * length (cbuf s) -> 6 <= length (cbuf s) ->
  fault s = false ->
  k_state (k s) = CS_IDLE -> k_cr (k s) = false -> k_implicit (k s) = false -> k_hold (k s) = false ->
  u_state (u s) = US_IDLE -> u_count (u s) = 0 ->
  name_ok name = true -> implicit_hit D s (upper name) = false ->
  resolve (upper name) (enabled D s) (cmds D) = Some i -> nth_error (cmds D) i = Some c ->
  rt_cmd_ok' (mem s) c -> read_args_text (mem s) c = Some args ->
  length (c_name c ++ [ch_EQ] ++ args) < length (cbuf s) ->
  let w0 := mkw s ([ch_A; ch_T] ++ name ++ [ch_QM; ch_LF] ++ rest) h [] in
  exists calls, let w := nsvc D calls w0 in
    w = mkw (wst w) rest h (wtr w) /\ calls_of (wtr w) = [] /\
    output_of (wtr w) = [ch_LF] ++ c_name c ++ [ch_EQ] ++ args ++ [ch_LF] ++ [ch_LF] ++ txt_OK ++ [ch_LF] /\
    mem (wst w) = mem s /\ ready_like s (wst w) /\ u (wst w) = u s /\ k_cmd (k (wst w)) = None /\
    dis_cmd (wst w) = dis_cmd s /\ dis_grp (wst w) = dis_grp s /\
    gL (wst w) = S (gL s) /\ gS (wst w) = S (gS s) /\ gR (wst w) = S (gR s).
Proof. exact Lemmas_E2Ec.P5.E2E_read_line_re_proof. Qed.
Print Assumptions E2E_read_line_re.

(* ================= A2. round trip, two-world form ================= *)
Theorem C07_roundtrip_line : forall D s name rest h i c args,
  d_mutex D = false -> 0 < ncmds D -> ncmds D <= 4 * length (cbuf s) -> 6 <= length (cbuf s) ->
  fault s = false ->
  k_state (k s) = CS_IDLE -> k_cr (k s) = false -> k_implicit (k s) = false -> k_hold (k s) = false ->
  u_state (u s) = US_IDLE -> u_count (u s) = 0 ->
  name_ok name = true -> implicit_hit D s (upper name) = false ->
  resolve (upper name) (enabled D s) (cmds D) = Some i -> nth_error (cmds D) i = Some c ->
  rt_cmd_ok (mem s) c -> read_args_text (mem s) c = Some args ->
  length (c_name c ++ [ch_EQ] ++ args) < length (cbuf s) -> ~ In ch_CR args ->
  exists calls1 resp,
    let w1 := nsvc D calls1 (mkw s ([ch_A; ch_T] ++ name ++ [ch_QM; ch_LF] ++ rest) h []) in
    (* line 1: the response *)
    output_of (wtr w1) = [ch_LF] ++ resp ++ [ch_LF] ++ [ch_LF] ++ txt_OK ++ [ch_LF] /\
    resp = c_name c ++ [ch_EQ] ++ args /\
    w1 = mkw (wst w1) rest h (wtr w1) /\ calls_of (wtr w1) = [] /\ mem (wst w1) = mem s /\
    (* the state after line 1 is such a later state, with the same enabled commands *)
    ready_like s (wst w1) /\ enabled D (wst w1) = enabled D s /\
    (forall t, implicit_hit D (wst w1) t = implicit_hit D s t) /\
    (* line 2, in any later state s2 (any spelling name2 that resolves to the same command) *)
    forall s2 name2 rest2 h2 i2,
      ready_like s s2 ->
      name_ok name2 = true -> implicit_hit D s2 (upper name2) = false ->
      resolve (upper name2) (enabled D s2) (cmds D) = Some i2 -> nth_error (cmds D) i2 = Some c ->
      exists calls2,
        let w2 := nsvc D calls2
                    (mkw s2 ([ch_A; ch_T] ++ name2 ++ [ch_EQ] ++ skipn (S (length (c_name c))) resp ++ [ch_LF] ++ rest2)
                         h2 []) in
        k_state (k (wst w2)) = CS_IDLE /\ inq (wio w2) = rest2 /\ whs w2 = h2 /\ calls_of (wtr w2) = [] /\
        fault (wst w2) = false /\
        output_of (wtr w2) = [ch_LF] ++ txt_OK ++ [ch_LF] /\
        (forall v d0, In v (c_vars c) -> nth_error (mem s) (v_slot v) = Some d0 ->
           exists d1, nth_error (mem (wst w2)) (v_slot v) = Some d1 /\ same_value v d1 d0) /\
        (forall sl, ~ In sl (map v_slot (c_vars c)) -> nth_error (mem (wst w2)) sl = nth_error (mem s2) sl) /\
        gL (wst w2) = S (gL s2) /\ gS (wst w2) = S (gS s2) /\ gR (wst w2) = S (gR s2).
Proof. exact Lemmas_E2Ec.P5.C07_roundtrip_line_proof. Qed.
Print Assumptions C07_roundtrip_line.

(* ================= A3. round trip, both lines in one input queue ================= *)
Theorem C07_roundtrip_queue : forall D s name name2 rest h i i2 c args,
  d_mutex D = false -> 0 < ncmds D -> ncmds D <= 4 * length (cbuf s) -> 6 <= length (cbuf s) ->
  fault s = false ->
  k_state (k s) = CS_IDLE -> k_cr (k s) = false -> k_implicit (k s) = false -> k_hold (k s) = false ->
  u_state (u s) = US_IDLE -> u_count (u s) = 0 ->
  name_ok name = true -> implicit_hit D s (upper name) = false ->
  resolve (upper name) (enabled D s) (cmds D) = Some i -> nth_error (cmds D) i = Some c ->
  name_ok name2 = true -> implicit_hit D s (upper name2) = false ->
  resolve (upper name2) (enabled D s) (cmds D) = Some i2 -> nth_error (cmds D) i2 = Some c ->
  rt_cmd_ok (mem s) c -> read_args_text (mem s) c = Some args ->
  length (c_name c ++ [ch_EQ] ++ args) < length (cbuf s) -> ~ In ch_CR args ->
  let resp := c_name c ++ [ch_EQ] ++ args in
  let line2 := [ch_A; ch_T] ++ name2 ++ [ch_EQ] ++ skipn (S (length (c_name c))) resp ++ [ch_LF] ++ rest in
  let w0 := mkw s ([ch_A; ch_T] ++ name ++ [ch_QM; ch_LF] ++ line2) h [] in
  exists calls1 calls2,
    let w1 := nsvc D calls1 w0 in
    let w2 := nsvc D (calls1 + calls2) w0 in
    (* after line 1: the response has been emitted, line 2 is still queued, memory unchanged *)
    output_of (wtr w1) = [ch_LF] ++ resp ++ [ch_LF] ++ [ch_LF] ++ txt_OK ++ [ch_LF] /\
    inq (wio w1) = line2 /\ k_state (k (wst w1)) = CS_IDLE /\ mem (wst w1) = mem s /\
    (* after line 2 *)
    k_state (k (wst w2)) = CS_IDLE /\ inq (wio w2) = rest /\ whs w2 = h /\ calls_of (wtr w2) = [] /\
    fault (wst w2) = false /\
    output_of (wtr w2) = ([ch_LF] ++ resp ++ [ch_LF] ++ [ch_LF] ++ txt_OK ++ [ch_LF]) ++ [ch_LF] ++ txt_OK ++ [ch_LF] /\
    (forall v d0, In v (c_vars c) -> nth_error (mem s) (v_slot v) = Some d0 ->
       exists d1, nth_error (mem (wst w2)) (v_slot v) = Some d1 /\ same_value v d1 d0) /\
    (forall sl, ~ In sl (map v_slot (c_vars c)) -> nth_error (mem (wst w2)) sl = nth_error (mem s) sl) /\
    gL (wst w2) = S (S (gL s)) /\ gS (wst w2) = S (S (gS s)) /\ gR (wst w2) = S (S (gR s)).
Proof. exact Lemmas_E2Ec.P5.C07_roundtrip_queue_proof. Qed.
Print Assumptions C07_roundtrip_queue.

(* ---------- non-vacuity: the instance E2E_examples of Lemmas_E2E.v ----------
   table  +X (int16, string[6], hexbuf[2], uint8; no handlers)  and  +XY (run handler); buffer of 40 bytes;
   m0 = -2 ; A , dquote NUL 7 7 ; 0A FF ; 200 ; (a fifth slot no variable uses);  args0 = -2 , dquote A , backslash dquote dquote , 0AFF , 200
   obs = (state, remaining input, handler scripts, calls, output, memory, fault, (gL, gS, gR)) *)
Module A_examples.
Import Lemmas_E2E.E2E_examples.

Definition line1 : list N := [65; 84; 43; 120; 63; 10]%N.                     (* at+x? LF *)
Definition line2 : list N := ([65; 84; 43; 88; 61] ++ args0 ++ [10])%N.        (* AT+X=args0 LF *)
Definition resp0 : list N := ([43; 88; 61] ++ args0)%N.                        (* +X=args0 *)

Example C07r_ex_hyps :
  hyps_ok D0 s0 = true /\ name_ok [43; 120]%N = true /\ name_ok [43; 88]%N = true /\
  implicit_hit D0 s0 (upper [43; 120]%N) = false /\ implicit_hit D0 s0 (upper [43; 88]%N) = false /\
  resolve (upper [43; 120]%N) (enabled D0 s0) (cmds D0) = Some 0 /\
  resolve (upper [43; 88]%N) (enabled D0 s0) (cmds D0) = Some 0 /\ nth_error (cmds D0) 0 = Some c0 /\
  read_args_text (mem s0) c0 = Some args0 /\
  (length (c_name c0 ++ [ch_EQ] ++ args0) <? length (cbuf s0)) = true /\
  line2 = ([ch_A; ch_T] ++ [43; 88] ++ [ch_EQ] ++ skipn (S (length (c_name c0))) resp0 ++ [ch_LF])%N.
Proof. repeat (split; [vm_compute; reflexivity|]). vm_compute. reflexivity. Qed.

(* both lines in one queue, followed by 1 2 3: after 53 calls the response has been emitted and line 2
   is still queued; after 53 + 43 calls the parser is idle, 1 2 3 is queued, no handler call, the
   output is the response followed by LF OK LF, the memory is m0 again, counters (2,2,2) *)
Example C07r_ex_queue_run :
  go s0 (line1 ++ line2 ++ [1; 2; 3]%N) 53 =
    (CS_IDLE, line2 ++ [1; 2; 3]%N, [], [], [10]%N ++ resp0 ++ [10; 10; 79; 75; 10]%N, m0, false, (1, 1, 1)) /\
  go s0 (line1 ++ line2 ++ [1; 2; 3]%N) (53 + 43) =
    (CS_IDLE, [1; 2; 3]%N, [], [],
     ([10]%N ++ resp0 ++ [10; 10; 79; 75; 10]%N) ++ [10; 79; 75; 10]%N, m0, false, (2, 2, 2)).
Proof. vm_compute. split; reflexivity. Qed.

(* the general theorems applied to this instance *)
Example C07r_ex_queue_apply :
  exists calls1 calls2,
    let w0 := mkw s0 (line1 ++ line2 ++ [1; 2; 3]%N) [] [] in
    let w2 := nsvc D0 (calls1 + calls2) w0 in
    k_state (k (wst w2)) = CS_IDLE /\ inq (wio w2) = [1; 2; 3]%N /\
    output_of (wtr w2) = ([10]%N ++ resp0 ++ [10; 10; 79; 75; 10]%N) ++ [10; 79; 75; 10]%N /\
    forall v d0, In v (c_vars c0) -> nth_error m0 (v_slot v) = Some d0 ->
      exists d1, nth_error (mem (wst w2)) (v_slot v) = Some d1 /\ same_value v d1 d0.
Proof.
  destruct C07r_ex_hyps as (_ & H2 & H2' & H3 & H3' & H4 & H4' & H5 & H6 & H7 & _).
  apply Nat.ltb_lt in H7.
  destruct (C07_roundtrip_queue D0 s0 [43; 120]%N [43; 88]%N [1; 2; 3]%N [] 0 0 c0 args0
              eq_refl ltac:(apply Nat.ltb_lt; reflexivity) ltac:(apply Nat.leb_le; reflexivity)
              ltac:(apply Nat.leb_le; reflexivity)
              eq_refl eq_refl eq_refl eq_refl eq_refl eq_refl eq_refl H2 H3 H4 H5 H2' H3' H4' H5
              ex_rt H6 H7 ex_no_cr)
    as (calls1 & calls2 & _ & _ & _ & _ & A & B & _ & _ & _ & O & V & _).
  exists calls1, calls2. cbv zeta. split; [exact A|]. split; [exact B|]. split; [exact O|]. exact V.
Qed.

Example C07r_ex_line_apply :
  exists calls1, let w1 := nsvc D0 calls1 (mkw s0 (line1 ++ [1; 2; 3]%N) [] []) in
    output_of (wtr w1) = [10]%N ++ resp0 ++ [10; 10; 79; 75; 10]%N /\
    (* the same table, variables changed by the application to m1 *)
    exists calls2, let w2 := nsvc D0 calls2 (mkw s1 (line2 ++ [7]%N) [] []) in
      output_of (wtr w2) = [10; 79; 75; 10]%N /\ inq (wio w2) = [7]%N /\
      forall v d0, In v (c_vars c0) -> nth_error m0 (v_slot v) = Some d0 ->
        exists d1, nth_error (mem (wst w2)) (v_slot v) = Some d1 /\ same_value v d1 d0.
Proof.
  destruct C07r_ex_hyps as (_ & H2 & H2' & H3 & H3' & H4 & H4' & H5 & H6 & H7 & _).
  apply Nat.ltb_lt in H7.
  destruct (C07_roundtrip_line D0 s0 [43; 120]%N [1; 2; 3]%N [] 0 c0 args0
              eq_refl ltac:(apply Nat.ltb_lt; reflexivity) ltac:(apply Nat.leb_le; reflexivity)
              ltac:(apply Nat.leb_le; reflexivity)
              eq_refl eq_refl eq_refl eq_refl eq_refl eq_refl eq_refl H2 H3 H4 H5 ex_rt H6 H7 ex_no_cr)
    as (calls1 & resp & O1 & -> & _ & _ & _ & _ & _ & _ & L2).
  exists calls1. cbv zeta. split; [exact O1|].
  destruct (L2 s1 [43; 88]%N [7]%N [] 0) as (calls2 & _ & B & _ & _ & _ & O & V & _).
  { repeat split; reflexivity. }
  { exact H2'. } { vm_compute. reflexivity. } { vm_compute. reflexivity. } { exact H5. }
  exists calls2. cbv zeta. split; [exact O|]. split; [exact B|]. exact V.
Qed.

(* the hypothesis  ~ In ch_CR args  is needed: the string  A CR B  is printed with the raw CR ... *)
Definition mcr : list (list N) := [[254; 255]; [65; 13; 66; 0; 7; 7]; [10; 255]; [200]; [9]]%N.
Definition argscr : list N := [45; 50; 44; 34; 65; 13; 66; 34; 44; 48; 65; 70; 70; 44; 50; 48; 48]%N.
Example C07r_ex_cr_needed :
  rt_cmd_ok mcr c0 /\ read_args_text mcr c0 = Some argscr /\ In ch_CR argscr /\
  go (init_state D0 mcr) line1 53 =
    (CS_IDLE, [], [], [], ([10; 43; 88; 61] ++ argscr ++ [10; 10; 79; 75; 10])%N, mcr, false, (1, 1, 1)) /\
  (* ... and fed back, the reader drops the CR: the answer is OK (with CR LF newlines), the string is  A B *)
  go s1 ([65; 84; 43; 88; 61] ++ argscr ++ [10])%N 44 =
    (CS_IDLE, [], [], [], [13; 10; 79; 75; 13; 10]%N,
     [[254; 255]; [65; 66; 0; 1; 1; 1]; [10; 255]; [200]; [5]]%N, false, (1, 1, 1)).
Proof.
  split.
  { unfold rt_cmd_ok. split; [discriminate|]. split.
    - repeat constructor; try discriminate;
        eexists; (split; [reflexivity|]); (split; [reflexivity|]);
        (split; [repeat constructor|]); repeat split; try discriminate; try reflexivity;
        cbn; auto 10.
    - split; [cbn; repeat constructor; cbn; intuition discriminate|].
      repeat split; try reflexivity. cbn. intuition discriminate. }
  split; [vm_compute; reflexivity|]. split; [cbn; auto 10|]. split; vm_compute; reflexivity.
Qed.
End A_examples.

(* ======================================================================================== *)
(* B. read-only variables (C07 review P1)                                                    *)
(*    What the model (and cat.c) does with a read-only variable:                             *)
(*    READ  : it is printed like a read-write one (only write-only variables print 0 / an    *)
(*            empty string); vars_access_possible c RO holds as soon as one variable is RW   *)
(*            or RO, so a command all of whose variables are RW or RO serves READ.           *)
(*    WRITE : its field is parsed like that of a read-write variable (syntax, 64-bit         *)
(*            overflow, buffer capacity v_size), then validate_int / validate_uint return    *)
(*            at once with write_size 0: no range check, nothing stored (cat.c:1315, 1345;   *)
(*            the buffer decoders skip their stores, cat.c:1200-1294).  The WRITE request    *)
(*            is served from the variables iff vars_access_possible c WO, i.e. iff some      *)
(*            variable is RW (or WO); with only RO variables and no write handler: ERROR.    *)
(*    Level reached: (1) codec, (2) command (write_back, arbitrary oracles), (3) whole line. *)
(* ======================================================================================== *)

(* ================= B1. codec level ================= *)
Theorem C07_var_roundtrip_ro : forall v data data' txt t tail,
  v_access v = RO ->
  Forall (fun b => (b < 256)%N) data -> length data = v_size v -> length data' = v_size v ->
  (v_type v = VBufStr -> In 0%N data) ->
  (v_type v = VBufHex -> 0 < v_size v) ->
  var_text v data = Some txt -> is_term t = true ->
  decode_var v (txt ++ t :: tail) data' = (SOk (t =? ch_COMMA)%N, data', 0, S (length txt)).
Proof. exact Lemmas_E2Ec.P5.C07_var_roundtrip_ro_proof. Qed.
Print Assumptions C07_var_roundtrip_ro.

(* more generally: whatever the read-write variable accepts, the read-only one accepts without storing *)
Theorem C07_decode_ro_of_rw : forall v rest data c d ws n, v_access v = RO ->
  decode_var (Lemmas_E2Ec.P5.as_rw v) rest data = (SOk c, d, ws, n) ->
  decode_var v rest data = (SOk c, data, 0, n).
Proof. exact Lemmas_E2Ec.P5.decode_ro_of_rw. Qed.
Print Assumptions C07_decode_ro_of_rw.
Example as_rw_def : forall v, Lemmas_E2Ec.P5.as_rw v =
  mkVar (v_name v) (v_type v) (v_size v) RW (v_hread v) (v_hwrite v) (v_slot v).
Proof. reflexivity. Qed.

(* the condition under which the WRITE request is served from the variables *)
Theorem C07_write_served_iff : forall m c, Forall (rt_var_ok' m) (c_vars c) ->
  (vars_access_possible c WO = true <-> exists v, In v (c_vars c) /\ v_access v = RW).
Proof. exact Lemmas_E2Ec.P5.vap_wo_iff. Qed.
Print Assumptions C07_write_served_iff.

(* ================= B2. command level (arbitrary oracles) ================= *)
Section C07r_cmd.
Variable D : desc.
Variables ioS muS hS : Type.
Variable mu_lock : muS -> muS * bool.
Variable mu_unlock : muS -> muS * bool.
Variable h_call : hS -> hreq -> hS * hres.
Local Notation world := (Fsm.world ioS muS hS).
Local Notation st := (Fsm.st ioS muS hS).
Local Notation tr := (Fsm.tr ioS muS hS).
Local Notation hs := (Fsm.hs ioS muS hS).
Local Notation write_back := (Lemmas_C07e.write_back D ioS muS hS mu_lock mu_unlock h_call).

(* Properties_C07e.C07_write_back with read-only variables: read-write variables hold the value they had
   in m, the slots of read-only variables and all other slots are untouched *)
Theorem C07_write_back_ro : forall (w : world) ci c m args,
  rt_cmd_ok' m c -> read_args_text m c = Some args -> same_shape m (mem (st w)) ->
  k_state (k (st w)) = CS_PARSE_WRITE_ARGS ->
  g_cmd ATCMD (st w) = Some ci -> cmd_at D ci = Some c ->
  k_position (k (st w)) = 0 -> k_index (k (st w)) = 0 -> k_var (k (st w)) = 0 ->
  firstn (S (length args)) (cbuf (st w)) = args ++ [0%N] -> fault (st w) = false ->
  let w' := write_back c w in
  fault (st w') = false /\ tr w' = tr w /\ hs w' = hs w /\
  k_state (k (st w')) = CS_FLUSH_WAIT /\ k_wafter (k (st w')) = CS_AFTER_RESET /\
  text_of (cbuf (st w')) = txt_OK /\
  (forall v d0, In v (c_vars c) -> v_access v = RW -> nth_error m (v_slot v) = Some d0 ->
     exists d1, nth_error (mem (st w')) (v_slot v) = Some d1 /\ same_value v d1 d0) /\
  (forall v, In v (c_vars c) -> v_access v = RO ->
     nth_error (mem (st w')) (v_slot v) = nth_error (mem (st w)) (v_slot v)) /\
  (forall sl, ~ In sl (map v_slot (c_vars c)) ->
     nth_error (mem (st w')) sl = nth_error (mem (st w)) sl).
Proof. exact (Lemmas_E2Ec.P5.C07_write_back_ro_proof D ioS muS hS mu_lock mu_unlock h_call). Qed.
End C07r_cmd.
Print Assumptions C07_write_back_ro.

(* ================= B3. whole lines ================= *)
(* the READ line with read-only variables is E2E_read_line_re above (rt_cmd_ok') *)

Theorem E2E_write_line_ro : forall D s name rest h i c m args,
  d_mutex D = false -> 0 < ncmds D -> ncmds D <= 4 * length (cbuf s) -> 6 <= length (cbuf s) ->
  fault s = false ->
  k_state (k s) = CS_IDLE -> k_cr (k s) = false -> k_implicit (k s) = false -> k_hold (k s) = false ->
  u_state (u s) = US_IDLE -> u_count (u s) = 0 ->
  name_ok name = true -> implicit_hit D s (upper name) = false ->
  resolve (upper name) (enabled D s) (cmds D) = Some i -> nth_error (cmds D) i = Some c ->
  rt_cmd_ok' m c -> vars_access_possible c WO = true -> read_args_text m c = Some args ->
  same_shape m (mem s) -> ~ In ch_CR args -> length args < length (cbuf s) ->
  let w0 := mkw s ([ch_A; ch_T] ++ name ++ [ch_EQ] ++ args ++ [ch_LF] ++ rest) h [] in
  exists calls, let w := nsvc D calls w0 in
    k_state (k (wst w)) = CS_IDLE /\ inq (wio w) = rest /\ whs w = h /\ calls_of (wtr w) = [] /\
    fault (wst w) = false /\
    output_of (wtr w) = [ch_LF] ++ txt_OK ++ [ch_LF] /\
    (forall v d0, In v (c_vars c) -> v_access v = RW -> nth_error m (v_slot v) = Some d0 ->
       exists d1, nth_error (mem (wst w)) (v_slot v) = Some d1 /\ same_value v d1 d0) /\
    (forall v, In v (c_vars c) -> v_access v = RO ->
       nth_error (mem (wst w)) (v_slot v) = nth_error (mem s) (v_slot v)) /\
    (forall sl, ~ In sl (map v_slot (c_vars c)) -> nth_error (mem (wst w)) sl = nth_error (mem s) sl) /\
    gL (wst w) = S (gL s) /\ gS (wst w) = S (gS s) /\ gR (wst w) = S (gR s).
Proof. exact Lemmas_E2Ec.P5.E2E_write_line_ro_proof. Qed.
Print Assumptions E2E_write_line_ro.

(* round trip, two-world form: C07_roundtrip_line with read-only variables *)
Theorem C07_roundtrip_line_ro : forall D s name rest h i c args,
  d_mutex D = false -> 0 < ncmds D -> ncmds D <= 4 * length (cbuf s) -> 6 <= length (cbuf s) ->
  fault s = false ->
  k_state (k s) = CS_IDLE -> k_cr (k s) = false -> k_implicit (k s) = false -> k_hold (k s) = false ->
  u_state (u s) = US_IDLE -> u_count (u s) = 0 ->
  name_ok name = true -> implicit_hit D s (upper name) = false ->
  resolve (upper name) (enabled D s) (cmds D) = Some i -> nth_error (cmds D) i = Some c ->
  rt_cmd_ok' (mem s) c -> vars_access_possible c WO = true -> read_args_text (mem s) c = Some args ->
  length (c_name c ++ [ch_EQ] ++ args) < length (cbuf s) -> ~ In ch_CR args ->
  exists calls1 resp,
    let w1 := nsvc D calls1 (mkw s ([ch_A; ch_T] ++ name ++ [ch_QM; ch_LF] ++ rest) h []) in
    output_of (wtr w1) = [ch_LF] ++ resp ++ [ch_LF] ++ [ch_LF] ++ txt_OK ++ [ch_LF] /\
    resp = c_name c ++ [ch_EQ] ++ args /\
    w1 = mkw (wst w1) rest h (wtr w1) /\ calls_of (wtr w1) = [] /\ mem (wst w1) = mem s /\
    ready_like s (wst w1) /\ enabled D (wst w1) = enabled D s /\
    (forall t, implicit_hit D (wst w1) t = implicit_hit D s t) /\
    forall s2 name2 rest2 h2 i2,
      ready_like s s2 ->
      name_ok name2 = true -> implicit_hit D s2 (upper name2) = false ->
      resolve (upper name2) (enabled D s2) (cmds D) = Some i2 -> nth_error (cmds D) i2 = Some c ->
      exists calls2,
        let w2 := nsvc D calls2
                    (mkw s2 ([ch_A; ch_T] ++ name2 ++ [ch_EQ] ++ skipn (S (length (c_name c))) resp ++ [ch_LF] ++ rest2)
                         h2 []) in
        k_state (k (wst w2)) = CS_IDLE /\ inq (wio w2) = rest2 /\ whs w2 = h2 /\ calls_of (wtr w2) = [] /\
        fault (wst w2) = false /\
        output_of (wtr w2) = [ch_LF] ++ txt_OK ++ [ch_LF] /\
        (* read-write variables: the value they had in mem s when line 1 read them *)
        (forall v d0, In v (c_vars c) -> v_access v = RW -> nth_error (mem s) (v_slot v) = Some d0 ->
           exists d1, nth_error (mem (wst w2)) (v_slot v) = Some d1 /\ same_value v d1 d0) /\
        (* read-only variables: untouched, i.e. the CURRENT content (of s2), not the one that was read *)
        (forall v, In v (c_vars c) -> v_access v = RO ->
           nth_error (mem (wst w2)) (v_slot v) = nth_error (mem s2) (v_slot v)) /\
        (forall sl, ~ In sl (map v_slot (c_vars c)) -> nth_error (mem (wst w2)) sl = nth_error (mem s2) sl) /\
        gL (wst w2) = S (gL s2) /\ gS (wst w2) = S (gS s2) /\ gR (wst w2) = S (gR s2).
Proof. exact Lemmas_E2Ec.P5.C07_roundtrip_line_ro_proof. Qed.
Print Assumptions C07_roundtrip_line_ro.

(* round trip, both lines in one input queue, with read-only variables *)
Theorem C07_roundtrip_queue_ro : forall D s name name2 rest h i i2 c args,
  d_mutex D = false -> 0 < ncmds D -> ncmds D <= 4 * length (cbuf s) -> 6 <= length (cbuf s) ->
  fault s = false ->
  k_state (k s) = CS_IDLE -> k_cr (k s) = false -> k_implicit (k s) = false -> k_hold (k s) = false ->
  u_state (u s) = US_IDLE -> u_count (u s) = 0 ->
  name_ok name = true -> implicit_hit D s (upper name) = false ->
  resolve (upper name) (enabled D s) (cmds D) = Some i -> nth_error (cmds D) i = Some c ->
  name_ok name2 = true -> implicit_hit D s (upper name2) = false ->
  resolve (upper name2) (enabled D s) (cmds D) = Some i2 -> nth_error (cmds D) i2 = Some c ->
  rt_cmd_ok' (mem s) c -> vars_access_possible c WO = true -> read_args_text (mem s) c = Some args ->
  length (c_name c ++ [ch_EQ] ++ args) < length (cbuf s) -> ~ In ch_CR args ->
  let resp := c_name c ++ [ch_EQ] ++ args in
  let line2 := [ch_A; ch_T] ++ name2 ++ [ch_EQ] ++ skipn (S (length (c_name c))) resp ++ [ch_LF] ++ rest in
  let w0 := mkw s ([ch_A; ch_T] ++ name ++ [ch_QM; ch_LF] ++ line2) h [] in
  exists calls1 calls2,
    let w1 := nsvc D calls1 w0 in
    let w2 := nsvc D (calls1 + calls2) w0 in
    output_of (wtr w1) = [ch_LF] ++ resp ++ [ch_LF] ++ [ch_LF] ++ txt_OK ++ [ch_LF] /\
    inq (wio w1) = line2 /\ k_state (k (wst w1)) = CS_IDLE /\ mem (wst w1) = mem s /\
    k_state (k (wst w2)) = CS_IDLE /\ inq (wio w2) = rest /\ whs w2 = h /\ calls_of (wtr w2) = [] /\
    fault (wst w2) = false /\
    output_of (wtr w2) = ([ch_LF] ++ resp ++ [ch_LF] ++ [ch_LF] ++ txt_OK ++ [ch_LF]) ++ [ch_LF] ++ txt_OK ++ [ch_LF] /\
    (forall v d0, In v (c_vars c) -> v_access v = RW -> nth_error (mem s) (v_slot v) = Some d0 ->
       exists d1, nth_error (mem (wst w2)) (v_slot v) = Some d1 /\ same_value v d1 d0) /\
    (forall v, In v (c_vars c) -> v_access v = RO ->
       nth_error (mem (wst w2)) (v_slot v) = nth_error (mem s) (v_slot v)) /\
    (forall sl, ~ In sl (map v_slot (c_vars c)) -> nth_error (mem (wst w2)) sl = nth_error (mem s) sl) /\
    gL (wst w2) = S (S (gL s)) /\ gS (wst w2) = S (S (gS s)) /\ gR (wst w2) = S (S (gR s)).
Proof. exact Lemmas_E2Ec.P5.C07_roundtrip_queue_ro_proof. Qed.
Print Assumptions C07_roundtrip_queue_ro.

(* ---------- non-vacuity: the table of E2E_examples with the string variable read-only ---------- *)
Module B_examples.
Import Lemmas_E2E.E2E_examples.
Import A_examples.

Definition v2r := mkVar None VBufStr 6 RO false false 1.
Definition c0r := mkCmd [43; 88]%N None false false false false [v1; v2r; v3; v4] false false false.
Definition D0r := mkDesc [[c0r; c1]] [] 40 (Some 8) 85%N 2 false.
Definition s0r := init_state D0r m0.
Definition s1r := init_state D0r m1.
Definition gor (s : state) (line : list N) (calls : nat) := obs (nsvc D0r calls (mkw s line [] [])).

(* codec: the field  dquote A dquote  for the read-only string is accepted (4 characters consumed), the
   storage is returned as it was, write size 0; the read-write string stores A NUL, write size 1.
   No range check for a read-only number: 300 is accepted for a read-only uint8, refused for a
   read-write one *)
Definition v4o := mkVar None VUint 1 RO false false 3.
Example C07r_ex_codec :
  decode_var v2r [34; 65; 34; 0; 7]%N [9; 9; 9; 9; 9; 9]%N = (SOk false, [9; 9; 9; 9; 9; 9]%N, 0, 4) /\
  decode_var v2 [34; 65; 34; 0; 7]%N [9; 9; 9; 9; 9; 9]%N = (SOk false, [65; 0; 9; 9; 9; 9]%N, 1, 4) /\
  decode_var v4o [51; 48; 48; 0]%N [9]%N = (SOk false, [9]%N, 0, 4) /\
  decode_var v4 [51; 48; 48; 0]%N [9]%N = (SErr, [9]%N, 0, 4).
Proof. vm_compute. repeat split; reflexivity. Qed.

Ltac rtv := split; [first [left; reflexivity | right; reflexivity]|]; split; [reflexivity|];
  split; [reflexivity|]; eexists; split; [reflexivity|]; split; [reflexivity|];
  split; [repeat constructor|]; repeat split; try discriminate; try reflexivity; cbn; auto 10.

Lemma ex_rt_ro : rt_cmd_ok' m0 c0r.
Proof.
  unfold Lemmas_E2Ec.P5.rt_cmd_ok'. split; [discriminate|]. split.
  - constructor; [rtv|]. constructor; [rtv|]. constructor; [rtv|]. constructor; [rtv|]. constructor.
  - split; [cbn; repeat constructor; cbn; intuition discriminate|].
    repeat split; try reflexivity. cbn. intuition discriminate.
Qed.

Example C07r_ex_ro_hyps :
  hyps_ok D0r s0r = true /\ hyps_ok D0r s1r = true /\
  implicit_hit D0r s0r (upper [43; 120]%N) = false /\ implicit_hit D0r s0r (upper [43; 88]%N) = false /\
  resolve (upper [43; 120]%N) (enabled D0r s0r) (cmds D0r) = Some 0 /\
  resolve (upper [43; 88]%N) (enabled D0r s0r) (cmds D0r) = Some 0 /\ nth_error (cmds D0r) 0 = Some c0r /\
  read_args_text m0 c0r = Some args0 /\ vars_access_possible c0r WO = true /\
  (length (c_name c0r ++ [ch_EQ] ++ args0) <? length (cbuf s0r)) = true /\ same_shape m0 m1.
Proof. repeat (split; [vm_compute; reflexivity|]). reflexivity. Qed.

(* READ prints all four variables, the read-only string included;
   WRITE of the echoed text over the different contents m1: OK, the read-write variables hold the values
   of m0, the read-only string keeps its CURRENT content (that of m1), the fifth slot is untouched;
   both lines in one queue over m0: the memory is m0 *)
Example C07r_ex_ro_run :
  gor s0r (line1 ++ [1; 2; 3]%N) 53 =
    (CS_IDLE, [1; 2; 3]%N, [], [], [10]%N ++ resp0 ++ [10; 10; 79; 75; 10]%N, m0, false, (1, 1, 1)) /\
  gor s1r (line2 ++ [1; 2; 3]%N) 43 =
    (CS_IDLE, [1; 2; 3]%N, [], [], [10; 79; 75; 10]%N,
     [[254; 255]; [1; 1; 1; 1; 1; 1]; [10; 255]; [200]; [5]]%N, false, (1, 1, 1)) /\
  gor s0r (line1 ++ line2 ++ [1; 2; 3]%N) (53 + 43) =
    (CS_IDLE, [1; 2; 3]%N, [], [],
     ([10]%N ++ resp0 ++ [10; 10; 79; 75; 10]%N) ++ [10; 79; 75; 10]%N, m0, false, (2, 2, 2)).
Proof. vm_compute. repeat split; reflexivity. Qed.

(* the general theorem applied: line 1 on m0, line 2 in the later state s1r (variables changed to m1) *)
Example C07r_ex_ro_apply :
  exists calls1, let w1 := nsvc D0r calls1 (mkw s0r (line1 ++ [1; 2; 3]%N) [] []) in
    output_of (wtr w1) = [10]%N ++ resp0 ++ [10; 10; 79; 75; 10]%N /\
    exists calls2, let w2 := nsvc D0r calls2 (mkw s1r (line2 ++ [7]%N) [] []) in
      output_of (wtr w2) = [10; 79; 75; 10]%N /\
      (forall v d0, In v [v1; v3; v4] -> nth_error m0 (v_slot v) = Some d0 ->
         exists d1, nth_error (mem (wst w2)) (v_slot v) = Some d1 /\ same_value v d1 d0) /\
      nth_error (mem (wst w2)) 1 = Some [1; 1; 1; 1; 1; 1]%N /\ nth_error (mem (wst w2)) 4 = Some [5]%N.
Proof.
  destruct C07r_ex_ro_hyps as (_ & _ & H3 & H3' & H4 & H4' & H5 & H6 & HW & H7 & _).
  apply Nat.ltb_lt in H7.
  destruct (C07_roundtrip_line_ro D0r s0r [43; 120]%N [1; 2; 3]%N [] 0 c0r args0
              eq_refl ltac:(apply Nat.ltb_lt; reflexivity) ltac:(apply Nat.leb_le; reflexivity)
              ltac:(apply Nat.leb_le; reflexivity)
              eq_refl eq_refl eq_refl eq_refl eq_refl eq_refl eq_refl eq_refl H3 H4 H5 ex_rt_ro HW H6 H7 ex_no_cr)
    as (calls1 & resp & O1 & -> & _ & _ & _ & _ & _ & _ & L2).
  exists calls1. cbv zeta. split; [exact O1|].
  destruct (L2 s1r [43; 88]%N [7]%N [] 0) as (calls2 & _ & _ & _ & _ & _ & O & V & R & Fr & _).
  { repeat split; reflexivity. }
  { reflexivity. } { vm_compute. reflexivity. } { vm_compute. reflexivity. } { exact H5. }
  exists calls2. cbv zeta. split; [exact O|]. split; [|split].
  - intros v d0 Hin Hn0. apply (V v d0); [|destruct Hin as [<-|[<-|[<-|[]]]]; reflexivity | exact Hn0].
    cbn [c_vars c0r In] in Hin |- *. intuition.
  - exact (R v2r ltac:(cbn; auto) eq_refl).
  - apply (Fr 4). cbn. intuition discriminate.
Qed.

(* only read-only variables and no write handler: READ is served, the WRITE of the echoed text is
   refused with ERROR and nothing changes (vars_access_possible c WO = false) *)
Definition v1o := mkVar None VInt 2 RO false false 0.
Definition v3o := mkVar None VBufHex 2 RO false false 2.
Definition c0o := mkCmd [43; 88]%N None false false false false [v1o; v2r; v3o; v4o] false false false.
Definition D0o := mkDesc [[c0o; c1]] [] 40 (Some 8) 85%N 2 false.
Example C07r_ex_all_ro :
  vars_access_possible c0o RO = true /\ vars_access_possible c0o WO = false /\
  obs (nsvc D0o 53 (mkw (init_state D0o m0) (line1 ++ [1; 2; 3]%N) [] [])) =
    (CS_IDLE, [1; 2; 3]%N, [], [], [10]%N ++ resp0 ++ [10; 10; 79; 75; 10]%N, m0, false, (1, 1, 1)) /\
  obs (nsvc D0o 42 (mkw (init_state D0o m1) (line2 ++ [1; 2; 3]%N) [] [])) =
    (CS_IDLE, [1; 2; 3]%N, [], [], [10; 69; 82; 82; 79; 82; 10]%N, m1, false, (1, 1, 1)).
Proof. vm_compute. repeat split; reflexivity. Qed.
End B_examples.
