(* Fsm.v — the two state machines and the public API of cat.c, one model step
   per cat_service call.  Everything the library calls (io, mutex, handlers)
   is a Section variable.  Function names follow cat.c.  No proofs here. *)
From Coq Require Import List NArith ZArith Bool Arith.
From CatV Require Import Bytes Defs Codec.
Import ListNotations.
Local Open Scope nat_scope.

(* ---------- status and return codes (cat.h) ---------- *)
Definition ST_OK : Z := 0.
Definition ST_BUSY : Z := 1.
Definition ST_HOLD : Z := 2.
Definition ST_ERROR : Z := (-1).
Definition ST_MUTEX_UNLOCK : Z := (-2).
Definition ST_MUTEX_LOCK : Z := (-3).
Definition ST_UNKNOWN_STATE : Z := (-4).
Definition ST_BUFFER_FULL : Z := (-5).
Definition ST_NOT_HOLD : Z := (-6).
Definition ST_BUFFER_EMPTY : Z := (-7).

Definition RC_ERROR : Z := (-1).
Definition RC_DATA_OK : Z := 0.
Definition RC_DATA_NEXT : Z := 1.
Definition RC_NEXT : Z := 2.
Definition RC_OK : Z := 3.
Definition RC_HOLD : Z := 4.
Definition RC_HOLD_EXIT_OK : Z := 5.
Definition RC_HOLD_EXIT_ERROR : Z := 6.
Definition RC_PRINT_CMD_LIST_OK : Z := 7.

(* ---------- calls into the application ---------- *)
Inductive hreq :=
  | HWrite (ci : nat) (data : list N) (len args_num : nat)
  | HRead (f : fsm) (ci : nat) (text : list N) (pos cap : nat)
  | HTest (f : fsm) (ci : nat) (text : list N) (pos cap : nat)
  | HRun (ci : nat)
  | VRead (f : fsm) (ci vi : nat)
  | VWrite (ci vi : nat) (wsize : nat) (stored : list N).

(* API calls an application may make from inside a handler *)
Inductive icall := ITrigger (ci : nat) (t : ctype) | IHoldExit (status : Z).

Record hres := mkHres {
  r_code : Z;                          (* the returned integer *)
  r_edit : option (list N);            (* read/test: new NUL-terminated text of the buffer *)
  r_pokes : list (nat * list N);       (* stores into variable storage (slot, bytes) *)
  r_calls : list icall
}.

Inductive op :=
  | OService | OTrigger (ci : nat) (t : ctype) | OHoldExit (status : Z)
  | OIsBusy | OIsHold | OIsFull | OIsBuffered (ci : nat) (t : ctype)
  | OGetProcessed (f : fsm) | OSetCmdDisable (i : nat) (b : bool)
  | OSetGroupDisable (g : nat) (b : bool).

Inductive event :=
  | ERd (r : option N)
  | EWr (f : fsm) (ch : N) (ok : bool)
  | ELock (ok : bool)
  | EUnlock (ok : bool)
  | ECall (q : hreq) (code : Z)
  | EInner (c : icall) (status : Z)
  | ERet (o : op) (status : Z)
  | EPop (ci : nat) (t : ctype).     (* ghost: the event machine took this event from the queue *)

(* ---------- pure helpers on the object state ---------- *)

Definition nl_chars (s : state) : list N := if k_cr (k s) then [ch_CR; ch_LF] else [ch_LF].

(* cat.c:64 *)
Definition reset_state (s : state) : state :=
  (if k_hold (k s) then s |> setk_state CS_HOLD
   else s |> setk_state CS_IDLE |> setk_cr false)
  |> setk_cmd None |> setk_type T_NONE.

(* cat.c:78 *)
Definition unsolicited_reset_state (s : state) : state :=
  s |> setu_cmd None |> setu_type T_NONE |> setu_state US_IDLE.

(* cat.c:87 (repaired) *)
Definition is_busy (s : state) : Z :=
  if negb (cstate_beq (k_state (k s)) CS_IDLE) || negb (ustate_beq (u_state (u s)) US_IDLE)
  then ST_BUSY else ST_OK.

(* cat.c:109 *)
Definition is_hold (s : state) : Z := if k_hold (k s) then ST_HOLD else ST_OK.

(* cat.c:131 *)
Definition vars_access_possible (c : cmd) (acc : vaccess) : bool :=
  existsb (fun v => vaccess_beq (v_access v) RW || vaccess_beq (v_access v) acc) (c_vars c).

Section Machine.
Variable D : desc.

Definition cap : nat := d_cap D.
Definition cmd_at (ci : nat) : option cmd := nth_error (pool D) ci.

(* cat.c:153,160 *)
Definition ring_full (s : state) : bool := u_count (u s) =? cap.
Definition ring_empty (s : state) : bool := u_count (u s) =? 0.

(* cat.c:191 *)
Definition push_unsolicited_cmd (s : state) (ci : nat) (t : ctype) : state * Z :=
  if ring_full s then (s, ST_BUFFER_FULL)
  else
    let tl := u_tail (u s) in
    let s1 := if tl <? length (u_ring (u s)) then setu_ring (upd (u_ring (u s)) tl (ci, t)) s
              else set_fault_flag s in
    let tl' := if cap <=? S tl then 0 else S tl in
    (s1 |> setu_tail tl' |> setu_count (S (u_count (u s))), ST_OK).

(* cat.c:167; the popped item is returned *)
Definition pop_unsolicited_cmd (s : state) : state * option (nat * ctype) :=
  if ring_empty s then (s, None)
  else
    let hd := u_head (u s) in
    match nth_error (u_ring (u s)) hd with
    | None => (set_fault_flag s, None)
    | Some it =>
      let hd' := if cap <=? S hd then 0 else S hd in
      (s |> setu_head hd' |> setu_count (u_count (u s) - 1), Some it)
    end.

(* the live ring entries, oldest first *)
Fixpoint ring_items_go (ring : list (nat * ctype)) (idx num : nat) : list (nat * ctype) :=
  match num with
  | O => []
  | S num' =>
    match nth_error ring idx with
    | None => []
    | Some it => it :: ring_items_go ring (if cap <=? S idx then 0 else S idx) num'
    end
  end.
Definition ring_items (s : state) : list (nat * ctype) :=
  ring_items_go (u_ring (u s)) (u_head (u s)) (u_count (u s)).

(* cat.c:257 *)
Definition ev_match (ci : nat) (t : ctype) (it : nat * ctype) : bool :=
  (fst it =? ci) && (ctype_beq t T_NONE || ctype_beq (snd it) t).
Definition is_event_buffered (s : state) (ci : nat) (t : ctype) : Z :=
  let cur := match u_cmd (u s) with
             | Some c => ev_match ci t (c, u_type (u s))
             | None => false
             end in
  if cur || existsb (ev_match ci t) (ring_items s) then ST_BUSY else ST_OK.

(* cat.c:249 ; -1 encodes NULL *)
Definition get_processed (s : state) (f : fsm) : Z :=
  match g_cmd f s with Some ci => Z.of_nat ci | None => (-1)%Z end.

(* cat.c:748 *)
Definition is_command_disable (s : state) (i : nat) : bool :=
  match group_of_index (d_groups D) i 0 with
  | None => false
  | Some g => nthb (dis_grp s) g || nthb (dis_cmd s) i
  end.

(* ---- flush starters (cat.c:290-321) ---- *)
Definition start_flush_c (after : cstate) (s : state) : state :=
  s |> setk_position 0 |> setk_wbuf (WB_NL (k_cr (k s))) |> setk_wstate WS_BEFORE
    |> setk_wafter after |> setk_state CS_FLUSH_WAIT.

Definition start_flush_u (after : ustate) (s : state) : state :=
  s |> setu_position 0 |> setu_wbuf (WB_NL (k_cr (k s))) |> setu_wstate WS_BEFORE
    |> setu_wafter after |> setu_state US_FLUSH_WAIT.

Definition start_flush_raw_c (after : cstate) (s : state) : state :=
  s |> setk_position 0 |> setk_wbuf WB_MAIN |> setk_wstate WS_AFTER
    |> setk_wafter after |> setk_state CS_FLUSH_WAIT.

(* strncpy(buf, text, n) *)
Definition strncpy_buf (n : nat) (text : list N) : list N := firstn n (text ++ repeat 0%N n).

Definition txt_ERROR : list N := [69; 82; 82; 79; 82]%N.
Definition txt_OK : list N := [79; 75]%N.
Definition txt_AT : list N := [65; 84]%N.

(* cat.c:323,331 ; gS counts started result codes (ghost) *)
Definition ack_error (s : state) : state :=
  s |> set_cbuf (strncpy_buf (asz s) txt_ERROR) |> set_gS (S (gS s)) |> start_flush_c CS_AFTER_RESET.
Definition ack_ok (s : state) : state :=
  s |> set_cbuf (strncpy_buf (asz s) txt_OK) |> set_gS (S (gS s)) |> start_flush_c CS_AFTER_RESET.

(* ---- printing through the per-machine cursor ---- *)
Definition get_cur (f : fsm) (s : state) : cur := mkCur (g_buf f s) (g_pos f s) false.
Definition put_cur (f : fsm) (c : cur) (s : state) : state :=
  let s1 := s |> setg_buf f (cu_buf c) |> setg_pos f (cu_pos c) in
  if cu_fault c then set_fault_flag s1 else s1.

Definition print_string (f : fsm) (s : state) (t : list N) : state * bool :=
  let (c, ok) := print_nstring (get_cur f s) t in (put_cur f c s, ok).
Definition print_strings (f : fsm) (s : state) (ts : list (list N)) : state * bool :=
  let (c, ok) := print_pieces (get_cur f s) ts in (put_cur f c s, ok).

(* cat.c:590,607 *)
Definition end_with_error (f : fsm) (s : state) : state :=
  match f with ATCMD => ack_error s | UNSOL => unsolicited_reset_state s end.
Definition end_with_ok (f : fsm) (s : state) : state :=
  match f with ATCMD => ack_ok s | UNSOL => unsolicited_reset_state s end.

Definition set_loop_state (f : fsm) (rd : bool) (s : state) : state :=
  match f with
  | ATCMD => setk_state (if rd then CS_READ_LOOP else CS_TEST_LOOP) s
  | UNSOL => setu_state (if rd then US_READ_LOOP else US_TEST_LOOP) s
  end.
Definition start_flush_after_ok (f : fsm) (s : state) : state :=
  match f with ATCMD => start_flush_c CS_AFTER_OK s | UNSOL => start_flush_u US_AFTER_OK s end.

Definition cmd_of (f : fsm) (s : state) : option cmd :=
  match g_cmd f s with Some ci => cmd_at ci | None => None end.

(* cat.c:658 ; false = -1 *)
Definition print_response_test (f : fsm) (s : state) : state * bool :=
  match cmd_of f s with
  | None => (set_fault_flag s, false)
  | Some c =>
    let (s1, ok) := match c_descr c with
                    | Some d => print_strings f s [nl_chars s; d]
                    | None => (s, true)
                    end in
    if negb ok then (s1, false)
    else if c_htest c then (set_loop_state f false s1, true)
    else (start_flush_after_ok f s1, true)
  end.

(* cat.c:869 *)
Definition start_processing_format_test_args (f : fsm) (s : state) : state :=
  let s := setg_pos f 0 s in
  match cmd_of f s with
  | None => set_fault_flag s
  | Some c =>
    let (s1, ok1) := print_string f s (c_name c) in
    if negb ok1 then end_with_error f s1 else
    let (s2, ok2) := print_string f s1 [ch_EQ] in
    if negb ok2 then end_with_error f s2 else
    match c_vars c with
    | _ :: _ =>
      match f with
      | ATCMD => s2 |> setk_state CS_FORMAT_TEST_ARGS |> setk_index 0 |> setk_var 0
      | UNSOL => s2 |> setu_state US_FORMAT_TEST_ARGS |> setu_index 0 |> setu_var 0
      end
    | [] =>
      let (s3, ok3) := print_response_test f s2 in
      if ok3 then s3 else end_with_error f s3
    end
  end.

(* cat.c:965 *)
Definition start_processing_format_read_args (f : fsm) (s : state) : state :=
  let s := setg_pos f 0 s in
  match cmd_of f s with
  | None => set_fault_flag s
  | Some c =>
    let (s1, ok1) := print_string f s (c_name c) in
    if negb ok1 then end_with_error f s1 else
    let (s2, ok2) := print_string f s1 [ch_EQ] in
    if negb ok2 then end_with_error f s2 else
    if vars_access_possible c RO then
      match f with
      | ATCMD => s2 |> setk_state CS_FORMAT_READ_ARGS |> setk_index 0 |> setk_var 0
      | UNSOL => s2 |> setu_state US_FORMAT_READ_ARGS |> setu_index 0 |> setu_var 0
      end
    else if negb (c_hread c) then end_with_error f s2
    else set_loop_state f true s2
  end.

(* cat.c:1746 ; true = "BUSY" (handled: comma written or error), false = "OK" (no more variables) *)
Definition next_format_var (f : fsm) (s : state) : state * bool :=
  match cmd_of f s with
  | None => (set_fault_flag s, true)
  | Some c =>
    let idx := S (g_index f s) in
    let s := setg_index f idx s in
    if idx <? length (c_vars c) then
      if g_bsz f s <=? g_pos f s then (end_with_error f s, true)
      else
        let p := g_pos f s in
        (s |> setg_buf f (upd (g_buf f s) p ch_COMMA) |> setg_pos f (S p) |> setg_var f idx, true)
    else (s, false)
  end.

(* ---- name matching (cat.c:777-845, 933-963) ---- *)
Definition lane_get (b : N) (j : nat) : N :=
  N.land (N.shiftr b (N.of_nat (2 * j))) 3.
Definition lane_set (b : N) (j : nat) (v : N) : N :=
  N.lor (N.land b (N.lxor 255 (N.shiftl 3 (N.of_nat (2 * j)))))
        (N.shiftl (N.land v 3) (N.of_nat (2 * j))).

Definition CMD_NOT_MATCH : N := 0.
Definition CMD_PARTIAL : N := 1.
Definition CMD_FULL : N := 2.

(* cat.c:777 ; None = out-of-bounds read *)
Definition get_cmd_state (s : state) (i : nat) : option N :=
  if is_command_disable s i then Some CMD_NOT_MATCH
  else match nth_error (cbuf s) (Nat.div i 4) with
       | None => None
       | Some b => Some (lane_get b (Nat.modulo i 4))
       end.

(* cat.c:794 *)
Definition set_cmd_state (s : state) (i : nat) (v : N) : state :=
  match nth_error (cbuf s) (Nat.div i 4) with
  | None => set_fault_flag s
  | Some b => set_cbuf (upd (cbuf s) (Nat.div i 4) (lane_set b (Nat.modulo i 4) v)) s
  end.

(* cat.c:560 *)
Definition prepare_search_command (s : state) : state :=
  s |> setk_index 0 |> setk_partial 0 |> setk_cmd None.

(* cat.c:520 *)
Definition prepare_parse_command (s : state) : state :=
  s |> set_cbuf (repeat 85%N (asz s)) |> setk_index 0 |> setk_length 0 |> setk_type T_RUN.

(* cat.c:809 *)
Definition update_command (s : state) : state :=
  let i := k_index (k s) in
  match cmd_by_index (d_groups D) i with
  | None => set_fault_flag s
  | Some c =>
    match get_cmd_state s i with
    | None => set_fault_flag s
    | Some cs =>
      let s1 :=
        if negb (cs =? CMD_NOT_MATCH)%N then
          let nlen := length (c_name c) in
          if nlen <? k_length (k s) then set_cmd_state s i CMD_NOT_MATCH
          else match k_length (k s) with
               | O => set_fault_flag s
               | S l1 =>
                 match nth_error (c_name c) l1 with
                 | None => set_fault_flag s
                 | Some nc =>
                   if negb (to_upper nc =? k_char (k s))%N then set_cmd_state s i CMD_NOT_MATCH
                   else if k_length (k s) =? nlen then
                     let s' := set_cmd_state s i CMD_FULL in
                     if c_implicit c then setk_implicit true s' else s'
                   else s
                 end
               end
        else s in
      let i' := S i in
      if ncmds D <=? i' then
        let s2 := setk_index 0 s1 in
        if negb (k_implicit (k s2)) then setk_state CS_PARSE_COMMAND_CHAR s2
        else s2 |> setk_type T_WRITE |> prepare_search_command
                |> setk_state CS_SEARCH_COMMAND |> setk_implicit false
      else setk_index i' s1
    end
  end.

(* cat.c:933 (repaired) *)
Definition search_command (s : state) : state :=
  let i := k_index (k s) in
  let lf := (k_char (k s) =? ch_LF)%N in
  match get_cmd_state s i with
  | None => set_fault_flag s
  | Some cs =>
    let finish (s : state) :=
      let i' := S (k_index (k s)) in
      let s := setk_index i' s in
      if ncmds D <=? i' then
        match k_cmd (k s) with
        | None => setk_state (if lf then CS_COMMAND_NOT_FOUND else CS_ERROR) s
        | Some _ =>
          if k_partial (k s) =? 1 then setk_state CS_COMMAND_FOUND s
          else setk_state (if lf then CS_COMMAND_NOT_FOUND else CS_ERROR) s
        end
      else s in
    if (cs =? CMD_PARTIAL)%N then
      match k_cmd (k s) with
      | Some _ =>
        if S i =? ncmds D then setk_state (if lf then CS_COMMAND_NOT_FOUND else CS_ERROR) s
        else finish (s |> setk_cmd (Some i) |> setk_partial (S (k_partial (k s))))
      | None => finish (s |> setk_cmd (Some i) |> setk_partial (S (k_partial (k s))))
      end
    else if (cs =? CMD_FULL)%N then s |> setk_cmd (Some i) |> setk_state CS_COMMAND_FOUND
    else finish s
  end.

(* cat.c:1019 *)
Definition command_found (s : state) : state :=
  match cmd_of ATCMD s with
  | None => set_fault_flag s
  | Some c =>
    match k_type (k s) with
    | T_RUN =>
      if c_only_test c then ack_error s
      else if negb (c_hrun c) then ack_error s
      else setk_state CS_RUN_LOOP s
    | T_READ =>
      if c_only_test c then ack_error s
      else start_processing_format_read_args ATCMD s
    | T_WRITE =>
      let s1 := setk_length 0 s in
      let s2 := match cbuf s1 with
                | [] => set_fault_flag s1
                | _ :: _ => set_cbuf (upd (cbuf s1) 0 0%N) s1
                end in
      setk_state CS_PARSE_COMMAND_ARGS s2
    | _ => ack_error s
    end
  end.

(* ---- the list printer (cat.c:2031-2144) ---- *)
Definition start_print_cmd_list (s : state) : state :=
  if ncmds D =? 0 then ack_ok s
  else s |> setk_index 0 |> setk_length 0 |> setk_type T_NONE |> setk_state CS_PRINT_CMD.

Definition cmd_list_next_cmd (s : state) : state * bool :=
  let i' := S (k_index (k s)) in
  let s := setk_index i' s in
  if ncmds D <=? i' then (s, false)
  else (s |> setk_length 0 |> setk_type T_NONE |> setk_state CS_PRINT_CMD, true).

Definition print_current_cmd_full_name (s : state) (c : cmd) (suffix : list N) : state * bool :=
  let (s1, ok1) :=
      if k_length (k s) =? 0 then
        let (s', ok) := print_string ATCMD s (nl_chars s) in
        (if ok then setk_length 1 s' else s', ok)
      else (s, true) in
  if negb ok1 then (s1, false)
  else print_strings ATCMD s1 [txt_AT; c_name c; suffix; nl_chars s1].

Definition print_cmd_form (s : state) (c : cmd) (avail : bool) (suffix : list N) (next : ctype) : state :=
  if avail then
    let s1 := setk_position 0 s in
    let (s2, ok) := print_current_cmd_full_name s1 c suffix in
    if negb ok then ack_error s2
    else s2 |> start_flush_raw_c CS_PRINT_CMD |> setk_type next
  else setk_type next s.

(* cat.c:2078 (repaired) *)
Definition print_cmd_list (s : state) : state :=
  let i := k_index (k s) in
  match cmd_by_index (d_groups D) i with
  | None => set_fault_flag s
  | Some c =>
    let s := setk_cmd (Some i) s in
    match k_type (k s) with
    | T_NONE =>
      if is_command_disable s i then
        let (s1, more) := cmd_list_next_cmd s in
        if more then s1 else ack_ok s1
      else setk_type (if c_only_test c then T_TEST else T_RUN) s
    | T_RUN => print_cmd_form s c (c_hrun c) [] T_READ
    | T_READ => print_cmd_form s c (c_hread c || vars_access_possible c RO) [ch_QM] T_WRITE
    | T_WRITE => print_cmd_form s c (c_hwrite c || vars_access_possible c WO) [ch_EQ] T_TEST
    | T_TEST =>
      print_cmd_form s c (c_htest c || match c_vars c with [] => false | _ => true end)
                     [ch_EQ; ch_QM] T_TOTAL
    | T_TOTAL =>
      let (s1, more) := cmd_list_next_cmd s in
      if more then s1 else ack_ok s1
    end
  end.

(* cat.c:2006,2015 *)
Definition enable_hold_state (s : state) : state :=
  s |> setk_state CS_HOLD |> setk_hold true |> setk_hold_exit 0%Z.

Definition hold_exit (s : state) (status : Z) : state * Z :=
  if negb (k_hold (k s)) then (s, ST_NOT_HOLD)
  else (setk_hold_exit (if (status =? ST_OK)%Z then 1%Z else (-1)%Z) s, ST_OK).

(* cat.c:2358 *)
Definition process_hold_state (s : state) : state :=
  if (k_hold_exit (k s) =? 0)%Z then s
  else
    let s1 := setk_hold false s in
    if (k_hold_exit (k s) <? 0)%Z then ack_error s1 else ack_ok s1.

(* cat.c:2445,2453 *)
Definition process_io_write_wait (s : state) : state :=
  if negb (ustate_beq (u_state (u s)) US_FLUSH) then setk_state CS_FLUSH s else s.
Definition unsolicited_process_io_write_wait (s : state) : state :=
  if negb (cstate_beq (k_state (k s)) CS_FLUSH) then setu_state US_FLUSH s else s.

Definition wbuf_char (wb : wbuf) (main : list N) (p : nat) : option N :=
  match wb with
  | WB_NL true => nth_error [ch_CR; ch_LF; 0%N] p
  | WB_NL false => nth_error [ch_LF; 0%N] p
  | WB_MAIN => nth_error main p
  end.

(* =============== the part that talks to the environment =============== *)

Variables ioS muS hS : Type.
Variable io_read : ioS -> ioS * option N.
Variable io_write : ioS -> N -> ioS * bool.
Variable mu_lock : muS -> muS * bool.
Variable mu_unlock : muS -> muS * bool.
Variable h_call : hS -> hreq -> hS * hres.

Record world := mkWorld { st : state; io : ioS; mu : muS; hs : hS; tr : list event }.

Definition set_st (v : state) (w : world) : world := mkWorld v (io w) (mu w) (hs w) (tr w).
Definition set_io (v : ioS) (w : world) : world := mkWorld (st w) v (mu w) (hs w) (tr w).
Definition set_mu (v : muS) (w : world) : world := mkWorld (st w) (io w) v (hs w) (tr w).
Definition set_hs (v : hS) (w : world) : world := mkWorld (st w) (io w) (mu w) v (tr w).
Definition logw (e : event) (w : world) : world := mkWorld (st w) (io w) (mu w) (hs w) (e :: tr w).
Definition upd_st (g : state -> state) (w : world) : world := set_st (g (st w)) w.

(* lock; body; unlock — the bracket repeated in every locking API function *)
Definition bracket (w : world) (body : world -> world * Z) : world * Z :=
  if d_mutex D then
    let (m1, ok) := mu_lock (mu w) in
    let w1 := logw (ELock ok) (set_mu m1 w) in
    if negb ok then (w1, ST_MUTEX_LOCK)
    else
      let (w2, s) := body w1 in
      let (m2, ok2) := mu_unlock (mu w2) in
      let w3 := logw (EUnlock ok2) (set_mu m2 w2) in
      if negb ok2 then (w3, ST_MUTEX_UNLOCK) else (w3, s)
  else body w.

(* cat.c:1932 *)
Definition api_trigger (w : world) (ci : nat) (t : ctype) : world * Z :=
  bracket w (fun w => let (s', r) := push_unsolicited_cmd (st w) ci t in (set_st s' w, r)).
(* cat.c:2375 *)
Definition api_hold_exit (w : world) (status : Z) : world * Z :=
  bracket w (fun w => let (s', r) := hold_exit (st w) status in (set_st s' w, r)).

Definition apply_icall (w : world) (c : icall) : world :=
  let (w', r) := match c with
                 | ITrigger ci t => api_trigger w ci t
                 | IHoldExit status => api_hold_exit w status
                 end in
  logw (EInner c r) w'.

Definition apply_poke (s : state) (p : nat * list N) : state :=
  match nth_error (mem s) (fst p) with
  | None => s
  | Some data =>
    match store_prefix data (snd p) with
    | None => s                                    (* contract violation: ignored *)
    | Some d => set_mem (upd (mem s) (fst p) d) s
    end
  end.

(* one callback into the application *)
Definition call_h (w : world) (q : hreq) : world * hres :=
  let (hs', r) := h_call (hs w) q in
  let w1 := logw (ECall q (r_code r)) (set_hs hs' w) in
  let w2 := upd_st (fun s => fold_left apply_poke (r_pokes r) s) w1 in
  let w3 := fold_left apply_icall (r_calls r) w2 in
  (w3, r).

(* a read/test handler may replace the NUL-terminated text of its buffer *)
Definition apply_edit (f : fsm) (e : option (list N)) (s : state) : state :=
  match e with
  | None => s
  | Some t =>
    if length t <? g_bsz f s then
      let c := cur_store_list (get_cur f s) 0 (t ++ [0%N]) in
      put_cur f (cur_set_pos c (length t)) s
    else s                                         (* contract violation: ignored *)
  end.

(* cat.c:409 ; gL counts consumed line feeds that end a non-blank line (ghost) *)
Definition read_cmd_char (w : world) : world * bool :=
  let (io', r) := io_read (io w) in
  let w1 := logw (ERd r) (set_io io' w) in
  match r with
  | None => (w1, false)
  | Some ch =>
    let s := st w1 in
    let ch' := if cstate_beq (k_state (k s)) CS_PARSE_COMMAND_ARGS then ch else to_upper ch in
    let s1 := setk_char ch' s in
    let s2 := if (ch' =? ch_LF)%N && negb (cstate_beq (k_state (k s)) CS_IDLE)
              then set_gL (S (gL s1)) s1 else s1 in
    (set_st s2 w1, true)
  end.

Definition busy (w : world) : world * Z := (w, ST_BUSY).

(* a reading state: nothing happens when no byte is available *)
Definition reading (w : world) (body : N -> state -> state) : world * Z :=
  let (w1, got) := read_cmd_char w in
  if negb got then (w1, ST_OK)
  else busy (upd_st (fun s => body (k_char (k s)) s) w1).

(* cat.c:500 *)
Definition error_state (w : world) : world * Z :=
  reading w (fun ch s =>
    if (ch =? ch_LF)%N then ack_error s
    else if (ch =? ch_CR)%N then setk_cr true s
    else s).

(* cat.c:1984 *)
Definition process_idle_state (w : world) : world * Z :=
  reading w (fun ch s =>
    if (ch =? ch_A)%N then setk_state CS_PARSE_PREFIX s
    else if (ch =? ch_LF)%N || (ch =? ch_CR)%N then s
    else setk_state CS_ERROR s).

(* cat.c:534 *)
Definition parse_prefix (w : world) : world * Z :=
  reading w (fun ch s =>
    if (ch =? ch_T)%N then s |> prepare_parse_command |> setk_state CS_PARSE_COMMAND_CHAR
    else if (ch =? ch_LF)%N then ack_error s
    else if (ch =? ch_CR)%N then setk_cr true s
    else setk_state CS_ERROR s).

(* cat.c:700 *)
Definition parse_command (w : world) : world * Z :=
  reading w (fun ch s =>
    if (ch =? ch_LF)%N then
      if negb (k_length (k s) =? 0) then s |> prepare_search_command |> setk_state CS_SEARCH_COMMAND
      else ack_ok s
    else if (ch =? ch_CR)%N then setk_cr true s
    else if (ch =? ch_QM)%N then
      if k_length (k s) =? 0 then setk_state CS_ERROR s
      else s |> setk_type T_READ |> setk_state CS_WAIT_READ_ACK
    else if (ch =? ch_EQ)%N then
      if k_length (k s) =? 0 then setk_state CS_ERROR s
      else s |> setk_type T_WRITE |> prepare_search_command |> setk_state CS_SEARCH_COMMAND
    else if is_name_char ch then
      s |> setk_length (S (k_length (k s))) |> setk_state CS_UPDATE_COMMAND_STATE
    else setk_state CS_ERROR s).

(* cat.c:847 *)
Definition wait_read_acknowledge (w : world) : world * Z :=
  reading w (fun ch s =>
    if (ch =? ch_LF)%N then s |> prepare_search_command |> setk_state CS_SEARCH_COMMAND
    else if (ch =? ch_CR)%N then setk_cr true s
    else setk_state CS_ERROR s).

(* cat.c:912 *)
Definition wait_test_acknowledge (w : world) : world * Z :=
  reading w (fun ch s =>
    if (ch =? ch_LF)%N then start_processing_format_test_args ATCMD s
    else if (ch =? ch_CR)%N then setk_cr true s
    else setk_state CS_ERROR s).

(* cat.c:1878 *)
Definition parse_command_args (w : world) : world * Z :=
  reading w (fun ch s =>
    match cmd_of ATCMD s with
    | None => set_fault_flag s
    | Some c =>
      if (ch =? ch_LF)%N then
        if c_only_test c then ack_error s
        else if vars_access_possible c WO then
          s |> setk_state CS_PARSE_WRITE_ARGS |> setk_position 0 |> setk_index 0 |> setk_var 0
        else if negb (c_hwrite c) then ack_error s
        else s |> setk_index 0 |> setk_state CS_WRITE_LOOP
      else if (ch =? ch_CR)%N then setk_cr true s
      else if (k_length (k s) =? 0) && (ch =? ch_QM)%N
              && (c_htest c || match c_vars c with [] => false | _ => true end)
              && negb (c_implicit c)
      then s |> setk_type T_TEST |> setk_state CS_WAIT_TEST_ACK
      else
        let len := k_length (k s) in
        if asz s <=? len then setk_state CS_ERROR s
        else
          let s1 := s |> set_cbuf (upd (cbuf s) len ch) |> setk_length (S len) in
          if S len <? asz s1 then set_cbuf (upd (cbuf s1) (S len) 0%N) s1
          else setk_state CS_ERROR s1
    end).

(* cat.c:1365 *)
Definition parse_write_args (w : world) : world * Z :=
  let s := st w in
  match g_cmd ATCMD s, cmd_of ATCMD s with
  | Some ci, Some c =>
    match nth_error (c_vars c) (k_var (k s)) with
    | None => busy (upd_st set_fault_flag w)
    | Some v =>
      match nth_error (mem s) (v_slot v) with
      | None => busy (upd_st set_fault_flag w)
      | Some data =>
        let rest := skipn (k_position (k s)) (cbuf s) in
        (* decode + validate: (status, storage, write_size, consumed) *)
        let '(pst, data', wsz, n) := decode_var v rest data in
        let s1 := s |> setk_position (k_position (k s) + n)
                    |> set_mem (upd (mem s) (v_slot v) data') in
        match pst with
        | SFault => busy (set_st (set_fault_flag s1) w)
        | SErr => busy (set_st (ack_error s1) w)
        | SOk comma =>
          (* write_size is only assigned on success *)
          let s2 := setk_write_size wsz s1 in
          let w2 := set_st s2 w in
          let '(w3, failed) :=
            if v_hwrite v then
              let (w', r) := call_h w2 (VWrite ci (k_var (k s)) wsz data') in
              (w', negb (r_code r =? 0)%Z)
            else (w2, false) in
          if failed then busy (upd_st ack_error w3)
          else busy (upd_st (fun s =>
            let idx := S (k_index (k s)) in
            let s := setk_index idx s in
            if (idx <? length (c_vars c)) && comma then setk_var idx s
            else if comma then ack_error s
            else if c_need_all c && negb (idx =? length (c_vars c)) then ack_error s
            else if negb (c_hwrite c) then ack_ok s
            else setk_state CS_WRITE_LOOP s) w3)
        end
      end
    end
  | _, _ => busy (upd_st set_fault_flag w)
  end.

(* cat.c:1783 *)
Definition format_read_args (f : fsm) (w : world) : world * Z :=
  let s := st w in
  match g_cmd f s, cmd_of f s with
  | Some ci, Some c =>
    match nth_error (c_vars c) (g_var f s) with
    | None => busy (upd_st set_fault_flag w)
    | Some v =>
      let '(w1, failed) :=
        if v_hread v then
          let (w', r) := call_h w (VRead f ci (g_var f s)) in (w', negb (r_code r =? 0)%Z)
        else (w, false) in
      if failed then busy (upd_st (end_with_error f) w1)
      else busy (upd_st (fun s =>
        match nth_error (mem s) (v_slot v) with
        | None => set_fault_flag s
        | Some data =>
          let (c1, ok) := fmt_var v data (get_cur f s) in
          let s1 := put_cur f c1 s in
          if negb ok then end_with_error f s1
          else
            let (s2, handled) := next_format_var f s1 in
            if handled then s2
            else if c_hread c then set_loop_state f true s2
            else start_flush_after_ok f s2
        end) w1)
    end
  | _, _ => busy (upd_st set_fault_flag w)
  end.

(* cat.c:1857 *)
Definition format_test_args (f : fsm) (s : state) : state :=
  match cmd_of f s with
  | None => set_fault_flag s
  | Some c =>
    match nth_error (c_vars c) (g_var f s) with
    | None => set_fault_flag s
    | Some v =>
      let (c1, ok) := fmt_info v (get_cur f s) in
      let s1 := put_cur f c1 s in
      if negb ok then end_with_error f s1
      else
        let (s2, handled) := next_format_var f s1 in
        if handled then s2
        else
          let (s3, ok3) := print_response_test f s2 in
          if ok3 then s3 else end_with_error f s3
    end
  end.

(* cat.c:2146 *)
Definition process_write_loop (w : world) : world * Z :=
  let s := st w in
  match g_cmd ATCMD s with
  | None => busy (upd_st set_fault_flag w)
  | Some ci =>
    let (w1, r) := call_h w (HWrite ci (firstn (S (k_length (k s))) (cbuf s))
                                    (k_length (k s)) (k_index (k s))) in
    let code := r_code r in
    busy (upd_st (fun s =>
      if (code =? RC_OK)%Z || (code =? RC_DATA_OK)%Z then ack_ok s
      else if (code =? RC_DATA_NEXT)%Z || (code =? RC_NEXT)%Z then s
      else if (code =? RC_HOLD)%Z then enable_hold_state s
      else ack_error s) w1)
  end.

(* cat.c:2173 *)
Definition process_run_loop (w : world) : world * Z :=
  let s := st w in
  match g_cmd ATCMD s with
  | None => busy (upd_st set_fault_flag w)
  | Some ci =>
    let (w1, r) := call_h w (HRun ci) in
    let code := r_code r in
    busy (upd_st (fun s =>
      if (code =? RC_OK)%Z || (code =? RC_DATA_OK)%Z then ack_ok s
      else if (code =? RC_DATA_NEXT)%Z || (code =? RC_NEXT)%Z then s
      else if (code =? RC_HOLD)%Z then enable_hold_state s
      else if (code =? RC_PRINT_CMD_LIST_OK)%Z then start_print_cmd_list s
      else ack_error s) w1)
  end.

Definition start_flush_after (f : fsm) (ac : cstate) (au : ustate) (s : state) : state :=
  match f with ATCMD => start_flush_c ac s | UNSOL => start_flush_u au s end.

(* cat.c:2220 (rd = true) and cat.c:2295 (rd = false) *)
Definition process_rt_loop (rd : bool) (f : fsm) (w : world) : world * Z :=
  let s := st w in
  match g_cmd f s with
  | None => busy (upd_st set_fault_flag w)
  | Some ci =>
    let text := firstn (S (g_pos f s)) (g_buf f s) in
    let q := if rd then HRead f ci text (g_pos f s) (g_bsz f s)
             else HTest f ci text (g_pos f s) (g_bsz f s) in
    let (w1, r) := call_h w q in
    let code := r_code r in
    busy (upd_st (fun s =>
      let s := apply_edit f (r_edit r) s in
      if (code =? RC_OK)%Z then end_with_ok f s
      else if (code =? RC_DATA_OK)%Z then start_flush_after f CS_AFTER_OK US_AFTER_OK s
      else if (code =? RC_DATA_NEXT)%Z then
        (if rd then start_flush_after f CS_AFTER_FMT_READ US_AFTER_FMT_READ s
         else start_flush_after f CS_AFTER_FMT_TEST US_AFTER_FMT_TEST s)
      else if (code =? RC_NEXT)%Z then
        (if rd then start_processing_format_read_args f s
         else start_processing_format_test_args f s)
      else if (code =? RC_HOLD)%Z then enable_hold_state s
      else if (code =? RC_HOLD_EXIT_OK)%Z then end_with_ok f (fst (hold_exit s ST_OK))
      else if (code =? RC_HOLD_EXIT_ERROR)%Z then end_with_error f (fst (hold_exit s ST_ERROR))
      else if (code =? RC_PRINT_CMD_LIST_OK)%Z && negb rd then
        match f with ATCMD => start_print_cmd_list s | UNSOL => end_with_ok f s end
      else end_with_error f s) w1)
  end.

(* cat.c:2461 ; gR counts completely emitted result codes (ghost) *)
Definition process_io_write (w : world) : world * Z :=
  let s := st w in
  match wbuf_char (k_wbuf (k s)) (cbuf s) (k_position (k s)) with
  | None => busy (upd_st set_fault_flag w)
  | Some ch =>
    if (ch =? 0)%N then
      busy (upd_st (fun s =>
        match k_wstate (k s) with
        | WS_BEFORE => s |> setk_position 0 |> setk_wbuf WB_MAIN |> setk_wstate WS_MAIN
        | WS_MAIN => s |> setk_position 0 |> setk_wbuf (WB_NL (k_cr (k s))) |> setk_wstate WS_AFTER
        | WS_AFTER =>
          let s1 := setk_state (k_wafter (k s)) s in
          if cstate_beq (k_wafter (k s)) CS_AFTER_RESET then set_gR (S (gR s1)) s1 else s1
        end) w)
    else
      let (io', ok) := io_write (io w) ch in
      let w1 := logw (EWr ATCMD ch ok) (set_io io' w) in
      if ok then busy (upd_st (fun s => setk_position (S (k_position (k s))) s) w1)
      else busy w1
  end.

(* cat.c:2493 *)
Definition unsolicited_process_io_write (w : world) : world * Z :=
  let s := st w in
  match wbuf_char (u_wbuf (u s)) (ubuf s) (u_position (u s)) with
  | None => busy (upd_st set_fault_flag w)
  | Some ch =>
    if (ch =? 0)%N then
      busy (upd_st (fun s =>
        match u_wstate (u s) with
        | WS_BEFORE => s |> setu_position 0 |> setu_wbuf WB_MAIN |> setu_wstate WS_MAIN
        | WS_MAIN => s |> setu_position 0 |> setu_wbuf (WB_NL (k_cr (k s))) |> setu_wstate WS_AFTER
        | WS_AFTER => setu_state (u_wafter (u s)) s
        end) w)
    else
      let (io', ok) := io_write (io w) ch in
      let w1 := logw (EWr UNSOL ch ok) (set_io io' w) in
      if ok then busy (upd_st (fun s => setu_position (S (u_position (u s))) s) w1)
      else busy w1
  end.

(* cat.c:1961 *)
Definition check_unsolicited_buffers (s : state) : state :=
  let (s1, it) := pop_unsolicited_cmd s in
  match it with
  | None => s1
  | Some (ci, t) =>
    let s2 := s1 |> setu_cmd (Some ci) |> setu_type t in
    match t with
    | T_READ => start_processing_format_read_args UNSOL s2
    | T_TEST => start_processing_format_test_args UNSOL s2
    | _ => s2
    end
  end.

(* cat.c:2523 (repaired) *)
Definition unsolicited_events_service (w : world) : world * Z :=
  match u_state (u (st w)) with
  | US_IDLE =>
    if negb (ring_empty (st w)) then
      let w1 := match ring_items (st w) with
                | it :: _ => logw (EPop (fst it) (snd it)) w
                | [] => w
                end in
      busy (upd_st check_unsolicited_buffers w1)
    else (w, ST_OK)
  | US_FORMAT_READ_ARGS => format_read_args UNSOL w
  | US_FORMAT_TEST_ARGS => busy (upd_st (format_test_args UNSOL) w)
  | US_READ_LOOP => process_rt_loop true UNSOL w
  | US_TEST_LOOP => process_rt_loop false UNSOL w
  | US_FLUSH_WAIT => busy (upd_st unsolicited_process_io_write_wait w)
  | US_FLUSH => unsolicited_process_io_write w
  | US_AFTER_RESET => busy (upd_st unsolicited_reset_state w)
  | US_AFTER_OK => busy (upd_st (end_with_ok UNSOL) w)
  | US_AFTER_FMT_READ => busy (upd_st (start_processing_format_read_args UNSOL) w)
  | US_AFTER_FMT_TEST => busy (upd_st (start_processing_format_test_args UNSOL) w)
  end.

(* the switch of cat_service, cat.c:2589 *)
Definition cmd_service (w : world) : world * Z :=
  match k_state (k (st w)) with
  | CS_ERROR => error_state w
  | CS_IDLE => process_idle_state w
  | CS_PARSE_PREFIX => parse_prefix w
  | CS_PARSE_COMMAND_CHAR => parse_command w
  | CS_UPDATE_COMMAND_STATE => busy (upd_st update_command w)
  | CS_WAIT_READ_ACK => wait_read_acknowledge w
  | CS_SEARCH_COMMAND => busy (upd_st search_command w)
  | CS_COMMAND_FOUND => busy (upd_st command_found w)
  | CS_COMMAND_NOT_FOUND => busy (upd_st ack_error w)
  | CS_PARSE_COMMAND_ARGS => parse_command_args w
  | CS_PARSE_WRITE_ARGS => parse_write_args w
  | CS_FORMAT_READ_ARGS => format_read_args ATCMD w
  | CS_WAIT_TEST_ACK => wait_test_acknowledge w
  | CS_FORMAT_TEST_ARGS => busy (upd_st (format_test_args ATCMD) w)
  | CS_WRITE_LOOP => process_write_loop w
  | CS_READ_LOOP => process_rt_loop true ATCMD w
  | CS_TEST_LOOP => process_rt_loop false ATCMD w
  | CS_RUN_LOOP => process_run_loop w
  | CS_HOLD => busy (upd_st process_hold_state w)
  | CS_FLUSH_WAIT => busy (upd_st process_io_write_wait w)
  | CS_FLUSH => process_io_write w
  | CS_AFTER_RESET => busy (upd_st reset_state w)
  | CS_AFTER_OK => busy (upd_st ack_ok w)
  | CS_AFTER_FMT_READ => busy (upd_st (start_processing_format_read_args ATCMD) w)
  | CS_AFTER_FMT_TEST => busy (upd_st (start_processing_format_test_args ATCMD) w)
  | CS_PRINT_CMD => busy (upd_st print_cmd_list w)
  end.

(* cat.c:2577 between lock and unlock *)
Definition service_body (w : world) : world * Z :=
  let (w1, us) := unsolicited_events_service w in
  let (w2, s) := cmd_service w1 in
  if negb (us =? ST_OK)%Z || negb (ustate_beq (u_state (u (st w2))) US_IDLE)
  then (w2, ST_BUSY) else (w2, s).

Definition api_service (w : world) : world * Z := bracket w service_body.
Definition api_is_busy (w : world) : world * Z := bracket w (fun w => (w, is_busy (st w))).
Definition api_is_hold (w : world) : world * Z := bracket w (fun w => (w, is_hold (st w))).
Definition api_is_full (w : world) : world * Z :=
  bracket w (fun w => (w, if ring_full (st w) then ST_BUFFER_FULL else ST_OK)).

Definition set_flag (l : list bool) (i : nat) (b : bool) : list bool := upd l i b.

Definition do_op (w : world) (o : op) : world * Z :=
  match o with
  | OService => api_service w
  | OTrigger ci t => api_trigger w ci t
  | OHoldExit status => api_hold_exit w status
  | OIsBusy => api_is_busy w
  | OIsHold => api_is_hold w
  | OIsFull => api_is_full w
  | OIsBuffered ci t => (w, is_event_buffered (st w) ci t)
  | OGetProcessed f => (w, get_processed (st w) f)
  | OSetCmdDisable i b => (upd_st (fun s => set_dis_cmd (set_flag (dis_cmd s) i b) s) w, 0%Z)
  | OSetGroupDisable g b => (upd_st (fun s => set_dis_grp (set_flag (dis_grp s) g b) s) w, 0%Z)
  end.

Definition step (w : world) (o : op) : world :=
  let (w', r) := do_op w o in logw (ERet o r) w'.

Definition run (w : world) (ops : list op) : world := fold_left step ops w.

End Machine.

(* cat.c:454 cat_init *)
Definition init_cfsm : cfsm :=
  mkCfsm 0 0 0 0 0 None 0 T_NONE 0%N CS_IDLE false false 0%Z (WB_NL false) WS_BEFORE CS_IDLE false.
Definition init_ufsm (D : desc) : ufsm :=
  mkUfsm US_IDLE 0 0 None 0 T_NONE (WB_NL false) WS_BEFORE US_IDLE
         (repeat (0, T_NONE) (d_cap D)) 0 0 0.
Definition init_state (D : desc) (m : list (list N)) : state :=
  mkState init_cfsm (init_ufsm D)
          (repeat (d_fill D) (asz_of D)) (repeat (d_fill D) (usz_of D)) m
          (repeat false (ncmds D)) (repeat false (length (d_groups D))) false 0 0 0.
