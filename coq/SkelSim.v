(* SkelSim.v — every step of the model (Fsm.v) is a step of the control skeleton (Skel.v). *)
From Coq Require Import List NArith ZArith Bool Arith Lia.
From CatV Require Import Bytes Defs Codec Fsm Skel.
Import ListNotations.
Local Open Scope nat_scope.

(* ---------- tactics ---------- *)
Ltac brk :=
  match goal with
  | |- context [negb ?b] => is_var b; destruct b; cbn [negb]
  | |- context [let (_, _) := ?x in _] => let E := fresh "E" in destruct x eqn:E
  | |- context [match ?x with _ => _ end] => is_var x; destruct x
  | |- context [match ?x with _ => _ end] => let E := fresh "E" in destruct x eqn:E
  end.

(* close a goal made of disjunctions / conjunctions / existentials of equalities *)
Ltac disj :=
  solve [ reflexivity | assumption | congruence
        | left; disj | right; disj | split; disj | eexists; disj ].

(* ---------- 1. commutation of ctl_of with the setters ---------- *)
Lemma C_setk_index : forall v s, ctl_of (setk_index v s) = ctl_of s.
Proof. reflexivity. Qed.
Lemma C_setk_partial : forall v s, ctl_of (setk_partial v s) = ctl_of s.
Proof. reflexivity. Qed.
Lemma C_setk_length : forall v s, ctl_of (setk_length v s) = ctl_of s.
Proof. reflexivity. Qed.
Lemma C_setk_position : forall v s, ctl_of (setk_position v s) = ctl_of s.
Proof. reflexivity. Qed.
Lemma C_setk_write_size : forall v s, ctl_of (setk_write_size v s) = ctl_of s.
Proof. reflexivity. Qed.
Lemma C_setk_cmd : forall v s, ctl_of (setk_cmd v s) = ctl_of s.
Proof. reflexivity. Qed.
Lemma C_setk_var : forall v s, ctl_of (setk_var v s) = ctl_of s.
Proof. reflexivity. Qed.
Lemma C_setk_type : forall v s, ctl_of (setk_type v s) = w_cty v (ctl_of s).
Proof. reflexivity. Qed.
Lemma C_setk_char : forall v s, ctl_of (setk_char v s) = w_clf (v =? ch_LF)%N (ctl_of s).
Proof. reflexivity. Qed.
Lemma C_setk_state : forall v s, ctl_of (setk_state v s) = w_ck v (ctl_of s).
Proof. reflexivity. Qed.
Lemma C_setk_cr : forall v s, ctl_of (setk_cr v s) = w_ccr v (ctl_of s).
Proof. reflexivity. Qed.
Lemma C_setk_hold : forall v s, ctl_of (setk_hold v s) = w_chold v (ctl_of s).
Proof. reflexivity. Qed.
Lemma C_setk_hold_exit : forall v s, ctl_of (setk_hold_exit v s) = w_chx v (ctl_of s).
Proof. reflexivity. Qed.
Lemma C_setk_wbuf : forall v s, ctl_of (setk_wbuf v s) = ctl_of s.
Proof. reflexivity. Qed.
Lemma C_setk_wstate : forall v s, ctl_of (setk_wstate v s) = ctl_of s.
Proof. reflexivity. Qed.
Lemma C_setk_wafter : forall v s, ctl_of (setk_wafter v s) = w_cwa v (ctl_of s).
Proof. reflexivity. Qed.
Lemma C_setk_implicit : forall v s, ctl_of (setk_implicit v s) = w_cimp v (ctl_of s).
Proof. reflexivity. Qed.
Lemma C_setu_state : forall v s, ctl_of (setu_state v s) = w_uk v (ctl_of s).
Proof. reflexivity. Qed.
Lemma C_setu_index : forall v s, ctl_of (setu_index v s) = ctl_of s.
Proof. reflexivity. Qed.
Lemma C_setu_position : forall v s, ctl_of (setu_position v s) = ctl_of s.
Proof. reflexivity. Qed.
Lemma C_setu_cmd : forall v s, ctl_of (setu_cmd v s) = ctl_of s.
Proof. reflexivity. Qed.
Lemma C_setu_var : forall v s, ctl_of (setu_var v s) = ctl_of s.
Proof. reflexivity. Qed.
Lemma C_setu_type : forall v s, ctl_of (setu_type v s) = ctl_of s.
Proof. reflexivity. Qed.
Lemma C_setu_wbuf : forall v s, ctl_of (setu_wbuf v s) = ctl_of s.
Proof. reflexivity. Qed.
Lemma C_setu_wstate : forall v s, ctl_of (setu_wstate v s) = ctl_of s.
Proof. reflexivity. Qed.
Lemma C_setu_wafter : forall v s, ctl_of (setu_wafter v s) = w_uwa v (ctl_of s).
Proof. reflexivity. Qed.
Lemma C_setu_ring : forall v s, ctl_of (setu_ring v s) = ctl_of s.
Proof. reflexivity. Qed.
Lemma C_setu_tail : forall v s, ctl_of (setu_tail v s) = ctl_of s.
Proof. reflexivity. Qed.
Lemma C_setu_head : forall v s, ctl_of (setu_head v s) = ctl_of s.
Proof. reflexivity. Qed.
Lemma C_setu_count : forall v s, ctl_of (setu_count v s) = ctl_of s.
Proof. reflexivity. Qed.
Lemma C_set_cbuf : forall v s, ctl_of (set_cbuf v s) = ctl_of s.
Proof. reflexivity. Qed.
Lemma C_set_ubuf : forall v s, ctl_of (set_ubuf v s) = ctl_of s.
Proof. reflexivity. Qed.
Lemma C_set_mem : forall v s, ctl_of (set_mem v s) = ctl_of s.
Proof. reflexivity. Qed.
Lemma C_set_dis_cmd : forall v s, ctl_of (set_dis_cmd v s) = ctl_of s.
Proof. reflexivity. Qed.
Lemma C_set_dis_grp : forall v s, ctl_of (set_dis_grp v s) = ctl_of s.
Proof. reflexivity. Qed.
Lemma C_set_fault : forall v s, ctl_of (set_fault v s) = ctl_of s.
Proof. reflexivity. Qed.
Lemma C_set_gL : forall v s, ctl_of (set_gL v s) = w_gl v (ctl_of s).
Proof. reflexivity. Qed.
Lemma C_set_gS : forall v s, ctl_of (set_gS v s) = w_gs v (ctl_of s).
Proof. reflexivity. Qed.
Lemma C_set_gR : forall v s, ctl_of (set_gR v s) = w_gr v (ctl_of s).
Proof. reflexivity. Qed.
Lemma C_setg_pos : forall f v s, ctl_of (setg_pos f v s) = ctl_of s.
Proof. destruct f; reflexivity. Qed.
Lemma C_setg_buf : forall f v s, ctl_of (setg_buf f v s) = ctl_of s.
Proof. destruct f; reflexivity. Qed.
Lemma C_setg_var : forall f v s, ctl_of (setg_var f v s) = ctl_of s.
Proof. destruct f; reflexivity. Qed.
Lemma C_setg_index : forall f v s, ctl_of (setg_index f v s) = ctl_of s.
Proof. destruct f; reflexivity. Qed.
#[local] Hint Rewrite C_setk_index C_setk_partial C_setk_length C_setk_position C_setk_write_size C_setk_cmd C_setk_var C_setk_type C_setk_char C_setk_state C_setk_cr C_setk_hold C_setk_hold_exit C_setk_wbuf C_setk_wstate C_setk_wafter C_setk_implicit C_setu_state C_setu_index C_setu_position C_setu_cmd C_setu_var C_setu_type C_setu_wbuf C_setu_wstate C_setu_wafter C_setu_ring C_setu_tail C_setu_head C_setu_count C_set_cbuf C_set_ubuf C_set_mem C_set_dis_cmd C_set_dis_grp C_set_fault C_set_gL C_set_gS C_set_gR C_setg_pos C_setg_buf C_setg_var C_setg_index : ctl.

Ltac crw := autorewrite with ctl in *.
(* use the equations [ctl_of s1 = ...] collected on the way (s1 a variable) *)
Ltac cuse :=
  repeat match goal with
         | H : ctl_of ?x = _ |- _ => is_var x; try rewrite H in *; clear H
         end.

Lemma C_set_fault_flag : forall s, ctl_of (set_fault_flag s) = ctl_of s.
Proof. reflexivity. Qed.
Lemma C_put_cur : forall f c s, ctl_of (put_cur f c s) = ctl_of s.
Proof. intros f c s. unfold put_cur. destruct f, (cu_fault c); reflexivity. Qed.
#[local] Hint Rewrite C_set_fault_flag C_put_cur : ctl.

Lemma C_print_string : forall f s t s1 ok, print_string f s t = (s1, ok) -> ctl_of s1 = ctl_of s.
Proof.
  intros f s t s1 ok. unfold print_string. destruct (print_nstring _ _).
  intros [= <- <-]. apply C_put_cur.
Qed.
Lemma C_print_strings : forall f s t s1 ok, print_strings f s t = (s1, ok) -> ctl_of s1 = ctl_of s.
Proof.
  intros f s t s1 ok. unfold print_strings. destruct (print_pieces _ _).
  intros [= <- <-]. apply C_put_cur.
Qed.
Lemma C_apply_edit : forall f e s, ctl_of (apply_edit f e s) = ctl_of s.
Proof.
  intros f e s. unfold apply_edit. destruct e; [|reflexivity].
  destruct (_ <? _); [apply C_put_cur | reflexivity].
Qed.
Lemma C_apply_poke : forall s p, ctl_of (apply_poke s p) = ctl_of s.
Proof.
  intros s p. unfold apply_poke. destruct (nth_error _ _); [|reflexivity].
  destruct (store_prefix _ _); reflexivity.
Qed.
Lemma C_pokes : forall l s, ctl_of (fold_left apply_poke l s) = ctl_of s.
Proof.
  induction l; intros s; cbn [fold_left]; [reflexivity|].
  rewrite IHl. apply C_apply_poke.
Qed.
#[local] Hint Rewrite C_apply_edit C_apply_poke C_pokes : ctl.

Lemma C_start_flush_c : forall a s, ctl_of (start_flush_c a s) = a_start_flush a (ctl_of s).
Proof. reflexivity. Qed.
Lemma C_start_flush_raw_c : forall a s, ctl_of (start_flush_raw_c a s) = a_start_flush a (ctl_of s).
Proof. reflexivity. Qed.
Lemma C_start_flush_u : forall a s, ctl_of (start_flush_u a s) = a_start_flush_u a (ctl_of s).
Proof. reflexivity. Qed.
Lemma C_ack_ok : forall s, ctl_of (ack_ok s) = a_ack (ctl_of s).
Proof. reflexivity. Qed.
Lemma C_ack_error : forall s, ctl_of (ack_error s) = a_ack (ctl_of s).
Proof. reflexivity. Qed.
Lemma C_reset_state : forall s, ctl_of (reset_state s) = a_reset (ctl_of s).
Proof. intros s. unfold reset_state, a_reset. cbn [chold ctl_of]. destruct (k_hold (k s)); reflexivity. Qed.
Lemma C_unsolicited_reset_state : forall s, ctl_of (unsolicited_reset_state s) = a_ureset (ctl_of s).
Proof. reflexivity. Qed.
Lemma C_enable_hold_state : forall s, ctl_of (enable_hold_state s) = a_enable_hold (ctl_of s).
Proof. reflexivity. Qed.
Lemma C_end_with_error : forall f s, ctl_of (end_with_error f s) = a_end f (ctl_of s).
Proof. destruct f; reflexivity. Qed.
Lemma C_end_with_ok : forall f s, ctl_of (end_with_ok f s) = a_end f (ctl_of s).
Proof. destruct f; reflexivity. Qed.
Lemma C_set_loop_state : forall f rd s, ctl_of (set_loop_state f rd s) = a_set_loop f rd (ctl_of s).
Proof. destruct f; reflexivity. Qed.
Lemma C_start_flush_after_ok : forall f s, ctl_of (start_flush_after_ok f s) = a_flush_after_ok f (ctl_of s).
Proof. destruct f; reflexivity. Qed.
Lemma C_start_flush_after : forall f ac au s,
  ctl_of (start_flush_after f ac au s) = a_flush_after f ac au (ctl_of s).
Proof. destruct f; reflexivity. Qed.
Lemma C_prepare_search_command : forall s, ctl_of (prepare_search_command s) = ctl_of s.
Proof. reflexivity. Qed.
Lemma C_prepare_parse_command : forall s, ctl_of (prepare_parse_command s) = w_cty T_RUN (ctl_of s).
Proof. reflexivity. Qed.
#[local] Hint Rewrite C_start_flush_c C_start_flush_raw_c C_start_flush_u C_ack_ok C_ack_error
  C_reset_state C_unsolicited_reset_state C_enable_hold_state C_end_with_error C_end_with_ok
  C_set_loop_state C_start_flush_after_ok C_start_flush_after C_prepare_search_command
  C_prepare_parse_command : ctl.

(* ---------- heff ---------- *)
Lemma heff_refl : forall c, heff c c.
Proof. intros c. left. reflexivity. Qed.
Lemma heff_trans : forall c c1 c2, heff c c1 -> heff c1 c2 -> heff c c2.
Proof.
  intros c c1 c2 [-> | [Hh [z ->]]] H2; [exact H2|].
  destruct H2 as [-> | [_ [z' ->]]].
  - right. split; [exact Hh | exists z; reflexivity].
  - right. split; [exact Hh | exists z'; reflexivity].
Qed.
Lemma heff_hold_exit : forall s z, heff (ctl_of s) (ctl_of (fst (hold_exit s z))).
Proof.
  intros s z. unfold hold_exit. destruct (k_hold (k s)) eqn:E; cbn [negb fst].
  - right. split; [exact E|]. eexists. reflexivity.
  - left. reflexivity.
Qed.

(* ---------- 2. the branching pure functions ---------- *)
Section Pure.
Variable D : desc.

Lemma C_push : forall s ci t, ctl_of (fst (push_unsolicited_cmd D s ci t)) = ctl_of s.
Proof.
  intros s ci t. unfold push_unsolicited_cmd. destruct (ring_full D s); cbn [fst]; [reflexivity|].
  destruct (_ <? _); reflexivity.
Qed.
Lemma C_pop : forall s, ctl_of (fst (pop_unsolicited_cmd D s)) = ctl_of s.
Proof.
  intros s. unfold pop_unsolicited_cmd. destruct (ring_empty s); cbn [fst]; [reflexivity|].
  destruct (nth_error _ _); reflexivity.
Qed.
Lemma C_set_cmd_state : forall s i v, ctl_of (set_cmd_state s i v) = ctl_of s.
Proof. intros s i v. unfold set_cmd_state. destruct (nth_error _ _); reflexivity. Qed.
Hint Rewrite C_set_cmd_state : ctl.

(* print_response_test *)
Lemma prt_sim : forall f s s' ok, print_response_test D f s = (s', ok) ->
  (ok = false /\ ctl_of s' = ctl_of s) \/
  (ok = true /\ (ctl_of s' = a_set_loop f false (ctl_of s) \/ ctl_of s' = a_flush_after_ok f (ctl_of s))).
Proof.
  intros f s s' ok. unfold print_response_test.
  destruct (cmd_of D f s) as [c|]; [|intros [= <- <-]; left; split; reflexivity].
  assert (H : forall s1 ok1,
     (match c_descr c with Some d => print_strings f s [nl_chars s; d] | None => (s, true) end) = (s1, ok1) ->
     ctl_of s1 = ctl_of s).
  { intros s1 ok1. destruct (c_descr c); [apply C_print_strings | intros [= <- <-]; reflexivity]. }
  destruct (match c_descr c with Some d => _ | None => _ end) as [s1 ok1].
  specialize (H _ _ eq_refl).
  destruct ok1; cbn [negb].
  - destruct (c_htest c); intros [= <- <-]; right; split; try reflexivity; crw; rewrite H; auto.
  - intros [= <- <-]. left. auto.
Qed.

(* the fault branch (control fields unchanged) apart from the four real outcomes *)
Lemma spft_strong : forall f s,
  let c := ctl_of s in let s' := start_processing_format_test_args D f s in let c' := ctl_of s' in
  (fault s' = true /\ c' = c) \/ c' = a_end f c \/ c' = a_set_fmt f false c \/
  c' = a_set_loop f false c \/ c' = a_flush_after_ok f c.
Proof.
  intros f s c s' c'. subst c s' c'. unfold start_processing_format_test_args.
  destruct (cmd_of D f (setg_pos f 0 s)) as [c|]; [|left; split; [reflexivity|crw; reflexivity]].
  right.
  destruct (print_string f _ (c_name c)) as [s1 ok1] eqn:E1. apply C_print_string in E1.
  destruct ok1; cbn [negb]; [|crw; cuse; crw; auto].
  destruct (print_string f s1 _) as [s2 ok2] eqn:E2. apply C_print_string in E2.
  destruct ok2; cbn [negb]; [|crw; cuse; crw; auto].
  destruct (c_vars c).
  - destruct (print_response_test D f s2) as [s3 ok3] eqn:E3. apply prt_sim in E3.
    destruct E3 as [[-> E3] | [-> [E3 | E3]]]; crw; cuse; crw; auto 6.
  - destruct f; crw; cuse; crw; auto 6.
Qed.

Lemma spft_sim : forall f s, spft f (ctl_of s) (ctl_of (start_processing_format_test_args D f s)).
Proof.
  intros f s. unfold spft. destruct (spft_strong f s) as [[_ H] | H]; [left; exact H | right; exact H].
Qed.

Lemma spfr_sim : forall f s, spfr f (ctl_of s) (ctl_of (start_processing_format_read_args D f s)).
Proof.
  intros f s. unfold start_processing_format_read_args, spfr.
  destruct (cmd_of D f (setg_pos f 0 s)) as [c|]; [|crw; auto].
  destruct (print_string f _ (c_name c)) as [s1 ok1] eqn:E1. apply C_print_string in E1.
  destruct ok1; cbn [negb]; [|crw; cuse; crw; auto].
  destruct (print_string f s1 _) as [s2 ok2] eqn:E2. apply C_print_string in E2.
  destruct ok2; cbn [negb]; [|crw; cuse; crw; auto].
  destruct (vars_access_possible c RO).
  - destruct f; crw; cuse; crw; auto 6.
  - destruct (c_hread c); cbn [negb]; crw; cuse; crw; auto 6.
Qed.

Lemma nfv_sim : forall f s s' h, next_format_var D f s = (s', h) ->
  ctl_of s' = ctl_of s \/ (h = true /\ ctl_of s' = a_end f (ctl_of s)).
Proof.
  intros f s s' h. unfold next_format_var.
  destruct (cmd_of D f s) as [c|]; [|intros [= <- <-]; crw; auto].
  destruct (_ <? _).
  - destruct (_ <=? _); intros [= <- <-]; crw; auto.
  - intros [= <- <-]; crw; auto.
Qed.

Lemma fta_sim : forall f s, fta_next f (ctl_of s) (ctl_of (format_test_args D f s)).
Proof.
  intros f s. unfold format_test_args, fta_next.
  destruct (cmd_of D f s) as [c|]; [|crw; auto].
  destruct (nth_error _ _) as [v|]; [|crw; auto].
  destruct (fmt_info v _) as [c1 ok].
  destruct ok; cbn [negb]; [|crw; auto].
  destruct (next_format_var D f _) as [s2 h] eqn:E2. apply nfv_sim in E2. crw.
  destruct h.
  - destruct E2 as [E2 | [_ E2]]; rewrite E2; auto.
  - destruct E2 as [E2 | [E2 _]]; [|discriminate].
    destruct (print_response_test D f s2) as [s3 ok3] eqn:E3. apply prt_sim in E3.
    destruct E3 as [[-> E3] | [-> [E3 | E3]]]; crw; cuse; crw; auto 6.
Qed.

Lemma start_list_sim : forall s, start_list (ctl_of s) (ctl_of (start_print_cmd_list D s)).
Proof.
  intros s. unfold start_print_cmd_list, start_list.
  destruct (_ =? _); crw; auto.
Qed.


Lemma w_cimp_id : forall c, w_cimp (cimp c) c = c.
Proof. destruct c; reflexivity. Qed.
Lemma w_cty_id : forall c, w_cty (cty c) c = c.
Proof. destruct c; reflexivity. Qed.

Lemma update_command_sim : forall s, let c := ctl_of s in let c' := ctl_of (update_command D s) in
  exists i, (cimp c = true -> i = true) /\
      (c' = w_cimp i c \/ (i = false /\ c' = (c |> w_cimp i |> w_ck CS_PARSE_COMMAND_CHAR)) \/
       (i = true /\ c' = (c |> w_cty T_WRITE |> w_ck CS_SEARCH_COMMAND |> w_cimp false))).
Proof.
  intros s c c'. subst c c'. unfold update_command.
  destruct (cmd_by_index _ _) as [cm|];
    [|exists (cimp (ctl_of s)); split; [auto|left; crw; rewrite w_cimp_id; reflexivity]].
  destruct (get_cmd_state D s _) as [cs|];
    [|exists (cimp (ctl_of s)); split; [auto|left; crw; rewrite w_cimp_id; reflexivity]].
  match goal with |- context [setk_index (S _) ?X] => remember X as s1 eqn:E1 end.
  assert (H : exists i, (cimp (ctl_of s) = true -> i = true) /\ ctl_of s1 = w_cimp i (ctl_of s)).
  { assert (H0 : forall s0, ctl_of s0 = ctl_of s ->
              exists i, (cimp (ctl_of s) = true -> i = true) /\ ctl_of s0 = w_cimp i (ctl_of s)).
    { intros s0 H0. exists (cimp (ctl_of s)). split; [auto|]. rewrite w_cimp_id. exact H0. }
    subst s1. repeat brk; try (apply H0; crw; reflexivity).
    exists true. split; [auto|]. crw. reflexivity. }
  clear E1. destruct H as [i [Hi H]].
  exists i. split; [exact Hi|].
  destruct (_ <=? _); [|left; crw; exact H].
  change (k_implicit (k (setk_index 0 s1))) with (cimp (ctl_of (setk_index 0 s1))).
  crw. rewrite H. change (cimp (w_cimp i (ctl_of s))) with i.
  destruct i; cbn [negb]; crw; rewrite H.
  - right. right. split; [reflexivity|]. reflexivity.
  - right. left. split; reflexivity.
Qed.


Lemma search_command_sim : forall s, let c := ctl_of s in let c' := ctl_of (search_command D s) in
  c' = c \/ c' = w_ck CS_COMMAND_FOUND c \/ c' = w_ck (if clf c then CS_COMMAND_NOT_FOUND else CS_ERROR) c.
Proof.
  intros s c c'. subst c c'. unfold search_command.
  change (clf (ctl_of s)) with (k_char (k s) =? ch_LF)%N.
  destruct (get_cmd_state D s _) as [cs|]; [|crw; auto].
  repeat brk; crw; auto.
Qed.

Lemma command_found_sim : forall s, let c := ctl_of s in let c' := ctl_of (command_found D s) in
  c' = c \/
  match cty c with
  | T_RUN => c' = a_ack c \/ c' = w_ck CS_RUN_LOOP c
  | T_READ => c' = a_ack c \/ spfr ATCMD c c'
  | T_WRITE => c' = w_ck CS_PARSE_COMMAND_ARGS c
  | _ => c' = a_ack c
  end.
Proof.
  intros s c c'. subst c c'. unfold command_found.
  change (cty (ctl_of s)) with (k_type (k s)).
  destruct (cmd_of D ATCMD s) as [cm|]; [|crw; auto].
  destruct (k_type (k s)); try (crw; auto; fail).
  - destruct (c_only_test cm); [crw; auto|]. destruct (c_hrun cm); cbn [negb]; crw; auto.
  - destruct (c_only_test cm); [crw; auto|]. right. right. apply spfr_sim.
  - right. destruct (cbuf _); crw; reflexivity.
Qed.

Lemma C_cmd_list_next_cmd : forall s s1 more, cmd_list_next_cmd D s = (s1, more) ->
  (more = false /\ ctl_of s1 = ctl_of s) \/
  (more = true /\ ctl_of s1 = (ctl_of s |> w_cty T_NONE |> w_ck CS_PRINT_CMD)).
Proof.
  intros s s1 more. unfold cmd_list_next_cmd. destruct (_ <=? _); intros [= <- <-]; crw; auto.
Qed.

Lemma C_print_current_cmd_full_name : forall s cm sfx s1 ok,
  print_current_cmd_full_name s cm sfx = (s1, ok) -> ctl_of s1 = ctl_of s.
Proof.
  intros s cm sfx s1 ok. unfold print_current_cmd_full_name.
  destruct (k_length (k s) =? 0).
  - destruct (print_string ATCMD s _) as [s' ok'] eqn:E. apply C_print_string in E.
    destruct ok'; cbn [negb].
    + intros H. apply C_print_strings in H. crw. congruence.
    + intros [= <- <-]. exact E.
  - cbn [negb]. apply C_print_strings.
Qed.

Definition print_row (c c' : ctl) : Prop :=
  c' = a_ack c \/
  exists t, c' = w_cty t c \/ c' = (c |> w_cty t |> w_ck CS_PRINT_CMD) \/
            c' = (c |> w_cwa CS_PRINT_CMD |> w_ck CS_FLUSH_WAIT |> w_cty t).

Lemma print_cmd_form_sim : forall s cm av sfx nx, print_row (ctl_of s) (ctl_of (print_cmd_form s cm av sfx nx)).
Proof.
  intros s cm av sfx nx. unfold print_cmd_form, print_row. destruct av.
  - destruct (print_current_cmd_full_name _ _ _) as [s2 ok] eqn:E.
    apply C_print_current_cmd_full_name in E. crw.
    destruct ok; cbn [negb]; crw; rewrite E.
    + right. exists nx. right. right. reflexivity.
    + left. reflexivity.
  - right. exists nx. left. crw. reflexivity.
Qed.

Lemma print_cmd_list_sim : forall s, print_row (ctl_of s) (ctl_of (print_cmd_list D s)).
Proof.
  intros s. unfold print_cmd_list.
  assert (Hnext : forall s0, ctl_of s0 = ctl_of s ->
    print_row (ctl_of s) (ctl_of (let (s1, more) := cmd_list_next_cmd D s0 in if more then s1 else ack_ok s1))).
  { intros s0 H0. destruct (cmd_list_next_cmd D s0) as [s1 more] eqn:E.
    apply C_cmd_list_next_cmd in E. destruct E as [[-> E] | [-> E]]; crw; rewrite E, H0.
    - left. reflexivity.
    - right. exists T_NONE. right. left. reflexivity. }
  assert (Hform : forall s0 cm av sfx nx, ctl_of s0 = ctl_of s ->
    print_row (ctl_of s) (ctl_of (print_cmd_form s0 cm av sfx nx))).
  { intros s0 cm av sfx nx H0. rewrite <- H0. apply print_cmd_form_sim. }
  destruct (cmd_by_index _ _) as [cm|].
  2:{ right. exists (cty (ctl_of s)). left. crw. rewrite w_cty_id. reflexivity. }
  destruct (k_type (k (setk_cmd _ s))); try (apply Hform; reflexivity); try (apply Hnext; reflexivity).
  destruct (is_command_disable _ _ _); [apply Hnext; reflexivity|].
  right. eexists. left. crw. reflexivity.
Qed.

Lemma process_hold_state_sim : forall s, let c := ctl_of s in let c' := ctl_of (process_hold_state s) in
  (chx c = 0%Z /\ c' = c) \/ (chx c <> 0%Z /\ c' = a_ack (w_chold false c)).
Proof.
  intros s c c'. subst c c'. unfold process_hold_state.
  change (chx (ctl_of s)) with (k_hold_exit (k s)).
  destruct (Z.eqb_spec (k_hold_exit (k s)) 0) as [E|E]; [left; auto|].
  right. split; [exact E|]. destruct (_ <? _)%Z; crw; reflexivity.
Qed.

Lemma process_io_write_wait_sim : forall s, let c := ctl_of s in let c' := ctl_of (process_io_write_wait s) in
  c' = c \/ (uk c <> US_FLUSH /\ c' = w_ck CS_FLUSH c).
Proof.
  intros s c c'. subst c c'. unfold process_io_write_wait.
  change (uk (ctl_of s)) with (u_state (u s)).
  destruct (u_state (u s)); cbn [ustate_beq negb]; crw; auto; right; split; auto; discriminate.
Qed.

Lemma unsolicited_process_io_write_wait_sim : forall s,
  let c := ctl_of s in let c' := ctl_of (unsolicited_process_io_write_wait s) in
  c' = c \/ (ck c <> CS_FLUSH /\ c' = w_uk US_FLUSH c).
Proof.
  intros s c c'. subst c c'. unfold unsolicited_process_io_write_wait.
  change (ck (ctl_of s)) with (k_state (k s)).
  destruct (k_state (k s)); cbn [cstate_beq negb]; crw; auto; right; split; auto; discriminate.
Qed.

Lemma check_unsolicited_buffers_sim : forall s,
  let c := ctl_of s in let c' := ctl_of (check_unsolicited_buffers D s) in
  c' = c \/ spfr UNSOL c c' \/ spft UNSOL c c'.
Proof.
  intros s c c'. subst c c'. unfold check_unsolicited_buffers.
  pose proof (C_pop s) as H. destruct (pop_unsolicited_cmd D s) as [s1 it]. cbn [fst] in H.
  destruct it as [[ci t]|]; [|auto].
  rewrite <- H.
  destruct t; try (left; crw; reflexivity).
  - right. left.
    replace (ctl_of s1) with (ctl_of (setu_type T_READ (setu_cmd (Some ci) s1))) at 1 by reflexivity.
    apply spfr_sim.
  - right. right.
    replace (ctl_of s1) with (ctl_of (setu_type T_TEST (setu_cmd (Some ci) s1))) at 1 by reflexivity.
    apply spft_sim.
Qed.
End Pure.
#[local] Hint Rewrite C_set_cmd_state : ctl.

(* fault setters *)
Create HintDb flt.
Lemma F_setk_index : forall v s, fault (setk_index v s) = fault s.
Proof. reflexivity. Qed.
Lemma F_setk_partial : forall v s, fault (setk_partial v s) = fault s.
Proof. reflexivity. Qed.
Lemma F_setk_length : forall v s, fault (setk_length v s) = fault s.
Proof. reflexivity. Qed.
Lemma F_setk_position : forall v s, fault (setk_position v s) = fault s.
Proof. reflexivity. Qed.
Lemma F_setk_write_size : forall v s, fault (setk_write_size v s) = fault s.
Proof. reflexivity. Qed.
Lemma F_setk_cmd : forall v s, fault (setk_cmd v s) = fault s.
Proof. reflexivity. Qed.
Lemma F_setk_var : forall v s, fault (setk_var v s) = fault s.
Proof. reflexivity. Qed.
Lemma F_setk_type : forall v s, fault (setk_type v s) = fault s.
Proof. reflexivity. Qed.
Lemma F_setk_char : forall v s, fault (setk_char v s) = fault s.
Proof. reflexivity. Qed.
Lemma F_setk_state : forall v s, fault (setk_state v s) = fault s.
Proof. reflexivity. Qed.
Lemma F_setk_cr : forall v s, fault (setk_cr v s) = fault s.
Proof. reflexivity. Qed.
Lemma F_setk_hold : forall v s, fault (setk_hold v s) = fault s.
Proof. reflexivity. Qed.
Lemma F_setk_hold_exit : forall v s, fault (setk_hold_exit v s) = fault s.
Proof. reflexivity. Qed.
Lemma F_setk_wbuf : forall v s, fault (setk_wbuf v s) = fault s.
Proof. reflexivity. Qed.
Lemma F_setk_wstate : forall v s, fault (setk_wstate v s) = fault s.
Proof. reflexivity. Qed.
Lemma F_setk_wafter : forall v s, fault (setk_wafter v s) = fault s.
Proof. reflexivity. Qed.
Lemma F_setk_implicit : forall v s, fault (setk_implicit v s) = fault s.
Proof. reflexivity. Qed.
Lemma F_setu_state : forall v s, fault (setu_state v s) = fault s.
Proof. reflexivity. Qed.
Lemma F_setu_index : forall v s, fault (setu_index v s) = fault s.
Proof. reflexivity. Qed.
Lemma F_setu_position : forall v s, fault (setu_position v s) = fault s.
Proof. reflexivity. Qed.
Lemma F_setu_cmd : forall v s, fault (setu_cmd v s) = fault s.
Proof. reflexivity. Qed.
Lemma F_setu_var : forall v s, fault (setu_var v s) = fault s.
Proof. reflexivity. Qed.
Lemma F_setu_type : forall v s, fault (setu_type v s) = fault s.
Proof. reflexivity. Qed.
Lemma F_setu_wbuf : forall v s, fault (setu_wbuf v s) = fault s.
Proof. reflexivity. Qed.
Lemma F_setu_wstate : forall v s, fault (setu_wstate v s) = fault s.
Proof. reflexivity. Qed.
Lemma F_setu_wafter : forall v s, fault (setu_wafter v s) = fault s.
Proof. reflexivity. Qed.
Lemma F_setu_ring : forall v s, fault (setu_ring v s) = fault s.
Proof. reflexivity. Qed.
Lemma F_setu_tail : forall v s, fault (setu_tail v s) = fault s.
Proof. reflexivity. Qed.
Lemma F_setu_head : forall v s, fault (setu_head v s) = fault s.
Proof. reflexivity. Qed.
Lemma F_setu_count : forall v s, fault (setu_count v s) = fault s.
Proof. reflexivity. Qed.
Lemma F_set_cbuf : forall v s, fault (set_cbuf v s) = fault s.
Proof. reflexivity. Qed.
Lemma F_set_ubuf : forall v s, fault (set_ubuf v s) = fault s.
Proof. reflexivity. Qed.
Lemma F_set_mem : forall v s, fault (set_mem v s) = fault s.
Proof. reflexivity. Qed.
Lemma F_set_dis_cmd : forall v s, fault (set_dis_cmd v s) = fault s.
Proof. reflexivity. Qed.
Lemma F_set_dis_grp : forall v s, fault (set_dis_grp v s) = fault s.
Proof. reflexivity. Qed.
Lemma F_set_gL : forall v s, fault (set_gL v s) = fault s.
Proof. reflexivity. Qed.
Lemma F_set_gS : forall v s, fault (set_gS v s) = fault s.
Proof. reflexivity. Qed.
Lemma F_set_gR : forall v s, fault (set_gR v s) = fault s.
Proof. reflexivity. Qed.
Lemma F_setg_pos : forall f v s, fault (setg_pos f v s) = fault s.
Proof. destruct f; reflexivity. Qed.
Lemma F_setg_buf : forall f v s, fault (setg_buf f v s) = fault s.
Proof. destruct f; reflexivity. Qed.
Lemma F_setg_var : forall f v s, fault (setg_var f v s) = fault s.
Proof. destruct f; reflexivity. Qed.
Lemma F_setg_index : forall f v s, fault (setg_index f v s) = fault s.
Proof. destruct f; reflexivity. Qed.
#[local] Hint Rewrite F_setk_index F_setk_partial F_setk_length F_setk_position F_setk_write_size F_setk_cmd F_setk_var F_setk_type F_setk_char F_setk_state F_setk_cr F_setk_hold F_setk_hold_exit F_setk_wbuf F_setk_wstate F_setk_wafter F_setk_implicit F_setu_state F_setu_index F_setu_position F_setu_cmd F_setu_var F_setu_type F_setu_wbuf F_setu_wstate F_setu_wafter F_setu_ring F_setu_tail F_setu_head F_setu_count F_set_cbuf F_set_ubuf F_set_mem F_set_dis_cmd F_set_dis_grp F_set_gL F_set_gS F_set_gR F_setg_pos F_setg_buf F_setg_var F_setg_index : flt.

(* ---------- 3. the fault flag is only ever raised ---------- *)
Lemma F_set_fault_flag : forall s, fault (set_fault_flag s) = true.
Proof. reflexivity. Qed.
#[local] Hint Rewrite F_set_fault_flag : flt.
Ltac frw := autorewrite with flt in *.
Ltac fauto := frw; eauto with flt.
Ltac ftac := repeat brk; fauto.

Lemma F_put_cur : forall f c s, fault s = true -> fault (put_cur f c s) = true.
Proof. intros f c s H. unfold put_cur. destruct (cu_fault c); fauto. Qed.
#[local] Hint Resolve F_put_cur : flt.
Lemma F_print_string : forall f s t s1 ok, print_string f s t = (s1, ok) -> fault s = true -> fault s1 = true.
Proof. intros f s t s1 ok. unfold print_string. destruct (print_nstring _ _). intros [= <- <-]. fauto. Qed.
Lemma F_print_strings : forall f s t s1 ok, print_strings f s t = (s1, ok) -> fault s = true -> fault s1 = true.
Proof. intros f s t s1 ok. unfold print_strings. destruct (print_pieces _ _). intros [= <- <-]. fauto. Qed.
#[local] Hint Resolve F_print_string F_print_strings : flt.
Lemma F_apply_edit : forall f e s, fault s = true -> fault (apply_edit f e s) = true.
Proof. intros f e s H. unfold apply_edit. ftac. Qed.
Lemma F_apply_poke : forall s p, fault s = true -> fault (apply_poke s p) = true.
Proof. intros s p H. unfold apply_poke. ftac. Qed.
#[local] Hint Resolve F_apply_edit F_apply_poke : flt.
Lemma F_pokes : forall l s, fault s = true -> fault (fold_left apply_poke l s) = true.
Proof. induction l; intros s H; cbn [fold_left]; fauto. Qed.
#[local] Hint Resolve F_pokes : flt.

Lemma F_start_flush_c : forall a s, fault (start_flush_c a s) = fault s. Proof. reflexivity. Qed.
Lemma F_start_flush_raw_c : forall a s, fault (start_flush_raw_c a s) = fault s. Proof. reflexivity. Qed.
Lemma F_start_flush_u : forall a s, fault (start_flush_u a s) = fault s. Proof. reflexivity. Qed.
Lemma F_ack_ok : forall s, fault (ack_ok s) = fault s. Proof. reflexivity. Qed.
Lemma F_ack_error : forall s, fault (ack_error s) = fault s. Proof. reflexivity. Qed.
Lemma F_reset_state : forall s, fault (reset_state s) = fault s.
Proof. intros s. unfold reset_state. destruct (k_hold (k s)); reflexivity. Qed.
Lemma F_unsolicited_reset_state : forall s, fault (unsolicited_reset_state s) = fault s. Proof. reflexivity. Qed.
Lemma F_enable_hold_state : forall s, fault (enable_hold_state s) = fault s. Proof. reflexivity. Qed.
Lemma F_end_with_error : forall f s, fault (end_with_error f s) = fault s. Proof. destruct f; reflexivity. Qed.
Lemma F_end_with_ok : forall f s, fault (end_with_ok f s) = fault s. Proof. destruct f; reflexivity. Qed.
Lemma F_set_loop_state : forall f rd s, fault (set_loop_state f rd s) = fault s. Proof. destruct f; reflexivity. Qed.
Lemma F_start_flush_after_ok : forall f s, fault (start_flush_after_ok f s) = fault s. Proof. destruct f; reflexivity. Qed.
Lemma F_start_flush_after : forall f ac au s, fault (start_flush_after f ac au s) = fault s. Proof. destruct f; reflexivity. Qed.
Lemma F_prepare_search_command : forall s, fault (prepare_search_command s) = fault s. Proof. reflexivity. Qed.
Lemma F_prepare_parse_command : forall s, fault (prepare_parse_command s) = fault s. Proof. reflexivity. Qed.
#[local] Hint Rewrite F_start_flush_c F_start_flush_raw_c F_start_flush_u F_ack_ok F_ack_error
  F_reset_state F_unsolicited_reset_state F_enable_hold_state F_end_with_error F_end_with_ok
  F_set_loop_state F_start_flush_after_ok F_start_flush_after F_prepare_search_command
  F_prepare_parse_command : flt.
Lemma F_hold_exit : forall s z, fault s = true -> fault (fst (hold_exit s z)) = true.
Proof. intros s z H. unfold hold_exit. destruct (k_hold (k s)); cbn [negb fst]; fauto. Qed.
Lemma F_process_hold_state : forall s, fault s = true -> fault (process_hold_state s) = true.
Proof. intros s H. unfold process_hold_state. ftac. Qed.
Lemma F_process_io_write_wait : forall s, fault s = true -> fault (process_io_write_wait s) = true.
Proof. intros s H. unfold process_io_write_wait. ftac. Qed.
Lemma F_unsolicited_process_io_write_wait : forall s, fault s = true -> fault (unsolicited_process_io_write_wait s) = true.
Proof. intros s H. unfold unsolicited_process_io_write_wait. ftac. Qed.
Lemma F_set_cmd_state : forall s i v, fault s = true -> fault (set_cmd_state s i v) = true.
Proof. intros s i v H. unfold set_cmd_state. ftac. Qed.
Lemma F_print_current_cmd_full_name : forall s cm sfx s1 ok,
  print_current_cmd_full_name s cm sfx = (s1, ok) -> fault s = true -> fault s1 = true.
Proof.
  intros s cm sfx s1 ok. unfold print_current_cmd_full_name.
  destruct (k_length (k s) =? 0).
  - destruct (print_string ATCMD s _) as [s' ok'] eqn:E.
    destruct ok'; cbn [negb].
    + intros H H0. eapply F_print_strings; [exact H|]. fauto.
    + intros [= <- <-]. fauto.
  - cbn [negb]. apply F_print_strings.
Qed.
#[local] Hint Resolve F_hold_exit F_process_hold_state F_process_io_write_wait
  F_unsolicited_process_io_write_wait F_set_cmd_state F_print_current_cmd_full_name : flt.
Lemma F_print_cmd_form : forall s cm av sfx nx, fault s = true -> fault (print_cmd_form s cm av sfx nx) = true.
Proof. intros s cm av sfx nx H. unfold print_cmd_form. ftac. Qed.
#[local] Hint Resolve F_print_cmd_form : flt.

Section FPure.
Variable D : desc.
Lemma F_push : forall s ci t, fault s = true -> fault (fst (push_unsolicited_cmd D s ci t)) = true.
Proof. intros s ci t H. unfold push_unsolicited_cmd. destruct (ring_full D s); cbn [fst]; ftac. Qed.
Lemma F_pop : forall s, fault s = true -> fault (fst (pop_unsolicited_cmd D s)) = true.
Proof. intros s H. unfold pop_unsolicited_cmd. destruct (ring_empty s); cbn [fst]; [auto|]. destruct (nth_error _ _); cbn [fst]; fauto. Qed.
Lemma F_prt : forall f s s' ok, print_response_test D f s = (s', ok) -> fault s = true -> fault s' = true.
Proof.
  intros f s s' ok. unfold print_response_test.
  destruct (cmd_of D f s) as [c|]; [|intros [= <- <-]; fauto].
  destruct (c_descr c).
  - destruct (print_strings _ _ _) as [s1 ok1] eqn:E. destruct ok1; cbn [negb].
    + destruct (c_htest c); intros [= <- <-]; fauto.
    + intros [= <- <-]; fauto.
  - cbn [negb]. destruct (c_htest c); intros [= <- <-]; fauto.
Qed.
Hint Resolve F_prt : flt.
Lemma F_spft : forall f s, fault s = true -> fault (start_processing_format_test_args D f s) = true.
Proof. intros f s H. unfold start_processing_format_test_args. ftac. Qed.
Lemma F_spfr : forall f s, fault s = true -> fault (start_processing_format_read_args D f s) = true.
Proof. intros f s H. unfold start_processing_format_read_args. ftac. Qed.
Lemma F_nfv : forall f s s' h, next_format_var D f s = (s', h) -> fault s = true -> fault s' = true.
Proof. intros f s s' h. unfold next_format_var. repeat brk; intros [= <- <-]; fauto. Qed.
Hint Resolve F_spft F_spfr F_nfv : flt.
Lemma F_fta : forall f s, fault s = true -> fault (format_test_args D f s) = true.
Proof. intros f s H. unfold format_test_args. ftac. Qed.
Lemma F_start_list : forall s, fault s = true -> fault (start_print_cmd_list D s) = true.
Proof. intros s H. unfold start_print_cmd_list. ftac. Qed.
Lemma F_update_command : forall s, fault s = true -> fault (update_command D s) = true.
Proof. intros s H. unfold update_command. ftac. Qed.
Lemma F_search_command : forall s, fault s = true -> fault (search_command D s) = true.
Proof. intros s H. unfold search_command. ftac. Qed.
Lemma F_command_found : forall s, fault s = true -> fault (command_found D s) = true.
Proof. intros s H. unfold command_found. ftac. Qed.
Lemma F_cmd_list_next_cmd : forall s s1 more, cmd_list_next_cmd D s = (s1, more) -> fault s = true -> fault s1 = true.
Proof. intros s s1 more. unfold cmd_list_next_cmd. destruct (_ <=? _); intros [= <- <-]; fauto. Qed.
Hint Resolve F_cmd_list_next_cmd : flt.
Lemma F_print_cmd_list : forall s, fault s = true -> fault (print_cmd_list D s) = true.
Proof. intros s H. unfold print_cmd_list. ftac. Qed.
Lemma F_check_unsolicited_buffers : forall s, fault s = true -> fault (check_unsolicited_buffers D s) = true.
Proof.
  intros s H. unfold check_unsolicited_buffers.
  pose proof (F_pop s H) as H1. destruct (pop_unsolicited_cmd D s) as [s1 it]. cbn [fst] in H1.
  ftac.
Qed.
End FPure.
#[local] Hint Resolve F_push F_pop F_prt F_spft F_spfr F_nfv F_fta F_start_list F_update_command
  F_search_command F_command_found F_cmd_list_next_cmd F_print_cmd_list F_check_unsolicited_buffers : flt.

(* ---------- weakening of the fault guard ---------- *)
Lemma cmd_next_weaken : forall (bad bad' : Prop) c c' r,
  (bad -> bad') -> cmd_next bad c c' r -> cmd_next bad' c c' r.
Proof.
  intros bad bad' c c' r Hb H. unfold cmd_next in *.
  destruct (ck c); try exact H.
  - destruct H as [H | [Hr [lf H]]]; [left; exact H|].
    right. split; [exact Hr|]. exists lf. cbv zeta in *.
    destruct H as [[Hl H] | H]; [|right; exact H].
    left. split; [exact Hl|].
    destruct H as [[Hbad H] | H]; [left; split; [apply Hb; exact Hbad | exact H] | right; exact H].
  - destruct H as [H | [Hr [lf H]]]; [left; exact H|].
    right. split; [exact Hr|]. exists lf. cbv zeta in *.
    destruct H as [[Hl H] | H]; [|right; exact H].
    left. split; [exact Hl|].
    destruct H as [[Hbad H] | H]; [left; split; [apply Hb; exact Hbad | exact H] | right; exact H].
Qed.

Lemma svc_next_weaken : forall (bad bad' : Prop) c c' r,
  (bad -> bad') -> svc_next bad c c' r -> svc_next bad' c c' r.
Proof.
  intros bad bad' c c' r Hb [c1 [us [rc [Hu [Hc Hr]]]]].
  exists c1, us, rc. split; [exact Hu|]. split; [|exact Hr].
  eapply cmd_next_weaken; eassumption.
Qed.

Lemma op_next_weaken : forall (bad bad' : Prop) o c c' r,
  (bad -> bad') -> op_next bad o c c' r -> op_next bad' o c c' r.
Proof.
  intros bad bad' o c c' r Hb H. unfold op_next in *.
  destruct o; try exact H.
  destruct H as [H | [r0 [H Hr]]]; [left; exact H|].
  right. exists r0. split; [|exact Hr]. eapply svc_next_weaken; eassumption.
Qed.

(* ---------- 4. the part that talks to the environment ---------- *)
Section Sim.
Variable D : desc.
Variables ioS muS hS : Type.
Variable io_read : ioS -> ioS * option N.
Variable io_write : ioS -> N -> ioS * bool.
Variable mu_lock : muS -> muS * bool.
Variable mu_unlock : muS -> muS * bool.
Variable h_call : hS -> hreq -> hS * hres.
(* scope decision D3: an event-side read/test handler never returns HOLD *)
Definition unsol_req (q : hreq) : bool :=
  match q with HRead UNSOL _ _ _ _ | HTest UNSOL _ _ _ _ => true | _ => false end.
Hypothesis no_uhold : forall hs q, unsol_req q = true -> r_code (snd (h_call hs q)) <> RC_HOLD.

Notation world := (Fsm.world ioS muS hS).
Notation st := (Fsm.st ioS muS hS).
Notation bracket := (Fsm.bracket D ioS muS hS mu_lock mu_unlock).
Notation api_trigger := (Fsm.api_trigger D ioS muS hS mu_lock mu_unlock).
Notation api_hold_exit := (Fsm.api_hold_exit D ioS muS hS mu_lock mu_unlock).
Notation apply_icall := (Fsm.apply_icall D ioS muS hS mu_lock mu_unlock).
Notation call_h := (Fsm.call_h D ioS muS hS mu_lock mu_unlock h_call).
Notation read_cmd_char := (Fsm.read_cmd_char ioS muS hS io_read).
Notation reading := (Fsm.reading ioS muS hS io_read).
Notation parse_write_args := (Fsm.parse_write_args D ioS muS hS mu_lock mu_unlock h_call).
Notation format_read_args := (Fsm.format_read_args D ioS muS hS mu_lock mu_unlock h_call).
Notation process_write_loop := (Fsm.process_write_loop D ioS muS hS mu_lock mu_unlock h_call).
Notation process_run_loop := (Fsm.process_run_loop D ioS muS hS mu_lock mu_unlock h_call).
Notation process_rt_loop := (Fsm.process_rt_loop D ioS muS hS mu_lock mu_unlock h_call).
Notation process_io_write := (Fsm.process_io_write ioS muS hS io_write).
Notation unsolicited_process_io_write := (Fsm.unsolicited_process_io_write ioS muS hS io_write).
Notation cmd_service := (Fsm.cmd_service D ioS muS hS io_read io_write mu_lock mu_unlock h_call).
Notation unsolicited_events_service := (Fsm.unsolicited_events_service D ioS muS hS io_write mu_lock mu_unlock h_call).
Notation service_body := (Fsm.service_body D ioS muS hS io_read io_write mu_lock mu_unlock h_call).
Notation do_op := (Fsm.do_op D ioS muS hS io_read io_write mu_lock mu_unlock h_call).

(* world plumbing, computed away *)
Ltac wsimpl := cbn [Fsm.st Fsm.io Fsm.mu Fsm.hs Fsm.tr Fsm.upd_st Fsm.set_st Fsm.set_io Fsm.set_mu
                    Fsm.set_hs Fsm.logw Fsm.busy fst snd] in *.

Lemma bracket_cases : forall (w : world) body,
  (st (fst (bracket w body)) = st w /\ snd (bracket w body) = ST_MUTEX_LOCK) \/
  exists w1 : world, st w1 = st w /\ st (fst (bracket w body)) = st (fst (body w1)) /\
     (snd (bracket w body) = snd (body w1) \/ snd (bracket w body) = ST_MUTEX_UNLOCK).
Proof.
  intros w body. unfold Fsm.bracket.
  destruct (d_mutex D).
  - destruct (mu_lock _) as [m1 ok]. destruct ok; cbn [negb].
    + right. exists (Fsm.logw ioS muS hS (ELock true) (Fsm.set_mu ioS muS hS m1 w)).
      split; [reflexivity|].
      destruct (body _) as [w2 r]. destruct (mu_unlock _) as [m2 ok2].
      destruct ok2; wsimpl; auto.
    + left. wsimpl. auto.
  - right. exists w. auto.
Qed.

Lemma C_api_trigger : forall (w : world) ci t, ctl_of (st (fst (api_trigger w ci t))) = ctl_of (st w).
Proof.
  intros w ci t. unfold Fsm.api_trigger.
  destruct (bracket_cases w (fun w0 => let (s', r) := push_unsolicited_cmd D (st w0) ci t in (Fsm.set_st ioS muS hS s' w0, r)))
    as [[H _] | [w1 [H1 [H _]]]]; rewrite H; [reflexivity|].
  pose proof (C_push D (st w1) ci t) as H2. destruct (push_unsolicited_cmd D (st w1) ci t).
  wsimpl. congruence.
Qed.
Lemma F_api_trigger : forall (w : world) ci t, fault (st w) = true -> fault (st (fst (api_trigger w ci t))) = true.
Proof.
  intros w ci t Hf. unfold Fsm.api_trigger.
  destruct (bracket_cases w (fun w0 => let (s', r) := push_unsolicited_cmd D (st w0) ci t in (Fsm.set_st ioS muS hS s' w0, r)))
    as [[H _] | [w1 [H1 [H _]]]]; rewrite H; [exact Hf|].
  rewrite <- H1 in Hf.
  pose proof (F_push D (st w1) ci t Hf) as H2. destruct (push_unsolicited_cmd D (st w1) ci t).
  wsimpl. congruence.
Qed.
Lemma heff_api_hold_exit : forall (w : world) z, heff (ctl_of (st w)) (ctl_of (st (fst (api_hold_exit w z)))).
Proof.
  intros w z. unfold Fsm.api_hold_exit.
  destruct (bracket_cases w (fun w0 => let (s', r) := hold_exit (st w0) z in (Fsm.set_st ioS muS hS s' w0, r)))
    as [[H _] | [w1 [H1 [H _]]]]; rewrite H; [apply heff_refl|].
  pose proof (heff_hold_exit (st w1) z) as H2. destruct (hold_exit (st w1) z).
  wsimpl. congruence.
Qed.
Lemma F_api_hold_exit : forall (w : world) z, fault (st w) = true -> fault (st (fst (api_hold_exit w z))) = true.
Proof.
  intros w z Hf. unfold Fsm.api_hold_exit.
  destruct (bracket_cases w (fun w0 => let (s', r) := hold_exit (st w0) z in (Fsm.set_st ioS muS hS s' w0, r)))
    as [[H _] | [w1 [H1 [H _]]]]; rewrite H; [exact Hf|].
  rewrite <- H1 in Hf.
  pose proof (F_hold_exit (st w1) z Hf) as H2. destruct (hold_exit (st w1) z).
  wsimpl. congruence.
Qed.

Lemma heff_apply_icall : forall (w : world) ic, heff (ctl_of (st w)) (ctl_of (st (apply_icall w ic))).
Proof.
  intros w ic. unfold Fsm.apply_icall. destruct ic as [ci t | z].
  - pose proof (C_api_trigger w ci t) as H. destruct (api_trigger w ci t). wsimpl. rewrite H. apply heff_refl.
  - pose proof (heff_api_hold_exit w z) as H. destruct (api_hold_exit w z). wsimpl. exact H.
Qed.
Lemma F_apply_icall : forall (w : world) ic, fault (st w) = true -> fault (st (apply_icall w ic)) = true.
Proof.
  intros w ic Hf. unfold Fsm.apply_icall. destruct ic as [ci t | z].
  - pose proof (F_api_trigger w ci t Hf) as H. destruct (api_trigger w ci t). wsimpl. exact H.
  - pose proof (F_api_hold_exit w z Hf) as H. destruct (api_hold_exit w z). wsimpl. exact H.
Qed.
Lemma heff_icalls : forall l (w : world), heff (ctl_of (st w)) (ctl_of (st (fold_left apply_icall l w))).
Proof.
  induction l; intros w; cbn [fold_left]; [apply heff_refl|].
  eapply heff_trans; [apply heff_apply_icall | apply IHl].
Qed.
Lemma F_icalls : forall l (w : world), fault (st w) = true -> fault (st (fold_left apply_icall l w)) = true.
Proof.
  induction l; intros w Hf; cbn [fold_left]; [exact Hf|].
  apply IHl. apply F_apply_icall. exact Hf.
Qed.

Theorem call_h_heff : forall (w : world) q, heff (ctl_of (st w)) (ctl_of (st (fst (call_h w q)))).
Proof.
  intros w q. unfold Fsm.call_h. destruct (h_call _ _) as [hs' r]. cbn [fst].
  eapply heff_trans; [|apply heff_icalls]. wsimpl. crw. apply heff_refl.
Qed.
Lemma F_call_h : forall (w : world) q, fault (st w) = true -> fault (st (fst (call_h w q))) = true.
Proof.
  intros w q Hf. unfold Fsm.call_h. destruct (h_call _ _) as [hs' r]. cbn [fst].
  apply F_icalls. wsimpl. apply F_pokes. exact Hf.
Qed.
Lemma call_h_res : forall (w : world) q, snd (call_h w q) = snd (h_call (Fsm.hs ioS muS hS w) q).
Proof. intros w q. unfold Fsm.call_h. destruct (h_call _ _). reflexivity. Qed.


(* ---- reading states ---- *)
Lemma reading_cases : forall (w : world) body,
  (snd (reading w body) = ST_OK /\ st (fst (reading w body)) = st w) \/
  (snd (reading w body) = ST_BUSY /\ exists ch s1,
      ctl_of s1 = a_read (ch =? ch_LF)%N (ctl_of (st w)) /\ fault s1 = fault (st w) /\
      st (fst (reading w body)) = body ch s1).
Proof.
  intros w body. unfold Fsm.reading, Fsm.read_cmd_char.
  destruct (io_read _) as [io' r]. destruct r as [ch|]; cbn [negb]; wsimpl; [|left; auto].
  right. split; [reflexivity|].
  set (ch' := if cstate_beq _ _ then ch else to_upper ch).
  exists ch'.
  match goal with |- context [body _ ?X] => exists X end.
  split; [|split].
  - unfold a_read. change (ck (ctl_of (st w))) with (k_state (k (st w))).
    destruct (_ && _); reflexivity.
  - destruct (_ && _); reflexivity.
  - destruct (_ && _); reflexivity.
Qed.

Ltac chars :=
  repeat match goal with H : (_ =? _)%N = true |- _ => apply N.eqb_eq in H end; subst.
Ltac contra := solve [chars; discriminate].

(* open a row of cmd_next for the state [Hk] and split the reading function *)
Ltac open_row Hk :=
  unfold cmd_next;
  match goal with |- context [ck (ctl_of ?s)] => change (ck (ctl_of s)) with (k_state (k s)) end;
  rewrite Hk.
Ltac open_reading w f Hk :=
  open_row Hk; unfold f;
  match goal with |- context [reading w ?b] =>
    let Hr := fresh "Hr" in let Hs := fresh "Hs" in let Hc := fresh "Hc" in let Hf := fresh "Hf" in
    let ch := fresh "ch" in let s1 := fresh "s1" in
    destruct (reading_cases w b) as [[Hr Hs] | [Hr [ch [s1 [Hc [Hf Hs]]]]]]; rewrite Hr, Hs;
    [left; split; reflexivity
    |right; split; [reflexivity|]; exists (ch =? ch_LF)%N; cbv zeta beta; rewrite <- Hc;
     clear Hr Hs Hc Hf; destruct (ch =? ch_LF)%N eqn:ELF]
  end.
Ltac body_tac := repeat (cbn [orb andb negb]; brk); try contra; crw; disj.

Lemma process_idle_state_sim : forall (w : world) bad, k_state (k (st w)) = CS_IDLE ->
  cmd_next bad (ctl_of (st w)) (ctl_of (st (fst (Fsm.process_idle_state ioS muS hS io_read w))))
           (snd (Fsm.process_idle_state ioS muS hS io_read w)).
Proof. intros w bad Hk. open_reading w Fsm.process_idle_state Hk; body_tac. Qed.

Lemma error_state_sim : forall (w : world) bad, k_state (k (st w)) = CS_ERROR ->
  cmd_next bad (ctl_of (st w)) (ctl_of (st (fst (Fsm.error_state ioS muS hS io_read w))))
           (snd (Fsm.error_state ioS muS hS io_read w)).
Proof. intros w bad Hk. open_reading w Fsm.error_state Hk; body_tac. Qed.

Lemma parse_prefix_sim : forall (w : world) bad, k_state (k (st w)) = CS_PARSE_PREFIX ->
  cmd_next bad (ctl_of (st w)) (ctl_of (st (fst (Fsm.parse_prefix ioS muS hS io_read w))))
           (snd (Fsm.parse_prefix ioS muS hS io_read w)).
Proof. intros w bad Hk. open_reading w Fsm.parse_prefix Hk; body_tac. Qed.

Lemma parse_command_sim : forall (w : world) bad, k_state (k (st w)) = CS_PARSE_COMMAND_CHAR ->
  cmd_next bad (ctl_of (st w)) (ctl_of (st (fst (Fsm.parse_command ioS muS hS io_read w))))
           (snd (Fsm.parse_command ioS muS hS io_read w)).
Proof. intros w bad Hk. open_reading w Fsm.parse_command Hk; body_tac. Qed.

Lemma wait_read_acknowledge_sim : forall (w : world) bad, k_state (k (st w)) = CS_WAIT_READ_ACK ->
  cmd_next bad (ctl_of (st w)) (ctl_of (st (fst (Fsm.wait_read_acknowledge ioS muS hS io_read w))))
           (snd (Fsm.wait_read_acknowledge ioS muS hS io_read w)).
Proof. intros w bad Hk. open_reading w Fsm.wait_read_acknowledge Hk; body_tac. Qed.

Lemma parse_command_args_sim : forall (w : world), k_state (k (st w)) = CS_PARSE_COMMAND_ARGS ->
  cmd_next (fault (st (fst (Fsm.parse_command_args D ioS muS hS io_read w))) = true)
           (ctl_of (st w)) (ctl_of (st (fst (Fsm.parse_command_args D ioS muS hS io_read w))))
           (snd (Fsm.parse_command_args D ioS muS hS io_read w)).
Proof. intros w Hk. open_reading w Fsm.parse_command_args Hk; body_tac. Qed.

Lemma wait_test_acknowledge_sim : forall (w : world), k_state (k (st w)) = CS_WAIT_TEST_ACK ->
  cmd_next (fault (st (fst (Fsm.wait_test_acknowledge D ioS muS hS io_read w))) = true)
           (ctl_of (st w)) (ctl_of (st (fst (Fsm.wait_test_acknowledge D ioS muS hS io_read w))))
           (snd (Fsm.wait_test_acknowledge D ioS muS hS io_read w)).
Proof.
  intros w Hk. open_reading w Fsm.wait_test_acknowledge Hk.
  - left. split; [reflexivity|]. apply spft_strong.
  - body_tac.
Qed.

(* ---- states that call the application ---- *)
Ltac learn_call :=
  repeat match goal with
  | E : call_h ?w ?q = (?w', ?r) |- _ =>
      let H := fresh "Hh" in pose proof (call_h_heff w q) as H; rewrite E in H; cbn [fst] in H;
      let H2 := fresh "Hr" in pose proof (call_h_res w q) as H2; rewrite E in H2; cbn [snd] in H2;
      let H3 := fresh "Hf" in pose proof (F_call_h w q) as H3; rewrite E in H3; cbn [fst] in H3;
      clear E
  end.
(* leaves of the form  r = ST_BUSY /\ exists c1, heff c c1 /\ ... ; [fin] closes the rest *)
Ltac wsimplg := cbn [Fsm.st Fsm.io Fsm.mu Fsm.hs Fsm.tr Fsm.upd_st Fsm.set_st Fsm.set_io Fsm.set_mu
                    Fsm.set_hs Fsm.logw Fsm.busy fst snd].
Ltac crwg := autorewrite with ctl.
Ltac heff_leaf fin :=
  split; [reflexivity|];
  first
  [ match goal with
    | Hh : heff _ (ctl_of (st ?w')) |- _ =>
      exists (ctl_of (st w')); split; [wsimpl; autorewrite with ctl in Hh; exact Hh|]
    end; wsimplg; crwg; fin
  | match goal with
    | |- exists c1, heff ?c c1 /\ _ => exists c; split; [apply heff_refl|]
    end; wsimplg; crwg; fin ].

Ltac brk2 :=
  match goal with
  | |- context [let (_, _) := (if ?b then _ else _) in _] => let E := fresh "E" in destruct b eqn:E
  | |- context [let (_, _) := (let (_, _) := ?x in _) in _] => let E := fresh "E" in destruct x eqn:E
  | _ => brk
  end.

Lemma parse_write_args_sim : forall (w : world) bad, k_state (k (st w)) = CS_PARSE_WRITE_ARGS ->
  cmd_next bad (ctl_of (st w)) (ctl_of (st (fst (parse_write_args w)))) (snd (parse_write_args w)).
Proof.
  intros w bad Hk. open_row Hk. unfold Fsm.parse_write_args.
  repeat brk2; learn_call; heff_leaf ltac:(repeat brk; crwg; disj).
Qed.

Ltac use_nfv :=
  match goal with
  | E : next_format_var _ _ _ = _ |- _ =>
    apply nfv_sim in E; autorewrite with ctl in E; destruct E as [E | [? E]]; try congruence; rewrite E
  end.

Lemma format_read_args_sim : forall f (w : world),
  snd (format_read_args f w) = ST_BUSY /\
  fra_next f (ctl_of (st w)) (ctl_of (st (fst (format_read_args f w)))).
Proof.
  intros f w. unfold fra_next, Fsm.format_read_args.
  repeat brk2; learn_call; heff_leaf ltac:(repeat brk; crwg; try use_nfv; crwg; disj).
Qed.

Lemma process_write_loop_sim : forall (w : world) bad, k_state (k (st w)) = CS_WRITE_LOOP ->
  cmd_next bad (ctl_of (st w)) (ctl_of (st (fst (process_write_loop w)))) (snd (process_write_loop w)).
Proof.
  intros w bad Hk. open_row Hk. unfold Fsm.process_write_loop.
  repeat brk2; learn_call; heff_leaf ltac:(repeat brk; crwg; disj).
Qed.

Lemma process_run_loop_sim : forall (w : world) bad, k_state (k (st w)) = CS_RUN_LOOP ->
  cmd_next bad (ctl_of (st w)) (ctl_of (st (fst (process_run_loop w)))) (snd (process_run_loop w)).
Proof.
  intros w bad Hk. open_row Hk. unfold Fsm.process_run_loop.
  repeat brk2; learn_call;
  heff_leaf ltac:(repeat brk; crwg; try disj; right; right; right; apply start_list_sim).
Qed.

Lemma process_rt_loop_sim : forall rd f (w : world),
  snd (process_rt_loop rd f w) = ST_BUSY /\
  rt_next rd f (ctl_of (st w)) (ctl_of (st (fst (process_rt_loop rd f w)))).
Proof.
  intros rd f w. unfold Fsm.process_rt_loop.
  destruct (g_cmd f (st w)) as [ci|].
  2:{ split; [reflexivity|]. exists (ctl_of (st w)). split; [apply heff_refl|]. left. reflexivity. }
  match goal with |- context [call_h w ?q0] => set (q := q0) end.
  assert (Hq : f = UNSOL -> unsol_req q = true) by (intros ->; subst q; destruct rd; reflexivity).
  clearbody q.
  destruct (call_h w q) as [w1 r] eqn:E. learn_call.
  split; [reflexivity|]. exists (ctl_of (st w1)). split; [exact Hh|]. wsimplg.
  set (s' := apply_edit f (r_edit r) (st w1)).
  assert (Hs : ctl_of s' = ctl_of (st w1)) by apply C_apply_edit.
  rewrite <- Hs. clearbody s'.
  destruct (_ =? RC_OK)%Z; [crwg; disj|].
  destruct (_ =? RC_DATA_OK)%Z; [crwg; disj|].
  destruct (_ =? RC_DATA_NEXT)%Z; [destruct rd; crwg; disj|].
  destruct (_ =? RC_NEXT)%Z.
  { do 4 right. left. destruct rd; [apply spfr_sim | apply spft_sim]. }
  destruct (Z.eqb_spec (r_code r) RC_HOLD) as [EH|_].
  { destruct f.
    - do 5 right. left. split; [reflexivity|]. crwg. reflexivity.
    - exfalso. apply (no_uhold (Fsm.hs ioS muS hS w) q (Hq eq_refl)). rewrite <- Hr. exact EH. }
  destruct (_ =? RC_HOLD_EXIT_OK)%Z.
  { do 6 right. left. exists (ctl_of (fst (hold_exit s' ST_OK))).
    split; [apply heff_hold_exit | crwg; reflexivity]. }
  destruct (_ =? RC_HOLD_EXIT_ERROR)%Z.
  { do 6 right. left. exists (ctl_of (fst (hold_exit s' ST_ERROR))).
    split; [apply heff_hold_exit | crwg; reflexivity]. }
  destruct (_ && _) eqn:EP.
  { destruct f; [|crwg; disj].
    do 7 right. apply andb_prop in EP. destruct EP as [_ EP]. destruct rd; [discriminate|].
    split; [reflexivity|]. split; [reflexivity|]. apply start_list_sim. }
  crwg. disj.
Qed.

(* ---- the flush engines ---- *)
Lemma process_io_write_sim : forall (w : world) bad, k_state (k (st w)) = CS_FLUSH ->
  cmd_next bad (ctl_of (st w)) (ctl_of (st (fst (process_io_write w)))) (snd (process_io_write w)).
Proof.
  intros w bad Hk. open_row Hk. unfold Fsm.process_io_write.
  destruct (wbuf_char _ _ _) as [ch|]; [|split; [reflexivity|left; reflexivity]].
  destruct (ch =? 0)%N.
  - split; [reflexivity|]. wsimplg. destruct (k_wstate _); try (left; reflexivity).
    right. change (cwa (ctl_of (st w))) with (k_wafter (k (st w))).
    change (gr (ctl_of (st w))) with (gR (st w)).
    destruct (cstate_beq _ _); reflexivity.
  - destruct (io_write _ _) as [io' ok]. destruct ok; split; try reflexivity; left; reflexivity.
Qed.

Lemma unsolicited_process_io_write_sim : forall (w : world), u_state (u (st w)) = US_FLUSH ->
  uns_next (ctl_of (st w)) (ctl_of (st (fst (unsolicited_process_io_write w))))
           (snd (unsolicited_process_io_write w)).
Proof.
  intros w Hk. unfold uns_next. change (uk (ctl_of (st w))) with (u_state (u (st w))). rewrite Hk.
  unfold Fsm.unsolicited_process_io_write.
  destruct (wbuf_char _ _ _) as [ch|]; [|split; [reflexivity|left; reflexivity]].
  destruct (ch =? 0)%N.
  - split; [reflexivity|]. wsimplg. destruct (u_wstate _); try (left; reflexivity).
    right. reflexivity.
  - destruct (io_write _ _) as [io' ok]. destruct ok; split; try reflexivity; left; reflexivity.
Qed.

(* ---- the two machines ---- *)
Theorem cmd_service_sim : forall w : world,
  cmd_next (fault (st (fst (cmd_service w))) = true)
           (ctl_of (st w)) (ctl_of (st (fst (cmd_service w)))) (snd (cmd_service w)).
Proof.
  intros w. unfold Fsm.cmd_service. destruct (k_state (k (st w))) eqn:Hk.
  - apply error_state_sim; exact Hk.
  - apply process_idle_state_sim; exact Hk.
  - apply parse_prefix_sim; exact Hk.
  - apply parse_command_sim; exact Hk.
  - open_row Hk. split; [reflexivity|]. apply update_command_sim.
  - apply wait_read_acknowledge_sim; exact Hk.
  - open_row Hk. split; [reflexivity|]. apply search_command_sim.
  - open_row Hk. split; [reflexivity|]. apply command_found_sim.
  - open_row Hk. split; reflexivity.
  - apply parse_command_args_sim; exact Hk.
  - apply parse_write_args_sim; exact Hk.
  - open_row Hk. apply format_read_args_sim.
  - apply wait_test_acknowledge_sim; exact Hk.
  - open_row Hk. split; [reflexivity|]. apply fta_sim.
  - apply process_write_loop_sim; exact Hk.
  - open_row Hk. apply process_rt_loop_sim.
  - open_row Hk. apply process_rt_loop_sim.
  - apply process_run_loop_sim; exact Hk.
  - open_row Hk. split; [reflexivity|]. apply process_hold_state_sim.
  - open_row Hk. split; [reflexivity|]. apply process_io_write_wait_sim.
  - apply process_io_write_sim; exact Hk.
  - open_row Hk. split; [reflexivity|]. apply C_reset_state.
  - open_row Hk. split; reflexivity.
  - open_row Hk. split; [reflexivity|]. apply spfr_sim.
  - open_row Hk. split; [reflexivity|]. apply spft_sim.
  - open_row Hk. split; [reflexivity|]. apply print_cmd_list_sim.
Qed.

Theorem uns_service_sim : forall w : world,
  uns_next (ctl_of (st w)) (ctl_of (st (fst (unsolicited_events_service w))))
           (snd (unsolicited_events_service w)).
Proof.
  intros w. unfold Fsm.unsolicited_events_service. destruct (u_state (u (st w))) eqn:Hk;
    unfold uns_next; change (uk (ctl_of (st w))) with (u_state (u (st w))); rewrite Hk.
  - destruct (ring_empty (st w)); cbn [negb]; [left; split; reflexivity|].
    right. split; [reflexivity|].
    destruct (ring_items D (st w)); wsimplg; apply check_unsolicited_buffers_sim.
  - apply format_read_args_sim.
  - split; [reflexivity|]. apply fta_sim.
  - apply process_rt_loop_sim.
  - apply process_rt_loop_sim.
  - split; [reflexivity|]. apply unsolicited_process_io_write_wait_sim.
  - pose proof (unsolicited_process_io_write_sim w Hk) as H. unfold uns_next in H.
    change (uk (ctl_of (st w))) with (u_state (u (st w))) in H. rewrite Hk in H. exact H.
  - split; reflexivity.
  - split; reflexivity.
  - split; [reflexivity|]. apply spfr_sim.
  - split; [reflexivity|]. apply spft_sim.
Qed.

(* ---- one service call, any public operation ---- *)
Theorem service_body_sim : forall w : world,
  svc_next (fault (st (fst (service_body w))) = true)
           (ctl_of (st w)) (ctl_of (st (fst (service_body w)))) (snd (service_body w)).
Proof.
  intros w. unfold Fsm.service_body, svc_next.
  pose proof (uns_service_sim w) as Hu. destruct (unsolicited_events_service w) as [w1 us].
  pose proof (cmd_service_sim w1) as Hc. destruct (cmd_service w1) as [w2 s].
  cbn [fst snd] in Hu, Hc.
  exists (ctl_of (st w1)), us, s.
  change (uk (ctl_of (st (fst (if negb (us =? ST_OK)%Z || negb (ustate_beq (u_state (u (st w2))) US_IDLE)
                               then (w2, ST_BUSY) else (w2, s))))))
    with (u_state (u (st (fst (if negb (us =? ST_OK)%Z || negb (ustate_beq (u_state (u (st w2))) US_IDLE)
                               then (w2, ST_BUSY) else (w2, s)))))).
  destruct (negb (us =? ST_OK)%Z || negb (ustate_beq (u_state (u (st w2))) US_IDLE)) eqn:E;
    cbn [fst snd]; rewrite E; auto.
Qed.

Lemma bracket_pure : forall (w : world) (g : world -> Z), st (fst (bracket w (fun w0 => (w0, g w0)))) = st w.
Proof.
  intros w g. destruct (bracket_cases w (fun w0 => (w0, g w0))) as [[H _] | [w1 [H1 [H _]]]];
    rewrite H; [reflexivity | exact H1].
Qed.

Theorem do_op_sim : forall (w : world) o,
  op_next (fault (st (fst (do_op w o))) = true) o
          (ctl_of (st w)) (ctl_of (st (fst (do_op w o)))) (snd (do_op w o)).
Proof.
  intros w o. unfold op_next. destruct o; cbn [Fsm.do_op].
  - unfold Fsm.api_service.
    destruct (bracket_cases w service_body) as [[H Hr] | [w1 [H1 [H Hr]]]]; rewrite H.
    + left. split; [reflexivity | exact Hr].
    + right. exists (snd (service_body w1)). split; [|exact Hr].
      rewrite <- H1. apply service_body_sim.
  - apply C_api_trigger.
  - apply heff_api_hold_exit.
  - unfold Fsm.api_is_busy. rewrite bracket_pure. reflexivity.
  - unfold Fsm.api_is_hold. rewrite bracket_pure. reflexivity.
  - unfold Fsm.api_is_full. rewrite bracket_pure. reflexivity.
  - reflexivity.
  - reflexivity.
  - reflexivity.
  - reflexivity.
Qed.

(* ---- the fault flag is sticky ---- *)
Lemma F_reading : forall (w : world) body,
  (forall ch s, fault s = true -> fault (body ch s) = true) ->
  fault (st w) = true -> fault (st (fst (reading w body))) = true.
Proof.
  intros w body Hb Hf.
  destruct (reading_cases w body) as [[_ Hs] | [_ [ch [s1 [_ [Hf1 Hs]]]]]]; rewrite Hs; [exact Hf|].
  apply Hb. congruence.
Qed.

Ltac fread f := intros w Hf; unfold f; apply F_reading; [|exact Hf]; clear; intros ch s Hf; ftac.

Lemma F_error_state : forall w : world, fault (st w) = true ->
  fault (st (fst (Fsm.error_state ioS muS hS io_read w))) = true.
Proof. fread Fsm.error_state. Qed.
Lemma F_process_idle_state : forall w : world, fault (st w) = true ->
  fault (st (fst (Fsm.process_idle_state ioS muS hS io_read w))) = true.
Proof. fread Fsm.process_idle_state. Qed.
Lemma F_parse_prefix : forall w : world, fault (st w) = true ->
  fault (st (fst (Fsm.parse_prefix ioS muS hS io_read w))) = true.
Proof. fread Fsm.parse_prefix. Qed.
Lemma F_parse_command : forall w : world, fault (st w) = true ->
  fault (st (fst (Fsm.parse_command ioS muS hS io_read w))) = true.
Proof. fread Fsm.parse_command. Qed.
Lemma F_wait_read_acknowledge : forall w : world, fault (st w) = true ->
  fault (st (fst (Fsm.wait_read_acknowledge ioS muS hS io_read w))) = true.
Proof. fread Fsm.wait_read_acknowledge. Qed.
Lemma F_wait_test_acknowledge : forall w : world, fault (st w) = true ->
  fault (st (fst (Fsm.wait_test_acknowledge D ioS muS hS io_read w))) = true.
Proof. fread Fsm.wait_test_acknowledge. Qed.
Lemma F_parse_command_args : forall w : world, fault (st w) = true ->
  fault (st (fst (Fsm.parse_command_args D ioS muS hS io_read w))) = true.
Proof. fread Fsm.parse_command_args. Qed.

Ltac fworld := repeat brk2; learn_call; wsimpl; repeat brk; fauto.

Lemma F_parse_write_args : forall w : world, fault (st w) = true ->
  fault (st (fst (parse_write_args w))) = true.
Proof. intros w Hf. unfold Fsm.parse_write_args. fworld. Qed.
Lemma F_format_read_args : forall f (w : world), fault (st w) = true ->
  fault (st (fst (format_read_args f w))) = true.
Proof. intros f w Hf. unfold Fsm.format_read_args. fworld. Qed.
Lemma F_process_write_loop : forall w : world, fault (st w) = true ->
  fault (st (fst (process_write_loop w))) = true.
Proof. intros w Hf. unfold Fsm.process_write_loop. fworld. Qed.
Lemma F_process_run_loop : forall w : world, fault (st w) = true ->
  fault (st (fst (process_run_loop w))) = true.
Proof. intros w Hf. unfold Fsm.process_run_loop. fworld. Qed.
Lemma F_process_rt_loop : forall rd f (w : world), fault (st w) = true ->
  fault (st (fst (process_rt_loop rd f w))) = true.
Proof. intros rd f w Hf. unfold Fsm.process_rt_loop. fworld. Qed.
Lemma F_process_io_write : forall w : world, fault (st w) = true ->
  fault (st (fst (process_io_write w))) = true.
Proof. intros w Hf. unfold Fsm.process_io_write. fworld. Qed.
Lemma F_unsolicited_process_io_write : forall w : world, fault (st w) = true ->
  fault (st (fst (unsolicited_process_io_write w))) = true.
Proof. intros w Hf. unfold Fsm.unsolicited_process_io_write. fworld. Qed.

Lemma F_cmd_service : forall w : world, fault (st w) = true -> fault (st (fst (cmd_service w))) = true.
Proof.
  intros w Hf. unfold Fsm.cmd_service.
  destruct (k_state (k (st w))); wsimplg;
    eauto using F_error_state, F_process_idle_state, F_parse_prefix, F_parse_command,
      F_wait_read_acknowledge, F_wait_test_acknowledge, F_parse_command_args, F_parse_write_args,
      F_format_read_args, F_process_write_loop, F_process_run_loop, F_process_rt_loop,
      F_process_io_write with flt; fauto.
Qed.
Lemma F_uns_service : forall w : world, fault (st w) = true ->
  fault (st (fst (unsolicited_events_service w))) = true.
Proof.
  intros w Hf. unfold Fsm.unsolicited_events_service.
  destruct (u_state (u (st w))); wsimplg;
    eauto using F_format_read_args, F_process_rt_loop, F_unsolicited_process_io_write with flt;
    try (fauto; fail).
  destruct (ring_empty _); cbn [negb]; [exact Hf|]. destruct (ring_items D _); wsimplg; fauto.
Qed.
Lemma F_service_body : forall w : world, fault (st w) = true -> fault (st (fst (service_body w))) = true.
Proof.
  intros w Hf. unfold Fsm.service_body.
  pose proof (F_uns_service w Hf) as H1. destruct (unsolicited_events_service w) as [w1 us].
  pose proof (F_cmd_service w1 H1) as H2. destruct (cmd_service w1) as [w2 s].
  destruct (_ || _); exact H2.
Qed.
Lemma F_bracket : forall (w : world) body,
  (forall w1 : world, fault (st w1) = true -> fault (st (fst (body w1))) = true) ->
  fault (st w) = true -> fault (st (fst (bracket w body))) = true.
Proof.
  intros w body Hb Hf.
  destruct (bracket_cases w body) as [[H _] | [w1 [H1 [H _]]]]; rewrite H; [exact Hf|].
  apply Hb. congruence.
Qed.

Theorem fault_sticky : forall (w : world) o, fault (st w) = true -> fault (st (fst (do_op w o))) = true.
Proof.
  intros w o Hf. destruct o; cbn [Fsm.do_op].
  - apply F_bracket; [apply F_service_body | exact Hf].
  - apply F_api_trigger; exact Hf.
  - apply F_api_hold_exit; exact Hf.
  - unfold Fsm.api_is_busy. rewrite bracket_pure. exact Hf.
  - unfold Fsm.api_is_hold. rewrite bracket_pure. exact Hf.
  - unfold Fsm.api_is_full. rewrite bracket_pure. exact Hf.
  - exact Hf.
  - exact Hf.
  - exact Hf.
  - exact Hf.
Qed.
End Sim.

Print Assumptions cmd_service_sim.
Print Assumptions uns_service_sim.
Print Assumptions service_body_sim.
Print Assumptions do_op_sim.
Print Assumptions call_h_heff.
Print Assumptions fault_sticky.
Print Assumptions cmd_next_weaken.
Print Assumptions svc_next_weaken.
Print Assumptions op_next_weaken.
