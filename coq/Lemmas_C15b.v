(* Lemmas_C15b.v — property C15, second half: on the scripted always-ready environment every
   cat_service call that does not answer OK strictly decreases a lexicographic measure
   (remaining script entries; pending input + queued events; phase and local counters of the
   event machine; phase and local counters of the command machine); hence quiescence is reached
   after finitely many calls.  The pure step lemmas are in Lemmas_C15ba.v. *)
From Coq Require Import List NArith ZArith Bool Arith Lia Wf_nat.
From CatV Require Import Bytes Defs Codec Fsm Script Skel SkelInv ResolveDefs SchedDefs TermDefs.
From CatV Require Import Lemmas_C03 Lemmas_C12 Lemmas_C15ba.
Import ListNotations.
Local Open Scope nat_scope.

(* ------------------------------------------------------------------ *)
(* the scripted handler oracle                                          *)
(* ------------------------------------------------------------------ *)

Lemma s_call_cases : forall h q,
  (fst (s_call h q) = h /\ snd (s_call h q) = default_res q) \/
  S (script_left (fst (s_call h q))) = script_left h.
Proof.
  induction h as [|[k0 sc] r IH]; intros q.
  - left. split; reflexivity.
  - cbn [s_call]. destruct (key_eqb k0 (key_of q)).
    + destruct sc as [|x sc']; [left; split; reflexivity|]. right. reflexivity.
    + destruct (IH q) as [[A B] | A]; destruct (s_call r q) as [r' x]; cbn [fst snd] in *.
      * left. split; [rewrite A; reflexivity | exact B].
      * right. cbn [script_left fold_right snd] in *. fold (script_left r'). fold (script_left r). lia.
Qed.

Section Scripted.
Variable D : desc.
Variable m : list (list N).
Hypothesis WF : wf_desc D m.

Local Notation st := (Fsm.st sio smu shs).
Local Notation io := (Fsm.io sio smu shs).
Local Notation mu := (Fsm.mu sio smu shs).
Local Notation hs := (Fsm.hs sio smu shs).
Local Notation tr := (Fsm.tr sio smu shs).
Local Notation set_st := (Fsm.set_st sio smu shs).
Local Notation set_io := (Fsm.set_io sio smu shs).
Local Notation set_hs := (Fsm.set_hs sio smu shs).
Local Notation logw := (Fsm.logw sio smu shs).
Local Notation upd_st := (Fsm.upd_st sio smu shs).
Local Notation busy := (Fsm.busy sio smu shs).
Local Notation Safe := (Safe D m).
Local Notation NH := Lemmas_C15ba.NH.
Local Notation PC := (PC D).
Local Notation PU := (PU D).
Local Notation PG := (PG D).
Local Notation cC := (cC D).
Local Notation cU := (cU D).
Local Notation mU := (mU D).

(* scripts: no HOLD any more, inner triggers name pool commands *)
Definition SOK (h : shs) : Prop :=
  script_ok no_hold_res h = true /\ script_ok (res_calls_ok D) h = true.

Lemma SOK_call : forall h q, SOK h ->
  SOK (fst (s_call h q)) /\ no_hold_res (snd (s_call h q)) = true /\
  res_calls_ok D (snd (s_call h q)) = true.
Proof.
  intros h q [A B].
  destruct (s_call_ok no_hold_res) with (h := h) (q := q) as [A1 A2]; [destruct q0; reflexivity | exact A |].
  destruct (s_call_ok (res_calls_ok D)) with (h := h) (q := q) as [B1 B2]; [destruct q0; reflexivity | exact B |].
  split; [split; assumption | split; assumption].
Qed.

Lemma res_calls_ok_Forall : forall r, res_calls_ok D r = true -> Forall (icall_ok D) (r_calls r).
Proof.
  intros r H. unfold res_calls_ok in H. rewrite forallb_forall in H. apply Forall_forall.
  intros c Hc. specialize (H c Hc). destruct c as [ci t|z]; cbn in *; [apply Nat.ltb_lt; exact H | exact I].
Qed.

(* the same oracle with invalid inner calls removed: it satisfies the hypothesis of the safety
   lemmas of Lemmas_C03b for every script state, and agrees with s_call on valid scripts *)
Definition h_san (h : shs) (q : hreq) : shs * hres :=
  let (h', r) := s_call h q in
  (h', if res_calls_ok D r then r else mkHres (r_code r) (r_edit r) (r_pokes r) []).

Lemma h_san_ok : forall h q, Forall (icall_ok D) (r_calls (snd (h_san h q))).
Proof.
  intros h q. unfold h_san. destruct (s_call h q) as [h' r]. cbn [snd].
  destruct (res_calls_ok D r) eqn:E; [apply res_calls_ok_Forall; exact E | constructor].
Qed.

Lemma h_san_eq : forall h q, SOK h -> h_san h q = s_call h q.
Proof.
  intros h q H. destruct (SOK_call h q H) as (_ & _ & C). unfold h_san.
  destruct (s_call h q) as [h' r]. cbn [snd] in C. rewrite C. reflexivity.
Qed.

Local Notation call_h := (Fsm.call_h D sio smu shs s_lock s_unlock s_call).
Local Notation call_h' := (Fsm.call_h D sio smu shs s_lock s_unlock h_san).
Local Notation s_cmd := (Fsm.cmd_service D sio smu shs s_read s_write s_lock s_unlock s_call).
Local Notation s_uns := (Fsm.unsolicited_events_service D sio smu shs s_write s_lock s_unlock s_call).
Local Notation s_cmd' := (Fsm.cmd_service D sio smu shs s_read s_write s_lock s_unlock h_san).
Local Notation s_uns' := (Fsm.unsolicited_events_service D sio smu shs s_write s_lock s_unlock h_san).
Local Notation s_body := (Fsm.service_body D sio smu shs s_read s_write s_lock s_unlock s_call).

Lemma call_h_eq : forall w q, SOK (hs w) -> call_h w q = call_h' w q.
Proof. intros w q H. unfold Fsm.call_h. rewrite h_san_eq by exact H. reflexivity. Qed.

Ltac eq_go H :=
  repeat first [ reflexivity
               | rewrite call_h_eq by (cbn [Fsm.hs Fsm.set_st]; exact H)
               | dm ].

Lemma s_cmd_eq : forall w, SOK (hs w) -> s_cmd w = s_cmd' w.
Proof.
  intros w H. unfold Fsm.cmd_service.
  destruct (k_state (k (st w))); try reflexivity;
    unfold Fsm.parse_write_args, Fsm.format_read_args, Fsm.process_write_loop, Fsm.process_run_loop,
           Fsm.process_rt_loop; cbv zeta; eq_go H.
Qed.

Lemma s_uns_eq : forall w, SOK (hs w) -> s_uns w = s_uns' w.
Proof.
  intros w H. unfold Fsm.unsolicited_events_service.
  destruct (u_state (u (st w))); try reflexivity;
    unfold Fsm.format_read_args, Fsm.process_rt_loop; cbv zeta; eq_go H.
Qed.

Lemma s_cmd_safe : forall w, SOK (hs w) -> Safe (st w) -> Safe (st (fst (s_cmd w))).
Proof.
  intros w H HS. rewrite s_cmd_eq by exact H.
  apply (cmd_service_safe D m WF sio smu shs s_read s_write s_lock s_unlock h_san h_san_ok). exact HS.
Qed.

Lemma s_uns_safe : forall w, SOK (hs w) -> Safe (st w) -> Safe (st (fst (s_uns w))).
Proof.
  intros w H HS. rewrite s_uns_eq by exact H.
  apply (unsolicited_events_service_safe D m WF sio smu shs s_write s_lock s_unlock h_san h_san_ok). exact HS.
Qed.


(* ------------------------------------------------------------------ *)
(* one callback: either the script is exhausted (terminal default, the  *)
(* state is untouched) or one entry is consumed                         *)
(* ------------------------------------------------------------------ *)

Local Notation apply_icall := (Fsm.apply_icall D sio smu shs s_lock s_unlock).

Lemma apply_icall_frame : forall w c, io (apply_icall w c) = io w /\ hs (apply_icall w c) = hs w.
Proof.
  intros w c. destruct c as [ci t|z];
    unfold Fsm.apply_icall, Fsm.api_trigger, Fsm.api_hold_exit, Fsm.bracket;
    repeat (wcbn; dm); wcbn; split; reflexivity.
Qed.

Lemma fold_icall_frame : forall l w,
  io (fold_left apply_icall l w) = io w /\ hs (fold_left apply_icall l w) = hs w.
Proof.
  induction l as [|c l IH]; intros w; [split; reflexivity|]. cbn [fold_left].
  destruct (IH (apply_icall w c)) as [A B]. destruct (apply_icall_frame w c) as [A' B']. split; congruence.
Qed.

(* the event queue never holds more than d_cap events *)
Definition capok (s : state) : Prop := u_count (u s) <= d_cap D.

Lemma push_cap : forall s ci t, capok s -> capok (fst (push_unsolicited_cmd D s ci t)).
Proof.
  intros s ci t H. unfold push_unsolicited_cmd, ring_full, cap, capok in *.
  destruct (Nat.eqb_spec (u_count (u s)) (d_cap D)) as [E|E]; cbn [fst]; [exact H|].
  destruct (_ <? _); sproj; lia.
Qed.

Lemma apply_icall_cap : forall w c, capok (st w) -> capok (st (apply_icall w c)).
Proof.
  intros w c H. unfold Fsm.apply_icall.
  assert (X : capok (st (fst (match c with
                 | ITrigger ci t => Fsm.api_trigger D sio smu shs s_lock s_unlock w ci t
                 | IHoldExit status => Fsm.api_hold_exit D sio smu shs s_lock s_unlock w status end)))).
  { destruct c as [ci t|z]; unfold Fsm.api_trigger, Fsm.api_hold_exit;
      apply (bracket_st D sio smu shs s_lock s_unlock capok); try exact H; intros w' E.
    - pose proof (push_cap (st w') ci t) as Y. rewrite E in *. specialize (Y H).
      destruct (push_unsolicited_cmd D (st w) ci t) as [s' r]. exact Y.
    - unfold hold_exit. rewrite E. destruct (negb _); cbn [fst Fsm.st Fsm.set_st]; exact H. }
  destruct (match c with ITrigger ci t => _ | IHoldExit status => _ end) as [w' r]. exact X.
Qed.

Lemma fold_icall_cap : forall l w, capok (st w) -> capok (st (fold_left apply_icall l w)).
Proof.
  induction l as [|c l IH]; intros w H; [exact H|]. cbn [fold_left]. apply IH, apply_icall_cap, H.
Qed.

Lemma call_h_cases : forall w q, SOK (hs w) ->
  let w1 := fst (call_h w q) in let r := snd (call_h w q) in
  SOK (hs w1) /\ io w1 = io w /\ hrel D m (st w) (st w1) /\ (r_code r =? RC_HOLD)%Z = false /\
  (capok (st w) -> capok (st w1)) /\
  ((st w1 = st w /\ hs w1 = hs w /\ r = default_res q) \/ script_left (hs w1) < script_left (hs w)).
Proof.
  intros w q H. cbv zeta. unfold Fsm.call_h.
  destruct (SOK_call _ q H) as (A & B & C). pose proof (s_call_cases (hs w) q) as Cs.
  destruct (s_call (hs w) q) as [h' r]. cbn [fst snd] in *.
  match goal with |- context [fold_left _ _ ?x] => set (w2 := x) end.
  destruct (fold_icall_frame (r_calls r) w2) as [F1 F2].
  split; [rewrite F2; exact A|]. split; [rewrite F1; reflexivity|].
  split.
  { apply (fold_icall_hrel D m WF); [apply res_calls_ok_Forall; exact C|].
    subst w2. wcbn. apply (fold_poke_hrel D m). apply hrel_refl. }
  split; [unfold no_hold_res in B; apply negb_true_iff in B; exact B|].
  split.
  { intros Hcap. apply fold_icall_cap. subst w2. wcbn. unfold capok. rewrite u_fold_poke. exact Hcap. }
  destruct Cs as [[E1 E2] | E].
  - left. subst h' r. destruct q; cbn [default_res r_calls r_pokes fold_left] in *; subst w2; wcbn; auto.
  - right. rewrite F2. subst w2. wcbn. lia.
Qed.


(* ------------------------------------------------------------------ *)
(* invariant and measure of a scripted world                            *)
(* ------------------------------------------------------------------ *)

Definition Inv' (w : sworld) : Prop :=
  NH (st w) /\ rd_sched (io w) = [] /\ wr_sched (io w) = [] /\ SOK (hs w).
Definition Inv (w : sworld) : Prop := Safe (st w) /\ Inv' w.

Definition M (w : sworld) : list nat :=
  script_left (hs w) :: (length (inq (io w)) + u_count (u (st w))) :: (cU (st w) ++ cC (st w)).

Lemma M_len : forall w, length (M w) = 9.
Proof. intros w. unfold M. cbn [length]. rewrite app_length, cU_len, cC_len. reflexivity. Qed.

Lemma cU_ext : forall s s', u s' = u s -> cU s' = cU s.
Proof. intros s s' E. unfold Lemmas_C15ba.cU, ufl, upre. rewrite E. reflexivity. Qed.

Lemma hrel_NH : forall s s', hrel D m s s' -> NH s -> NH s'.
Proof.
  intros s s' (_ & _ & K & _) [A B]. assert (E := f_equal fst K). unfold kv in E. cbn [fst] in E.
  assert (E1 : k_hold (k s') = k_hold (k s)) by exact (f_equal k_hold E).
  assert (E2 : k_state (k s') = k_state (k s)) by exact (f_equal k_state E).
  split; congruence.
Qed.

(* what one productive step does: a script entry is consumed; or an input byte; or the command
   machine moves down its rank with the event machine untouched; or the event machine pops an
   event / moves down its rank with the command machine's record untouched *)
Definition Prog (w w2 : sworld) : Prop :=
  (script_left (hs w2) < script_left (hs w) /\ inq (io w2) = inq (io w)) \/
  (script_left (hs w2) = script_left (hs w) /\ length (inq (io w2)) < length (inq (io w)) /\
   u (st w2) = u (st w)) \/
  (script_left (hs w2) = script_left (hs w) /\ inq (io w2) = inq (io w) /\
   u (st w2) = u (st w) /\ lexlt (cC (st w2)) (cC (st w))) \/
  (script_left (hs w2) = script_left (hs w) /\ inq (io w2) = inq (io w) /\
   k (st w2) = k (st w) /\ lexlt (mU (st w2)) (mU (st w))).

(* nothing that the measures see has changed *)
Definition Same (w w2 : sworld) : Prop :=
  st w2 = st w /\ script_left (hs w2) = script_left (hs w) /\ inq (io w2) = inq (io w).

Lemma cC_ext : forall s s', k s' = k s -> cC s' = cC s.
Proof. intros s s' E. unfold Lemmas_C15ba.cC, cfl, fpre. rewrite E. reflexivity. Qed.

Lemma Prog_lex : forall w w2, Prog w w2 -> lexlt (M w2) (M w).
Proof.
  intros w w2 [(A & B) | [(A & B & C) | [(A & B & C & E) | (A & B & C & E)]]]; unfold M; cbn [lexlt].
  - left. exact A.
  - right. split; [exact A|]. left. rewrite C. lia.
  - right. split; [exact A|]. right. rewrite B, C. split; [reflexivity|].
    rewrite (cU_ext _ _ C). apply lexlt_app_eq. exact E.
  - right. split; [exact A|]. rewrite B, (cC_ext _ _ C). unfold Lemmas_C15ba.mU in E. cbn [lexlt] in E.
    destruct E as [E | [E1 E2]]; [left; lia|].
    right. split; [lia|]. apply lexlt_app_lt; [rewrite !cU_len; reflexivity | exact E2].
Qed.

Lemma Same_M : forall w w2, Same w w2 -> M w2 = M w.
Proof. intros w w2 (A & B & C). unfold M. rewrite A, B, C. reflexivity. Qed.

(* the same as one number: every script entry is worth a full event queue plus one complete run
   of both machines, every input byte one run of the command machine, every queued event one run
   of the event machine *)
Definition wS : nat := d_cap D * RU D + RU D + RC D.
Definition Phi (w : sworld) : nat :=
  script_left (hs w) * wS + length (inq (io w)) * RC D + u_count (u (st w)) * RU D +
  rU D (st w) + rC D (st w).

Lemma rU_ext : forall s s', u s' = u s -> rU D s' = rU D s.
Proof. intros s s' E. unfold rU. rewrite (cU_ext _ _ E). reflexivity. Qed.
Lemma rC_ext : forall s s', k s' = k s -> rC D s' = rC D s.
Proof. intros s s' E. unfold rC. rewrite (cC_ext _ _ E). reflexivity. Qed.

Lemma Prog_phi : forall w w2, Prog w w2 -> capok (st w2) -> Phi w2 < Phi w.
Proof.
  intros w w2 P Hc. unfold Phi, capok in *.
  pose proof (rU_lt D (st w2)) as HU2. pose proof (rC_lt D (st w2)) as HC2.
  destruct P as [(A & B) | [(A & B & C) | [(A & B & C & E) | (A & B & C & E)]]].
  - rewrite B.
    assert (X1 : S (script_left (hs w2)) * wS <= script_left (hs w) * wS) by (apply Nat.mul_le_mono_r; lia).
    assert (X2 : u_count (u (st w2)) * RU D <= d_cap D * RU D) by (apply Nat.mul_le_mono_r; lia).
    rewrite Nat.mul_succ_l in X1. unfold wS in X1 at 2. lia.
  - rewrite A, C, (rU_ext _ _ C).
    assert (X1 : S (length (inq (io w2))) * RC D <= length (inq (io w)) * RC D) by (apply Nat.mul_le_mono_r; lia).
    rewrite Nat.mul_succ_l in X1. lia.
  - rewrite A, B, C, (rU_ext _ _ C). pose proof (rC_mono D _ _ E). lia.
  - rewrite A, B, (rC_ext _ _ C). unfold Lemmas_C15ba.mU in E. cbn [lexlt] in E.
    destruct E as [E | [E1 E2]].
    + assert (X1 : S (u_count (u (st w2))) * RU D <= u_count (u (st w)) * RU D) by (apply Nat.mul_le_mono_r; lia).
      rewrite Nat.mul_succ_l in X1. lia.
    + rewrite E1. pose proof (rU_mono D _ _ E2). lia.
Qed.

Lemma Same_phi : forall w w2, Same w w2 -> Phi w2 = Phi w.
Proof. intros w w2 (A & B & C). unfold Phi. rewrite A, B, C. reflexivity. Qed.

(* outcome of one step of the command machine / of the event machine *)
Definition StepC (w w2 : sworld) (rc : Z) : Prop :=
  Inv' w2 /\ (capok (st w) -> capok (st w2)) /\
  (Prog w w2 \/
   (Same w w2 /\ k_state (k (st w)) <> CS_FLUSH /\
    (rc = ST_OK \/ (k_state (k (st w)) = CS_FLUSH_WAIT /\ u_state (u (st w)) = US_FLUSH)))).

Definition StepU (w w1 : sworld) (us : Z) : Prop :=
  Inv' w1 /\ (capok (st w) -> capok (st w1)) /\
  (Prog w w1 \/
   (Same w w1 /\
    ((us = ST_OK /\ u_state (u (st w)) = US_IDLE) \/ k_state (k (st w)) = CS_FLUSH))).

(* the io of w1 is that of w up to the (empty) schedules *)
Definition io_same (w w1 : sworld) : Prop :=
  inq (io w1) = inq (io w) /\ rd_sched (io w1) = [] /\ wr_sched (io w1) = [].

Lemma io_same_refl : forall w, Inv w -> io_same w w.
Proof. intros w (_ & _ & R1 & R2 & _). repeat split; assumption. Qed.
Lemma io_same_eq : forall w w1, Inv w -> io w1 = io w -> io_same w w1.
Proof. intros w w1 (_ & _ & R1 & R2 & _) E. unfold io_same. rewrite E. auto. Qed.

Lemma stepC_pure : forall w w1 s' rc, Inv w -> hs w1 = hs w -> io_same w w1 ->
  PC (st w) s' -> StepC w (set_st s' w1) rc.
Proof.
  intros w w1 s' rc (HS & Hnh & R1 & R2 & HK) E2 (I1 & I2 & I3) (A & B & C). split; [|split].
  - unfold Inv'. wcbn. rewrite E2. auto.
  - unfold capok. wcbn. rewrite A. auto.
  - left. right. right. left. wcbn. rewrite E2. auto.
Qed.

Lemma stepU_pure : forall w w1 s' us, Inv w -> hs w1 = hs w -> io_same w w1 ->
  PU (st w) s' -> StepU w (set_st s' w1) us.
Proof.
  intros w w1 s' us (HS & Hnh & R1 & R2 & HK) E2 (I1 & I2 & I3) (K & B & C). split; [|split].
  - unfold Inv'. wcbn. rewrite E2. auto.
  - unfold capok. wcbn. unfold Lemmas_C15ba.mU in C. cbn [lexlt] in C. lia.
  - left. right. right. right. wcbn. rewrite E2. auto.
Qed.

Definition StepG (f : fsm) (w w2 : sworld) (rc : Z) : Prop :=
  match f with ATCMD => StepC w w2 rc | UNSOL => StepU w w2 rc end.

Lemma stepG_pure : forall f w w1 s' rc, Inv w -> hs w1 = hs w -> io_same w w1 ->
  PG f (st w) s' -> StepG f w (set_st s' w1) rc.
Proof. intros [|] w w1 s' rc; [apply stepC_pure | apply stepU_pure]. Qed.

Lemma stepG_consumed : forall f w w2 rc, Inv' w2 -> (capok (st w) -> capok (st w2)) ->
  script_left (hs w2) < script_left (hs w) -> inq (io w2) = inq (io w) ->
  StepG f w w2 rc.
Proof.
  intros f w w2 rc HI Hc H E.
  destruct f; (split; [exact HI | split; [exact Hc | left; left; split; assumption]]).
Qed.

(* elimination principle for one callback *)
Lemma call_split : forall w q (P : sworld * hres -> Prop), SOK (hs w) ->
  (forall w1, st w1 = st w -> hs w1 = hs w -> io w1 = io w -> P (w1, default_res q)) ->
  (forall w1 r, SOK (hs w1) -> io w1 = io w -> hrel D m (st w) (st w1) ->
     (r_code r =? RC_HOLD)%Z = false -> (capok (st w) -> capok (st w1)) ->
     script_left (hs w1) < script_left (hs w) -> P (w1, r)) ->
  P (call_h w q).
Proof.
  intros w q P H Hd Hc. pose proof (call_h_cases w q H) as X. cbv zeta in X.
  destruct (call_h w q) as [w1 r]. cbn [fst snd] in X.
  destruct X as (A & B & C & E & Cp & [(E1 & E2 & E3) | L]).
  - subst r. apply Hd; assumption.
  - apply Hc; assumption.
Qed.


(* ------------------------------------------------------------------ *)
(* the states that call a handler                                       *)
(* ------------------------------------------------------------------ *)

Local Notation process_rt_loop := (Fsm.process_rt_loop D sio smu shs s_lock s_unlock s_call).
Local Notation format_read_args := (Fsm.format_read_args D sio smu shs s_lock s_unlock s_call).
Local Notation process_write_loop := (Fsm.process_write_loop D sio smu shs s_lock s_unlock s_call).
Local Notation process_run_loop := (Fsm.process_run_loop D sio smu shs s_lock s_unlock s_call).
Local Notation parse_write_args := (Fsm.parse_write_args D sio smu shs s_lock s_unlock s_call).

Ltac wred := unfold Fsm.busy, Fsm.upd_st; cbn [fst snd].

Ltac split_call :=
  match goal with |- context [call_h ?w ?q] => pattern (call_h w q); apply call_split end.

Lemma inv'_after : forall w w1 s', Inv w -> SOK (hs w1) -> io w1 = io w -> NH s' -> Inv' (set_st s' w1).
Proof.
  intros w w1 s' (_ & _ & R1 & R2 & _) H E Hn. unfold Inv'. wcbn. rewrite E. auto.
Qed.

Lemma consumed_after : forall f w w1 s' rc, Inv w -> SOK (hs w1) -> io w1 = io w ->
  script_left (hs w1) < script_left (hs w) -> (capok (st w) -> capok (st w1)) ->
  NH s' -> u_count (u s') <= u_count (u (st w1)) -> StepG f w (set_st s' w1) rc.
Proof.
  intros f w w1 s' rc HI H1 E3 L Hcap Hn Hu. apply stepG_consumed.
  - apply (inv'_after w); assumption.
  - intros Hc0. specialize (Hcap Hc0). unfold capok in *. wcbn. lia.
  - wcbn. exact L.
  - wcbn. rewrite E3. reflexivity.
Qed.

Lemma FR_le : forall f s s', FR f s s' -> u_count (u s') <= u_count (u s).
Proof. intros [|] s s' H; cbn in H; rewrite H; lia. Qed.

(* cat.c:2220, 2295 *)
Lemma rt_loop_step : forall rd f w, Inv w -> loop_state f (st w) ->
  StepG f w (fst (process_rt_loop rd f w)) (snd (process_rt_loop rd f w)).
Proof.
  intros rd f w HI Hst. pose proof HI as (HS & Hnh & R1 & R2 & HK).
  unfold Fsm.process_rt_loop. destruct (loop_state_inv D m f _ HS Hst) as [Hc _].
  destruct (g_cmd f (st w)) as [ci|] eqn:Ec; [|destruct Hc]. cbv zeta.
  split_call; [exact HK | |].
  - intros w1 E1 E2 E3. wred. rewrite E1.
    assert (X : PG f (st w) (rt_tail D rd f (mkHres RC_OK None [] []) (st w)))
      by (apply rt_tail_default_PG; assumption).
    destruct rd; (apply stepG_pure; [exact HI | exact E2 | apply io_same_eq; assumption | exact X]).
  - intros w1 r H1 E3 R Hc1 Hcap L. wred.
    pose proof (hrel_NH _ _ R Hnh) as Hn1. pose proof (hrel_loop D m f _ _ R Hst) as Hst1.
    destruct R as (R1' & _). specialize (R1' HS).
    destruct (apply_edit_loop D m f (r_edit r) (st w1) R1' Hst1) as (_ & C2 & _).
    apply (consumed_after f w w1); try assumption.
    + exact (rt_tail_NH D rd f r (st w1) Hn1 Hc1 C2).
    + apply (FR_le f). exact (rt_tail_FR D rd f r (st w1) Hn1 C2).
Qed.


Lemma NH_end_with_error : forall f s, NH s -> NH (end_with_error f s).
Proof. intros f s [A B]. destruct f; unfold end_with_error, ack_error, start_flush_c, unsolicited_reset_state, Lemmas_C15ba.NH; sproj; split; auto; discriminate. Qed.

Lemma PG_NH : forall f s s', PG f s s' -> NH s'.
Proof. intros [|] s s' H; [apply H | apply H]. Qed.

(* cat.c:1783 *)
Lemma format_read_args_step : forall f w, Inv w -> fmt_state f (st w) true ->
  StepG f w (fst (format_read_args f w)) (snd (format_read_args f w)).
Proof.
  intros f w HI Hst. pose proof HI as (HS & Hnh & R1 & R2 & HK).
  unfold Fsm.format_read_args.
  destruct (fmt_state_inv D m f _ true HS Hst) as (Hv & _).
  destruct (var_ok_at D _ _ Hv) as (ci & c & v & E1 & E2 & E3).
  unfold cmd_of, cmd_at. rewrite E1, E2, E3.
  assert (Body : forall s1, Safe s1 -> NH s1 -> fmt_state f s1 true -> g_cmd f s1 = g_cmd f (st w) ->
            g_var f s1 = g_var f (st w) -> PG f s1 (fra_body D f c v s1)).
  { intros s1 S1 N1 F1 G1 G2. apply (fra_body_PG D m WF f s1 ci c v); try assumption; congruence. }
  destruct (v_hread v).
  - split_call; [exact HK | |].
    + intros w1 E1' E2' E3'. cbn [default_res r_code Z.eqb negb]. wred. rewrite E1'.
      apply stepG_pure; [exact HI | exact E2' | apply io_same_eq; assumption |].
      apply Body; auto.
    + intros w1 r H1 E3' R Hc1 Hcap L.
      destruct (hrel_fmt D m f _ _ true R Hst) as (Hst1 & Ec1 & Ev1).
      pose proof (hrel_NH _ _ R Hnh) as Hn1. destruct R as (R1' & _). specialize (R1' HS).
      destruct (negb (r_code r =? 0)%Z); wred; apply (consumed_after f w w1); try assumption.
      * apply NH_end_with_error; exact Hn1.
      * destruct f; cbn; lia.
      * eapply PG_NH. apply Body; assumption.
      * eapply PG_cap. apply Body; assumption.
  - wred. apply stepG_pure; [exact HI | reflexivity | apply io_same_refl; exact HI |]. apply Body; auto.
Qed.

(* cat.c:2146 *)
Lemma write_loop_step : forall w, Inv w -> k_state (k (st w)) = CS_WRITE_LOOP ->
  StepC w (fst (process_write_loop w)) (snd (process_write_loop w)).
Proof.
  intros w HI Hst. pose proof HI as (HS & Hnh & R1 & R2 & HK).
  unfold Fsm.process_write_loop.
  assert (Hc : cmd_ok D (k_cmd (k (st w)))).
  { destruct HS as (_ & HKS & _). unfold KS in HKS. rewrite Hst in HKS. exact HKS. }
  sproj. destruct (k_cmd (k (st w))) as [ci|] eqn:Ec; [|destruct Hc]. cbv zeta.
  split_call; [exact HK | |].
  - intros w1 E1 E2 E3. wred. rewrite E1.
    apply stepC_pure; [exact HI | exact E2 | apply io_same_eq; assumption |].
    exact (write_tail_default_PC D (st w) Hnh Hst).
  - intros w1 r H1 E3 R Hc1 Hcap L. wred. apply (consumed_after ATCMD w w1); try assumption.
    + exact (write_tail_NH (r_code r) (st w1) (hrel_NH _ _ R Hnh) Hc1).
    + match goal with |- u_count (u ?x) <= _ => change x with (write_tail (r_code r) (st w1)) end.
      rewrite write_tail_u. lia.
Qed.

(* cat.c:2173 *)
Lemma run_loop_step : forall w, Inv w -> k_state (k (st w)) = CS_RUN_LOOP ->
  StepC w (fst (process_run_loop w)) (snd (process_run_loop w)).
Proof.
  intros w HI Hst. pose proof HI as (HS & Hnh & R1 & R2 & HK).
  unfold Fsm.process_run_loop.
  assert (Hc : cmd_ok D (k_cmd (k (st w)))).
  { destruct HS as (_ & HKS & _). unfold KS in HKS. rewrite Hst in HKS. exact HKS. }
  sproj. destruct (k_cmd (k (st w))) as [ci|] eqn:Ec; [|destruct Hc]. cbv zeta.
  split_call; [exact HK | |].
  - intros w1 E1 E2 E3. wred. rewrite E1.
    apply stepC_pure; [exact HI | exact E2 | apply io_same_eq; assumption |].
    exact (run_tail_default_PC D (st w) Hnh Hst).
  - intros w1 r H1 E3 R Hc1 Hcap L. wred. apply (consumed_after ATCMD w w1); try assumption.
    + exact (run_tail_NH D (r_code r) (st w1) (hrel_NH _ _ R Hnh) Hc1).
    + match goal with |- u_count (u ?x) <= _ => change x with (run_tail D (r_code r) (st w1)) end.
      rewrite run_tail_u. lia.
Qed.


(* cat.c:1365 *)
Lemma parse_write_args_step : forall w, Inv w -> k_state (k (st w)) = CS_PARSE_WRITE_ARGS ->
  StepC w (fst (parse_write_args w)) (snd (parse_write_args w)).
Proof.
  intros w HI Hst. pose proof HI as (HS & Hnh & R1 & R2 & HK).
  assert (HF : fault (st (fst (parse_write_args w))) = false).
  { pose proof (s_cmd_safe w HK HS) as X. unfold Fsm.cmd_service in X. rewrite Hst in X.
    apply safe_fault in X. exact X. }
  revert HF. unfold Fsm.parse_write_args.
  assert (HKS : var_ok D (k_cmd (k (st w))) (k_var (k (st w)))).
  { destruct HS as (_ & HKS & _). unfold KS in HKS. rewrite Hst in HKS. apply HKS. }
  destruct (var_ok_at D _ _ HKS) as (ci & c & v & E1 & E2 & E3).
  unfold cmd_of, cmd_at. sproj. rewrite E1, E2, E3.
  destruct (nth_error (mem (st w)) (v_slot v)) as [data|]; [|intros HF; discriminate HF].
  destruct (decode_var v _ data) as [[[pst data'] wsz] n].
  set (s1 := set_mem (upd (mem (st w)) (v_slot v) data')
                     (setk_position (k_position (k (st w)) + n) (st w))).
  assert (Hn1 : NH s1) by (destruct Hnh as [A B]; split; assumption).
  assert (Hc1 : cC s1 = cC (st w)) by (unfold Lemmas_C15ba.cC; subst s1; sproj; rewrite Hst; reflexivity).
  destruct pst as [| |comma]; [intros HF; discriminate HF | |]; intros _.
  - wred. apply stepC_pure; [exact HI | reflexivity | apply io_same_refl; exact HI |].
    apply (PC_base D (st w) s1); [|reflexivity | exact Hc1].
    apply ack_error_PC; [exact Hn1|]. unfold Lemmas_C15ba.cC. subst s1. sproj. rewrite Hst. cbn. lia.
  - set (s2 := setk_write_size wsz s1).
    assert (Hn2 : NH s2) by (destruct Hnh as [A B]; split; assumption).
    assert (Hc2 : cC s2 = cC (st w)) by (unfold Lemmas_C15ba.cC; subst s2 s1; sproj; rewrite Hst; reflexivity).
    assert (Tail : forall s3, NH s3 -> k_state (k s3) = CS_PARSE_WRITE_ARGS -> k_cmd (k s3) = Some ci ->
              PC s3 (pwa_tail c comma s3)).
    { intros s3 N3 K3 C3. apply (pwa_tail_PC D s3 ci c comma); assumption. }
    assert (T2 : PC (st w) (pwa_tail c comma s2)).
    { apply (PC_base D (st w) s2); [|reflexivity | exact Hc2]. apply Tail; [exact Hn2 | exact Hst | exact E1]. }
    destruct (v_hwrite v).
    + split_call; [exact HK | |].
      * intros w1 E1' E2' E3'. cbn [default_res r_code Z.eqb negb]. wred. rewrite E1'. cbn [Fsm.st Fsm.set_st].
        apply stepC_pure; [exact HI | exact E2' | apply io_same_eq; [exact HI | exact E3'] | exact T2].
      * intros w1 r H1 E3' R Hcd Hcap L. cbn [Fsm.st Fsm.set_st Fsm.hs Fsm.io] in *.
        pose proof (hrel_NH _ _ R Hn2) as Hn3. destruct R as (_ & _ & K & _).
        destruct (kv_proj _ _ K) as (K1 & K2 & _).
        assert (T3 : PC (st w1) (pwa_tail c comma (st w1)))
          by (apply Tail; [exact Hn3 | rewrite K1; exact Hst | rewrite K2; exact E1]).
        destruct (negb (r_code r =? 0)%Z); wred; apply (consumed_after ATCMD w w1); try assumption.
        -- apply (NH_end_with_error ATCMD); exact Hn3.
        -- cbn. lia.
        -- exact (PG_NH ATCMD _ _ T3).
        -- exact (PG_cap D ATCMD _ _ T3).
    + wred. cbn [Fsm.st Fsm.set_st].
      apply stepC_pure; [exact HI | reflexivity | apply io_same_eq; [exact HI | reflexivity] | exact T2].
Qed.


(* ------------------------------------------------------------------ *)
(* the io states on the always-ready environment                        *)
(* ------------------------------------------------------------------ *)

Local Notation reading := (Fsm.reading sio smu shs s_read).
Local Notation process_io_write := (Fsm.process_io_write sio smu shs s_write).
Local Notation unsolicited_process_io_write := (Fsm.unsolicited_process_io_write sio smu shs s_write).

(* a reading state: one byte of the pending input is consumed, or the queue is empty and the
   command machine answers OK without changing anything *)
Lemma reading_step : forall w body, Inv w -> k_state (k (st w)) <> CS_FLUSH ->
  (forall ch s, NH s -> k_state (k s) = k_state (k (st w)) -> k_cmd (k s) = k_cmd (k (st w)) ->
     RB s (body ch s)) ->
  StepC w (fst (reading w body)) (snd (reading w body)).
Proof.
  intros w body HI Hnf Hb. pose proof HI as (HS & Hnh & R1 & R2 & HK).
  unfold Fsm.reading, Fsm.read_cmd_char, s_read. rewrite R1. cbn [pop_bit].
  destruct (inq (io w)) as [|c q] eqn:Ei.
  - cbn [negb fst snd]. split; [|split].
    + unfold Inv'. wcbn. auto.
    + auto.
    + right. split; [unfold Same; wcbn; rewrite Ei; auto|].
      split; [exact Hnf | left; reflexivity].
  - cbn [negb]. wred. wcbn.
    match goal with |- context [body _ ?s2] => set (s2' := s2) end.
    assert (Hn2 : NH s2') by (subst s2'; destruct Hnh as [A B]; destruct (_ && _); split; assumption).
    assert (Hk2 : k_state (k s2') = k_state (k (st w))) by (subst s2'; destruct (_ && _); reflexivity).
    assert (Hc2 : k_cmd (k s2') = k_cmd (k (st w))) by (subst s2'; destruct (_ && _); reflexivity).
    assert (Hu2 : u s2' = u (st w)) by (subst s2'; destruct (_ && _); reflexivity).
    destruct (Hb (k_char (k s2')) s2' Hn2 Hk2 Hc2) as [B1 B2]. split; [|split].
    + unfold Inv'. wcbn. auto.
    + unfold capok. wcbn. rewrite B2, Hu2. auto.
    + left. right. left. wcbn. rewrite Ei, B2, Hu2. cbn [length]. auto.
Qed.

Lemma s_write_ready : forall x ch, wr_sched x = [] -> s_write x ch = (mkSio (inq x) (rd_sched x) [], true).
Proof. intros x ch H. unfold s_write. rewrite H. reflexivity. Qed.

(* cat.c:2461 *)
Lemma flush_step_C : forall w, Inv w -> k_state (k (st w)) = CS_FLUSH ->
  StepC w (fst (process_io_write w)) (snd (process_io_write w)).
Proof.
  intros w HI Hst. pose proof HI as (HS & Hnh & R1 & R2 & HK).
  unfold Fsm.process_io_write.
  assert (F : flush_ok (k_wbuf (k (st w))) (k_wstate (k (st w))) (k_position (k (st w))) (cbuf (st w))).
  { destruct HS as (_ & HKS & _). unfold KS in HKS. rewrite Hst in HKS. apply HKS. }
  destruct (wbuf_char_ok _ _ _ _ F) as (ch & Ec & _). rewrite Ec.
  destruct (N.eqb_spec ch 0) as [Z|Z].
  - wred. apply stepC_pure; [exact HI | reflexivity | apply io_same_refl; exact HI |].
    apply (flush_done_PC D m); assumption.
  - rewrite s_write_ready by exact R2. wred. wcbn.
    apply stepC_pure; [exact HI | reflexivity | repeat split; assumption |].
    apply (flush_adv_PC D (st w) ch); try assumption. apply HS.
Qed.

(* cat.c:2493 *)
Lemma flush_step_U : forall w, Inv w -> u_state (u (st w)) = US_FLUSH ->
  StepU w (fst (unsolicited_process_io_write w)) (snd (unsolicited_process_io_write w)).
Proof.
  intros w HI Hst. pose proof HI as (HS & Hnh & R1 & R2 & HK).
  unfold Fsm.unsolicited_process_io_write.
  assert (F : flush_ok (u_wbuf (u (st w))) (u_wstate (u (st w))) (u_position (u (st w))) (ubuf (st w))).
  { destruct HS as (_ & _ & HUS). unfold US in HUS. rewrite Hst in HUS. apply HUS. }
  destruct (wbuf_char_ok _ _ _ _ F) as (ch & Ec & _). rewrite Ec.
  destruct (N.eqb_spec ch 0) as [Z|Z].
  - wred. apply stepU_pure; [exact HI | reflexivity | apply io_same_refl; exact HI |].
    apply (flush_done_PU D m); assumption.
  - rewrite s_write_ready by exact R2. wred. wcbn.
    apply stepU_pure; [exact HI | reflexivity | repeat split; assumption |].
    apply (flush_adv_PU D (st w) ch); try assumption. apply HS.
Qed.


(* ------------------------------------------------------------------ *)
(* one step of each machine                                             *)
(* ------------------------------------------------------------------ *)

Lemma KS_of : forall w, Inv w -> KS D (k (st w)) (cbuf (st w)).
Proof. intros w ((_ & H & _) & _). exact H. Qed.
Lemma US_of : forall w, Inv w -> US D (u (st w)) (ubuf (st w)).
Proof. intros w ((_ & _ & H) & _). exact H. Qed.

Ltac pure_c HI := wred; apply stepC_pure; [exact HI | reflexivity | apply io_same_refl; exact HI |].
Ltac pure_u HI := wred; apply stepU_pure; [exact HI | reflexivity | apply io_same_refl; exact HI |].

Theorem s_cmd_step : forall w, Inv w -> StepC w (fst (s_cmd w)) (snd (s_cmd w)).
Proof.
  intros w HI. pose proof HI as (HS & Hnh & R1 & R2 & HK). pose proof (KS_of w HI) as HKS.
  unfold Fsm.cmd_service.
  destruct (k_state (k (st w))) eqn:Hst; unfold KS in HKS; rewrite Hst in HKS;
    unfold Fsm.error_state, Fsm.process_idle_state, Fsm.parse_prefix, Fsm.parse_command,
           Fsm.wait_read_acknowledge, Fsm.wait_test_acknowledge, Fsm.parse_command_args.
  - apply reading_step; [exact HI | congruence|]. intros ch s N _ _. apply error_body_RB; exact N.
  - apply reading_step; [exact HI | congruence|]. intros ch s N _ _. apply idle_body_RB; exact N.
  - apply reading_step; [exact HI | congruence|]. intros ch s N _ _. apply prefix_body_RB; exact N.
  - apply reading_step; [exact HI | congruence|]. intros ch s N _ _. apply parse_command_body_RB; exact N.
  - pure_c HI. apply (update_command_PC D m WF); assumption.
  - apply reading_step; [exact HI | congruence|]. intros ch s N _ _. apply wait_read_body_RB; exact N.
  - pure_c HI. apply (search_command_PC D m WF); assumption.
  - pure_c HI. apply (command_found_PC D m); assumption.
  - pure_c HI. apply ack_error_PC; [exact Hnh|]. unfold Lemmas_C15ba.cC. rewrite Hst. cbn. lia.
  - apply reading_step; [exact HI | congruence|]. intros ch s N _ _. apply parse_command_args_body_RB; exact N.
  - apply parse_write_args_step; assumption.
  - apply (format_read_args_step ATCMD); [exact HI | exact Hst].
  - apply reading_step; [exact HI | congruence|]. intros ch s N _ Ec.
    apply (wait_test_body_RB D); [exact N | rewrite Ec; exact HKS].
  - pure_c HI. apply (format_test_args_PG D m ATCMD); [exact HS | exact Hnh | exact Hst].
  - apply write_loop_step; assumption.
  - apply (rt_loop_step true ATCMD); [exact HI | left; exact Hst].
  - apply (rt_loop_step false ATCMD); [exact HI | right; exact Hst].
  - apply run_loop_step; assumption.
  - destruct Hnh as [_ B]. congruence.
  - destruct (ustate_eq_dec (u_state (u (st w))) US_FLUSH) as [E|E].
    + wred. unfold process_io_write_wait. rewrite E. cbn [ustate_beq negb]. split; [|split].
      * unfold Inv'. wcbn. auto.
      * auto.
      * right. split; [repeat split; reflexivity|]. split; [congruence|]. right. auto.
    + pure_c HI. apply wait_PC; assumption.
  - apply flush_step_C; assumption.
  - pure_c HI. apply reset_PC; assumption.
  - pure_c HI. apply ack_ok_PC; [exact Hnh|]. unfold Lemmas_C15ba.cC. rewrite Hst. cbn. lia.
  - pure_c HI. apply (TC_PC D 13); [apply (spfra_TG D ATCMD); [exact Hnh | exact HKS]|].
    unfold Lemmas_C15ba.cC. rewrite Hst. cbn. lia.
  - pure_c HI. apply (TC_PC D 13); [apply (spfta_TG D ATCMD); [exact Hnh | exact HKS]|].
    unfold Lemmas_C15ba.cC. rewrite Hst. cbn. lia.
  - pure_c HI. apply (print_cmd_list_PC D m); assumption.
Qed.

Theorem s_uns_step : forall w, Inv w -> StepU w (fst (s_uns w)) (snd (s_uns w)).
Proof.
  intros w HI. pose proof HI as (HS & Hnh & R1 & R2 & HK). pose proof (US_of w HI) as HUS.
  unfold Fsm.unsolicited_events_service.
  destruct (u_state (u (st w))) eqn:Hst; unfold US in HUS; rewrite Hst in HUS.
  - destruct (ring_empty (st w)) eqn:Er; cbn [negb].
    + cbn [fst snd]. split; [exact (proj2 HI)|]. split; [auto|]. right. split; [repeat split; reflexivity|]. left. auto.
    + wred. apply stepU_pure; [exact HI | destruct (ring_items D (st w)); reflexivity | |].
      * destruct (ring_items D (st w)); apply io_same_eq; try exact HI; reflexivity.
      * replace (st match ring_items D (st w) with [] => w | it :: _ => logw (EPop (fst it) (snd it)) w end)
          with (st w) by (destruct (ring_items D (st w)); reflexivity).
        apply (check_unsolicited_buffers_PU D m); assumption.
  - apply (format_read_args_step UNSOL); [exact HI | exact Hst].
  - pure_u HI. apply (format_test_args_PG D m UNSOL); [exact HS | exact Hnh | exact Hst].
  - apply (rt_loop_step true UNSOL); [exact HI | left; exact Hst].
  - apply (rt_loop_step false UNSOL); [exact HI | right; exact Hst].
  - destruct (cstate_eq_dec (k_state (k (st w))) CS_FLUSH) as [E|E].
    + wred. unfold unsolicited_process_io_write_wait. rewrite E. cbn [cstate_beq negb]. split; [|split].
      * unfold Inv'. wcbn. auto.
      * auto.
      * right. split; [repeat split; reflexivity|]. right. exact E.
    + pure_u HI. apply wait_PU; assumption.
  - apply flush_step_U; assumption.
  - pure_u HI. apply ureset_PU; [exact Hnh|]. unfold Lemmas_C15ba.cU. rewrite Hst. cbn. lia.
  - pure_u HI. apply ureset_PU; [exact Hnh|]. unfold Lemmas_C15ba.cU. rewrite Hst. cbn. lia.
  - pure_u HI. apply (TU_PU D 7); [apply (spfra_TG D UNSOL); [exact Hnh | exact HUS]|].
    unfold Lemmas_C15ba.cU. rewrite Hst. cbn. lia.
  - pure_u HI. apply (TU_PU D 7); [apply (spfta_TG D UNSOL); [exact Hnh | exact HUS]|].
    unfold Lemmas_C15ba.cU. rewrite Hst. cbn. lia.
Qed.


(* ------------------------------------------------------------------ *)
(* one cat_service call                                                 *)
(* ------------------------------------------------------------------ *)

Definition Dec (w w2 : sworld) : Prop :=
  lexlt (M w2) (M w) /\ (capok (st w) -> Phi w2 < Phi w).

Theorem body_step : forall w, Inv w ->
  Inv (fst (s_body w)) /\ (capok (st w) -> capok (st (fst (s_body w)))) /\
  (Dec w (fst (s_body w)) \/ snd (s_body w) = ST_OK).
Proof.
  intros w HI. pose proof HI as (HS & Hnh & R1 & R2 & HK).
  pose proof (s_uns_step w HI) as (HI1' & Hc1 & HU). pose proof (s_uns_safe w HK HS) as HS1.
  unfold Fsm.service_body. destruct (s_uns w) as [w1 us]. cbn [fst snd] in *.
  assert (HI1 : Inv w1) by (split; assumption).
  pose proof (s_cmd_step w1 HI1) as (HI2' & Hc2 & HC).
  pose proof (s_cmd_safe w1 (proj2 (proj2 (proj2 HI1'))) HS1) as HS2.
  destruct (s_cmd w1) as [w2 rc]. cbn [fst snd] in *.
  assert (HI2 : Inv w2) by (split; assumption).
  assert (X : Dec w w2 \/ (us = ST_OK /\ u_state (u (st w2)) = US_IDLE /\ rc = ST_OK)).
  { destruct HU as [HU | (EM1 & HU)]; destruct HC as [HC | (EM2 & Hnf & HC)].
    - left. split; [eapply lexlt_trans; apply Prog_lex; eassumption|].
      intros C0. pose proof (Prog_phi _ _ HU (Hc1 C0)). pose proof (Prog_phi _ _ HC (Hc2 (Hc1 C0))). lia.
    - left. split; [rewrite (Same_M _ _ EM2); apply Prog_lex; exact HU|].
      intros C0. rewrite (Same_phi _ _ EM2). exact (Prog_phi _ _ HU (Hc1 C0)).
    - left. split; [rewrite <- (Same_M _ _ EM1); apply Prog_lex; exact HC|].
      intros C0. rewrite <- (Same_phi _ _ EM1). exact (Prog_phi _ _ HC (Hc2 (Hc1 C0))).
    - destruct EM1 as (ES1 & _). destruct EM2 as (ES2 & _). rewrite ES1 in *.
      destruct HU as [[U1 U2] | U]; [|congruence].
      destruct HC as [C | [_ C]]; [|congruence].
      right. rewrite ES2. auto. }
  assert (Hc : capok (st w) -> capok (st w2)) by auto.
  destruct X as [X | (X1 & X2 & X3)].
  - destruct (_ || _); cbn [fst snd]; (split; [exact HI2 | split; [exact Hc | left; exact X]]).
  - subst us rc. rewrite X2. cbn. split; [exact HI2 | split; [exact Hc | right; reflexivity]].
Qed.

Local Notation s_do := (Fsm.do_op D sio smu shs s_read s_write s_lock s_unlock s_call).

Lemma Inv_logw : forall e w, Inv w -> Inv (logw e w).
Proof. intros e w H. exact H. Qed.

Theorem reaches_ok : forall w, d_mutex D = false -> Inv w ->
  exists n, snd (s_do (nsvc D n w) OService) = ST_OK.
Proof.
  intros w Hmx. pose proof (lexR_wf_len 9 (M w) (M_len w)) as A.
  remember (M w) as l eqn:El. revert w El. induction A as [l _ IH]. intros w El HI.
  destruct (body_step w HI) as (HI2 & _ & [[L _] | E]).
  - destruct (IH (M (svc D w))) with (w := svc D w) as [n Hn].
    + subst l. unfold svc, Fsm.step. cbn [Fsm.do_op]. unfold Fsm.api_service, Fsm.bracket. rewrite Hmx.
      destruct (s_body w) as [w2 r]. cbn [fst snd] in *. split; [rewrite !M_len; reflexivity | exact L].
    + reflexivity.
    + unfold svc, Fsm.step. cbn [Fsm.do_op]. unfold Fsm.api_service, Fsm.bracket. rewrite Hmx.
      destruct (s_body w) as [w2 r]. cbn [fst snd] in *. exact HI2.
    + exists (S n). exact Hn.
  - exists 0. cbn [nsvc iter Fsm.do_op]. unfold Fsm.api_service, Fsm.bracket. rewrite Hmx. exact E.
Qed.

(* the explicit bound: the number of calls is at most the potential of the starting world *)
Theorem reaches_ok_bound : forall w, d_mutex D = false -> Inv w -> capok (st w) ->
  exists n, n <= Phi w /\ snd (s_do (nsvc D n w) OService) = ST_OK.
Proof.
  intros w Hmx. remember (Phi w) as p eqn:Ep. revert w Ep.
  induction p as [p IH] using lt_wf_ind. intros w Ep HI Hc.
  destruct (body_step w HI) as (HI2 & Hc2 & [[_ L] | E]).
  - specialize (L Hc). specialize (Hc2 Hc).
    assert (Es : exists w2 r, s_body w = (w2, r) /\ svc D w = logw (ERet OService r) w2).
    { unfold svc, Fsm.step. cbn [Fsm.do_op]. unfold Fsm.api_service, Fsm.bracket. rewrite Hmx.
      destruct (s_body w) as [w2 r]. eauto. }
    destruct Es as (w2 & r & Eb & Es). rewrite Eb in *. cbn [fst snd] in *.
    destruct (IH (Phi (svc D w))) with (w := svc D w) as (n & Hn & Ho).
    + subst p. rewrite Es. exact L.
    + reflexivity.
    + rewrite Es. exact HI2.
    + rewrite Es. exact Hc2.
    + exists (S n). split; [|exact Ho]. rewrite Es in Hn. change (Phi (logw (ERet OService r) w2)) with (Phi w2) in Hn. lia.
  - exists 0. split; [lia|]. cbn [nsvc iter Fsm.do_op]. unfold Fsm.api_service, Fsm.bracket. rewrite Hmx. exact E.
Qed.

End Scripted.

(* ================================================================== *)
(* the delivered statements                                            *)
(* ================================================================== *)

(* from any state that satisfies the safety invariant, is not held and has no release pending *)
Theorem C15_reaches_quiescence_unheld : forall D m (w : sworld),
  d_mutex D = false ->
  wf_desc D m -> Safe D m (st _ _ _ w) ->
  k_hold (k (st _ _ _ w)) = false -> k_state (k (st _ _ _ w)) <> CS_HOLD ->
  rd_sched (io _ _ _ w) = [] -> wr_sched (io _ _ _ w) = [] ->
  script_ok no_hold_res (hs _ _ _ w) = true ->
  script_ok (res_calls_ok D) (hs _ _ _ w) = true ->
  exists n, snd (do_op D sio smu shs s_read s_write s_lock s_unlock s_call (nsvc D n w) OService) = ST_OK.
Proof.
  intros D m w Hmx WF HS Hh Hk R1 R2 S1 S2.
  apply (reaches_ok D m WF w Hmx). split; [exact HS|]. split; [split; assumption|].
  split; [exact R1|]. split; [exact R2|]. split; assumption.
Qed.

Theorem C15_reaches_quiescence_proof : forall D m (w : sworld),
  d_mutex D = false ->
  wf_desc D m -> Safe D m (st _ _ _ w) ->
  J (ctl_of (st _ _ _ w)) ->
  rd_sched (io _ _ _ w) = [] -> wr_sched (io _ _ _ w) = [] ->
  script_ok no_hold_res (hs _ _ _ w) = true ->
  k_state (k (st _ _ _ w)) <> CS_HOLD ->
  script_ok (res_calls_ok D) (hs _ _ _ w) = true ->
  exists n, snd (do_op D sio smu shs s_read s_write s_lock s_unlock s_call (nsvc D n w) OService) = ST_OK.
Proof.
  intros D m w Hmx WF HS HJ R1 R2 S1 Hk S2.
  apply (C15_reaches_quiescence_unheld D m w); try assumption.
  destruct HJ as [[H1 _] _]. cbn in H1.
  destruct (k_hold (k (st _ _ _ w))); [exfalso; apply Hk, H1; reflexivity | reflexivity].
Qed.

Print Assumptions C15_reaches_quiescence_proof.
(* the potential is below the closed expression C15_bound (TermDefs.v) *)
Lemma RU_cost : forall D, RU D = cost_u D.
Proof. intros D. unfold RU, bsU, cost_u. cbn [prodl]. lia. Qed.
Lemma RC_cost : forall D, RC D = cost_c D.
Proof. intros D. unfold RC, bsC, cost_c. cbn [prodl]. lia. Qed.

Lemma Phi_bound : forall D (w : sworld), Phi D w <= C15_bound D w.
Proof.
  intros D w. unfold Phi, C15_bound, wS.
  pose proof (rU_lt D (st _ _ _ w)). pose proof (rC_lt D (st _ _ _ w)).
  rewrite RU_cost, RC_cost in *.
  replace ((d_cap D + 1) * cost_u D) with (d_cap D * cost_u D + cost_u D) by lia. lia.
Qed.

Theorem C15_reaches_quiescence_bound_proof : forall D m (w : sworld),
  d_mutex D = false ->
  wf_desc D m -> Safe D m (st _ _ _ w) ->
  J (ctl_of (st _ _ _ w)) ->
  rd_sched (io _ _ _ w) = [] -> wr_sched (io _ _ _ w) = [] ->
  script_ok no_hold_res (hs _ _ _ w) = true ->
  k_state (k (st _ _ _ w)) <> CS_HOLD ->
  script_ok (res_calls_ok D) (hs _ _ _ w) = true ->
  u_count (u (st _ _ _ w)) <= d_cap D ->
  exists n, n <= C15_bound D w /\
    snd (do_op D sio smu shs s_read s_write s_lock s_unlock s_call (nsvc D n w) OService) = ST_OK.
Proof.
  intros D m w Hmx WF HS HJ R1 R2 S1 Hk S2 Hc.
  assert (Hh : k_hold (k (st _ _ _ w)) = false).
  { destruct HJ as [[H1 _] _]. cbn in H1.
    destruct (k_hold (k (st _ _ _ w))); [exfalso; apply Hk, H1; reflexivity | reflexivity]. }
  destruct (reaches_ok_bound D m WF w Hmx) as (n & Hn & Ho).
  - split; [exact HS|]. split; [split; assumption|]. split; [exact R1|]. split; [exact R2|]. split; assumption.
  - exact Hc.
  - exists n. split; [|exact Ho]. pose proof (Phi_bound D w). lia.
Qed.

Print Assumptions C15_reaches_quiescence_bound_proof.

