(* Lemmas_C15b.v — property C15, second half: on the scripted always-ready environment every
   cat_service call that does not answer OK strictly decreases a lexicographic measure
   (remaining script entries; pending input + queued events; phase and local counters of the
   event machine; phase and local counters of the command machine); hence quiescence is reached
   after finitely many calls.  The pure step lemmas are in Lemmas_C15ba.v. *)
From Coq Require Import List NArith ZArith Bool Arith Lia Wf_nat.
From CatV Require Import Bytes Defs Codec Fsm Script Skel SkelInv ResolveDefs SchedDefs TermDefs.
From CatV Require Import Lemmas_C03 Lemmas_C12 Lemmas_C15ba.
Import ListNotations.
Local Open Scope nat_scope.

(* ------------------------------------------------------------------ *)
(* the scripted handler oracle                                          *)
(* ------------------------------------------------------------------ *)

Lemma s_call_cases : forall h q,
  (fst (s_call h q) = h /\ snd (s_call h q) = default_res q) \/
  S (script_left (fst (s_call h q))) = script_left h.
Proof.
  induction h as [|[k0 sc] r IH]; intros q.
  - left. split; reflexivity.
  - cbn [s_call]. destruct (key_eqb k0 (key_of q)).
    + destruct sc as [|x sc']; [left; split; reflexivity|]. right. reflexivity.
    + destruct (IH q) as [[A B] | A]; destruct (s_call r q) as [r' x]; cbn [fst snd] in *.
      * left. split; [rewrite A; reflexivity | exact B].
      * right. cbn [script_left fold_right snd] in *. fold (script_left r'). fold (script_left r). lia.
Qed.

Section Scripted.
Variable D : desc.
Variable m : list (list N).
Hypothesis WF : wf_desc D m.

Local Notation st := (Fsm.st sio smu shs).
Local Notation io := (Fsm.io sio smu shs).
Local Notation mu := (Fsm.mu sio smu shs).
Local Notation hs := (Fsm.hs sio smu shs).
Local Notation tr := (Fsm.tr sio smu shs).
Local Notation set_st := (Fsm.set_st sio smu shs).
Local Notation set_io := (Fsm.set_io sio smu shs).
Local Notation set_hs := (Fsm.set_hs sio smu shs).
Local Notation logw := (Fsm.logw sio smu shs).
Local Notation upd_st := (Fsm.upd_st sio smu shs).
Local Notation busy := (Fsm.busy sio smu shs).
Local Notation Safe := (Safe D m).
Local Notation NH := Lemmas_C15ba.NH.
Local Notation PC := (PC D).
Local Notation PU := (PU D).
Local Notation PG := (PG D).
Local Notation cC := (cC D).
Local Notation cU := (cU D).
Local Notation mU := (mU D).

(* scripts: no HOLD any more, inner triggers name pool commands *)
Definition SOK (h : shs) : Prop :=
  script_ok no_hold_res h = true /\ script_ok (res_calls_ok D) h = true.

Lemma SOK_call : forall h q, SOK h ->
  SOK (fst (s_call h q)) /\ no_hold_res (snd (s_call h q)) = true /\
  res_calls_ok D (snd (s_call h q)) = true.
Proof.
  intros h q [A B].
  destruct (s_call_ok no_hold_res) with (h := h) (q := q) as [A1 A2]; [destruct q0; reflexivity | exact A |].
  destruct (s_call_ok (res_calls_ok D)) with (h := h) (q := q) as [B1 B2]; [destruct q0; reflexivity | exact B |].
  split; [split; assumption | split; assumption].
Qed.

Lemma res_calls_ok_Forall : forall r, res_calls_ok D r = true -> Forall (icall_ok D) (r_calls r).
Proof.
  intros r H. unfold res_calls_ok in H. rewrite forallb_forall in H. apply Forall_forall.
  intros c Hc. specialize (H c Hc). destruct c as [ci t|z]; cbn in *; [apply Nat.ltb_lt; exact H | exact I].
Qed.

(* the same oracle with invalid inner calls removed: it satisfies the hypothesis of the safety
   lemmas of Lemmas_C03b for every script state, and agrees with s_call on valid scripts *)
Definition h_san (h : shs) (q : hreq) : shs * hres :=
  let (h', r) := s_call h q in
  (h', if res_calls_ok D r then r else mkHres (r_code r) (r_edit r) (r_pokes r) []).

Lemma h_san_ok : forall h q, Forall (icall_ok D) (r_calls (snd (h_san h q))).
Proof.
  intros h q. unfold h_san. destruct (s_call h q) as [h' r]. cbn [snd].
  destruct (res_calls_ok D r) eqn:E; [apply res_calls_ok_Forall; exact E | constructor].
Qed.

Lemma h_san_eq : forall h q, SOK h -> h_san h q = s_call h q.
Proof.
  intros h q H. destruct (SOK_call h q H) as (_ & _ & C). unfold h_san.
  destruct (s_call h q) as [h' r]. cbn [snd] in C. rewrite C. reflexivity.
Qed.

Local Notation call_h := (Fsm.call_h D sio smu shs s_lock s_unlock s_call).
Local Notation call_h' := (Fsm.call_h D sio smu shs s_lock s_unlock h_san).
Local Notation s_cmd := (Fsm.cmd_service D sio smu shs s_read s_write s_lock s_unlock s_call).
Local Notation s_uns := (Fsm.unsolicited_events_service D sio smu shs s_write s_lock s_unlock s_call).
Local Notation s_cmd' := (Fsm.cmd_service D sio smu shs s_read s_write s_lock s_unlock h_san).
Local Notation s_uns' := (Fsm.unsolicited_events_service D sio smu shs s_write s_lock s_unlock h_san).
Local Notation s_body := (Fsm.service_body D sio smu shs s_read s_write s_lock s_unlock s_call).

Lemma call_h_eq : forall w q, SOK (hs w) -> call_h w q = call_h' w q.
Proof. intros w q H. unfold Fsm.call_h. rewrite h_san_eq by exact H. reflexivity. Qed.

Ltac eq_go H :=
  repeat first [ reflexivity
               | rewrite call_h_eq by (cbn [Fsm.hs Fsm.set_st]; exact H)
               | dm ].

Lemma s_cmd_eq : forall w, SOK (hs w) -> s_cmd w = s_cmd' w.
Proof.
  intros w H. unfold Fsm.cmd_service.
  destruct (k_state (k (st w))); try reflexivity;
    unfold Fsm.parse_write_args, Fsm.format_read_args, Fsm.process_write_loop, Fsm.process_run_loop,
           Fsm.process_rt_loop; cbv zeta; eq_go H.
Qed.

Lemma s_uns_eq : forall w, SOK (hs w) -> s_uns w = s_uns' w.
Proof.
  intros w H. unfold Fsm.unsolicited_events_service.
  destruct (u_state (u (st w))); try reflexivity;
    unfold Fsm.format_read_args, Fsm.process_rt_loop; cbv zeta; eq_go H.
Qed.

Lemma s_cmd_safe : forall w, SOK (hs w) -> Safe (st w) -> Safe (st (fst (s_cmd w))).
Proof.
  intros w H HS. rewrite s_cmd_eq by exact H.
  apply (cmd_service_safe D m WF sio smu shs s_read s_write s_lock s_unlock h_san h_san_ok). exact HS.
Qed.

Lemma s_uns_safe : forall w, SOK (hs w) -> Safe (st w) -> Safe (st (fst (s_uns w))).
Proof.
  intros w H HS. rewrite s_uns_eq by exact H.
  apply (unsolicited_events_service_safe D m WF sio smu shs s_write s_lock s_unlock h_san h_san_ok). exact HS.
Qed.

End Scripted.
