(* Lemmas_C03f.v — property C03, frame part: the command machine never writes the event
   machine's buffer and conversely.  For ANY state and arbitrary oracles (no invariant needed). *)
From Coq Require Import List NArith ZArith Bool Arith Lia.
From CatV Require Import Bytes Defs Codec Fsm Lemmas_C03a Lemmas_C03b.
Import ListNotations.
Local Open Scope nat_scope.

(* the buffer of the OTHER machine *)
Definition obuf (f : fsm) (s : state) : list N :=
  match f with ATCMD => ubuf s | UNSOL => cbuf s end.

Section Frame.
Variable D : desc.
Variables ioS muS hS : Type.
Variable io_read : ioS -> ioS * option N.
Variable io_write : ioS -> N -> ioS * bool.
Variable mu_lock : muS -> muS * bool.
Variable mu_unlock : muS -> muS * bool.
Variable h_call : hS -> hreq -> hS * hres.

Local Notation world := (Fsm.world ioS muS hS).
Local Notation st := (Fsm.st ioS muS hS).
Local Notation io := (Fsm.io ioS muS hS).
Local Notation mu := (Fsm.mu ioS muS hS).
Local Notation hs := (Fsm.hs ioS muS hS).
Local Notation set_st := (Fsm.set_st ioS muS hS).
Local Notation set_mu := (Fsm.set_mu ioS muS hS).
Local Notation logw := (Fsm.logw ioS muS hS).
Local Notation upd_st := (Fsm.upd_st ioS muS hS).
Local Notation bracket := (Fsm.bracket D ioS muS hS mu_lock mu_unlock).
Local Notation api_trigger := (Fsm.api_trigger D ioS muS hS mu_lock mu_unlock).
Local Notation api_hold_exit := (Fsm.api_hold_exit D ioS muS hS mu_lock mu_unlock).
Local Notation apply_icall := (Fsm.apply_icall D ioS muS hS mu_lock mu_unlock).
Local Notation call_h := (Fsm.call_h D ioS muS hS mu_lock mu_unlock h_call).
Local Notation reading := (Fsm.reading ioS muS hS io_read).
Local Notation parse_write_args := (Fsm.parse_write_args D ioS muS hS mu_lock mu_unlock h_call).
Local Notation format_read_args := (Fsm.format_read_args D ioS muS hS mu_lock mu_unlock h_call).
Local Notation process_write_loop := (Fsm.process_write_loop D ioS muS hS mu_lock mu_unlock h_call).
Local Notation process_run_loop := (Fsm.process_run_loop D ioS muS hS mu_lock mu_unlock h_call).
Local Notation process_rt_loop := (Fsm.process_rt_loop D ioS muS hS mu_lock mu_unlock h_call).
Local Notation process_io_write := (Fsm.process_io_write ioS muS hS io_write).
Local Notation unsolicited_process_io_write := (Fsm.unsolicited_process_io_write ioS muS hS io_write).
Local Notation unsolicited_events_service :=
  (Fsm.unsolicited_events_service D ioS muS hS io_write mu_lock mu_unlock h_call).
Local Notation cmd_service :=
  (Fsm.cmd_service D ioS muS hS io_read io_write mu_lock mu_unlock h_call).

Ltac wsimp := cbn [Fsm.busy Fsm.upd_st Fsm.st Fsm.set_st Fsm.logw Fsm.set_io Fsm.set_hs Fsm.set_mu
                   Fsm.io Fsm.mu Fsm.hs fst snd].

(* functions whose branches are plain setter chains over atomic tests *)
Ltac fr_simple :=
  intros;
  repeat match goal with
         | |- context [if ?x then _ else _] => destruct x
         | |- context [match ?x with _ => _ end] => destruct x
         end; reflexivity.

(* ---- both buffers ---- *)
Lemma reset_state_b : forall f s, obuf f (reset_state s) = obuf f s.
Proof. intros [|] s; unfold reset_state; fr_simple. Qed.
Lemma unsolicited_reset_state_b : forall f s, obuf f (unsolicited_reset_state s) = obuf f s.
Proof. intros [|] s; reflexivity. Qed.
Lemma enable_hold_state_b : forall f s, obuf f (enable_hold_state s) = obuf f s.
Proof. intros [|] s; reflexivity. Qed.
Lemma hold_exit_b : forall f s z, obuf f (fst (hold_exit s z)) = obuf f s.
Proof. intros [|] s z; unfold hold_exit; fr_simple. Qed.
Lemma push_b : forall f s ci t, obuf f (fst (push_unsolicited_cmd D s ci t)) = obuf f s.
Proof. intros [|] s ci t; unfold push_unsolicited_cmd; fr_simple. Qed.
Lemma pop_b : forall f s, obuf f (fst (pop_unsolicited_cmd D s)) = obuf f s.
Proof. intros [|] s; unfold pop_unsolicited_cmd; fr_simple. Qed.
Lemma apply_poke_b : forall f s p, obuf f (apply_poke s p) = obuf f s.
Proof. intros [|] s p; unfold apply_poke; fr_simple. Qed.
Lemma set_fault_flag_b : forall f s, obuf f (set_fault_flag s) = obuf f s.
Proof. intros [|] s; reflexivity. Qed.
Lemma io_write_wait_b : forall f s, obuf f (process_io_write_wait s) = obuf f s.
Proof. intros [|] s; unfold process_io_write_wait; fr_simple. Qed.
Lemma u_io_write_wait_b : forall f s, obuf f (unsolicited_process_io_write_wait s) = obuf f s.
Proof. intros [|] s; unfold unsolicited_process_io_write_wait; fr_simple. Qed.

(* ---- the command machine's own helpers: ubuf untouched ---- *)
Lemma ack_error_o : forall s, obuf ATCMD (ack_error s) = obuf ATCMD s.
Proof. reflexivity. Qed.
Lemma ack_ok_o : forall s, obuf ATCMD (ack_ok s) = obuf ATCMD s.
Proof. reflexivity. Qed.
Lemma process_hold_state_o : forall s, obuf ATCMD (process_hold_state s) = obuf ATCMD s.
Proof. intros s. unfold process_hold_state. fr_simple. Qed.
Lemma set_cmd_state_o : forall s i v, obuf ATCMD (set_cmd_state s i v) = obuf ATCMD s.
Proof. intros s i v. unfold set_cmd_state. fr_simple. Qed.
Lemma start_print_cmd_list_o : forall s, obuf ATCMD (start_print_cmd_list D s) = obuf ATCMD s.
Proof. intros s. unfold start_print_cmd_list. fr_simple. Qed.

(* ---- printing through the cursor of machine f ---- *)
Lemma put_cur_o : forall f c s, obuf f (put_cur f c s) = obuf f s.
Proof. intros [|] c s; unfold put_cur; destruct (cu_fault c); reflexivity. Qed.

Lemma print_string_o : forall f s t, obuf f (fst (print_string f s t)) = obuf f s.
Proof.
  intros f s t. unfold print_string. destruct (print_nstring (get_cur f s) t). cbn [fst]. apply put_cur_o.
Qed.
Lemma print_strings_o : forall f s t, obuf f (fst (print_strings f s t)) = obuf f s.
Proof.
  intros f s t. unfold print_strings. destruct (print_pieces (get_cur f s) t). cbn [fst]. apply put_cur_o.
Qed.

Lemma end_with_error_o : forall f s, obuf f (end_with_error f s) = obuf f s.
Proof. intros [|] s; reflexivity. Qed.
Lemma end_with_ok_o : forall f s, obuf f (end_with_ok f s) = obuf f s.
Proof. intros [|] s; reflexivity. Qed.
Lemma set_loop_state_o : forall f rd s, obuf f (set_loop_state f rd s) = obuf f s.
Proof. intros [|] rd s; reflexivity. Qed.
Lemma start_flush_after_ok_o : forall f s, obuf f (start_flush_after_ok f s) = obuf f s.
Proof. intros [|] s; reflexivity. Qed.
Lemma start_flush_after_o : forall f a b s, obuf f (start_flush_after f a b s) = obuf f s.
Proof. intros [|] a b s; reflexivity. Qed.
Lemma setg_pos_o : forall f p s, obuf f (setg_pos f p s) = obuf f s.
Proof. intros [|] p s; reflexivity. Qed.
Lemma setg_buf_o : forall f b s, obuf f (setg_buf f b s) = obuf f s.
Proof. intros [|] b s; reflexivity. Qed.
Lemma setg_index_o : forall f p s, obuf f (setg_index f p s) = obuf f s.
Proof. intros [|] p s; reflexivity. Qed.
Lemma setg_var_o : forall f p s, obuf f (setg_var f p s) = obuf f s.
Proof. intros [|] p s; reflexivity. Qed.

(* name the results of the pair-returning calls and record their frame fact *)
Ltac ob_let :=
  match goal with
  | |- context [let (_, _) := print_string ?f ?s ?t in _] =>
    let O := fresh "O" in pose proof (print_string_o f s t) as O;
    destruct (print_string f s t); cbn [fst snd] in O; rewrite ?setg_pos_o, ?setg_index_o in O
  | |- context [let (_, _) := print_strings ?f ?s ?t in _] =>
    let O := fresh "O" in pose proof (print_strings_o f s t) as O;
    destruct (print_strings f s t); cbn [fst snd] in O; rewrite ?setg_pos_o, ?setg_index_o in O
  end.

Ltac ob_fin :=
  cbv zeta; cbn [fst snd];
  repeat first
    [ rewrite end_with_error_o | rewrite end_with_ok_o | rewrite set_loop_state_o
    | rewrite start_flush_after_ok_o | rewrite start_flush_after_o | rewrite set_fault_flag_b
    | rewrite ack_error_o | rewrite ack_ok_o | rewrite setg_pos_o | rewrite setg_buf_o
    | rewrite setg_index_o | rewrite setg_var_o | rewrite enable_hold_state_b
    | rewrite hold_exit_b | rewrite start_print_cmd_list_o ];
  try reflexivity; try congruence.

Lemma print_response_test_o : forall f s, obuf f (fst (print_response_test D f s)) = obuf f s.
Proof.
  intros f s. unfold print_response_test. destruct (cmd_of D f s) as [c|]; [|ob_fin].
  destruct (c_descr c).
  - ob_let. destruct b; cbn [negb]; [|ob_fin]. destruct (c_htest c); ob_fin.
  - cbn [negb]. destruct (c_htest c); ob_fin.
Qed.

Ltac ob_let2 :=
  match goal with
  | |- context [let (_, _) := print_response_test D ?f ?s in _] =>
    let O := fresh "O" in pose proof (print_response_test_o f s) as O;
    destruct (print_response_test D f s); cbn [fst snd] in O; rewrite ?setg_pos_o, ?setg_index_o in O
  end.

Lemma chain_k_o : forall f s (g : state -> state), (forall x, ubuf (g x) = ubuf x) -> (forall x, cbuf (g x) = cbuf x) ->
  obuf f (g s) = obuf f s.
Proof. intros [|] s g H1 H2; cbn [obuf]; auto. Qed.

Lemma spfta_o : forall f s, obuf f (start_processing_format_test_args D f s) = obuf f s.
Proof.
  intros f s. unfold start_processing_format_test_args.
  destruct (cmd_of D f (setg_pos f 0 s)) as [c|]; [|ob_fin].
  ob_let. destruct b; cbn [negb]; [|ob_fin].
  ob_let. destruct b; cbn [negb]; [|ob_fin].
  destruct (c_vars c).
  - ob_let2. destruct b; ob_fin.
  - destruct f; cbn [obuf] in *; sproj; congruence.
Qed.

Lemma spfra_o : forall f s, obuf f (start_processing_format_read_args D f s) = obuf f s.
Proof.
  intros f s. unfold start_processing_format_read_args.
  destruct (cmd_of D f (setg_pos f 0 s)) as [c|]; [|ob_fin].
  ob_let. destruct b; cbn [negb]; [|ob_fin].
  ob_let. destruct b; cbn [negb]; [|ob_fin].
  destruct (vars_access_possible c RO).
  - destruct f; cbn [obuf] in *; sproj; congruence.
  - destruct (negb (c_hread c)); ob_fin.
Qed.

Lemma next_format_var_o : forall f s, obuf f (fst (next_format_var D f s)) = obuf f s.
Proof.
  intros f s. unfold next_format_var. destruct (cmd_of D f s) as [c|]; [|ob_fin].
  destruct (_ <? _); [|ob_fin]. destruct (_ <=? _); ob_fin.
Qed.

Lemma format_test_args_o : forall f s, obuf f (format_test_args D f s) = obuf f s.
Proof.
  intros f s. unfold format_test_args. destruct (cmd_of D f s) as [c|]; [|ob_fin].
  destruct (nth_error _ _) as [v|]; [|ob_fin].
  destruct (fmt_info v (get_cur f s)) as [c1 ok].
  pose proof (put_cur_o f c1 s) as O1.
  destruct ok; cbn [negb]; [|ob_fin].
  pose proof (next_format_var_o f (put_cur f c1 s)) as O2.
  destruct (next_format_var D f (put_cur f c1 s)) as [s2 handled]. cbn [fst] in O2.
  destruct handled; [congruence|].
  ob_let2. destruct b; ob_fin.
Qed.

Lemma apply_edit_o : forall f e s, obuf f (apply_edit f e s) = obuf f s.
Proof.
  intros f e s. unfold apply_edit. destruct e; [|reflexivity]. destruct (_ <? _); [|reflexivity].
  apply put_cur_o.
Qed.

(* ---- callbacks: neither buffer ---- *)
Lemma bracket_o : forall f s0 w body, obuf f (st w) = s0 ->
  (forall w', obuf f (st w') = s0 -> obuf f (st (fst (body w'))) = s0) ->
  obuf f (st (fst (bracket w body))) = s0.
Proof.
  intros f s0 w body H Hb. unfold Fsm.bracket. destruct (d_mutex D); [|apply Hb; exact H].
  destruct (mu_lock (mu w)) as [m1 ok]. destruct ok; cbn [negb fst]; [|exact H].
  specialize (Hb (logw (ELock true) (set_mu m1 w)) H).
  destruct (body (logw (ELock true) (set_mu m1 w))) as [w2 r]. cbn [fst] in Hb.
  destruct (mu_unlock (Fsm.mu ioS muS hS w2)) as [m2 ok2]. destruct ok2; cbn [negb fst]; exact Hb.
Qed.

Lemma apply_icall_o : forall f w c, obuf f (st (apply_icall w c)) = obuf f (st w).
Proof.
  intros f w c. unfold Fsm.apply_icall.
  assert (X : obuf f (st (fst (match c with
                 | ITrigger ci t => api_trigger w ci t
                 | IHoldExit status => api_hold_exit w status end))) = obuf f (st w)).
  { destruct c as [ci t|z]; unfold Fsm.api_trigger, Fsm.api_hold_exit;
      apply bracket_o; try reflexivity; intros w' E.
    - pose proof (push_b f (st w') ci t) as P.
      destruct (push_unsolicited_cmd D (st w') ci t) as [s' r]. cbn [fst Fsm.st Fsm.set_st] in *. congruence.
    - pose proof (hold_exit_b f (st w') z) as P.
      destruct (hold_exit (st w') z) as [s' r]. cbn [fst Fsm.st Fsm.set_st] in *. congruence. }
  destruct (match c with ITrigger ci t => _ | IHoldExit status => _ end) as [w' r]. exact X.
Qed.

Lemma fold_icall_o : forall f l w, obuf f (st (fold_left apply_icall l w)) = obuf f (st w).
Proof.
  intros f l. induction l as [|c l IH]; intros w; [reflexivity|]. cbn [fold_left].
  rewrite IH. apply apply_icall_o.
Qed.

Lemma fold_poke_o : forall f l s, obuf f (fold_left apply_poke l s) = obuf f s.
Proof.
  intros f l. induction l as [|p l IH]; intros s; [reflexivity|]. cbn [fold_left].
  rewrite IH. apply apply_poke_b.
Qed.

Lemma call_h_o : forall f w q, obuf f (st (fst (call_h w q))) = obuf f (st w).
Proof.
  intros f w q. unfold Fsm.call_h. destruct (h_call (hs w) q) as [hs' r]. cbv zeta. cbn [fst].
  rewrite fold_icall_o. wsimp. apply fold_poke_o.
Qed.

Ltac ob_call :=
  match goal with
  | |- context [call_h ?w ?q] =>
    let O := fresh "O" in pose proof (call_h_o ATCMD w q) as O;
    let O' := fresh "O" in pose proof (call_h_o UNSOL w q) as O';
    destruct (call_h w q); cbn [fst snd] in O, O'
  end.

(* ---- the world-level state functions ---- *)
Lemma format_read_args_o : forall f w, obuf f (st (fst (format_read_args f w))) = obuf f (st w).
Proof.
  intros f w. unfold Fsm.format_read_args.
  destruct (g_cmd f (st w)) as [ci|]; [|wsimp; ob_fin].
  destruct (cmd_of D f (st w)) as [c|]; [|wsimp; ob_fin].
  destruct (nth_error _ _) as [v|]; [|wsimp; ob_fin].
  assert (X : exists w1 failed, obuf f (st w1) = obuf f (st w) /\
     (if v_hread v then let (w', r) := call_h w (VRead f ci (g_var f (st w))) in (w', negb (r_code r =? 0)%Z)
      else (w, false)) = (w1, failed)).
  { destruct (v_hread v).
    - pose proof (call_h_o f w (VRead f ci (g_var f (st w)))) as R.
      destruct (call_h w (VRead f ci (g_var f (st w)))) as [w' r]. eexists _, _. split; [exact R | reflexivity].
    - eexists _, _. split; reflexivity. }
  destruct X as (w1 & failed & R & EX). rewrite EX. clear EX.
  destruct failed; wsimp; [ob_fin|].
  destruct (nth_error (mem (st w1)) (v_slot v)) as [data|]; [|ob_fin].
  destruct (fmt_var v data (get_cur f (st w1))) as [c1 ok]. cbv zeta.
  pose proof (put_cur_o f c1 (st w1)) as O1.
  destruct ok; cbn [negb]; [|ob_fin].
  pose proof (next_format_var_o f (put_cur f c1 (st w1))) as O2.
  destruct (next_format_var D f (put_cur f c1 (st w1))) as [s2 handled]. cbn [fst] in O2.
  destruct handled; [congruence|]. destruct (c_hread c); ob_fin.
Qed.

Lemma process_rt_loop_o : forall rd f w, obuf f (st (fst (process_rt_loop rd f w))) = obuf f (st w).
Proof.
  intros rd f w. unfold Fsm.process_rt_loop.
  destruct (g_cmd f (st w)) as [ci|]; [|wsimp; ob_fin].
  match goal with |- context [call_h w ?q] =>
    pose proof (call_h_o f w q) as R; destruct (call_h w q) as [w1 r] end.
  cbn [fst] in R. wsimp.
  pose proof (apply_edit_o f (r_edit r) (st w1)) as O.
  set (s2 := apply_edit f (r_edit r) (st w1)) in *.
  destruct (_ =? _)%Z; [ob_fin|].
  destruct (_ =? _)%Z; [ob_fin|].
  destruct (_ =? _)%Z; [destruct rd; ob_fin|].
  destruct (_ =? _)%Z; [destruct rd; rewrite ?spfra_o, ?spfta_o; congruence|].
  destruct (_ =? _)%Z; [ob_fin|].
  destruct (_ =? _)%Z; [ob_fin|].
  destruct (_ =? _)%Z; [ob_fin|].
  destruct (_ && _); [destruct f; ob_fin | ob_fin].
Qed.


(* ---- the command machine ---- *)
Ltac brk :=
  repeat (sproj; match goal with |- context [match ?x with _ => _ end] => destruct x end).

Lemma update_command_o : forall s, obuf ATCMD (update_command D s) = obuf ATCMD s.
Proof.
  intros s. unfold update_command.
  destruct (cmd_by_index _ _) as [c|]; [|reflexivity].
  destruct (get_cmd_state D s _) as [cs|]; [|reflexivity].
  match goal with |- context [if negb (cs =? CMD_NOT_MATCH)%N then ?A else s] =>
    set (X := if negb (cs =? CMD_NOT_MATCH)%N then A else s) end.
  assert (E : obuf ATCMD X = obuf ATCMD s).
  { subst X.
    repeat match goal with |- context [match ?x with _ => _ end] => destruct x end;
      cbn [obuf]; sproj; rewrite ?(set_cmd_state_o s); reflexivity. }
  clearbody X. cbv zeta. cbn [obuf] in *. brk; sproj; exact E.
Qed.

Lemma search_command_o : forall s, obuf ATCMD (search_command D s) = obuf ATCMD s.
Proof.
  intros s. unfold search_command. cbv zeta beta.
  destruct (get_cmd_state D s _) as [cs|]; [|reflexivity]. cbn [obuf]. brk; reflexivity.
Qed.

Lemma command_found_o : forall s, obuf ATCMD (command_found D s) = obuf ATCMD s.
Proof.
  intros s. unfold command_found. destruct (cmd_of D ATCMD s) as [c|]; [|reflexivity].
  destruct (k_type (k s)); try reflexivity.
  - brk; reflexivity.
  - destruct (c_only_test c); [reflexivity | apply spfra_o].
  - cbn [obuf]. brk; reflexivity.
Qed.

Lemma cmd_list_next_o : forall s,
  obuf ATCMD (let (s1, more) := cmd_list_next_cmd D s in if more then s1 else ack_ok s1) = obuf ATCMD s.
Proof. intros s. unfold cmd_list_next_cmd. destruct (_ <=? _); reflexivity. Qed.

Ltac ufin :=
  cbn [obuf] in *; unfold start_flush_raw_c, ack_error, ack_ok, start_flush_c;
  repeat match goal with H : ubuf _ = _ |- _ => progress sproj_in H end;
  sproj; congruence.

Lemma print_cmd_form_o : forall s c a sf nx, obuf ATCMD (print_cmd_form s c a sf nx) = obuf ATCMD s.
Proof.
  intros s c a sf nx. unfold print_cmd_form. destruct a; [|reflexivity].
  unfold print_current_cmd_full_name. destruct (_ =? 0).
  - ob_let. destruct b; cbn [negb].
    + ob_let. destruct b; cbn [negb]; ufin.
    + ufin.
  - cbn [negb]. ob_let. destruct b; cbn [negb]; ufin.
Qed.

Lemma print_cmd_list_o : forall s, obuf ATCMD (print_cmd_list D s) = obuf ATCMD s.
Proof.
  intros s. unfold print_cmd_list. destruct (cmd_by_index _ _) as [c|]; [|reflexivity].
  sproj. destruct (k_type (k s)); rewrite ?print_cmd_form_o, ?cmd_list_next_o; try reflexivity.
  destruct (is_command_disable D _ _); rewrite ?cmd_list_next_o; reflexivity.
Qed.

Lemma reading_o : forall f w body, (forall ch s, obuf f (body ch s) = obuf f s) ->
  obuf f (st (fst (reading w body))) = obuf f (st w).
Proof.
  intros f w body Hb. unfold Fsm.reading, Fsm.read_cmd_char.
  destruct (io_read (io w)) as [io' [ch|]]; cbn [negb]; wsimp; [|reflexivity].
  rewrite Hb. destruct f; destruct (_ && _); reflexivity.
Qed.

Lemma parse_write_args_o : forall w, obuf ATCMD (st (fst (parse_write_args w))) = obuf ATCMD (st w).
Proof.
  intros w. unfold Fsm.parse_write_args.
  destruct (g_cmd ATCMD (st w)) as [ci|]; [|reflexivity].
  destruct (cmd_of D ATCMD (st w)) as [c|]; [|reflexivity].
  destruct (nth_error _ _) as [v|]; [|reflexivity].
  destruct (nth_error _ _) as [data|]; [|reflexivity].
  destruct (decode_var v _ data) as [[[pst data'] wsz] n].
  destruct pst as [| |comma]; try reflexivity.
  match goal with |- context [Fsm.set_st ioS muS hS ?s2 w] => set (S2 := s2) end.
  assert (X : exists w3 failed, obuf ATCMD (st w3) = obuf ATCMD (st w) /\
     (if v_hwrite v
      then let (w', r) := call_h (set_st S2 w) (VWrite ci (k_var (k (st w))) wsz data') in
           (w', negb (r_code r =? 0)%Z)
      else (set_st S2 w, false)) = (w3, failed)).
  { destruct (v_hwrite v).
    - pose proof (call_h_o ATCMD (set_st S2 w) (VWrite ci (k_var (k (st w))) wsz data')) as R.
      destruct (call_h (set_st S2 w) _) as [w' r]. cbn [fst] in R.
      exists w', (negb (r_code r =? 0)%Z). split; [exact R | reflexivity].
    - exists (set_st S2 w), false. split; reflexivity. }
  destruct X as (w3 & failed & R & EX). rewrite EX. clear EX.
  destruct failed; wsimp; [exact R|]. cbv zeta. cbn [obuf] in *. brk; exact R.
Qed.

Lemma process_write_loop_o : forall w, obuf ATCMD (st (fst (process_write_loop w))) = obuf ATCMD (st w).
Proof.
  intros w. unfold Fsm.process_write_loop. destruct (g_cmd ATCMD (st w)) as [ci|]; [|reflexivity].
  ob_call. wsimp. brk; assumption.
Qed.

Lemma process_run_loop_o : forall w, obuf ATCMD (st (fst (process_run_loop w))) = obuf ATCMD (st w).
Proof.
  intros w. unfold Fsm.process_run_loop. destruct (g_cmd ATCMD (st w)) as [ci|]; [|reflexivity].
  ob_call. wsimp.
  repeat match goal with |- context [if ?x then _ else _] => destruct x end;
    rewrite ?start_print_cmd_list_o; assumption.
Qed.

Lemma process_io_write_o : forall w, obuf ATCMD (st (fst (process_io_write w))) = obuf ATCMD (st w).
Proof.
  intros w. unfold Fsm.process_io_write. destruct (wbuf_char _ _ _) as [ch|]; [|reflexivity].
  destruct (ch =? 0)%N; wsimp.
  - destruct (k_wstate _); try reflexivity. cbv zeta. destruct (cstate_beq _ _); reflexivity.
  - destruct (io_write _ _) as [io' ok]. destruct ok; reflexivity.
Qed.

Theorem cmd_service_frame : forall w, ubuf (st (fst (cmd_service w))) = ubuf (st w).
Proof.
  intros w. change (obuf ATCMD (st (fst (cmd_service w))) = obuf ATCMD (st w)).
  unfold Fsm.cmd_service.
  destruct (k_state (k (st w)));
    unfold Fsm.error_state, Fsm.process_idle_state, Fsm.parse_prefix, Fsm.parse_command,
           Fsm.wait_read_acknowledge, Fsm.wait_test_acknowledge, Fsm.parse_command_args;
    try (apply reading_o; intros ch s; brk; first [apply spfta_o | reflexivity]);
    wsimp;
    first [ apply update_command_o | apply search_command_o | apply command_found_o
          | apply parse_write_args_o | apply format_read_args_o | apply format_test_args_o
          | apply process_write_loop_o | apply process_rt_loop_o | apply process_run_loop_o
          | apply process_hold_state_o | apply io_write_wait_b | apply process_io_write_o
          | apply reset_state_b | apply spfra_o | apply spfta_o | apply print_cmd_list_o
          | reflexivity ].
Qed.

(* ---- the event machine ---- *)
Lemma check_unsolicited_buffers_o : forall s, obuf UNSOL (check_unsolicited_buffers D s) = obuf UNSOL s.
Proof.
  intros s. unfold check_unsolicited_buffers.
  pose proof (pop_b UNSOL s) as P. destruct (pop_unsolicited_cmd D s) as [s1 it]. cbn [fst] in P.
  destruct it as [[ci t]|]; [|exact P].
  destruct t; rewrite ?spfra_o, ?spfta_o; exact P.
Qed.

Lemma u_process_io_write_o : forall w,
  obuf UNSOL (st (fst (unsolicited_process_io_write w))) = obuf UNSOL (st w).
Proof.
  intros w. unfold Fsm.unsolicited_process_io_write. destruct (wbuf_char _ _ _) as [ch|]; [|reflexivity].
  destruct (ch =? 0)%N; wsimp.
  - destruct (u_wstate _); reflexivity.
  - destruct (io_write _ _) as [io' ok]. destruct ok; reflexivity.
Qed.

Theorem unsolicited_service_frame : forall w,
  cbuf (st (fst (unsolicited_events_service w))) = cbuf (st w).
Proof.
  intros w. change (obuf UNSOL (st (fst (unsolicited_events_service w))) = obuf UNSOL (st w)).
  unfold Fsm.unsolicited_events_service.
  destruct (u_state (u (st w)));
    first [ apply format_read_args_o | apply process_rt_loop_o | apply u_process_io_write_o | idtac ];
    wsimp;
    first [ apply format_test_args_o | apply u_io_write_wait_b | apply unsolicited_reset_state_b
          | apply spfra_o | apply spfta_o | idtac ].
  destruct (negb _); [|reflexivity].
  destruct (ring_items D (st w)); wsimp; apply check_unsolicited_buffers_o.
Qed.

End Frame.
