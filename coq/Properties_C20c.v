(* Properties_C20c.v -- property C20, completion.  Proofs are in Lemmas_C20c.v.

   Properties_C20.v proves that the per-line scratch is dead between lines (relational theorem) and
   C20_fresh_vs_used: an idle world whose flags k_cr / k_hold / k_implicit are clear, whose k_cmd is
   None and whose working buffer has its nominal size behaves, for every operation list, like the
   same world with a freshly initialised command machine and working buffer.  This file adds:

   1. C20_idle_cmd_none: in EVERY history from cat_init (arbitrary oracles, no hypothesis at all),
      k_state = CS_IDLE implies k_cmd = None -- CS_IDLE is entered through reset_state only
      (C20_flush_continuation: a flush never continues in CS_IDLE).
   2. C20_idle_reachable_hyps / C20_fresh_vs_used_reachable: the five hypotheses of
      C20_fresh_vs_used hold in every reachable idle state of the supported domain, hence every
      reachable idle state behaves like the fresh parser; C20_fresh_vs_used_scripted: the same for
      every scripted scenario (the worlds used by the end-to-end theorems, the extraction and the
      correspondence check).
   3. Re-entrant whole-line theorems E2E_*_re: the whole-line theorems of Properties_C01e.v with a
      conclusion that re-establishes every hypothesis for the next line (the world is again a
      scripted always-ready world, the parser is idle with all flags clear, the event machine, the
      buffer size and the disable flags are unchanged).  C20_line_re / C20_chain: the same for a
      line of any covered kind and for any list of such lines.  C20_concat2 / C20_concat_no_store:
      THE LITERAL C20 STATEMENT for two lines of the covered kinds -- the output for the input
      l1 l2 rest equals the output for l1 fed alone followed by the output for l2 fed alone to a
      FRESH parser (cat_init again: Script.reinit_state, same variables and disable flags).
   4. Line ending: E2E_read_line_cr (AT name ? CR LF is answered with CR LF newlines and the flag is
      clear afterwards), E2E_cr_read_line (a CR before the first non-blank character does not
      select CR LF), C20_line_newline (in every history the newline being written is the one k_cr
      selects), C20_cr_step_frame (k_cr is constant from the line's LF to the reset, and a CR
      consumed in CS_IDLE does not set it).  The requested form of C20_line_newline (for every
      state satisfying J, without reachability) is FALSE: C20_line_newline_requested_false.

   Covered kinds of lines (Lemmas_C20c.line): READ answered from variables with LF and with CR LF
   termination, unknown or ambiguous name in RUN and READ form, WRITE to variables. *)
From Coq Require Import List NArith ZArith Bool Arith.
From CatV Require Import Bytes Defs Codec Spec Fsm Script ResolveDefs SchedDefs GlueDefs TextDefs.
From CatV Require Import Skel SkelInv SkelSim Lemmas_C03 Lemmas_Inv.
From CatV Require Lemmas_C07 Lemmas_C07e Lemmas_E2E Lemmas_C20 Lemmas_C20c.
Import ListNotations.
Local Open Scope nat_scope.

Local Notation wst := (Fsm.st sio smu shs).
Local Notation wio := (Fsm.io sio smu shs).
Local Notation whs := (Fsm.hs sio smu shs).
Local Notation wtr := (Fsm.tr sio smu shs).

(* ================================================================== *)
(* 1, 2, 4 (invariants): every history, arbitrary oracles              *)
(* ================================================================== *)
Section C20c.
Variable D : desc.
Variables ioS muS hS : Type.
Variable io_read : ioS -> ioS * option N.
Variable io_write : ioS -> N -> ioS * bool.
Variable mu_lock : muS -> muS * bool.
Variable mu_unlock : muS -> muS * bool.
Variable h_call : hS -> hreq -> hS * hres.

Local Notation world := (Fsm.world ioS muS hS).
Local Notation st := (Fsm.st ioS muS hS).
Local Notation tr := (Fsm.tr ioS muS hS).
Local Notation set_st := (Fsm.set_st ioS muS hS).
Local Notation step := (Fsm.step D ioS muS hS io_read io_write mu_lock mu_unlock h_call).
Local Notation run := (Fsm.run D ioS muS hS io_read io_write mu_lock mu_unlock h_call).
Local Notation reach m x mx h ops := (run (mkWorld ioS muS hS (init_state D m) x mx h []) ops).

(* P1: no hypothesis on the descriptor, the operations or the oracles *)
Theorem C20_idle_cmd_none : forall m x mx h ops,
  let s := st (reach m x mx h ops) in
  k_state (k s) = CS_IDLE -> k_cmd (k s) = None.
Proof. exact (Lemmas_C20c.idle_cmd_none D ioS muS hS io_read io_write mu_lock mu_unlock h_call). Qed.

(* why: a flush never continues in CS_IDLE, so CS_IDLE is entered through reset_state only *)
Theorem C20_flush_continuation : forall m x mx h ops,
  let s := st (reach m x mx h ops) in
  (k_state (k s) = CS_FLUSH_WAIT \/ k_state (k s) = CS_FLUSH) -> k_wafter (k s) <> CS_IDLE.
Proof. exact (Lemmas_C20c.flush_continuation D ioS muS hS io_read io_write mu_lock mu_unlock h_call). Qed.

(* P4: while the command machine writes, the newline it writes is the one k_cr selects *)
Theorem C20_line_newline : forall m x mx h ops,
  let s := st (reach m x mx h ops) in
  (k_state (k s) = CS_FLUSH_WAIT \/ k_state (k s) = CS_FLUSH) ->
  forall cr, k_wbuf (k s) = WB_NL cr -> cr = k_cr (k s).
Proof. exact (Lemmas_C20c.line_newline D ioS muS hS io_read io_write mu_lock mu_unlock h_call). Qed.

(* the three facts are one invariant, preserved by every public operation from ANY state *)
Theorem C20_scratch_invariant_step : forall (w : world) o,
  Lemmas_C20c.Walk.invb (st w) = true -> Lemmas_C20c.Walk.invb (st (step w o)) = true.
Proof. exact (Lemmas_C20c.Walk.inv_step D ioS muS hS io_read io_write mu_lock mu_unlock h_call). Qed.

(* the disable flags are written by the two setters only *)
Theorem C20_disable_flags_frame : forall (w : world) o,
  (forall i b, o <> OSetCmdDisable i b) -> (forall g b, o <> OSetGroupDisable g b) ->
  dis_cmd (st (step w o)) = dis_cmd (st w) /\ dis_grp (st (step w o)) = dis_grp (st w).
Proof. exact (Lemmas_C20c.dis_step D ioS muS hS io_read io_write mu_lock mu_unlock h_call). Qed.

Section Domain.
(* D3: event-side handlers do not return HOLD; events triggered from handlers name pool commands *)
Hypothesis no_uhold : forall hs q, unsol_req q = true -> r_code (snd (h_call hs q)) <> RC_HOLD.
Hypothesis handlers_valid : forall hs q, Forall (valid_icall D) (r_calls (snd (h_call hs q))).

(* P2: the hypotheses of C20_fresh_vs_used, in every reachable idle state of the domain *)
Theorem C20_idle_reachable_hyps : forall m x mx h ops0,
  wf_desc D m -> Forall (valid_op D) ops0 ->
  let s := st (reach m x mx h ops0) in
  k_state (k s) = CS_IDLE ->
  k_cr (k s) = false /\ k_hold (k s) = false /\ k_implicit (k s) = false /\ k_cmd (k s) = None /\
  length (cbuf s) = asz_of D /\ fault s = false.
Proof.
  exact (Lemmas_C20c.idle_reachable_hyps D ioS muS hS io_read io_write mu_lock mu_unlock h_call
           no_uhold handlers_valid).
Qed.

(* hence every reachable idle state behaves, for every continuation, like the fresh parser *)
Theorem C20_fresh_vs_used_reachable : forall m x mx h ops0,
  wf_desc D m -> Forall (valid_op D) ops0 ->
  let w := reach m x mx h ops0 in
  k_state (k (st w)) = CS_IDLE ->
  forall ops, tr (run w ops) =
              tr (run (set_st (set_k init_cfsm (set_cbuf (repeat (d_fill D) (asz_of D)) (st w))) w) ops).
Proof.
  exact (Lemmas_C20c.fresh_vs_used_reachable D ioS muS hS io_read io_write mu_lock mu_unlock h_call
           no_uhold handlers_valid).
Qed.
End Domain.

(* P4: k_cr does not move while the command machine is idle (a CR consumed in CS_IDLE is not
   recorded) nor in any state that is neither a reading state nor CS_AFTER_RESET, i.e. from the
   line's LF to the reset.  With C20_newline_choice / C20_line_newline: every newline of a line's
   response is CR LF iff a CR was read after the machine left CS_IDLE (C20_cr_recorded). *)
Example cr_quiet_def : forall x, Lemmas_C20c.cr_quiet x =
  match x with CS_IDLE => true | CS_AFTER_RESET => false | _ => negb (reading_state x) end.
Proof. reflexivity. Qed.

Theorem C20_cr_step_frame :
  (forall hs q, unsol_req q = true -> r_code (snd (h_call hs q)) <> RC_HOLD) ->
  forall (w : world) o,
  Lemmas_C20c.cr_quiet (k_state (k (st w))) = true -> k_cr (k (st (step w o))) = k_cr (k (st w)).
Proof. exact (Lemmas_C20c.cr_step_frame D ioS muS hS io_read io_write mu_lock mu_unlock h_call). Qed.

End C20c.

Print Assumptions C20_idle_cmd_none.
Print Assumptions C20_flush_continuation.
Print Assumptions C20_line_newline.
Print Assumptions C20_scratch_invariant_step.
Print Assumptions C20_disable_flags_frame.
Print Assumptions C20_idle_reachable_hyps.
Print Assumptions C20_fresh_vs_used_reachable.
Print Assumptions C20_cr_step_frame.

Example invb_def : forall s, Lemmas_C20c.Walk.invb s =
  (if cstate_beq (k_state (k s)) CS_IDLE then match k_cmd (k s) with None => true | Some _ => false end else true) &&
  (if Lemmas_C20.in_flush (k_state (k s))
   then negb (cstate_beq (k_wafter (k s)) CS_IDLE) &&
        match k_wbuf (k s) with WB_NL cr => Bool.eqb cr (k_cr (k s)) | WB_MAIN => true end
   else true).
Proof. reflexivity. Qed.

(* the requested form of C20_line_newline -- for every state that satisfies J -- is false: J does
   not constrain k_wbuf.  Witness Lemmas_C20c.nl_cex: CS_FLUSH, continuation CS_AFTER_RESET,
   counters (1, 1, 0), k_wbuf = WB_NL true, k_cr = false. *)
Theorem C20_line_newline_requested_false :
  ~ (forall s, J (ctl_of s) -> (k_state (k s) = CS_FLUSH_WAIT \/ k_state (k s) = CS_FLUSH) ->
       forall cr, k_wbuf (k s) = WB_NL cr -> cr = k_cr (k s)).
Proof. exact Lemmas_C20c.line_newline_requested_false. Qed.
Print Assumptions C20_line_newline_requested_false.

(* ================================================================== *)
(* scripted scenarios (API calls, new input, application stores, re-init) *)
(* ================================================================== *)
Theorem C20_idle_cmd_none_scripted : forall D m x mx h sops,
  let s := wst (srun D (sinit D m x mx h) sops) in
  k_state (k s) = CS_IDLE -> k_cmd (k s) = None.
Proof. exact Lemmas_C20c.idle_cmd_none_scripted. Qed.
Print Assumptions C20_idle_cmd_none_scripted.

Theorem C20_line_newline_scripted : forall D m x mx h sops,
  let s := wst (srun D (sinit D m x mx h) sops) in
  (k_state (k s) = CS_FLUSH_WAIT \/ k_state (k s) = CS_FLUSH) ->
  forall cr, k_wbuf (k s) = WB_NL cr -> cr = k_cr (k s).
Proof. exact Lemmas_C20c.line_newline_scripted. Qed.
Print Assumptions C20_line_newline_scripted.

Theorem C20_fresh_vs_used_scripted : forall D m x mx h sops,
  wf_desc D m -> Forall (valid_sop D) sops ->
  no_rt_hold h = true -> script_ok (res_calls_valid D) h = true ->
  let w := srun D (sinit D m x mx h) sops in
  k_state (k (wst w)) = CS_IDLE ->
  forall ops,
    tr sio smu shs (run D sio smu shs s_read s_write s_lock s_unlock s_call w ops) =
    tr sio smu shs (run D sio smu shs s_read s_write s_lock s_unlock s_call
      (set_st sio smu shs (set_k init_cfsm (set_cbuf (repeat (d_fill D) (asz_of D)) (wst w))) w) ops).
Proof. exact Lemmas_C20c.fresh_vs_used_scripted. Qed.
Print Assumptions C20_fresh_vs_used_scripted.

(* ================================================================== *)
(* 3. re-entrant whole-line theorems                                    *)
(* ================================================================== *)
(* what every covered line leaves behind (besides its output and its effect on the variables):
   the world is again a scripted always-ready world holding the rest of the input, the parser is
   idle with every flag clear, the event machine / buffer size / disable flags are those of the
   start, no fault, no handler call, each ghost counter advanced by one *)
Example re_facts_def : forall D s rest h (w : sworld), Lemmas_C20c.re_facts D s rest h w =
  (w = mkw (wst w) rest h (wtr w) /\
   k_state (k (wst w)) = CS_IDLE /\ k_cr (k (wst w)) = false /\ k_implicit (k (wst w)) = false /\
   k_hold (k (wst w)) = false /\ k_cmd (k (wst w)) = None /\
   u (wst w) = u s /\ u_state (u (wst w)) = US_IDLE /\ u_count (u (wst w)) = 0 /\
   length (cbuf (wst w)) = length (cbuf s) /\ dis_cmd (wst w) = dis_cmd s /\ dis_grp (wst w) = dis_grp s /\
   fault (wst w) = false /\ inq (wio w) = rest /\ whs w = h /\ calls_of (wtr w) = [] /\
   gL (wst w) = S (gL s) /\ gS (wst w) = S (gS s) /\ gR (wst w) = S (gR s)).
Proof. reflexivity. Qed.

Theorem E2E_read_line_re : forall D s name rest h i c args,
  d_mutex D = false -> 0 < ncmds D -> ncmds D <= 4 * length (cbuf s) -> 6 <= length (cbuf s) ->
  fault s = false ->
  k_state (k s) = CS_IDLE -> k_cr (k s) = false -> k_implicit (k s) = false -> k_hold (k s) = false ->
  u_state (u s) = US_IDLE -> u_count (u s) = 0 ->
  name_ok name = true -> implicit_hit D s (upper name) = false ->
  resolve (upper name) (enabled D s) (cmds D) = Some i -> nth_error (cmds D) i = Some c ->
  Lemmas_C07e.rt_cmd_ok (mem s) c -> Lemmas_C07e.read_args_text (mem s) c = Some args ->
  length (c_name c ++ [ch_EQ] ++ args) < length (cbuf s) ->
  let w0 := mkw s ([ch_A; ch_T] ++ name ++ [ch_QM; ch_LF] ++ rest) h [] in
  exists calls, let w := nsvc D calls w0 in
    output_of (wtr w) = [ch_LF] ++ c_name c ++ [ch_EQ] ++ args ++ [ch_LF] ++ [ch_LF] ++ txt_OK ++ [ch_LF] /\
    mem (wst w) = mem s /\ Lemmas_C20c.re_facts D s rest h w.
Proof. exact Lemmas_C20c.E2E_read_line_re_proof. Qed.
Print Assumptions E2E_read_line_re.

Theorem E2E_unknown_line_re : forall D s name rest h,
  d_mutex D = false -> 0 < ncmds D -> ncmds D <= 4 * length (cbuf s) -> 6 <= length (cbuf s) ->
  fault s = false ->
  k_state (k s) = CS_IDLE -> k_cr (k s) = false -> k_implicit (k s) = false -> k_hold (k s) = false ->
  u_state (u s) = US_IDLE -> u_count (u s) = 0 ->
  name_ok name = true -> implicit_hit D s (upper name) = false ->
  resolve (upper name) (enabled D s) (cmds D) = None ->
  let w0 := mkw s ([ch_A; ch_T] ++ name ++ [ch_LF] ++ rest) h [] in
  exists calls, let w := nsvc D calls w0 in
    output_of (wtr w) = [ch_LF] ++ txt_ERROR ++ [ch_LF] /\
    mem (wst w) = mem s /\ Lemmas_C20c.re_facts D s rest h w.
Proof. exact Lemmas_C20c.E2E_unknown_line_re_proof. Qed.
Print Assumptions E2E_unknown_line_re.

Theorem E2E_unknown_read_line_re : forall D s name rest h,
  d_mutex D = false -> 0 < ncmds D -> ncmds D <= 4 * length (cbuf s) -> 6 <= length (cbuf s) ->
  fault s = false ->
  k_state (k s) = CS_IDLE -> k_cr (k s) = false -> k_implicit (k s) = false -> k_hold (k s) = false ->
  u_state (u s) = US_IDLE -> u_count (u s) = 0 ->
  name_ok name = true -> implicit_hit D s (upper name) = false ->
  resolve (upper name) (enabled D s) (cmds D) = None ->
  let w0 := mkw s ([ch_A; ch_T] ++ name ++ [ch_QM; ch_LF] ++ rest) h [] in
  exists calls, let w := nsvc D calls w0 in
    output_of (wtr w) = [ch_LF] ++ txt_ERROR ++ [ch_LF] /\
    mem (wst w) = mem s /\ Lemmas_C20c.re_facts D s rest h w.
Proof. exact Lemmas_C20c.E2E_unknown_read_line_re_proof. Qed.
Print Assumptions E2E_unknown_read_line_re.

Theorem E2E_write_line_re : forall D s name rest h i c m args,
  d_mutex D = false -> 0 < ncmds D -> ncmds D <= 4 * length (cbuf s) -> 6 <= length (cbuf s) ->
  fault s = false ->
  k_state (k s) = CS_IDLE -> k_cr (k s) = false -> k_implicit (k s) = false -> k_hold (k s) = false ->
  u_state (u s) = US_IDLE -> u_count (u s) = 0 ->
  name_ok name = true -> implicit_hit D s (upper name) = false ->
  resolve (upper name) (enabled D s) (cmds D) = Some i -> nth_error (cmds D) i = Some c ->
  Lemmas_C07e.rt_cmd_ok m c -> Lemmas_C07e.read_args_text m c = Some args ->
  Lemmas_C07e.same_shape m (mem s) -> ~ In ch_CR args -> length args < length (cbuf s) ->
  let w0 := mkw s ([ch_A; ch_T] ++ name ++ [ch_EQ] ++ args ++ [ch_LF] ++ rest) h [] in
  exists calls, let w := nsvc D calls w0 in
    output_of (wtr w) = [ch_LF] ++ txt_OK ++ [ch_LF] /\
    (forall v d0, In v (c_vars c) -> nth_error m (v_slot v) = Some d0 ->
       exists d1, nth_error (mem (wst w)) (v_slot v) = Some d1 /\ Lemmas_C07.same_value v d1 d0) /\
    (forall sl, ~ In sl (map v_slot (c_vars c)) -> nth_error (mem (wst w)) sl = nth_error (mem s) sl) /\
    Lemmas_C20c.re_facts D s rest h w.
Proof. exact Lemmas_C20c.E2E_write_line_re_proof. Qed.
Print Assumptions E2E_write_line_re.

(* P4, line level: AT name ? CR LF is answered with CR LF newlines; afterwards the flag is clear
   (re_facts) and the parser is ready for the next line *)
Theorem E2E_read_line_cr_re : forall D s name rest h i c args,
  d_mutex D = false -> 0 < ncmds D -> ncmds D <= 4 * length (cbuf s) -> 6 <= length (cbuf s) ->
  fault s = false ->
  k_state (k s) = CS_IDLE -> k_cr (k s) = false -> k_implicit (k s) = false -> k_hold (k s) = false ->
  u_state (u s) = US_IDLE -> u_count (u s) = 0 ->
  name_ok name = true -> implicit_hit D s (upper name) = false ->
  resolve (upper name) (enabled D s) (cmds D) = Some i -> nth_error (cmds D) i = Some c ->
  Lemmas_C07e.rt_cmd_ok (mem s) c -> Lemmas_C07e.read_args_text (mem s) c = Some args ->
  length (c_name c ++ [ch_EQ] ++ args) < length (cbuf s) ->
  let w0 := mkw s ([ch_A; ch_T] ++ name ++ [ch_QM; ch_CR; ch_LF] ++ rest) h [] in
  exists calls, let w := nsvc D calls w0 in
    output_of (wtr w) = [ch_CR; ch_LF] ++ c_name c ++ [ch_EQ] ++ args ++ [ch_CR; ch_LF] ++
                        [ch_CR; ch_LF] ++ txt_OK ++ [ch_CR; ch_LF] /\
    mem (wst w) = mem s /\ Lemmas_C20c.re_facts D s rest h w.
Proof. exact Lemmas_C20c.E2E_read_line_cr_re_proof. Qed.
Print Assumptions E2E_read_line_cr_re.

(* the same in the form of Properties_C01e.E2E_read_line *)
Theorem E2E_read_line_cr : forall D s name rest h i c args,
  d_mutex D = false -> 0 < ncmds D -> ncmds D <= 4 * length (cbuf s) -> 6 <= length (cbuf s) ->
  fault s = false ->
  k_state (k s) = CS_IDLE -> k_cr (k s) = false -> k_implicit (k s) = false -> k_hold (k s) = false ->
  u_state (u s) = US_IDLE -> u_count (u s) = 0 ->
  name_ok name = true -> implicit_hit D s (upper name) = false ->
  resolve (upper name) (enabled D s) (cmds D) = Some i -> nth_error (cmds D) i = Some c ->
  Lemmas_C07e.rt_cmd_ok (mem s) c -> Lemmas_C07e.read_args_text (mem s) c = Some args ->
  length (c_name c ++ [ch_EQ] ++ args) < length (cbuf s) ->
  let w0 := mkw s ([ch_A; ch_T] ++ name ++ [ch_QM; ch_CR; ch_LF] ++ rest) h [] in
  exists calls, let w := nsvc D calls w0 in
    k_state (k (wst w)) = CS_IDLE /\ k_cr (k (wst w)) = false /\ inq (wio w) = rest /\ whs w = h /\
    calls_of (wtr w) = [] /\ mem (wst w) = mem s /\ fault (wst w) = false /\
    output_of (wtr w) = [ch_CR; ch_LF] ++ c_name c ++ [ch_EQ] ++ args ++ [ch_CR; ch_LF] ++
                        [ch_CR; ch_LF] ++ txt_OK ++ [ch_CR; ch_LF] /\
    gL (wst w) = S (gL s) /\ gS (wst w) = S (gS s) /\ gR (wst w) = S (gR s).
Proof. exact Lemmas_C20c.Cr.E2E_read_line_cr_proof. Qed.
Print Assumptions E2E_read_line_cr.

(* the first-non-blank clause at line level: CR AT name ? LF is answered with plain LF newlines *)
Theorem E2E_cr_read_line : forall D s name rest h i c args,
  d_mutex D = false -> 0 < ncmds D -> ncmds D <= 4 * length (cbuf s) -> 6 <= length (cbuf s) ->
  fault s = false ->
  k_state (k s) = CS_IDLE -> k_cr (k s) = false -> k_implicit (k s) = false -> k_hold (k s) = false ->
  u_state (u s) = US_IDLE -> u_count (u s) = 0 ->
  name_ok name = true -> implicit_hit D s (upper name) = false ->
  resolve (upper name) (enabled D s) (cmds D) = Some i -> nth_error (cmds D) i = Some c ->
  Lemmas_C07e.rt_cmd_ok (mem s) c -> Lemmas_C07e.read_args_text (mem s) c = Some args ->
  length (c_name c ++ [ch_EQ] ++ args) < length (cbuf s) ->
  let w0 := mkw s (ch_CR :: [ch_A; ch_T] ++ name ++ [ch_QM; ch_LF] ++ rest) h [] in
  exists calls, let w := nsvc D calls w0 in
    k_state (k (wst w)) = CS_IDLE /\ k_cr (k (wst w)) = false /\ inq (wio w) = rest /\ whs w = h /\
    calls_of (wtr w) = [] /\ mem (wst w) = mem s /\ fault (wst w) = false /\
    output_of (wtr w) = [ch_LF] ++ c_name c ++ [ch_EQ] ++ args ++ [ch_LF] ++ [ch_LF] ++ txt_OK ++ [ch_LF] /\
    gL (wst w) = S (gL s) /\ gS (wst w) = S (gS s) /\ gR (wst w) = S (gR s).
Proof. exact Lemmas_C20c.Cr.E2E_cr_read_line_proof. Qed.
Print Assumptions E2E_cr_read_line.

(* ---------- any covered kind, any list of lines ---------- *)
Example ready_def : forall D s, Lemmas_C20c.ready D s =
  (0 < ncmds D /\ ncmds D <= 4 * length (cbuf s) /\ 6 <= length (cbuf s) /\ fault s = false /\
   k_state (k s) = CS_IDLE /\ k_cr (k s) = false /\ k_implicit (k s) = false /\ k_hold (k s) = false /\
   u_state (u s) = US_IDLE /\ u_count (u s) = 0).
Proof. reflexivity. Qed.

Example same_ctx_def : forall s s', Lemmas_C20c.same_ctx s s' =
  (length (cbuf s') = length (cbuf s) /\ dis_cmd s' = dis_cmd s /\ dis_grp s' = dis_grp s /\ u s' = u s /\
   k_cmd (k s') = None /\ gL s' = S (gL s) /\ gS s' = S (gS s) /\ gR s' = S (gR s)).
Proof. reflexivity. Qed.

Import Lemmas_C20c.   (* line, LRead, LReadCr, LUnknown, LUnknownRead, LWrite *)

Example line_in_def : forall l, line_in l =
  match l with
  | LRead name _ _ _ => [ch_A; ch_T] ++ name ++ [ch_QM; ch_LF]
  | LReadCr name _ _ _ => [ch_A; ch_T] ++ name ++ [ch_QM; ch_CR; ch_LF]
  | LUnknown name => [ch_A; ch_T] ++ name ++ [ch_LF]
  | LUnknownRead name => [ch_A; ch_T] ++ name ++ [ch_QM; ch_LF]
  | LWrite name _ _ _ args => [ch_A; ch_T] ++ name ++ [ch_EQ] ++ args ++ [ch_LF]
  end.
Proof. reflexivity. Qed.

Example line_out_def : forall l, line_out l =
  match l with
  | LRead _ _ c args => [ch_LF] ++ c_name c ++ [ch_EQ] ++ args ++ [ch_LF] ++ [ch_LF] ++ txt_OK ++ [ch_LF]
  | LReadCr _ _ c args =>
      [ch_CR; ch_LF] ++ c_name c ++ [ch_EQ] ++ args ++ [ch_CR; ch_LF] ++ [ch_CR; ch_LF] ++ txt_OK ++ [ch_CR; ch_LF]
  | LUnknown _ | LUnknownRead _ => [ch_LF] ++ txt_ERROR ++ [ch_LF]
  | LWrite _ _ _ _ _ => [ch_LF] ++ txt_OK ++ [ch_LF]
  end.
Proof. reflexivity. Qed.

(* the hypotheses of the whole-line theorems about the line, relative to the state it meets *)
Example line_pre_def : forall D l s, line_pre D l s =
  match l with
  | LRead name i c args | LReadCr name i c args =>
      name_ok name = true /\ implicit_hit D s (upper name) = false /\
      resolve (upper name) (enabled D s) (cmds D) = Some i /\ nth_error (cmds D) i = Some c /\
      Lemmas_C07e.rt_cmd_ok (mem s) c /\ Lemmas_C07e.read_args_text (mem s) c = Some args /\
      length (c_name c ++ [ch_EQ] ++ args) < length (cbuf s)
  | LUnknown name | LUnknownRead name =>
      name_ok name = true /\ implicit_hit D s (upper name) = false /\
      resolve (upper name) (enabled D s) (cmds D) = None
  | LWrite name i c m args =>
      name_ok name = true /\ implicit_hit D s (upper name) = false /\
      resolve (upper name) (enabled D s) (cmds D) = Some i /\ nth_error (cmds D) i = Some c /\
      Lemmas_C07e.rt_cmd_ok m c /\ Lemmas_C07e.read_args_text m c = Some args /\
      Lemmas_C07e.same_shape m (mem s) /\ ~ In ch_CR args /\ length args < length (cbuf s)
  end.
Proof. reflexivity. Qed.

(* what the line does to the variables *)
Example line_post_def : forall l s s', line_post l s s' =
  match l with
  | LWrite _ _ c m _ =>
      (forall v d0, In v (c_vars c) -> nth_error m (v_slot v) = Some d0 ->
         exists d1, nth_error (mem s') (v_slot v) = Some d1 /\ Lemmas_C07.same_value v d1 d0) /\
      (forall sl, ~ In sl (map v_slot (c_vars c)) -> nth_error (mem s') sl = nth_error (mem s) sl)
  | _ => mem s' = mem s
  end.
Proof. reflexivity. Qed.

(* the premise depends on the state only through variables, disable flags and buffer size *)
Theorem C20_line_pre_transfer : forall D l s s',
  mem s' = mem s -> dis_cmd s' = dis_cmd s -> dis_grp s' = dis_grp s -> length (cbuf s') = length (cbuf s) ->
  line_pre D l s -> line_pre D l s'.
Proof. exact line_pre_transfer. Qed.
Print Assumptions C20_line_pre_transfer.

(* one line of any covered kind, any initial trace: ready again afterwards *)
Theorem C20_line_re : forall D, d_mutex D = false -> forall l s rest h t,
  ready D s -> line_pre D l s ->
  exists calls s' t',
    nsvc D calls (mkw s (line_in l ++ rest) h t) = mkw s' rest h (t' ++ t) /\
    calls_of t' = [] /\ output_of t' = line_out l /\
    ready D s' /\ same_ctx s s' /\ line_post l s s'.
Proof. exact line_re_world. Qed.
Print Assumptions C20_line_re.

(* any list of lines: the premise of each line is needed in the states its predecessors can leave *)
Example chain_ok_def : forall D s ls, chain_ok D s ls <->
  match ls with
  | [] => True
  | l :: ls' => line_pre D l s /\
                forall s1, ready D s1 -> same_ctx s s1 -> line_post l s s1 -> chain_ok D s1 ls'
  end.
Proof.
  intros D s ls. split.
  - intros H. destruct H; [exact I | split; assumption].
  - destruct ls; intros H; [constructor | destruct H; constructor; assumption].
Qed.

Theorem C20_chain : forall D, d_mutex D = false -> forall ls s rest h t,
  ready D s -> chain_ok D s ls ->
  exists calls s' t',
    nsvc D calls (mkw s (concat (map line_in ls) ++ rest) h t) = mkw s' rest h (t' ++ t) /\
    calls_of t' = [] /\ output_of t' = concat (map line_out ls) /\ ready D s'.
Proof. exact chain_world. Qed.
Print Assumptions C20_chain.

(* lines that do not store (everything but WRITE): all premises can be stated on the first state *)
Theorem C20_chain_ok_no_store : forall D ls s,
  forallb (fun l => match l with LWrite _ _ _ _ _ => false | _ => true end) ls = true ->
  Forall (fun l => line_pre D l s) ls -> chain_ok D s ls.
Proof. exact chain_ok_no_store. Qed.
Print Assumptions C20_chain_ok_no_store.

(* ---------- THE CONCATENATION STATEMENT OF C20, two lines of the covered kinds ----------
   w  : both lines (and more input) fed to the used parser
   wa : line 1 fed alone
   wb : line 2 fed alone to a FRESH parser: Script.reinit_state = cat_init again on the same
        descriptor with the variables and disable flags line 1 left behind *)
Theorem C20_concat2 : forall D, d_mutex D = false -> forall l1 l2 s rest h,
  length (cbuf s) = asz_of D -> ready D s -> line_pre D l1 s ->
  (forall s1, ready D s1 -> same_ctx s s1 -> line_post l1 s s1 -> line_pre D l2 s1) ->
  exists c c1 c2,
    let w  := nsvc D c  (mkw s (line_in l1 ++ line_in l2 ++ rest) h []) in
    let wa := nsvc D c1 (mkw s (line_in l1) h []) in
    let wb := nsvc D c2 (mkw (reinit_state D (wst wa)) (line_in l2) h []) in
    output_of (wtr w) = output_of (wtr wa) ++ output_of (wtr wb) /\
    output_of (wtr wa) = line_out l1 /\ output_of (wtr wb) = line_out l2 /\
    inq (wio w) = rest /\ inq (wio wa) = [] /\ inq (wio wb) = [] /\
    calls_of (wtr w) = [] /\ ready D (wst w) /\ ready D (wst wa) /\ ready D (wst wb).
Proof. exact concat2. Qed.
Print Assumptions C20_concat2.

(* first line not a WRITE: both premises on the first state.  Instances: READ then READ (LF or
   CR LF each), unknown then WRITE, ... *)
Theorem C20_concat_no_store : forall D, d_mutex D = false -> forall l1 l2 s rest h,
  length (cbuf s) = asz_of D -> ready D s ->
  (match l1 with LWrite _ _ _ _ _ => false | _ => true end) = true ->
  line_pre D l1 s -> line_pre D l2 s ->
  exists c c1 c2,
    let w  := nsvc D c  (mkw s (line_in l1 ++ line_in l2 ++ rest) h []) in
    let wa := nsvc D c1 (mkw s (line_in l1) h []) in
    let wb := nsvc D c2 (mkw (reinit_state D (wst wa)) (line_in l2) h []) in
    output_of (wtr w) = output_of (wtr wa) ++ output_of (wtr wb) /\
    output_of (wtr wa) = line_out l1 /\ output_of (wtr wb) = line_out l2 /\
    inq (wio w) = rest /\ inq (wio wa) = [] /\ inq (wio wb) = [] /\
    calls_of (wtr w) = [] /\ ready D (wst w) /\ ready D (wst wa) /\ ready D (wst wb).
Proof. exact concat_no_store. Qed.
Print Assumptions C20_concat_no_store.

(* READ line followed by READ line, spelled out *)
Corollary C20_concat_read_read : forall D s rest h n1 i1 c1 a1 n2 i2 c2 a2,
  d_mutex D = false -> length (cbuf s) = asz_of D -> ready D s ->
  line_pre D (LRead n1 i1 c1 a1) s -> line_pre D (LRead n2 i2 c2 a2) s ->
  exists c ca cb,
    let w  := nsvc D c  (mkw s (([ch_A; ch_T] ++ n1 ++ [ch_QM; ch_LF]) ++ ([ch_A; ch_T] ++ n2 ++ [ch_QM; ch_LF]) ++ rest) h []) in
    let wa := nsvc D ca (mkw s ([ch_A; ch_T] ++ n1 ++ [ch_QM; ch_LF]) h []) in
    let wb := nsvc D cb (mkw (reinit_state D (wst wa)) ([ch_A; ch_T] ++ n2 ++ [ch_QM; ch_LF]) h []) in
    output_of (wtr w) = output_of (wtr wa) ++ output_of (wtr wb) /\
    output_of (wtr wa) = [ch_LF] ++ c_name c1 ++ [ch_EQ] ++ a1 ++ [ch_LF] ++ [ch_LF] ++ txt_OK ++ [ch_LF] /\
    output_of (wtr wb) = [ch_LF] ++ c_name c2 ++ [ch_EQ] ++ a2 ++ [ch_LF] ++ [ch_LF] ++ txt_OK ++ [ch_LF] /\
    inq (wio w) = rest /\ inq (wio wa) = [] /\ inq (wio wb) = [] /\
    calls_of (wtr w) = [] /\ ready D (wst w) /\ ready D (wst wa) /\ ready D (wst wb).
Proof.
  intros D s rest h n1 i1 c1 a1 n2 i2 c2 a2 Hmx L R P1 P2.
  exact (concat_no_store D Hmx (LRead n1 i1 c1 a1) (LRead n2 i2 c2 a2) s rest h L R eq_refl P1 P2).
Qed.
Print Assumptions C20_concat_read_read.

(* unknown line followed by WRITE line, spelled out *)
Corollary C20_concat_unknown_write : forall D s rest h n1 n2 i2 c2 m2 a2,
  d_mutex D = false -> length (cbuf s) = asz_of D -> ready D s ->
  line_pre D (LUnknown n1) s -> line_pre D (LWrite n2 i2 c2 m2 a2) s ->
  exists c ca cb,
    let w  := nsvc D c  (mkw s (([ch_A; ch_T] ++ n1 ++ [ch_LF]) ++ ([ch_A; ch_T] ++ n2 ++ [ch_EQ] ++ a2 ++ [ch_LF]) ++ rest) h []) in
    let wa := nsvc D ca (mkw s ([ch_A; ch_T] ++ n1 ++ [ch_LF]) h []) in
    let wb := nsvc D cb (mkw (reinit_state D (wst wa)) ([ch_A; ch_T] ++ n2 ++ [ch_EQ] ++ a2 ++ [ch_LF]) h []) in
    output_of (wtr w) = output_of (wtr wa) ++ output_of (wtr wb) /\
    output_of (wtr wa) = [ch_LF] ++ txt_ERROR ++ [ch_LF] /\
    output_of (wtr wb) = [ch_LF] ++ txt_OK ++ [ch_LF] /\
    inq (wio w) = rest /\ inq (wio wa) = [] /\ inq (wio wb) = [] /\
    calls_of (wtr w) = [] /\ ready D (wst w) /\ ready D (wst wa) /\ ready D (wst wb).
Proof.
  intros D s rest h n1 n2 i2 c2 m2 a2 Hmx L R P1 P2.
  exact (concat_no_store D Hmx (LUnknown n1) (LWrite n2 i2 c2 m2 a2) s rest h L R eq_refl P1 P2).
Qed.
Print Assumptions C20_concat_unknown_write.

(* ================================================================== *)
(* non-vacuity: the instance of Lemmas_E2E.E2E_examples                *)
(* (+X : int16, string[6], hexbuf[2], uint8 ; +XY : run handler ; 40-byte buffer)                      *)
(* lA = AT+x? CR LF   lB = AT+x? LF   lU = AT+ LF (ambiguous)   lW = AT+x= args0 LF                    *)
(* ================================================================== *)
Import Lemmas_E2E.E2E_examples Lemmas_C20c.Examples.

(* the hypotheses are satisfiable *)
Example C20c_ex_hyps :
  ready D0 s0 /\ ready D0 s1 /\ length (cbuf s0) = asz_of D0 /\
  line_pre D0 lB s0 /\ line_pre D0 lA s0 /\ line_pre D0 lU s1 /\ line_pre D0 lW s1.
Proof.
  exact (conj (ex_ready m0) (conj (ex_ready m1) (conj eq_refl
        (conj (proj1 ex_pre_read) (conj (proj2 ex_pre_read) (conj (ex_pre_unknown m1) ex_pre_write)))))).
Qed.

(* C20_chain applied: a CR LF line followed by an LF line, each answered in its own style *)
Example C20c_ex_chain : forall rest h,
  exists calls s' t',
    nsvc D0 calls (mkw s0 (concat (map line_in [lA; lB]) ++ rest) h []) = mkw s' rest h (t' ++ []) /\
    output_of t' = ([13; 10; 43; 88; 61] ++ args0 ++ [13; 10; 13; 10; 79; 75; 13; 10] ++
                    [10; 43; 88; 61] ++ args0 ++ [10; 10; 79; 75; 10])%N /\ ready D0 s'.
Proof. exact ex_chain_apply. Qed.

(* C20_concat2 applied: an unknown line followed by a WRITE line *)
Example C20c_ex_concat : forall rest h,
  exists c c1 c2,
    let w  := nsvc D0 c  (mkw s1 (line_in lU ++ line_in lW ++ rest) h []) in
    let wa := nsvc D0 c1 (mkw s1 (line_in lU) h []) in
    let wb := nsvc D0 c2 (mkw (reinit_state D0 (wst wa)) (line_in lW) h []) in
    output_of (wtr w) = output_of (wtr wa) ++ output_of (wtr wb) /\
    output_of (wtr w) = [10; 69; 82; 82; 79; 82; 10; 10; 79; 75; 10]%N /\ inq (wio w) = rest.
Proof. exact ex_concat_apply. Qed.

(* the same by computation, the three runs spelled out: AT+ LF AT+x= args0 LF on the memory m1
   (21 + 43 calls); line 1 alone (21 calls); line 2 alone after cat_init (43 calls) *)
Example C20c_ex_concat_run :
  let l1 := line_in lU in let l2 := line_in lW in
  let w  := nsvc D0 (21 + 43) (mkw s1 (l1 ++ l2) [] []) in
  let wa := nsvc D0 21 (mkw s1 l1 [] []) in
  let wb := nsvc D0 43 (mkw (reinit_state D0 (wst wa)) l2 [] []) in
  output_of (wtr w) = output_of (wtr wa) ++ output_of (wtr wb) /\
  output_of (wtr wa) = [10; 69; 82; 82; 79; 82; 10]%N /\ output_of (wtr wb) = [10; 79; 75; 10]%N /\
  inq (wio w) = [] /\ mem (wst w) = mem (wst wb) /\
  k_state (k (wst w)) = CS_IDLE /\ k_cmd (k (wst w)) = None /\ k_cr (k (wst w)) = false.
Proof. vm_compute. repeat split; reflexivity. Qed.

(* AT+x? CR LF AT+x? LF : CR LF answer, then LF answer = the answer of the fresh parser *)
Example C20c_ex_mixed_run :
  let l1 := line_in lA in let l2 := line_in lB in
  let w  := nsvc D0 (58 + 53) (mkw s0 (l1 ++ l2) [] []) in
  let wa := nsvc D0 58 (mkw s0 l1 [] []) in
  let wb := nsvc D0 53 (mkw (reinit_state D0 (wst wa)) l2 [] []) in
  output_of (wtr w) = output_of (wtr wa) ++ output_of (wtr wb) /\
  output_of (wtr wa) = ([13; 10; 43; 88; 61] ++ args0 ++ [13; 10; 13; 10; 79; 75; 13; 10])%N /\
  output_of (wtr wb) = ([10; 43; 88; 61] ++ args0 ++ [10; 10; 79; 75; 10])%N /\
  inq (wio w) = [] /\ k_state (k (wst w)) = CS_IDLE /\ k_cr (k (wst w)) = false.
Proof. vm_compute. repeat split; reflexivity. Qed.

(* AT+x? LF AT+x? CR LF : LF answer, then CR LF answer *)
Example C20c_ex_mixed_run2 :
  let w := nsvc D0 (53 + 58) (mkw s0 (line_in lB ++ line_in lA) [] []) in
  output_of (wtr w) = ([10; 43; 88; 61] ++ args0 ++ [10; 10; 79; 75; 10] ++
                       [13; 10; 43; 88; 61] ++ args0 ++ [13; 10; 13; 10; 79; 75; 13; 10])%N /\
  inq (wio w) = [] /\ k_cr (k (wst w)) = false.
Proof. vm_compute. repeat split; reflexivity. Qed.

(* the flag is set while the CR LF answer is written, cleared by the reset; a CR in front of the
   line is not recorded *)
Example C20c_ex_flag :
  k_cr (k (wst (nsvc D0 57 (mkw s0 ([65; 84; 43; 120; 63; 13; 10; 1; 2; 3]%N) [] [])))) = true /\
  k_cr (k (wst (nsvc D0 58 (mkw s0 ([65; 84; 43; 120; 63; 13; 10; 1; 2; 3]%N) [] [])))) = false /\
  go s0 ([13; 65; 84; 43; 120; 63; 10; 1; 2; 3]%N) 54 =
  (CS_IDLE, [1; 2; 3]%N, [], [], ([10; 43; 88; 61] ++ args0 ++ [10; 10; 79; 75; 10])%N, m0, false, (1, 1, 1)).
Proof. vm_compute. repeat split; reflexivity. Qed.

(* C20_idle_cmd_none is not vacuous: mid-line k_cmd is Some, back in CS_IDLE it is None again
   (AT+x? LF: after 30 calls the command is found, after 53 the parser is idle) *)
Example C20c_ex_cmd :
  k_cmd (k (wst (nsvc D0 30 (mkw s0 (line_in lB) [] [])))) = Some 0 /\
  k_state (k (wst (nsvc D0 53 (mkw s0 (line_in lB) [] [])))) = CS_IDLE /\
  k_cmd (k (wst (nsvc D0 53 (mkw s0 (line_in lB) [] [])))) = None.
Proof. vm_compute. repeat split; reflexivity. Qed.
