(* Lemmas_Inv3.v — the history theorems of Properties_C02h.v (the command found is Spec.resolve of
   the name typed on the current line, for arbitrary oracles) transferred from hypotheses quantified
   over ALL oracle states (no_uhold, handlers_valid) to oracles that behave on an invariant of their
   own state (`_inv`), and to the scripted worlds of Script.v (`_scripted`).  Same technique as
   Lemmas_Inv.v / Lemmas_Inv2.v: the run driven by h_call equals the run driven by the sanitised
   oracle h_san on the invariant (run_san / step_san); the existing theorem is applied to the
   sanitised oracle; nothing is proved again.

   New here: the hypothesis flags_between_lines is itself computed by stepping the model, so it is
   transferred as well (fbl_san); the scripted forms state it with sc_flags_between_lines of
   Lemmas_Inv2.v, which is the predicate of Properties_C09c.v: fbl_C09c shows that it is the one of
   Lemmas_C09.v used by Properties_C02h.v. *)
From Coq Require Import List NArith ZArith Bool Arith Lia.
From CatV Require Import Bytes Defs Codec Spec Fsm Script ResolveDefs SchedDefs Skel SkelSim EvSkelSim Lemmas_C03.
From CatV Require Lemmas_C01s Lemmas_C09 Lemmas_Calls Properties_C09c.
From CatV Require Import Lemmas_C02h Lemmas_Inv Lemmas_Inv2.
From CatV Require Properties_C02h.
Import ListNotations.
Local Open Scope nat_scope.

(* ================================================================== *)
(* 0. the two spellings of `flags only change between lines`            *)
(* ================================================================== *)
Lemma fbl_C09c : forall D ioS muS hS io_read io_write mu_lock mu_unlock h_call ops
    (w : Fsm.world ioS muS hS),
  Properties_C09c.flags_between_lines D ioS muS hS io_read io_write mu_lock mu_unlock h_call w ops <->
  Lemmas_C09.flags_between_lines D ioS muS hS io_read io_write mu_lock mu_unlock h_call w ops.
Proof.
  intros D ioS muS hS io_read io_write mu_lock mu_unlock h_call.
  induction ops as [|o ops IH]; intros w.
  - split; intros _; exact I.
  - cbn [Properties_C09c.flags_between_lines Lemmas_C09.flags_between_lines].
    split; intros [H1 H2]; (split; [exact H1 | apply IH; exact H2]).
Qed.

(* ================================================================== *)
(* 1. generic oracle, invariant Good                                    *)
(* ================================================================== *)
Section InvD3.
Variable D : desc.
Variables ioS muS hS : Type.
Variable io_read : ioS -> ioS * option N.
Variable io_write : ioS -> N -> ioS * bool.
Variable mu_lock : muS -> muS * bool.
Variable mu_unlock : muS -> muS * bool.
Variable h_call : hS -> hreq -> hS * hres.
Variable HI : hS -> Prop.
Hypothesis HI_step : forall h q, HI h -> HI (fst (h_call h q)) /\ Good D q (snd (h_call h q)).

Local Notation world := (Fsm.world ioS muS hS).
Local Notation st := (Fsm.st ioS muS hS).
Local Notation hs := (Fsm.hs ioS muS hS).
Local Notation tr := (Fsm.tr ioS muS hS).
Local Notation run := (Fsm.run D ioS muS hS io_read io_write mu_lock mu_unlock h_call).
Local Notation step := (Fsm.step D ioS muS hS io_read io_write mu_lock mu_unlock h_call).
Local Notation init m x mx h := (mkWorld ioS muS hS (init_state D m) x mx h []).
Local Notation reach m x mx h ops := (run (init m x mx h) ops).
Local Notation hsan := (h_san D hS h_call).
Local Notation NU := (h_san_no_uhold D hS h_call).
Local Notation HVa := (h_san_valid D hS h_call).
Local Notation run' := (Fsm.run D ioS muS hS io_read io_write mu_lock mu_unlock hsan).
Local Notation step' := (Fsm.step D ioS muS hS io_read io_write mu_lock mu_unlock hsan).
Local Notation RS := (run_san D ioS muS hS io_read io_write mu_lock mu_unlock h_call HI HI_step).
Local Notation SS := (step_san D ioS muS hS io_read io_write mu_lock mu_unlock h_call HI HI_step).
Local Notation ARGS T := (T D ioS muS hS io_read io_write mu_lock mu_unlock hsan).
Local Notation fbl := (Lemmas_C09.flags_between_lines D ioS muS hS io_read io_write mu_lock mu_unlock h_call).
Local Notation fbl' := (Lemmas_C09.flags_between_lines D ioS muS hS io_read io_write mu_lock mu_unlock hsan).
Local Notation line w := (cur_line (Lemmas_C01s.consumed (tr w))).

(* the sanitised oracle sees the flag operations in the same states *)
Lemma fbl_san : forall ops (w : world), HI (hs w) -> (fbl' w ops <-> fbl w ops).
Proof.
  induction ops as [|o ops IH]; intros w Hw.
  - split; intros _; exact I.
  - cbn [Lemmas_C09.flags_between_lines].
    destruct (SS w o Hw) as [E Hn]. rewrite E.
    split; intros [H1 H2]; (split; [exact H1 | apply (IH _ Hn); exact H2]).
Qed.

Lemma run_san_all : forall m x mx h, HI h -> forall ops, run' (init m x mx h) ops = run (init m x mx h) ops.
Proof. intros m x mx h Hh ops. exact (proj1 (RS (init m x mx h) ops Hh)). Qed.

Theorem C02_found_is_resolve_inv : forall m x mx h ops, HI h ->
  wf_desc D m -> Forall (valid_op D) ops ->
  fbl (init m x mx h) ops ->
  let w := reach m x mx h ops in
  k_state (k (st w)) = CS_COMMAND_FOUND ->
  k_cmd (k (st w)) = resolve (typed_of (line w)) (enabled D (st w)) (cmds D) /\
  k_cmd (k (st w)) <> None /\
  k_type (k (st w)) = type_of (line w).
Proof.
  intros m x mx h ops Hh WF F FB. cbv zeta. rewrite <- (run_san_all m x mx h Hh ops).
  apply (fbl_san ops (init m x mx h) Hh) in FB.
  exact (ARGS Properties_C02h.C02_found_is_resolve NU HVa m x mx h ops WF F FB).
Qed.

Theorem C02_not_found_means_no_match_inv : forall m x mx h ops, HI h ->
  wf_desc D m -> Forall (valid_op D) ops ->
  fbl (init m x mx h) ops ->
  let w := reach m x mx h ops in
  k_state (k (st w)) = CS_COMMAND_NOT_FOUND ->
  resolve (typed_of (line w)) (enabled D (st w)) (cmds D) = None.
Proof.
  intros m x mx h ops Hh WF F FB. cbv zeta. rewrite <- (run_san_all m x mx h Hh ops).
  apply (fbl_san ops (init m x mx h) Hh) in FB.
  exact (ARGS Properties_C02h.C02_not_found_means_no_match NU HVa m x mx h ops WF F FB).
Qed.

Theorem C02_search_fails_inv : forall m x mx h ops o, HI h ->
  wf_desc D m -> Forall (valid_op D) (ops ++ [o]) ->
  fbl (init m x mx h) ops ->
  let w := reach m x mx h ops in
  k_state (k (st w)) = CS_SEARCH_COMMAND ->
  k_state (k (st (step w o))) = CS_COMMAND_NOT_FOUND \/ k_state (k (st (step w o))) = CS_ERROR ->
  resolve (typed_of (line w)) (enabled D (st w)) (cmds D) = None.
Proof.
  intros m x mx h ops o Hh WF F FB. cbv zeta.
  rewrite <- (proj1 (SS _ o (proj2 (RS (init m x mx h) ops Hh)))).
  rewrite <- (run_san_all m x mx h Hh ops).
  apply (fbl_san ops (init m x mx h) Hh) in FB.
  exact (ARGS Properties_C02h.C02_search_fails NU HVa m x mx h ops o WF F FB).
Qed.

Theorem C02_handler_is_resolved_inv : forall m x mx h ops q code, HI h ->
  wf_desc D m -> Forall (valid_op D) ops ->
  let w0 := init m x mx h in
  fbl w0 ops ->
  In (ECall q code) (tr (run w0 ops)) -> Lemmas_Calls.ev_side q = false ->
  exists ops0 opsm ops2, ops = ops0 ++ opsm ++ OService :: ops2 /\
    let wf := run w0 ops0 in
    k_state (k (st wf)) = CS_COMMAND_FOUND /\
    resolve (typed_of (line wf)) (enabled D (st wf)) (cmds D) = Some (req_cmd q) /\
    k_type (k (st wf)) = type_of (line wf) /\
    (forall j, j <= length opsm -> Lemmas_C09.needs_cmd (st (run w0 (ops0 ++ firstn j opsm))) = true) /\
    let s := st (run w0 (ops0 ++ opsm)) in
    k_cmd (k s) = Some (req_cmd q) /\ k_state (k s) = Lemmas_Calls.call_state q /\
    k_type (k s) = Lemmas_Calls.kind_type q.
Proof.
  intros m x mx h ops q code Hh WF F. cbv zeta. intros FB Hin Hev.
  pose proof (run_san_all m x mx h Hh) as E. rewrite <- E in Hin.
  apply (fbl_san ops (init m x mx h) Hh) in FB.
  destruct (ARGS Properties_C02h.C02_handler_is_resolved NU HVa m x mx h ops q code WF F FB Hin Hev)
    as (ops0 & opsm & ops2 & H1 & H2 & H3 & H4 & H5 & H6).
  cbv zeta in H2, H3, H4, H6. rewrite (E ops0) in H2, H3, H4. rewrite (E (ops0 ++ opsm)) in H6.
  exists ops0, opsm, ops2.
  split; [exact H1|]. split; [exact H2|]. split; [exact H3|]. split; [exact H4|]. split; [|exact H6].
  intros j Hl. rewrite <- E. exact (H5 j Hl).
Qed.

Theorem C02_handler_kind_inv : forall m x mx h ops q code, HI h ->
  wf_desc D m -> Forall (valid_op D) ops ->
  let w0 := init m x mx h in
  fbl w0 ops ->
  In (ECall q code) (tr (run w0 ops)) -> Lemmas_Calls.ev_side q = false ->
  exists ops0 ops1, ops = ops0 ++ ops1 /\
    let wf := run w0 ops0 in
    k_state (k (st wf)) = CS_COMMAND_FOUND /\
    resolve (typed_of (line wf)) (enabled D (st wf)) (cmds D) = Some (req_cmd q) /\
    tyev (type_of (line wf)) (Lemmas_Calls.kind_type q).
Proof.
  intros m x mx h ops q code Hh WF F. cbv zeta. intros FB Hin Hev.
  pose proof (run_san_all m x mx h Hh) as E. rewrite <- E in Hin.
  apply (fbl_san ops (init m x mx h) Hh) in FB.
  destruct (ARGS Properties_C02h.C02_handler_kind NU HVa m x mx h ops q code WF F FB Hin Hev)
    as (ops0 & ops1 & H1 & H2 & H3 & H4).
  cbv zeta in H2, H3, H4. rewrite (E ops0) in H2, H3, H4.
  exists ops0, ops1.
  split; [exact H1|]. split; [exact H2|]. split; [exact H3 | exact H4].
Qed.
End InvD3.

(* ================================================================== *)
(* 2. the scripted oracles of Script.v                                 *)
(* ================================================================== *)
Section Scripted3.
Variable D : desc.

Local Notation st := (Fsm.st sio smu shs).
Local Notation tr := (Fsm.tr sio smu shs).
Local Notation s_run := (Fsm.run D sio smu shs s_read s_write s_lock s_unlock s_call).
Local Notation SC T := (T D sio smu shs s_read s_write s_lock s_unlock s_call).
Local Notation sreach m x mx h ops := (srun D (sinit D m x mx h) (map SOp ops)).
Local Notation line w := (cur_line (Lemmas_C01s.consumed (tr w))).

Lemma sreach_run : forall m x mx h ops,
  sreach m x mx h ops = s_run (mkWorld sio smu shs (init_state D m) x mx h []) ops.
Proof. intros. unfold sinit. apply srun_SOp. Qed.

Lemma sc_fbl : forall m x mx h ops, sc_flags_between_lines D (sinit D m x mx h) ops ->
  SC Lemmas_C09.flags_between_lines (mkWorld sio smu shs (init_state D m) x mx h []) ops.
Proof. intros m x mx h ops H. apply fbl_C09c. exact H. Qed.

Theorem C02_found_is_resolve_scripted : forall m x mx h ops,
  wf_desc D m -> Forall (valid_op D) ops ->
  no_rt_hold h = true -> script_ok (res_calls_valid D) h = true ->
  sc_flags_between_lines D (sinit D m x mx h) ops ->
  let w := sreach m x mx h ops in
  k_state (k (st w)) = CS_COMMAND_FOUND ->
  k_cmd (k (st w)) = resolve (typed_of (line w)) (enabled D (st w)) (cmds D) /\
  k_cmd (k (st w)) <> None /\
  k_type (k (st w)) = type_of (line w).
Proof.
  intros m x mx h ops WF F A B FB. cbv zeta. rewrite sreach_run.
  exact (SC C02_found_is_resolve_inv (SI D) (SI_step D) m x mx h ops (conj A B) WF F (sc_fbl m x mx h ops FB)).
Qed.

Theorem C02_not_found_means_no_match_scripted : forall m x mx h ops,
  wf_desc D m -> Forall (valid_op D) ops ->
  no_rt_hold h = true -> script_ok (res_calls_valid D) h = true ->
  sc_flags_between_lines D (sinit D m x mx h) ops ->
  let w := sreach m x mx h ops in
  k_state (k (st w)) = CS_COMMAND_NOT_FOUND ->
  resolve (typed_of (line w)) (enabled D (st w)) (cmds D) = None.
Proof.
  intros m x mx h ops WF F A B FB. cbv zeta. rewrite sreach_run.
  exact (SC C02_not_found_means_no_match_inv (SI D) (SI_step D) m x mx h ops (conj A B) WF F
            (sc_fbl m x mx h ops FB)).
Qed.

Theorem C02_search_fails_scripted : forall m x mx h ops o,
  wf_desc D m -> Forall (valid_op D) (ops ++ [o]) ->
  no_rt_hold h = true -> script_ok (res_calls_valid D) h = true ->
  sc_flags_between_lines D (sinit D m x mx h) ops ->
  let w := sreach m x mx h ops in
  k_state (k (st w)) = CS_SEARCH_COMMAND ->
  k_state (k (st (sstep D w (SOp o)))) = CS_COMMAND_NOT_FOUND \/
  k_state (k (st (sstep D w (SOp o)))) = CS_ERROR ->
  resolve (typed_of (line w)) (enabled D (st w)) (cmds D) = None.
Proof.
  intros m x mx h ops o WF F A B FB. cbv zeta. cbn [sstep]. rewrite sreach_run.
  exact (SC C02_search_fails_inv (SI D) (SI_step D) m x mx h ops o (conj A B) WF F (sc_fbl m x mx h ops FB)).
Qed.

Theorem C02_handler_is_resolved_scripted : forall m x mx h ops q code,
  wf_desc D m -> Forall (valid_op D) ops ->
  no_rt_hold h = true -> script_ok (res_calls_valid D) h = true ->
  sc_flags_between_lines D (sinit D m x mx h) ops ->
  In (ECall q code) (tr (sreach m x mx h ops)) -> Lemmas_Calls.ev_side q = false ->
  exists ops0 opsm ops2, ops = ops0 ++ opsm ++ OService :: ops2 /\
    let wf := sreach m x mx h ops0 in
    k_state (k (st wf)) = CS_COMMAND_FOUND /\
    resolve (typed_of (line wf)) (enabled D (st wf)) (cmds D) = Some (req_cmd q) /\
    k_type (k (st wf)) = type_of (line wf) /\
    (forall j, j <= length opsm ->
       Lemmas_C09.needs_cmd (st (sreach m x mx h (ops0 ++ firstn j opsm))) = true) /\
    let s := st (sreach m x mx h (ops0 ++ opsm)) in
    k_cmd (k s) = Some (req_cmd q) /\ k_state (k s) = Lemmas_Calls.call_state q /\
    k_type (k s) = Lemmas_Calls.kind_type q.
Proof.
  intros m x mx h ops q code WF F A B FB Hin Hev. rewrite sreach_run in Hin.
  destruct (SC C02_handler_is_resolved_inv (SI D) (SI_step D) m x mx h ops q code (conj A B) WF F
              (sc_fbl m x mx h ops FB) Hin Hev)
    as (ops0 & opsm & ops2 & H1 & H2 & H3 & H4 & H5 & H6).
  exists ops0, opsm, ops2. cbv zeta. rewrite !sreach_run.
  split; [exact H1|]. split; [exact H2|]. split; [exact H3|]. split; [exact H4|]. split; [|exact H6].
  intros j Hl. rewrite sreach_run. exact (H5 j Hl).
Qed.

Theorem C02_handler_kind_scripted : forall m x mx h ops q code,
  wf_desc D m -> Forall (valid_op D) ops ->
  no_rt_hold h = true -> script_ok (res_calls_valid D) h = true ->
  sc_flags_between_lines D (sinit D m x mx h) ops ->
  In (ECall q code) (tr (sreach m x mx h ops)) -> Lemmas_Calls.ev_side q = false ->
  exists ops0 ops1, ops = ops0 ++ ops1 /\
    let wf := sreach m x mx h ops0 in
    k_state (k (st wf)) = CS_COMMAND_FOUND /\
    resolve (typed_of (line wf)) (enabled D (st wf)) (cmds D) = Some (req_cmd q) /\
    tyev (type_of (line wf)) (Lemmas_Calls.kind_type q).
Proof.
  intros m x mx h ops q code WF F A B FB Hin Hev. rewrite sreach_run in Hin.
  destruct (SC C02_handler_kind_inv (SI D) (SI_step D) m x mx h ops q code (conj A B) WF F
              (sc_fbl m x mx h ops FB) Hin Hev)
    as (ops0 & ops1 & H1 & H2 & H3 & H4).
  exists ops0, ops1. cbv zeta. rewrite !sreach_run.
  split; [exact H1|]. split; [exact H2|]. split; [exact H3 | exact H4].
Qed.
End Scripted3.
