(* Lemmas_E2Ec.v — the command list, end to end: on the scripted always-ready environment of Script.v
   (event machine idle with an empty queue, no mutex) a line  AT<name> LF  whose run handler answers
   RC_PRINT_CMD_LIST_OK makes the machine print the specification's list, then OK, and return to idle.
   Structure: (1) the relation L_R = "equal up to k_position" and the list printer's insensitivity to it;
   (2) frame and shape of one printer call; (3) a raw line as service calls (after Lemmas_C11);
   (4) the iteration TextDefs.list_run replayed as service calls (relation osteps of Lemmas_E2E);
   (5) the name lookup keeps the disable flags; (6) the handler call; (7) the composed line. *)
From Coq Require Import List NArith ZArith Bool Arith Lia.
From CatV Require Import Bytes Defs Codec Spec Fsm Script ResolveDefs SchedDefs GlueDefs TextDefs CollectDefs.
From CatV Require Lemmas_C02 Lemmas_C02e Lemmas_C08 Lemmas_C11 Lemmas_C19 Lemmas_E2E.
Import ListNotations.
Local Open Scope nat_scope.

Local Notation wst := (Fsm.st sio smu shs).
Local Notation wio := (Fsm.io sio smu shs).
Local Notation whs := (Fsm.hs sio smu shs).
Local Notation wtr := (Fsm.tr sio smu shs).
Local Notation idle := Lemmas_C02e.idle.
Local Notation run_flush_c := Lemmas_C11.run_flush_c.

(* ================= 1. equal up to the cursor ================= *)
Definition L_R (a b : state) : Prop := setk_position 0 a = setk_position 0 b.

Lemma L_R_refl : forall a, L_R a a.
Proof. reflexivity. Qed.
Lemma L_R_sym : forall a b, L_R a b -> L_R b a.
Proof. intros a b H. unfold L_R in *. congruence. Qed.
Lemma L_R_trans : forall a b c, L_R a b -> L_R b c -> L_R a c.
Proof. intros a b c H1 H2. unfold L_R in *. congruence. Qed.

Lemma L_R_f : forall (A : Type) (f : state -> A), (forall s, f (setk_position 0 s) = f s) ->
  forall a b, L_R a b -> f a = f b.
Proof. intros A f Hf a b H. rewrite <- (Hf a), <- (Hf b). unfold L_R in H. rewrite H. reflexivity. Qed.

Lemma L_R_setpos : forall p s, L_R (setk_position p s) s.
Proof. reflexivity. Qed.

Lemma L_R_setk_state : forall v a b, L_R a b -> L_R (setk_state v a) (setk_state v b).
Proof.
  intros v a b H. unfold L_R in *.
  change (setk_state v (setk_position 0 a) = setk_state v (setk_position 0 b)). rewrite H. reflexivity.
Qed.

(* everything but the cursor *)
Record L_same (a b : state) : Prop := mkLsame {
  ls_u : u a = u b; ls_mem : mem a = mem b; ls_cbuf : cbuf a = cbuf b; ls_fault : fault a = fault b;
  ls_state : k_state (k a) = k_state (k b); ls_wafter : k_wafter (k a) = k_wafter (k b);
  ls_wbuf : k_wbuf (k a) = k_wbuf (k b); ls_wstate : k_wstate (k a) = k_wstate (k b);
  ls_cr : k_cr (k a) = k_cr (k b); ls_hold : k_hold (k a) = k_hold (k b) }.

Lemma L_R_same : forall a b, L_R a b -> L_same a b.
Proof.
  intros a b H. constructor.
  - exact (L_R_f _ u (fun _ => eq_refl) a b H).
  - exact (L_R_f _ mem (fun _ => eq_refl) a b H).
  - exact (L_R_f _ cbuf (fun _ => eq_refl) a b H).
  - exact (L_R_f _ fault (fun _ => eq_refl) a b H).
  - exact (L_R_f _ (fun x => k_state (k x)) (fun _ => eq_refl) a b H).
  - exact (L_R_f _ (fun x => k_wafter (k x)) (fun _ => eq_refl) a b H).
  - exact (L_R_f _ (fun x => k_wbuf (k x)) (fun _ => eq_refl) a b H).
  - exact (L_R_f _ (fun x => k_wstate (k x)) (fun _ => eq_refl) a b H).
  - exact (L_R_f _ (fun x => k_cr (k x)) (fun _ => eq_refl) a b H).
  - exact (L_R_f _ (fun x => k_hold (k x)) (fun _ => eq_refl) a b H).
Qed.

Lemma L_text_in0 : forall l : list N, length (text_of l) < length l -> In 0%N l.
Proof.
  induction l as [|c r IH]; intros H; [cbn in H; lia|].
  cbn [text_of] in H. destruct (c =? 0)%N eqn:E.
  - apply N.eqb_eq in E. left. exact E.
  - right. apply IH. cbn [length] in H. lia.
Qed.

Lemma L_strncpy_len : forall m t, length (strncpy_buf m t) = m.
Proof. intros m t. unfold strncpy_buf. rewrite firstn_length, app_length, repeat_length. lia. Qed.

Section E2Ec.
Variable D : desc.
Hypothesis Hmx : d_mutex D = false.
Local Notation n := (ncmds D).
Local Notation cmdsvc := (cmd_service D sio smu shs s_read s_write s_lock s_unlock s_call).
Local Notation steps := (Lemmas_C02e.steps D).
Local Notation osteps := (Lemmas_E2E.osteps D).
Local Notation pcl := (print_cmd_list D).

(* the list printer does not look at the cursor it inherits *)
Lemma L_pcl_pos : forall s, setk_position 0 (pcl s) = setk_position 0 (pcl (setk_position 0 s)).
Proof.
  intros s. unfold print_cmd_list. cbv zeta.
  change (k_index (k (setk_position 0 s))) with (k_index (k s)).
  destruct (cmd_by_index (d_groups D) (k_index (k s))) as [c|]; [|reflexivity].
  change (k_type (k (setk_cmd (Some (k_index (k s))) (setk_position 0 s)))) with (k_type (k s)).
  change (k_type (k (setk_cmd (Some (k_index (k s))) s))) with (k_type (k s)).
  change (is_command_disable D (setk_cmd (Some (k_index (k s))) (setk_position 0 s)))
    with (is_command_disable D (setk_cmd (Some (k_index (k s))) s)).
  destruct (k_type (k s)).
  - destruct (is_command_disable D (setk_cmd (Some (k_index (k s))) s) (k_index (k s))); [|reflexivity].
    unfold cmd_list_next_cmd. cbv zeta.
    change (k_index (k (setk_cmd (Some (k_index (k s))) (setk_position 0 s)))) with (k_index (k s)).
    change (k_index (k (setk_cmd (Some (k_index (k s))) s))) with (k_index (k s)).
    destruct (n <=? S (k_index (k s))); reflexivity.
  - unfold print_cmd_form. destruct (c_hrun c); reflexivity.
  - unfold print_cmd_form. destruct (c_hread c || vars_access_possible c RO); reflexivity.
  - unfold print_cmd_form. destruct (c_hwrite c || vars_access_possible c WO); reflexivity.
  - unfold print_cmd_form.
    destruct (c_htest c || match c_vars c with [] => false | _ :: _ => true end); reflexivity.
  - unfold cmd_list_next_cmd. cbv zeta.
    change (k_index (k (setk_cmd (Some (k_index (k s))) (setk_position 0 s)))) with (k_index (k s)).
    change (k_index (k (setk_cmd (Some (k_index (k s))) s))) with (k_index (k s)).
    destruct (n <=? S (k_index (k s))); reflexivity.
Qed.

Lemma L_R_pcl : forall a b, L_R a b -> L_R (pcl a) (pcl b).
Proof.
  intros a b H. unfold L_R in *. rewrite (L_pcl_pos a), (L_pcl_pos b), H. reflexivity.
Qed.

(* ================= 2. frame and shape of one printer call ================= *)
(* what the printer never changes *)
Definition L_fr (s s' : state) : Prop :=
  u s' = u s /\ mem s' = mem s /\ k_cr (k s') = k_cr (k s) /\ k_hold (k s') = k_hold (k s) /\
  length (cbuf s') = length (cbuf s).

Lemma L_fr_refl : forall s, L_fr s s.
Proof. intros s. unfold L_fr. repeat split; reflexivity. Qed.

Lemma L_fr_trans : forall a b c, L_fr a b -> L_fr b c -> L_fr a c.
Proof.
  intros a b c (A1 & A2 & A3 & A4 & A5) (B1 & B2 & B3 & B4 & B5).
  unfold L_fr. rewrite B1, B2, B3, B4, B5. repeat split; assumption.
Qed.

(* a started flush is either a raw line of the list or a result code with a fresh cursor *)
Definition L_G (s : state) : Prop :=
  k_state (k s) = CS_FLUSH_WAIT ->
  k_position (k s) = 0 /\
  ((k_wafter (k s) = CS_PRINT_CMD /\ k_wbuf (k s) = WB_MAIN /\ k_wstate (k s) = WS_AFTER) \/
   (k_wafter (k s) = CS_AFTER_RESET /\ k_wstate (k s) = WS_BEFORE /\ k_wbuf (k s) = WB_NL (k_cr (k s)))).

Lemma L_G_not : forall s, k_state (k s) <> CS_FLUSH_WAIT -> L_G s.
Proof. intros s H E. exfalso. exact (H E). Qed.

Lemma L_fr_put_cur : forall c s, length (cu_buf c) = length (cbuf s) -> L_fr s (put_cur ATCMD c s).
Proof. intros c s H. unfold put_cur. destruct (cu_fault c); unfold L_fr; repeat split; exact H. Qed.

Lemma L_fr_print_string : forall s t, L_fr s (fst (print_string ATCMD s t)).
Proof.
  intros s t. unfold print_string.
  pose proof (Lemmas_C08.print_nstring_len (get_cur ATCMD s) t) as H.
  destruct (print_nstring (get_cur ATCMD s) t) as [c ok]. cbn [fst] in *. apply L_fr_put_cur. exact H.
Qed.

Lemma L_print_pieces_len : forall ps c, length (cu_buf (fst (print_pieces c ps))) = length (cu_buf c).
Proof.
  induction ps as [|p r IH]; intros c; [reflexivity|]. cbn [print_pieces].
  pose proof (Lemmas_C08.print_nstring_len c p) as H.
  destruct (print_nstring c p) as [c1 ok]. cbn [fst] in H. destruct ok; [rewrite IH|]; exact H.
Qed.

Lemma L_fr_print_strings : forall s ts, L_fr s (fst (print_strings ATCMD s ts)).
Proof.
  intros s ts. unfold print_strings.
  pose proof (L_print_pieces_len ts (get_cur ATCMD s)) as H.
  destruct (print_pieces (get_cur ATCMD s) ts) as [c ok]. cbn [fst] in *. apply L_fr_put_cur. exact H.
Qed.

Lemma L_fr_full_name : forall s c sfx, L_fr s (fst (print_current_cmd_full_name s c sfx)).
Proof.
  intros s c sfx. unfold print_current_cmd_full_name.
  destruct (k_length (k s) =? 0).
  - pose proof (L_fr_print_string s (nl_chars s)) as H1.
    destruct (print_string ATCMD s (nl_chars s)) as [s' ok]. cbn [fst] in H1.
    destruct ok; cbn [negb fst]; [|exact H1].
    eapply L_fr_trans; [exact H1|]. eapply L_fr_trans; [|apply L_fr_print_strings].
    unfold L_fr. repeat split; reflexivity.
  - cbn [negb]. apply L_fr_print_strings.
Qed.

Lemma L_ack_ok : forall s, L_fr s (ack_ok s) /\ L_G (ack_ok s).
Proof.
  intros s. split.
  - unfold L_fr. repeat split; try reflexivity.
    change (length (strncpy_buf (asz s) txt_OK) = length (cbuf s)). apply L_strncpy_len.
  - intros _. split; [reflexivity|]. right. repeat split; reflexivity.
Qed.

Lemma L_ack_error : forall s, L_fr s (ack_error s) /\ L_G (ack_error s).
Proof.
  intros s. split.
  - unfold L_fr. repeat split; try reflexivity.
    change (length (strncpy_buf (asz s) txt_ERROR) = length (cbuf s)). apply L_strncpy_len.
  - intros _. split; [reflexivity|]. right. repeat split; reflexivity.
Qed.

Lemma L_next_cmd : forall s, k_state (k s) = CS_PRINT_CMD ->
  let r := (let (s1, more) := cmd_list_next_cmd D s in if more then s1 else ack_ok s1) in
  L_fr s r /\ L_G r.
Proof.
  intros s Hs. cbv zeta. unfold cmd_list_next_cmd. cbv zeta.
  destruct (n <=? S (k_index (k s))).
  - destruct (L_ack_ok (setk_index (S (k_index (k s))) s)) as [A B]. split; [|exact B].
    eapply L_fr_trans; [|exact A]. unfold L_fr. repeat split; reflexivity.
  - split; [unfold L_fr; repeat split; reflexivity|]. apply L_G_not. discriminate.
Qed.

Lemma L_form : forall s c av sfx next, k_state (k s) = CS_PRINT_CMD ->
  L_fr s (print_cmd_form s c av sfx next) /\ L_G (print_cmd_form s c av sfx next).
Proof.
  intros s c av sfx next Hs. unfold print_cmd_form. destruct av.
  - pose proof (L_fr_full_name (setk_position 0 s) c sfx) as H1.
    destruct (print_current_cmd_full_name (setk_position 0 s) c sfx) as [s2 ok]. cbn [fst] in H1.
    assert (H0 : L_fr s s2) by (eapply L_fr_trans; [|exact H1]; unfold L_fr; repeat split; reflexivity).
    destruct ok; cbn [negb].
    + split.
      * eapply L_fr_trans; [exact H0|]. unfold L_fr. repeat split; reflexivity.
      * intros _. split; [reflexivity|]. left. repeat split; reflexivity.
    + destruct (L_ack_error s2) as [A B]. split; [|exact B]. eapply L_fr_trans; eassumption.
  - split; [unfold L_fr; repeat split; reflexivity|]. apply L_G_not.
    change (k_state (k (setk_type next s))) with (k_state (k s)). rewrite Hs. discriminate.
Qed.

Lemma L_pcl_frame : forall s, k_state (k s) = CS_PRINT_CMD -> L_fr s (pcl s) /\ L_G (pcl s).
Proof.
  intros s Hs. unfold print_cmd_list. cbv zeta.
  destruct (cmd_by_index (d_groups D) (k_index (k s))) as [c|].
  2:{ split; [unfold L_fr; repeat split; reflexivity|]. apply L_G_not.
      change (k_state (k (set_fault_flag s))) with (k_state (k s)). rewrite Hs. discriminate. }
  set (s1 := setk_cmd (Some (k_index (k s))) s).
  assert (Hs1 : k_state (k s1) = CS_PRINT_CMD) by exact Hs.
  assert (F1 : L_fr s s1) by (unfold L_fr; repeat split; reflexivity).
  assert (K : forall r, L_fr s1 r /\ L_G r -> L_fr s r /\ L_G r).
  { intros r [A B]. split; [exact (L_fr_trans _ _ _ F1 A) | exact B]. }
  destruct (k_type (k s1)).
  - destruct (is_command_disable D s1 (k_index (k s))).
    + apply K. exact (L_next_cmd s1 Hs1).
    + apply K. split; [unfold L_fr; repeat split; reflexivity|]. apply L_G_not.
      match goal with |- k_state (k (setk_type ?t s1)) <> _ =>
        change (k_state (k (setk_type t s1))) with (k_state (k s1)) end.
      rewrite Hs1. discriminate.
  - apply K, L_form, Hs1.
  - apply K, L_form, Hs1.
  - apply K, L_form, Hs1.
  - apply K, L_form, Hs1.
  - apply K. exact (L_next_cmd s1 Hs1).
Qed.

(* ================= 3. a raw line of the list as service calls ================= *)
Lemma L_osteps_0 : forall s q, osteps 0 s q s q [].
Proof. intros s q h t. exists []. repeat split; reflexivity. Qed.

Lemma L_raw_unit : forall s q txt, idle s -> k_state (k s) = CS_FLUSH_WAIT -> k_position (k s) = 0 ->
  k_wbuf (k s) = WB_MAIN -> k_wstate (k s) = WS_AFTER -> k_wafter (k s) = CS_PRINT_CMD ->
  In 0%N (cbuf s) -> text_of (cbuf s) = txt ->
  exists s3, osteps (2 + length txt) s q s3 q txt /\ L_R s3 (setk_state CS_PRINT_CMD s).
Proof.
  intros s q txt Hi Hs Hp Hb Hw Ha H0 HT.
  assert (H1 : osteps 1 s q (setk_state CS_FLUSH s) q []).
  { apply (Lemmas_E2E.ostep_pure D Hmx s q (setk_state CS_FLUSH) Hi). intros h t. unfold cmd_service.
    cbn [Fsm.st mkw]. rewrite Hs. unfold busy, upd_st, process_io_write_wait. cbn [Fsm.st mkw].
    destruct Hi as [U _]. rewrite U. reflexivity. }
  set (s0 := setk_state CS_FLUSH s).
  assert (Hi0 : idle s0) by exact Hi.
  assert (T0 : text_of (Lemmas_C11.wb_text (k_wbuf (k s0)) (cbuf s0)) = txt).
  { change (k_wbuf (k s0)) with (k_wbuf (k s)). rewrite Hb. exact HT. }
  assert (I0 : In 0%N (Lemmas_C11.wb_text (k_wbuf (k s0)) (cbuf s0))).
  { change (k_wbuf (k s0)) with (k_wbuf (k s)). rewrite Hb. exact H0. }
  pose proof (Lemmas_C11.phase_c_after s0 txt Hp Hw I0 T0) as P3.
  change (k_wafter (k s0)) with (k_wafter (k s)) in P3. rewrite Ha in P3. cbv zeta in P3.
  cbn [cstate_beq] in P3.
  pose proof (Lemmas_E2E.flush_osteps D Hmx (S (length txt)) s0 q Hi0) as F.
  rewrite P3 in F. cbn [fst snd] in F.
  eexists. split.
  - change (2 + length txt) with (1 + S (length txt)).
    eapply Lemmas_E2E.osteps_cast; [eapply Lemmas_E2E.osteps_trans; [exact H1|] | reflexivity | reflexivity].
    apply F. intros j Hj.
    rewrite Lemmas_C11.run_flush_c_text_state by (rewrite (Lemmas_C11.len_phase_rest0 s0 txt Hp T0); lia).
    reflexivity.
  - reflexivity.
Qed.

(* ================= 4. the iteration of the list printer as service calls ================= *)
Lemma L_list_run_app : forall fuel s acc, exists new, fst (list_run D fuel s acc) = acc ++ new.
Proof.
  induction fuel as [|f IH]; intros s acc; [exists []; rewrite app_nil_r; reflexivity|].
  rewrite Lemmas_C19.list_run_S. destruct (cstate_beq (k_state (k s)) CS_PRINT_CMD).
  2:{ exists []. rewrite app_nil_r. reflexivity. }
  cbv zeta.
  destruct (cstate_beq (k_state (k (pcl s))) CS_FLUSH_WAIT && cstate_beq (k_wafter (k (pcl s))) CS_PRINT_CMD).
  - destruct (IH (setk_state CS_PRINT_CMD (pcl s)) (acc ++ [text_of (cbuf (pcl s))])) as [new E].
    exists ([text_of (cbuf (pcl s))] ++ new). rewrite E, <- app_assoc. reflexivity.
  - apply IH.
Qed.

Lemma L_pcl_step : forall s q, idle s -> k_state (k s) = CS_PRINT_CMD -> osteps 1 s q (pcl s) q [].
Proof.
  intros s q Hi Hs. apply (Lemmas_E2E.ostep_pure D Hmx s q pcl Hi). intros h t. unfold cmd_service.
  cbn [Fsm.st mkw]. rewrite Hs. reflexivity.
Qed.

Lemma L_list_osteps : forall bsz q fuel a b acc out af new,
  L_R a b -> idle b -> length (cbuf b) = bsz -> L_G b ->
  list_run D fuel a acc = (out, af) -> k_state (k af) = CS_FLUSH_WAIT ->
  out = acc ++ new -> forallb (fun l => length l <? bsz) new = true ->
  exists calls bf, osteps calls b q bf q (concat new) /\ L_R af bf /\ L_fr b bf /\ L_G bf.
Proof.
  intros bsz q. induction fuel as [|f IH]; intros a b acc out af new HR Hi Hlen HG Hrun Hend Hout Hfit.
  - cbn [list_run] in Hrun. injection Hrun as <- <-.
    assert (new = []) by (apply (app_inv_head acc); rewrite app_nil_r; symmetry; exact Hout). subst new.
    exists 0, b. split; [apply L_osteps_0|]. split; [exact HR|]. split; [apply L_fr_refl | exact HG].
  - rewrite Lemmas_C19.list_run_S in Hrun.
    destruct (cstate_beq (k_state (k a)) CS_PRINT_CMD) eqn:Es.
    2:{ injection Hrun as <- <-.
        assert (new = []) by (apply (app_inv_head acc); rewrite app_nil_r; symmetry; exact Hout). subst new.
        exists 0, b. split; [apply L_osteps_0|]. split; [exact HR|]. split; [apply L_fr_refl | exact HG]. }
    apply internal_cstate_dec_bl in Es.
    pose proof (L_R_same a b HR) as Sab.
    assert (Hsb : k_state (k b) = CS_PRINT_CMD) by (rewrite <- (ls_state _ _ Sab); exact Es).
    pose proof (L_R_pcl a b HR) as HR1.
    pose proof (L_pcl_step b q Hi Hsb) as O1.
    destruct (L_pcl_frame b Hsb) as [F1 G1].
    pose proof (L_R_same _ _ HR1) as S1.
    assert (Hi1 : idle (pcl b)) by (apply (Lemmas_C02e.idle_of_u b); [apply F1 | exact Hi]).
    assert (Hlen1 : length (cbuf (pcl b)) = bsz) by (destruct F1 as (_ & _ & _ & _ & E); rewrite E; exact Hlen).
    cbv zeta in Hrun.
    destruct (cstate_beq (k_state (k (pcl a))) CS_FLUSH_WAIT && cstate_beq (k_wafter (k (pcl a))) CS_PRINT_CMD) eqn:Ec.
    + apply andb_true_iff in Ec. destruct Ec as [Ec1 Ec2].
      apply internal_cstate_dec_bl in Ec1. apply internal_cstate_dec_bl in Ec2.
      rewrite (ls_state _ _ S1) in Ec1. rewrite (ls_wafter _ _ S1) in Ec2.
      rewrite (ls_cbuf _ _ S1) in Hrun.
      set (l := text_of (cbuf (pcl b))) in *.
      destruct (L_list_run_app f (setk_state CS_PRINT_CMD (pcl a)) (acc ++ [l])) as [new' En].
      rewrite Hrun in En. cbn [fst] in En.
      assert (new = l :: new').
      { apply (app_inv_head acc). rewrite <- Hout, En, <- app_assoc. reflexivity. }
      subst new. cbn [forallb] in Hfit. apply andb_true_iff in Hfit. destruct Hfit as [Hl Hfit].
      apply Nat.ltb_lt in Hl.
      destruct (G1 Ec1) as (Hp & [(_ & Hb & Hw) | (Hx & _)]); [|rewrite Hx in Ec2; discriminate].
      assert (H0 : In 0%N (cbuf (pcl b))) by (apply L_text_in0; fold l; rewrite Hlen1; exact Hl).
      destruct (L_raw_unit (pcl b) q l Hi1 Ec1 Hp Hb Hw Ec2 H0 eq_refl) as (b3 & O2 & R3).
      pose proof (L_R_same _ _ R3) as S3.
      assert (HR3 : L_R (setk_state CS_PRINT_CMD (pcl a)) b3).
      { eapply L_R_trans; [apply L_R_setk_state; exact HR1 | apply L_R_sym; exact R3]. }
      assert (F3 : L_fr (pcl b) b3).
      { unfold L_fr. rewrite (ls_u _ _ S3), (ls_mem _ _ S3), (ls_cr _ _ S3), (ls_hold _ _ S3), (ls_cbuf _ _ S3).
        repeat split; reflexivity. }
      destruct (IH (setk_state CS_PRINT_CMD (pcl a)) b3 (acc ++ [l]) out af new' HR3) as (c3 & bf & O3 & Rf & Ff & Gf).
      * apply (Lemmas_C02e.idle_of_u (pcl b)); [apply F3 | exact Hi1].
      * destruct F3 as (_ & _ & _ & _ & E). rewrite E. exact Hlen1.
      * apply L_G_not. rewrite (ls_state _ _ S3). discriminate.
      * exact Hrun.
      * exact Hend.
      * exact En.
      * exact Hfit.
      * exists (1 + ((2 + length l) + c3)), bf. split; [|split; [exact Rf|split; [|exact Gf]]].
        -- cbn [concat].
           eapply Lemmas_E2E.osteps_cast;
             [exact (Lemmas_E2E.osteps_trans D _ _ _ _ _ _ _ _ _ _ O1
                       (Lemmas_E2E.osteps_trans D _ _ _ _ _ _ _ _ _ _ O2 O3)) | reflexivity | reflexivity].
        -- exact (L_fr_trans _ _ _ F1 (L_fr_trans _ _ _ F3 Ff)).
    + destruct (IH (pcl a) (pcl b) acc out af new HR1 Hi1 Hlen1 G1 Hrun Hend Hout Hfit) as (c3 & bf & O3 & Rf & Ff & Gf).
      exists (1 + c3), bf. split; [|split; [exact Rf|split; [|exact Gf]]].
      * exact (Lemmas_E2E.osteps_trans D _ _ _ _ _ _ _ _ _ _ O1 O3).
      * exact (L_fr_trans _ _ _ F1 Ff).
Qed.

(* ================= 5. the name lookup keeps the disable flags ================= *)
Definition L_dis (s : state) : list bool * list bool := (dis_cmd s, dis_grp s).

Lemma L_dis_update : forall s, L_dis (update_command D s) = L_dis s.
Proof.
  intros s. rewrite Lemmas_C02.update_command_unf.
  destruct (cmd_by_index (d_groups D) (k_index (k s))) as [c|]; [|reflexivity].
  destruct (get_cmd_state D s (k_index (k s))) as [cs|]; [|reflexivity].
  unfold Lemmas_C02.upd_fin, Lemmas_C02.upd_s1, set_cmd_state, prepare_search_command.
  Lemmas_E2E.destr_all; reflexivity.
Qed.

Lemma L_dis_search : forall s, L_dis (search_command D s) = L_dis s.
Proof.
  intros s. unfold search_command.
  destruct (get_cmd_state D s (k_index (k s))) as [cs|]; [|reflexivity].
  cbv zeta. Lemmas_C11.scbn. Lemmas_E2E.destr_all; reflexivity.
Qed.

Lemma L_dis_iter_upd : forall m s, L_dis (iter m (update_command D) s) = L_dis s.
Proof. induction m as [|m IH]; intros s; [reflexivity|]. simpl iter. rewrite IH. apply L_dis_update. Qed.

Lemma L_dis_ncs : forall s ch, L_dis (name_char_step D s ch) = L_dis s.
Proof. intros s ch. unfold name_char_step. rewrite L_dis_iter_upd. reflexivity. Qed.

Lemma L_dis_fold_ncs : forall t s, L_dis (fold_left (name_char_step D) t s) = L_dis s.
Proof. induction t as [|c t IH]; intros s; [reflexivity|]. simpl fold_left. rewrite IH. apply L_dis_ncs. Qed.

Lemma L_dis_run : forall s t, L_dis (Lemmas_C02e.run D s t) = L_dis s.
Proof. intros s t. unfold Lemmas_C02e.run. rewrite L_dis_fold_ncs. reflexivity. Qed.

Lemma L_dis_search_run : forall fuel s, L_dis (search_run D fuel s) = L_dis s.
Proof.
  induction fuel as [|f IH]; intros s; [reflexivity|]. simpl search_run.
  destruct (cstate_beq (k_state (k s)) CS_SEARCH_COMMAND); [|reflexivity].
  rewrite IH. apply L_dis_search.
Qed.

End E2Ec.
